"""C17 facts, picked up by tools/extract_facts.py.

c17_source_shape : list string   the statements of the three functions that Model/Observables.v mirrors,
                                 as normalised source text (ast.unparse), in a fixed order:

  observables_restricted_to_subsystem (utils/observable_grouping.py)
    0  test of the single `if`                        isinstance(global_observables, PauliList)
    1  `return` of the PauliList branch               PauliList.from_symplectic(o.z[:, qubits], o.x[:, qubits])   (two arguments: no phase)
    2  `return` of the fallback                       [observable[qubits,] for observable in global_observables]
  decompose_observables (cutting_decomposition.py)
    3  the `for` header                               (i, label) in enumerate(partition_labels)
    4  the loop body                                  qubits_by_subsystem[label].append(i)
    5  the dict comprehension                         {label: observables_restricted_to_subsystem(qubits, observables) for ...items()}
  expand_observables (wire_cutting_transforms.py)
    6  test of the first `if` (count guard)           observables.num_qubits != original_circuit.num_qubits
    7  the `for` header                               (i, qubit) in enumerate(original_circuit.qubits)
    8  body of the `try`                              idx = final_circuit.find_bit(qubit)[0]
    9  exception class of the single handler          CircuitError
   10  dims                                           dims = (len(observables), final_circuit.num_qubits)
   11  the two scatter assignments                    z[:, mapping] = observables.z; x[:, mapping] = observables.x
   12  `return`                                       PauliList.from_symplectic(z, x, observables.phase.copy())

Fail closed: a missing function or an unexpected statement structure raises Shape -> sentinel value ->
the obligation c17_source_facts in Properties/C17.v fails.
"""
from __future__ import annotations

import ast

from extract_facts import parse, _functions, coq_string, coq_list, Shape


def _fn(rel, name):
    tree, _ = parse(rel)
    found = [node for qn, node in _functions(tree) if qn == name]
    if len(found) != 1:
        raise Shape(f"{rel}:{name}: expected exactly one definition, found {len(found)}")
    return found[0]


def _body(fn):
    """statements of a function without its docstring"""
    b = list(fn.body)
    if b and isinstance(b[0], ast.Expr) and isinstance(b[0].value, ast.Constant) and isinstance(b[0].value.value, str):
        b = b[1:]
    return b


def _u(node):
    return ast.unparse(node)


def fact_c17_source_shape():
    out = []
    # ---- restrict ----
    b = _body(_fn("utils/observable_grouping.py", "observables_restricted_to_subsystem"))
    if len(b) != 2 or not isinstance(b[0], ast.If) or b[0].orelse or not isinstance(b[1], ast.Return):
        raise Shape("observables_restricted_to_subsystem: expected `if ...: ... return` followed by `return`")
    rets = [s for s in b[0].body if isinstance(s, ast.Return)]
    others = [s for s in b[0].body if not isinstance(s, (ast.Return, ast.Assign))]
    if len(rets) != 1 or others or b[0].body[-1] is not rets[0]:
        raise Shape("observables_restricted_to_subsystem: unexpected statements in the PauliList branch")
    assigns = [s for s in b[0].body if isinstance(s, ast.Assign)]
    if [_u(a) for a in assigns] != ["o = global_observables"]:
        raise Shape("observables_restricted_to_subsystem: unexpected assignment in the PauliList branch")
    out += [_u(b[0].test), _u(rets[0].value), _u(b[1].value)]
    # ---- decompose_observables ----
    b = _body(_fn("cutting_decomposition.py", "decompose_observables"))
    fors = [s for s in b if isinstance(s, ast.For)]
    if len(fors) != 1 or fors[0].orelse or len(fors[0].body) != 1:
        raise Shape("decompose_observables: expected exactly one single-statement for loop")
    comps = [n for s in b for n in ast.walk(s) if isinstance(n, ast.DictComp)]
    if len(comps) != 1:
        raise Shape("decompose_observables: expected exactly one dict comprehension")
    if any(isinstance(n, (ast.If, ast.Try, ast.While, ast.Raise)) for s in b for n in ast.walk(s)):
        raise Shape("decompose_observables: unexpected control flow")
    out += [f"{_u(fors[0].target)} in {_u(fors[0].iter)}", _u(fors[0].body[0]), _u(comps[0])]
    # ---- expand_observables ----
    b = _body(_fn("wire_cutting_transforms.py", "expand_observables"))
    ifs = [s for s in b if isinstance(s, ast.If)]
    fors = [s for s in b if isinstance(s, ast.For)]
    rets = [s for s in b if isinstance(s, ast.Return)]
    if len(ifs) != 1 or len(fors) != 1 or len(rets) != 1 or b[0] is not ifs[0] or b[-1] is not rets[0]:
        raise Shape("expand_observables: expected `if` guard first, one `for`, `return` last")
    if ifs[0].orelse or len(ifs[0].body) != 1 or not isinstance(ifs[0].body[0], ast.Raise):
        raise Shape("expand_observables: the count guard does not just raise")
    loop = fors[0]
    tries = [s for s in loop.body if isinstance(s, ast.Try)]
    if len(tries) != 1 or len(tries[0].handlers) != 1 or tries[0].orelse or tries[0].finalbody or len(tries[0].body) != 1:
        raise Shape("expand_observables: expected one try with one handler and a one-statement body in the loop")
    rest = [s for s in loop.body if s is not tries[0]]
    if [_u(s) for s in rest] != ["mapping.append(idx)"] or loop.orelse:
        raise Shape("expand_observables: unexpected statements in the find_bit loop")
    h = tries[0].handlers[0]
    if h.type is None or len(h.body) != 1 or not isinstance(h.body[0], ast.Raise):
        raise Shape("expand_observables: handler does not just raise")
    tail = b[b.index(loop) + 1 : -1]
    tail_txt = [_u(s) for s in tail]
    dims = [t for t in tail_txt if t.startswith("dims = ")]
    scat = [t for t in tail_txt if "mapping" in t]
    fill = [t for t in tail_txt if t not in dims and t not in scat]
    if len(dims) != 1 or len(scat) != 2 or sorted(fill) != ["x = np.full(dims, False)", "z = np.full(dims, False)"]:
        raise Shape("expand_observables: unexpected statements after the find_bit loop")
    between = b[1 : b.index(loop)]
    if [_u(s) for s in between] != ["mapping: list[int] = []"]:
        raise Shape("expand_observables: unexpected statements before the find_bit loop")
    out += [
        _u(ifs[0].test),
        f"{_u(loop.target)} in {_u(loop.iter)}",
        _u(tries[0].body[0]),
        _u(h.type),
        dims[0],
        "; ".join(sorted(scat, reverse=True)),
        _u(rets[0].value),
    ]
    return coq_list([coq_string(s) for s in out])


FACTS = [
    ("c17_source_shape", "list string", fact_c17_source_shape),
]

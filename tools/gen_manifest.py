#!/usr/bin/env python3
"""Regenerate MANIFEST.json from lib/props.py (keeps the manifest valid at all times)."""
import json, os, sys
ROOT = os.path.dirname(os.path.dirname(os.path.abspath(__file__)))
sys.path.insert(0, os.path.join(ROOT, "lib"))
from props import PROPS, GUARD_ENV, NOT_APPLICABLE, HOOK_COMMITS

all_ids = [json.loads(l)["id"] for l in open(os.path.join(ROOT, "properties.jsonl"))]
checks = []
for pid in all_ids:
    if pid not in PROPS:
        continue
    c = PROPS[pid]
    checks.append(dict(
        property_id=pid,
        quick_cmd=f"python3 run.py {pid} --tier quick",
        thorough_cmd=f"python3 run.py {pid} --tier thorough",
        evidence_file=f"/verif/evidence/{pid}.json",
        replay_cmd_template=f"python3 run.py {pid} --replay {{path}}",
        engine="rocq-proof+correspondence",
        level_claimed=dict(category=c.get("level", "proof"), text=c["level_text"], design_ref=c.get("design_ref", "DESIGN.md section 4, " + pid)),
        level_note=c["level_note"],
        technique=c.get("technique", "machine-checked proof in Rocq (Coq 8.16) about an executable Gallina model, tied to /repo by regenerated facts and a vm_compute correspondence check"),
    ))
na = [dict(property_id=p, reason=r) for p, r in NOT_APPLICABLE.items() if p not in PROPS]
for pid in all_ids:
    if pid not in PROPS and pid not in NOT_APPLICABLE:
        na.append(dict(property_id=pid, reason="not claimed yet: model and theorems for this property are not built in this revision"))
m = dict(
    version=1,
    setup_cmd="python3 run.py --setup",
    hooks=dict(guard=GUARD_ENV, enable=f"{GUARD_ENV}=1 in the environment of the harness processes (no repository hook is needed; the variable is set but nothing in /repo reads it)",
               baseline_off_cmd="cd /repo && /venv/bin/python -m pytest -ra -q -p no:cacheprovider --timeout=900 --continue-on-collection-errors",
               source_commits=HOOK_COMMITS, add_only=True),
    engines=[dict(name="rocq-proof+correspondence", path="/verif/run.py", serves_properties=[c["property_id"] for c in checks],
                  kind_free_text="Coq 8.16.1 theorems about hand-written executable Gallina models (coq/theories); tie = facts regenerated from the Python AST (tools/extract_facts.py) that appear in proof obligations + correspondence check evaluating the models with vm_compute on the inputs the implementation ran on (harness/)")],
    checks=checks,
    notes="See DESIGN.md. Known findings: KNOWN_FINDINGS.json.",
    not_applicable=na,
)
json.dump(m, open(os.path.join(ROOT, "MANIFEST.json"), "w"), indent=1)
print("checks:", [c["property_id"] for c in checks], "not_applicable:", [n["property_id"] for n in na])

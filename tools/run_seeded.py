#!/usr/bin/env python3
"""Run the registered check(s) against a seeded change without touching /repo.

    python3 tools/run_seeded.py seeded/<id> [--props C03,C19] [--tier quick]

Creates a scratch worktree of /repo's HEAD under /tmp, applies seeded/<id>/patch.diff there, runs
`CKT_REPO=<worktree> CKT_TAG=<id> python3 run.py <prop>` for the property named in meta.json (and any
--props), prints exit codes and VIOLATION lines, removes the worktree.  Evidence/replays of such runs
go to /tmp/ckt_scratch_<id>/, never to /verif/evidence.
"""
import argparse, json, os, subprocess, sys, shutil

ROOT = os.path.dirname(os.path.dirname(os.path.abspath(__file__)))

def main():
    ap = argparse.ArgumentParser()
    ap.add_argument("dir")
    ap.add_argument("--props")
    ap.add_argument("--tier", default="quick")
    ap.add_argument("--keep", action="store_true")
    a = ap.parse_args()
    d = os.path.abspath(a.dir)
    sid = os.path.basename(d.rstrip("/"))
    meta = json.load(open(os.path.join(d, "meta.json")))
    props = a.props.split(",") if a.props else [meta["property"]]
    wt = f"/tmp/seedtest_{sid}"
    subprocess.run(["git", "-C", "/repo", "worktree", "remove", "--force", wt], capture_output=True)
    subprocess.run(["git", "-C", "/repo", "worktree", "add", "-q", wt, "HEAD"], check=True)
    out = {}
    try:
        r = subprocess.run(["git", "-C", wt, "apply", os.path.join(d, "patch.diff")], capture_output=True, text=True)
        if r.returncode != 0:
            print("patch does not apply:", r.stderr)
            sys.exit(2)
        for p in props:
            env = dict(os.environ, CKT_REPO=wt, CKT_TAG="_" + sid)
            r = subprocess.run(["python3", os.path.join(ROOT, "run.py"), p, "--tier", a.tier], env=env, capture_output=True, text=True, cwd=ROOT)
            viol = [l for l in r.stdout.splitlines() if l.startswith("VIOLATION")]
            out[p] = dict(exit=r.returncode, violations=viol, tail=r.stdout.splitlines()[-6:])
            print(p, "exit", r.returncode, viol)
    finally:
        if not a.keep:
            subprocess.run(["git", "-C", "/repo", "worktree", "remove", "--force", wt], capture_output=True)
            shutil.rmtree(wt, ignore_errors=True)
            shutil.rmtree(f"/tmp/ckt_scratch__{sid}/coq", ignore_errors=True)
    json.dump(out, open(os.path.join(d, "last_run.json"), "w"), indent=1)

if __name__ == "__main__":
    main()

"""Facts for the cut finder (C07/C08/C09): constants and tables the Coq model hard-codes.

Each fact has an expected AST shape; anything else raises Shape (fail closed, see extract_facts.py)."""
from __future__ import annotations

import ast

from extract_facts import parse, coq_string, coq_list, q_of_number_text


class Shape(ValueError):
    """unexpected AST shape; a ValueError so that extract_facts.main catches it whichever module copy raised it"""


def _class(tree, name):
    for n in tree.body:
        if isinstance(n, ast.ClassDef) and n.name == name:
            return n
    raise Shape(f"class {name} not found")


def _method(cls, name):
    for n in cls.body:
        if isinstance(n, ast.FunctionDef) and n.name == name:
            return n
    raise Shape(f"method {cls.name}.{name} not found")


def _gamma_ub_multipliers(fn):
    """all `new_state.gamma_UB *= <int literal>` statements of a method"""
    out = []
    for n in ast.walk(fn):
        if (isinstance(n, ast.AugAssign) and isinstance(n.op, ast.Mult) and isinstance(n.target, ast.Attribute)
                and n.target.attr == "gamma_UB"):
            if isinstance(n.value, ast.Constant) and isinstance(n.value.value, int):
                out.append(n.value.value)
            else:
                out.append(None)
    return out


def _wire_mult(cls_name):
    tree, _ = parse("cut_finding/cutting_actions.py")
    m = _gamma_ub_multipliers(_method(_class(tree, cls_name), "next_state_primitive"))
    if len(m) != 1 or m[0] is None:
        raise Shape(f"{cls_name}: expected exactly one `gamma_UB *= <int>`, found {m}")
    return str(m[0])


def fact_left_mult():
    return _wire_mult("ActionCutLeftWire")


def fact_right_mult():
    return _wire_mult("ActionCutRightWire")


def fact_both_mult():
    return _wire_mult("ActionCutBothWires")


def fact_gate_cut_uses_gate_gamma():
    """ActionCutTwoQubitGate: gamma_UB *= gamma_UB where get_cost_params returns (gamma, 0, gamma) with gamma = gate.gamma"""
    tree, _ = parse("cut_finding/cutting_actions.py")
    cls = _class(tree, "ActionCutTwoQubitGate")
    fn = _method(cls, "get_cost_params")
    ret = [n for n in ast.walk(fn) if isinstance(n, ast.Return)]
    if len(ret) != 1 or not isinstance(ret[0].value, ast.Tuple):
        raise Shape("get_cost_params: single tuple return expected")
    elts = ret[0].value.elts
    ok = (len(elts) == 3 and isinstance(elts[0], ast.Name) and elts[0].id == "gamma"
          and isinstance(elts[1], ast.Constant) and elts[1].value == 0
          and isinstance(elts[2], ast.Name) and elts[2].id == "gamma")
    assigns = [n for n in ast.walk(fn) if isinstance(n, ast.Assign) and isinstance(n.targets[0], ast.Name) and n.targets[0].id == "gamma"]
    ok = ok and len(assigns) == 1 and isinstance(assigns[0].value, ast.Attribute) and assigns[0].value.attr == "gamma"
    prim = _method(cls, "next_state_primitive")
    muls = [n for n in ast.walk(prim) if isinstance(n, ast.AugAssign) and isinstance(n.op, ast.Mult)
            and isinstance(n.target, ast.Attribute) and n.target.attr == "gamma_UB"]
    ok = ok and len(muls) == 1 and isinstance(muls[0].value, ast.Name) and muls[0].value.id == "gamma_UB"
    return "true" if ok else "false"


def fact_action_registry():
    """(class get_name() literal, comma-joined get_group_names() literals) in define_action order"""
    tree, _ = parse("cut_finding/cutting_actions.py")
    order = []
    for n in tree.body:
        if (isinstance(n, ast.Expr) and isinstance(n.value, ast.Call) and isinstance(n.value.func, ast.Attribute)
                and n.value.func.attr == "define_action"):
            a = n.value.args
            if len(a) != 1 or not isinstance(a[0], ast.Call) or not isinstance(a[0].func, ast.Name):
                raise Shape("define_action argument shape")
            order.append(a[0].func.id)
    if not order:
        raise Shape("no define_action calls")
    items = []
    for cname in order:
        cls = _class(tree, cname)

        def lit(fn):
            r = [x for x in ast.walk(fn) if isinstance(x, ast.Return)]
            if len(r) != 1:
                raise Shape(f"{cname}.{fn.name}: single return expected")
            return ast.literal_eval(r[0].value)

        nm = lit(_method(cls, "get_name"))
        gr = lit(_method(cls, "get_group_names"))
        items.append((str(nm), ",".join(str(g) for g in gr)))
    return coq_list([f"({coq_string(a)}, {coq_string(b)})" for a, b in items])


def _search_funcs_table(rel):
    tree, _ = parse(rel)
    found = [n for n in tree.body if isinstance(n, ast.Assign) and isinstance(n.targets[0], ast.Name)
             and n.targets[0].id == "cut_optimization_search_funcs"]
    if len(found) != 1 or not isinstance(found[0].value, ast.Call):
        raise Shape(f"{rel}: cut_optimization_search_funcs assignment")
    kws = found[0].value.keywords
    out = []
    for k in kws:
        if not isinstance(k.value, ast.Name):
            raise Shape("non-name function in SearchFunctions table")
        out.append((f"{rel.split('/')[-1][:-3]}:{k.arg}", k.value.id))
    return out


def fact_search_funcs():
    items = _search_funcs_table("cut_finding/cut_optimization.py") + _search_funcs_table("cut_finding/lo_cuts_optimizer.py")
    # the tables must not be reassigned / mutated elsewhere by attribute stores of other functions: greedy only re-casts
    return coq_list([f"({coq_string(a)}, {coq_string(b)})" for a, b in sorted(items)])


def fact_upper_bound_cost_is_gamma_ub():
    """cut_optimization_upper_bound_cost_func returns (goal_state.upper_bound_gamma(), np.inf) / raises ValueError on None;
    upper_bound_gamma returns self.gamma_UB"""
    tree, _ = parse("cut_finding/cut_optimization.py")
    fn = [n for n in tree.body if isinstance(n, ast.FunctionDef) and n.name == "cut_optimization_upper_bound_cost_func"]
    if len(fn) != 1:
        raise Shape("cost func not found")
    rets = [n for n in ast.walk(fn[0]) if isinstance(n, ast.Return)]
    raises = [n for n in ast.walk(fn[0]) if isinstance(n, ast.Raise)]
    ok = len(rets) == 1 and len(raises) == 1 and isinstance(rets[0].value, ast.Tuple) and len(rets[0].value.elts) == 2
    if ok:
        a, b = rets[0].value.elts
        ok = (isinstance(a, ast.Call) and isinstance(a.func, ast.Attribute) and a.func.attr == "upper_bound_gamma"
              and isinstance(b, ast.Attribute) and b.attr == "inf")
        e = raises[0].exc
        ok = ok and isinstance(e, ast.Call) and isinstance(e.func, ast.Name) and e.func.id == "ValueError"
    tree2, _ = parse("cut_finding/disjoint_subcircuits_state.py")
    ub = _method(_class(tree2, "DisjointSubcircuitsState"), "upper_bound_gamma")
    r2 = [n for n in ast.walk(ub) if isinstance(n, ast.Return)]
    ok = ok and len(r2) == 1 and isinstance(r2[0].value, ast.Attribute) and r2[0].value.attr == "gamma_UB"
    return "true" if ok else "false"


def _dataclass_default(rel, cls, field):
    tree, src = parse(rel)
    c = _class(tree, cls)
    for n in c.body:
        if isinstance(n, ast.AnnAssign) and isinstance(n.target, ast.Name) and n.target.id == field:
            if not isinstance(n.value, ast.Constant):
                raise Shape(f"{cls}.{field}: non-literal default")
            return n.value.value
    raise Shape(f"{cls}.{field} not found")


def fact_default_max_gamma():
    v = _dataclass_default("cut_finding/optimization_settings.py", "OptimizationSettings", "max_gamma")
    if not isinstance(v, (int, float)) or isinstance(v, bool):
        raise Shape("max_gamma default")
    return q_of_number_text(str(v))


def fact_default_max_backjumps():
    v = _dataclass_default("cut_finding/optimization_settings.py", "OptimizationSettings", "max_backjumps")
    if not isinstance(v, int) or isinstance(v, bool) or not 0 <= v < 100000:
        raise Shape("max_backjumps default")
    return f"{v}%nat"


def fact_stop_at_first_min():
    """CutOptimization.__init__ calls select_search_engine(..., stop_at_first_min=True)"""
    tree, _ = parse("cut_finding/cut_optimization.py")
    init = _method(_class(tree, "CutOptimization"), "__init__")
    calls = [n for n in ast.walk(init) if isinstance(n, ast.Call) and isinstance(n.func, ast.Name) and n.func.id == "select_search_engine"]
    if len(calls) != 1:
        raise Shape("select_search_engine call")
    kw = {k.arg: k.value for k in calls[0].keywords}
    v = kw.get("stop_at_first_min")
    if not isinstance(v, ast.Constant) or not isinstance(v.value, bool):
        raise Shape("stop_at_first_min literal")
    return "true" if v.value else "false"


def fact_find_cuts_overhead_is_square():
    """find_cuts: metadata["sampling_overhead"] = opt_out.upper_bound_gamma() ** 2"""
    tree, _ = parse("automated_cut_finding.py")
    fn = [n for n in tree.body if isinstance(n, ast.FunctionDef) and n.name == "find_cuts"]
    if len(fn) != 1:
        raise Shape("find_cuts not found")
    ok = False
    for n in ast.walk(fn[0]):
        if (isinstance(n, ast.Assign) and isinstance(n.targets[0], ast.Subscript)
                and isinstance(n.targets[0].slice, ast.Constant) and n.targets[0].slice.value == "sampling_overhead"):
            v = n.value
            ok = (isinstance(v, ast.BinOp) and isinstance(v.op, ast.Pow) and isinstance(v.right, ast.Constant) and v.right.value == 2
                  and isinstance(v.left, ast.Call) and isinstance(v.left.func, ast.Attribute) and v.left.func.attr == "upper_bound_gamma")
    return "true" if ok else "false"


FACTS = [
    ("cf_left_wire_mult", "nat", fact_left_mult),
    ("cf_right_wire_mult", "nat", fact_right_mult),
    ("cf_both_wires_mult", "nat", fact_both_mult),
    ("cf_gate_cut_uses_gate_gamma", "bool", fact_gate_cut_uses_gate_gamma),
    ("cf_action_registry", "list (string * string)", fact_action_registry),
    ("cf_search_funcs", "list (string * string)", fact_search_funcs),
    ("cf_upper_bound_cost_is_gamma_ub", "bool", fact_upper_bound_cost_is_gamma_ub),
    ("cf_default_max_gamma", "Q", fact_default_max_gamma),
    ("cf_default_max_backjumps", "nat", fact_default_max_backjumps),
    ("cf_stop_at_first_min", "bool", fact_stop_at_first_min),
    ("cf_overhead_is_square", "bool", fact_find_cuts_overhead_is_square),
]

#!/usr/bin/env python3
"""Run every registered quick check under several seeds on the unchanged tree; any non-zero exit is a false alarm
(or a genuine defect) to investigate.   python3 tools/soak.py 1 2 3 [--only C04,C18]"""
import os, subprocess, sys, time, json
ROOT = os.path.dirname(os.path.dirname(os.path.abspath(__file__)))
sys.path.insert(0, os.path.join(ROOT, "lib"))
from props import PROPS
args = [a for a in sys.argv[1:] if not a.startswith("--")]
only = None
for a in sys.argv[1:]:
    if a.startswith("--only="): only = a.split("=", 1)[1].split(",")
seeds = [int(x) for x in args] or [1, 2, 3]
bad = []
for sd in seeds:
    for pid in sorted(PROPS):
        if only and pid not in only: continue
        t = time.time()
        env = dict(os.environ, VERIF_SEED=str(sd), CKT_TAG=f"soak")
        r = subprocess.run(["python3", os.path.join(ROOT, "run.py"), pid], cwd=ROOT, env=env, capture_output=True, text=True)
        line = [l for l in r.stdout.splitlines() if l.startswith(f"[{pid}] tier")][-1:]
        print(sd, pid, r.returncode, f"{time.time()-t:.0f}s", line, flush=True)
        if r.returncode != 0:
            bad.append((sd, pid, r.stdout[-800:]))
            print(r.stdout[-800:], flush=True)
print("BAD:", [(a, b) for a, b, _ in bad])

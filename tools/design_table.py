#!/usr/bin/env python3
"""Print the per-property summary rows used in DESIGN.md 10.3 from the registry and the current evidence files."""
import json, os, sys
ROOT = os.path.dirname(os.path.dirname(os.path.abspath(__file__)))
sys.path.insert(0, os.path.join(ROOT, "lib"))
import props
reg = getattr(props, "REGISTRY", None) or props.PROPS
print("| id | theorems | axioms | obligations (Qed in cone) | quick cases | distinct non-trivial | oracle contracts | wall s |")
print("|---|---|---|---|---|---|---|---|")
for pid in sorted(reg):
    e = reg[pid]
    try:
        ev = json.load(open(os.path.join(ROOT, "evidence", pid + ".json")))
        c = ev["coverage"]
        row = (c.get("obligations"), c.get("evaluations"), c.get("distinct_nontrivial"), len(c.get("oracle_contract_checks", {}) or {}), ev.get("wall_s"), ev.get("tier"))
    except Exception as ex:  # noqa: BLE001
        row = ("?", "?", "?", "?", "?", str(ex)[:30])
    ax = "closed" if not e.get("allowed_axioms") else "Coq reals (3)"
    print(f"| {pid} | {len(e['theorems'])} | {ax} | {row[0]} | {row[1]} | {row[2]} | {row[3]} | {row[4]} ({row[5]}) |")

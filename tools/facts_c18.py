"""C18 facts: for every validated function, the ORDERED list of guard conditions of its
`raise ValueError` sites, as normalised source text.

Normal form of the guard of one raise site = the nearest enclosing conditional construct
(inside the same function, nested defs are not entered):
    if <test>: ... raise            ->  "<ast.unparse(test)>"
    if <test>: ... else: ... raise  ->  "else: <ast.unparse(test)>"        (innermost `if`/`elif` of the chain)
    try: <body> except <T>: raise   ->  "except <T>: <stmt>; <stmt>..."     (statements of the try body)
    for <t> in <it>: ... else: raise->  "for-else: <t> in <it>"
    no enclosing conditional        ->  "always"
Sites are listed in source order (line, column).  Two defs with the same qualified name (property
getter/setter) are concatenated in source order.

Emits   c18_guards : list (string * list string)   with one entry per TARGET, in TARGET order.
Fail-closed: if a target function is missing or anything goes wrong the whole fact becomes a
sentinel value, so every `guards_of ... = [...]` obligation in Properties/C18.v fails.
(The shared SENTINEL table has no entry for this Coq type, hence the local handling.)
"""
from __future__ import annotations

import ast

from extract_facts import parse, _functions, coq_string, coq_list

TARGETS = [
    ("cutting_decomposition.py", "partition_circuit_qubits"),
    ("cutting_decomposition.py", "cut_gates"),
    ("cutting_decomposition.py", "partition_problem"),
    ("cutting_experiments.py", "generate_cutting_experiments"),
    ("cutting_experiments.py", "_get_mapping_ids_by_partition"),
    ("cutting_experiments.py", "_get_bases"),
    ("cutting_experiments.py", "_append_measurement_circuit"),
    ("cutting_reconstruction.py", "reconstruct_expectation_values"),
    ("qpd/decompose.py", "decompose_qpd_instructions"),
    ("qpd/decompose.py", "_validate_qpd_instructions"),
    ("qpd/decompose.py", "_decompose_qpd_instructions"),
    ("qpd/decompositions.py", "qpdbasis_from_instruction"),
    ("qpd/decompositions.py", "_theta_from_instruction"),
    ("qpd/qpd_basis.py", "QPDBasis._set_maps"),
    ("qpd/qpd_basis.py", "QPDBasis.coeffs"),
    ("qpd/instructions/qpd_gate.py", "BaseQPDGate.basis_id"),
    ("qpd/instructions/qpd_gate.py", "SingleQubitQPDGate._set_qubit_id"),
    ("qpd/instructions/qpd_gate.py", "TwoQubitQPDGate.__init__"),
    ("qpd/weights.py", "_generate_qpd_weights"),
    ("automated_cut_finding.py", "DeviceConstraints.__post_init__"),
    ("automated_cut_finding.py", "find_cuts"),
    ("cut_finding/cut_optimization.py", "cut_optimization_next_state_func"),
    ("cut_finding/optimization_settings.py", "OptimizationSettings.__post_init__"),
    ("utils/transforms.py", "separate_circuit"),
    ("utils/transforms.py", "_separate_instructions_by_partition"),
    ("wire_cutting_transforms.py", "expand_observables"),
    ("utils/simulation.py", "simulate_statevector_outcomes"),
    ("utils/observable_grouping.py", "most_general_observable"),
    ("utils/observable_grouping.py", "CommutingObservableGroup.__post_init__"),
]


def _is_value_error_raise(x):
    if not (isinstance(x, ast.Raise) and x.exc is not None):
        return False
    e = x.exc
    f = e.func if isinstance(e, ast.Call) else e
    return isinstance(f, ast.Name) and f.id == "ValueError"


def _guards(fn):
    """[(line, col, guard text)] of the ValueError raise sites lexically in fn (nested defs excluded)."""
    out = []

    def visit_block(stmts, ctx):
        for s in stmts:
            visit(s, ctx)

    def visit(s, ctx):
        if isinstance(s, (ast.FunctionDef, ast.AsyncFunctionDef, ast.ClassDef)):
            return
        if _is_value_error_raise(s):
            out.append((s.lineno, s.col_offset, ctx))
            return
        if isinstance(s, ast.If):
            t = ast.unparse(s.test)
            visit_block(s.body, t)
            visit_block(s.orelse, "else: " + t)
        elif isinstance(s, ast.Try):
            visit_block(s.body, ctx)
            body_txt = "; ".join(ast.unparse(b) for b in s.body)
            for h in s.handlers:
                ty = ast.unparse(h.type) if h.type is not None else "<bare>"
                visit_block(h.body, f"except {ty}: {body_txt}")
            visit_block(s.orelse, ctx)
            visit_block(s.finalbody, ctx)
        elif isinstance(s, (ast.For, ast.AsyncFor)):
            visit_block(s.body, ctx)
            visit_block(s.orelse, f"for-else: {ast.unparse(s.target)} in {ast.unparse(s.iter)}")
        elif isinstance(s, ast.While):
            visit_block(s.body, ctx)
            visit_block(s.orelse, f"while-else: {ast.unparse(s.test)}")
        elif isinstance(s, (ast.With, ast.AsyncWith)):
            visit_block(s.body, ctx)
        elif hasattr(ast, "Match") and isinstance(s, ast.Match):
            for c in s.cases:
                visit_block(c.body, f"case {ast.unparse(c.pattern)}")
        else:
            # simple statement: a raise cannot hide inside an expression
            for ch in ast.walk(s):
                if ch is not s and _is_value_error_raise(ch):
                    raise RuntimeError("raise in an unrecognised position")

    # an `if`/`elif` chain: ast nests `elif` as orelse=[If]; visit() above handles it recursively and the
    # innermost If gives the context of the final `else`.
    visit_block(fn.body, "always")
    out.sort()
    return out


def guards_table():
    table = []
    cache = {}
    for rel, qn in TARGETS:
        if rel not in cache:
            tree, _ = parse(rel)
            cache[rel] = _functions(tree)
        defs = [node for name, node in cache[rel] if name == qn]
        if not defs:
            raise LookupError(f"{rel}:{qn} not found")
        gs = []
        for node in sorted(defs, key=lambda n: n.lineno):
            gs.extend(g for _, _, g in _guards(node))
        table.append((rel[:-3].replace("/", ".") + ":" + qn, gs))
    return table


SENTINEL_VALUE = '[("<EXTRACTION-FAILED>"%string, ["<EXTRACTION-FAILED>"%string])]'


def fact_c18_guards():
    try:
        t = guards_table()
        return coq_list(["(" + coq_string(name) + ", " + coq_list([coq_string(g) for g in gs]) + ")" for name, gs in t])
    except Exception:  # noqa: BLE001  fail closed with a local sentinel (see module docstring)
        return SENTINEL_VALUE


def fact_sim_cond_guard_first():
    """simulate_statevector_outcomes: the guard on `inst.operation.condition_bits` is the FIRST statement of the body of the
    loop over qc.data, i.e. it is evaluated for every instruction before any branch on the operation kind (the guard
    text alone does not change when the guard is moved into one branch)."""
    tree, _ = parse("utils/simulation.py")
    fn = [node for name, node in _functions(tree) if name == "simulate_statevector_outcomes"]
    if len(fn) != 1:
        raise LookupError("simulate_statevector_outcomes not found")
    loops = [st for st in fn[0].body if isinstance(st, ast.For) and ast.unparse(st.iter) == "qc.data"]
    if len(loops) != 1:
        raise LookupError("expected exactly one top-level loop over qc.data")
    first = loops[0].body[0]
    ok = (isinstance(first, ast.If) and ast.unparse(first.test) == "inst.operation.condition_bits"
          and any(_is_value_error_raise(x) for x in first.body) and not first.orelse)
    return "true" if ok else "false"


FACTS = [
    ("c18_guards", "list (string * list string)", fact_c18_guards),
    ("c18_sim_cond_guard_first", "bool", fact_sim_cond_guard_first),
]

if __name__ == "__main__":
    for name, gs in guards_table():
        print(name)
        for g in gs:
            print("    ", g)


# --------------------------------------------------------------------------------------
# Regenerated CONTROL SKELETONS (extension round): for selected functions the guard-relevant slice of the body as a
# prefix token stream  list (string * string)  that Model/ValidationSkel.v decodes into a statement tree and EXECUTES
# against the input abstraction; Properties/C18.v proves  exec (regenerated skeleton) = hand-written api_*  for all inputs.
# A guard that is moved into another branch/loop, reordered, dropped or duplicated changes the skeleton and thereby
# breaks that theorem even when no guard TEXT changes.
#
# slice kept:  raise ValueError | return | if/elif/else and for loops that contain a kept statement | try whose handler
#              raises ValueError | statements that call a function of the WATCH list (own validation model)
# tests:       and / or / not / any(<e> for v in <coll>) are structural, every other sub-expression is an ATOM (its
#              ast.unparse text), interpreted over the abstraction by the hand-written tables in Model/ValidationSkel.v
# tokens:      ("raise","") ("return","") ("call",f) ("try","except T: body") ("if","") <test> ("then","") <stmts>
#              ("else","") <stmts> ("end","")   ("for","target in iter") <stmts> ("end","")
#              ("mutate", target)  a store into <x>.data[...] / <x>.basis_id, `del <x>.data[...]`, <x>.data.insert/append(...)
#              ("continue","")
#              test: ("atom",t) | ("not","") e | ("and","") e e | ("or","") e e | ("any",var) ("in",coll) e
# --------------------------------------------------------------------------------------
SKEL_TARGETS = [
    ("cutting_decomposition.py", "partition_problem"),
    ("cutting_reconstruction.py", "reconstruct_expectation_values"),
    ("utils/simulation.py", "simulate_statevector_outcomes"),
    # the three entry points that can modify their argument (inplace=True): position of every store relative to every raise
    ("cutting_decomposition.py", "partition_circuit_qubits"),
    ("cutting_decomposition.py", "cut_gates"),
    ("qpd/decompose.py", "decompose_qpd_instructions"),
]
WATCH = {"from_instruction", "_partition_labels_from_circuit", "partition_circuit_qubits", "separate_circuit", "decompose_observables",
         "_validate_qpd_instructions", "_decompose_qpd_instructions", "generate_qpd_weights", "cut_gates"}


class SkelShape(Exception):
    pass


def _test_tokens(e):
    if isinstance(e, ast.BoolOp):
        tag = "and" if isinstance(e.op, ast.And) else "or"
        vals = list(e.values)
        out = []
        for v in vals[:-1]:
            out.append((tag, ""))
            out += _test_tokens(v)
        return out + _test_tokens(vals[-1])
    if isinstance(e, ast.UnaryOp) and isinstance(e.op, ast.Not):
        return [("not", "")] + _test_tokens(e.operand)
    if (isinstance(e, ast.Call) and isinstance(e.func, ast.Name) and e.func.id == "any" and len(e.args) == 1
            and not e.keywords and isinstance(e.args[0], ast.GeneratorExp)):
        g = e.args[0]
        if len(g.generators) != 1 or g.generators[0].ifs or g.generators[0].is_async:
            raise SkelShape("unsupported generator in any()")
        return ([("any", ast.unparse(g.generators[0].target)), ("in", ast.unparse(g.generators[0].iter))]
                + _test_tokens(g.elt))
    return [("atom", ast.unparse(e))]


def _calls_watched(s):
    names = []
    for n in ast.walk(s):
        if isinstance(n, ast.Call):
            f = n.func
            nm = f.id if isinstance(f, ast.Name) else (f.attr if isinstance(f, ast.Attribute) else None)
            if nm in WATCH:
                names.append((n.lineno, n.col_offset, nm))
    return [nm for _, _, nm in sorted(names)]


def _is_data_store(t):
    """<x>.data[...]  or  <x>.basis_id  as an assignment / deletion target"""
    if isinstance(t, ast.Subscript) and isinstance(t.value, ast.Attribute) and t.value.attr == "data":
        return True
    return isinstance(t, ast.Attribute) and t.attr == "basis_id"


def _mutations(s):
    out = []
    targets = []
    if isinstance(s, ast.Assign):
        targets = s.targets
    elif isinstance(s, (ast.AugAssign, ast.AnnAssign)):
        targets = [s.target]
    elif isinstance(s, ast.Delete):
        targets = s.targets
    for t in targets:
        for el in (t.elts if isinstance(t, (ast.Tuple, ast.List)) else [t]):
            if _is_data_store(el):
                out.append(ast.unparse(el))
    for n in ast.walk(s):
        if (isinstance(n, ast.Call) and isinstance(n.func, ast.Attribute) and n.func.attr in ("insert", "append", "pop", "remove", "clear", "extend")
                and isinstance(n.func.value, ast.Attribute) and n.func.value.attr == "data"):
            out.append(ast.unparse(n.func))
    return out


def _stmts_tokens(stmts):
    out = []
    for s in stmts:
        if isinstance(s, (ast.FunctionDef, ast.AsyncFunctionDef, ast.ClassDef)):
            continue
        if _is_value_error_raise(s):
            out.append(("raise", ""))
        elif isinstance(s, ast.Raise):
            raise SkelShape("raise of another exception type inside a skeleton target")
        elif isinstance(s, ast.Return):
            out.append(("return", ""))
        elif isinstance(s, ast.If):
            b, o = _stmts_tokens(s.body), _stmts_tokens(s.orelse)
            if b or o:
                out += [("if", "")] + _test_tokens(s.test) + [("then", "")] + b + [("else", "")] + o + [("end", "")]
        elif isinstance(s, (ast.For, ast.While)):
            if isinstance(s, ast.While) or s.orelse:
                if _stmts_tokens(s.body) or _stmts_tokens(s.orelse):
                    raise SkelShape("while / for-else with guard-relevant content")
                continue
            b = _stmts_tokens(s.body)
            if b:
                out += [("for", f"{ast.unparse(s.target)} in {ast.unparse(s.iter)}")] + b + [("end", "")]
        elif isinstance(s, ast.Try):
            hs = [h for h in s.handlers if any(_is_value_error_raise(x) for x in h.body)]
            if _stmts_tokens(s.body) or _stmts_tokens(s.orelse) or _stmts_tokens(s.finalbody) or len(hs) != len(s.handlers):
                if hs or _stmts_tokens(s.body) or _stmts_tokens(s.orelse) or _stmts_tokens(s.finalbody):
                    raise SkelShape("try statement of an unsupported shape")
            for h in hs:
                out.append(("try", f"except {ast.unparse(h.type)}: " + "; ".join(ast.unparse(b) for b in s.body)))
        elif isinstance(s, (ast.With, ast.AsyncWith)):
            out += _stmts_tokens(s.body)
        elif isinstance(s, ast.Continue):
            out.append(("continue", ""))
        elif isinstance(s, ast.Break):
            raise SkelShape("break inside a skeleton target")
        else:
            for nm in _calls_watched(s):
                out.append(("call", nm))
            for tgt in _mutations(s):
                out.append(("mutate", tgt))
            for ch in ast.walk(s):
                if isinstance(ch, (ast.Raise, ast.Return)) and ch is not s:
                    raise SkelShape("raise/return in an unrecognised position")
    # a trailing plain `return` at the very end of the function carries no information: kept anyway (uniform)
    return out


def skeleton_table():
    table = []
    for rel, qn in SKEL_TARGETS:
        tree, _ = parse(rel)
        defs = [node for name, node in _functions(tree) if name == qn]
        if len(defs) != 1:
            raise LookupError(f"{rel}:{qn}: expected exactly one definition")
        table.append((rel[:-3].replace("/", ".") + ":" + qn, _stmts_tokens(defs[0].body)))
    return table


SKEL_SENTINEL = '[("<EXTRACTION-FAILED>"%string, [("<EXTRACTION-FAILED>"%string, ""%string)])]'


def fact_c18_skeletons():
    try:
        t = skeleton_table()
        return coq_list(["(" + coq_string(name) + ", " + coq_list(["(" + coq_string(a) + ", " + coq_string(b) + ")" for a, b in toks]) + ")"
                         for name, toks in t])
    except Exception:  # noqa: BLE001  fail closed
        return SKEL_SENTINEL


FACTS.append(("c18_skeletons", "list (string * list (string * string))", fact_c18_skeletons))

if __name__ == "__main__":
    print()
    for name, toks in skeleton_table():
        print(name)
        depth = 1
        for a, b in toks:
            if a in ("end", "else", "then"):
                depth -= 1 if a != "then" else 0
            print("    " * depth + a + (" " + b if b else ""))
            if a in ("for", "then", "else"):
                depth += 1 if a != "then" else 0

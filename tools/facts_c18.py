"""C18 facts: for every validated function, the ORDERED list of guard conditions of its
`raise ValueError` sites, as normalised source text.

Normal form of the guard of one raise site = the nearest enclosing conditional construct
(inside the same function, nested defs are not entered):
    if <test>: ... raise            ->  "<ast.unparse(test)>"
    if <test>: ... else: ... raise  ->  "else: <ast.unparse(test)>"        (innermost `if`/`elif` of the chain)
    try: <body> except <T>: raise   ->  "except <T>: <stmt>; <stmt>..."     (statements of the try body)
    for <t> in <it>: ... else: raise->  "for-else: <t> in <it>"
    no enclosing conditional        ->  "always"
Sites are listed in source order (line, column).  Two defs with the same qualified name (property
getter/setter) are concatenated in source order.

Emits   c18_guards : list (string * list string)   with one entry per TARGET, in TARGET order.
Fail-closed: if a target function is missing or anything goes wrong the whole fact becomes a
sentinel value, so every `guards_of ... = [...]` obligation in Properties/C18.v fails.
(The shared SENTINEL table has no entry for this Coq type, hence the local handling.)
"""
from __future__ import annotations

import ast

from extract_facts import parse, _functions, coq_string, coq_list

TARGETS = [
    ("cutting_decomposition.py", "partition_circuit_qubits"),
    ("cutting_decomposition.py", "cut_gates"),
    ("cutting_decomposition.py", "partition_problem"),
    ("cutting_experiments.py", "generate_cutting_experiments"),
    ("cutting_experiments.py", "_get_mapping_ids_by_partition"),
    ("cutting_experiments.py", "_get_bases"),
    ("cutting_experiments.py", "_append_measurement_circuit"),
    ("cutting_reconstruction.py", "reconstruct_expectation_values"),
    ("qpd/decompose.py", "decompose_qpd_instructions"),
    ("qpd/decompose.py", "_validate_qpd_instructions"),
    ("qpd/decompose.py", "_decompose_qpd_instructions"),
    ("qpd/decompositions.py", "qpdbasis_from_instruction"),
    ("qpd/decompositions.py", "_theta_from_instruction"),
    ("qpd/qpd_basis.py", "QPDBasis._set_maps"),
    ("qpd/qpd_basis.py", "QPDBasis.coeffs"),
    ("qpd/instructions/qpd_gate.py", "BaseQPDGate.basis_id"),
    ("qpd/instructions/qpd_gate.py", "SingleQubitQPDGate._set_qubit_id"),
    ("qpd/instructions/qpd_gate.py", "TwoQubitQPDGate.__init__"),
    ("qpd/weights.py", "_generate_qpd_weights"),
    ("automated_cut_finding.py", "DeviceConstraints.__post_init__"),
    ("automated_cut_finding.py", "find_cuts"),
    ("cut_finding/cut_optimization.py", "cut_optimization_next_state_func"),
    ("cut_finding/optimization_settings.py", "OptimizationSettings.__post_init__"),
    ("utils/transforms.py", "separate_circuit"),
    ("utils/transforms.py", "_separate_instructions_by_partition"),
    ("wire_cutting_transforms.py", "expand_observables"),
    ("utils/simulation.py", "simulate_statevector_outcomes"),
    ("utils/observable_grouping.py", "most_general_observable"),
    ("utils/observable_grouping.py", "CommutingObservableGroup.__post_init__"),
]


def _is_value_error_raise(x):
    if not (isinstance(x, ast.Raise) and x.exc is not None):
        return False
    e = x.exc
    f = e.func if isinstance(e, ast.Call) else e
    return isinstance(f, ast.Name) and f.id == "ValueError"


def _guards(fn):
    """[(line, col, guard text)] of the ValueError raise sites lexically in fn (nested defs excluded)."""
    out = []

    def visit_block(stmts, ctx):
        for s in stmts:
            visit(s, ctx)

    def visit(s, ctx):
        if isinstance(s, (ast.FunctionDef, ast.AsyncFunctionDef, ast.ClassDef)):
            return
        if _is_value_error_raise(s):
            out.append((s.lineno, s.col_offset, ctx))
            return
        if isinstance(s, ast.If):
            t = ast.unparse(s.test)
            visit_block(s.body, t)
            visit_block(s.orelse, "else: " + t)
        elif isinstance(s, ast.Try):
            visit_block(s.body, ctx)
            body_txt = "; ".join(ast.unparse(b) for b in s.body)
            for h in s.handlers:
                ty = ast.unparse(h.type) if h.type is not None else "<bare>"
                visit_block(h.body, f"except {ty}: {body_txt}")
            visit_block(s.orelse, ctx)
            visit_block(s.finalbody, ctx)
        elif isinstance(s, (ast.For, ast.AsyncFor)):
            visit_block(s.body, ctx)
            visit_block(s.orelse, f"for-else: {ast.unparse(s.target)} in {ast.unparse(s.iter)}")
        elif isinstance(s, ast.While):
            visit_block(s.body, ctx)
            visit_block(s.orelse, f"while-else: {ast.unparse(s.test)}")
        elif isinstance(s, (ast.With, ast.AsyncWith)):
            visit_block(s.body, ctx)
        elif hasattr(ast, "Match") and isinstance(s, ast.Match):
            for c in s.cases:
                visit_block(c.body, f"case {ast.unparse(c.pattern)}")
        else:
            # simple statement: a raise cannot hide inside an expression
            for ch in ast.walk(s):
                if ch is not s and _is_value_error_raise(ch):
                    raise RuntimeError("raise in an unrecognised position")

    # an `if`/`elif` chain: ast nests `elif` as orelse=[If]; visit() above handles it recursively and the
    # innermost If gives the context of the final `else`.
    visit_block(fn.body, "always")
    out.sort()
    return out


def guards_table():
    table = []
    cache = {}
    for rel, qn in TARGETS:
        if rel not in cache:
            tree, _ = parse(rel)
            cache[rel] = _functions(tree)
        defs = [node for name, node in cache[rel] if name == qn]
        if not defs:
            raise LookupError(f"{rel}:{qn} not found")
        gs = []
        for node in sorted(defs, key=lambda n: n.lineno):
            gs.extend(g for _, _, g in _guards(node))
        table.append((rel[:-3].replace("/", ".") + ":" + qn, gs))
    return table


SENTINEL_VALUE = '[("<EXTRACTION-FAILED>"%string, ["<EXTRACTION-FAILED>"%string])]'


def fact_c18_guards():
    try:
        t = guards_table()
        return coq_list(["(" + coq_string(name) + ", " + coq_list([coq_string(g) for g in gs]) + ")" for name, gs in t])
    except Exception:  # noqa: BLE001  fail closed with a local sentinel (see module docstring)
        return SENTINEL_VALUE


def fact_sim_cond_guard_first():
    """simulate_statevector_outcomes: the guard on `inst.operation.condition_bits` is the FIRST statement of the body of the
    loop over qc.data, i.e. it is evaluated for every instruction before any branch on the operation kind (the guard
    text alone does not change when the guard is moved into one branch)."""
    tree, _ = parse("utils/simulation.py")
    fn = [node for name, node in _functions(tree) if name == "simulate_statevector_outcomes"]
    if len(fn) != 1:
        raise LookupError("simulate_statevector_outcomes not found")
    loops = [st for st in fn[0].body if isinstance(st, ast.For) and ast.unparse(st.iter) == "qc.data"]
    if len(loops) != 1:
        raise LookupError("expected exactly one top-level loop over qc.data")
    first = loops[0].body[0]
    ok = (isinstance(first, ast.If) and ast.unparse(first.test) == "inst.operation.condition_bits"
          and any(_is_value_error_raise(x) for x in first.body) and not first.orelse)
    return "true" if ok else "false"


FACTS = [
    ("c18_guards", "list (string * list string)", fact_c18_guards),
    ("c18_sim_cond_guard_first", "bool", fact_sim_cond_guard_first),
]

if __name__ == "__main__":
    for name, gs in guards_table():
        print(name)
        for g in gs:
            print("    ", g)

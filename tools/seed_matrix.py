#!/usr/bin/env python3
"""Run every seeded change against the check of the property it targets (plus extra properties given in
seeded/<id>/meta.json "also_check") and write seeded/RESULTS.json + seeded/RESULTS.md."""
import json, os, subprocess, sys, time
ROOT = os.path.dirname(os.path.dirname(os.path.abspath(__file__)))
only = sys.argv[1:]
res = {}
rp = os.path.join(ROOT, "seeded", "RESULTS.json")
if os.path.exists(rp):
    res = json.load(open(rp))
import threading
from concurrent.futures import ThreadPoolExecutor
JOBS = int(os.environ.get("SEED_JOBS", "4"))
wlock = threading.Lock()

def one(sid):
    d = os.path.join(ROOT, "seeded", sid)
    meta = json.load(open(os.path.join(d, "meta.json")))
    props = [meta["property"]] + meta.get("also_check", [])
    t = time.time()
    r = subprocess.run(["python3", os.path.join(ROOT, "tools", "run_seeded.py"), d, "--props", ",".join(props)], capture_output=True, text=True, cwd=ROOT)
    try:
        last = json.load(open(os.path.join(d, "last_run.json")))
    except Exception:
        last = {"error": r.stdout[-300:] + r.stderr[-300:]}
    out = {p: dict(exit=v.get("exit"), with_input=bool(v.get("violations")) and not any("no-failing-input-found" in x for x in v.get("violations", [])),
                   line=(v.get("violations") or [""])[0]) for p, v in last.items()} if "error" not in last else last
    out["_wall_s"] = round(time.time() - t)
    with wlock:
        res[sid] = out
        print(sid, out, flush=True)
        json.dump(res, open(rp, "w"), indent=1)

sids = [sid for sid in sorted(os.listdir(os.path.join(ROOT, "seeded")))
        if os.path.isdir(os.path.join(ROOT, "seeded", sid)) and (not only or sid in only)]
with ThreadPoolExecutor(JOBS) as ex:
    list(ex.map(one, sids))
lines = ["| seeded change | property | check exit | failing input produced |", "|---|---|---|---|"]
for sid in sorted(res):
    for p, v in res[sid].items():
        if p.startswith("_") or not isinstance(v, dict): continue
        lines.append(f"| {sid} | {p} | {v['exit']} | {'yes' if v['with_input'] else ('no (broken obligation/correspondence named)' if v['exit'] == 1 else 'MISSED')} |")
open(os.path.join(ROOT, "seeded", "RESULTS.md"), "w").write("\n".join(lines) + "\n")

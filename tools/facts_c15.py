"""Facts for property C15 (sampling overheads): a TRANSLATOR of the coefficient expressions of
qpd/decompositions.py into data that Model/Kappa.v decodes into its expression type `cexp`.

Fail-closed: every AST node shape that is not listed below raises Shape, so the fact is not
emitted (or emitted as a sentinel) and every obligation that mentions it stops compiling.

Expression encoding (type `list (string * list Z)`, reverse Polish; decoded by Kappa.decode):
    ("const",[n;d])   rational literal n/d (exact decimal value of a float/int literal)
    ("cos",[])        np.cos(theta_prime)            ("sin",[])   np.sin(theta_prime)
    ("neg",[])        unary minus                     ("mul",[])   binary *
    ("sq",[])         ** 2
    ("abs2",[k])      np.abs(u[k]) ** 2
    ("re",[j;k])      np.real(u[j] * np.conj(u[k]))   ("im",[j;k]) np.imag(u[j] * np.conj(u[k]))
Local names (`cs_theta_prime`, `uu01`, ...) are inlined from their unique assignment.

Facts:
  c15_rot_names        decorator names of the rotation-family function
  c15_rot_coeffs       its `coeffs` list (6 expressions)
  c15_theta_prime_scale  k with theta_prime = k * theta          (source: theta_prime = -theta / 2)
  c15_ctrl_test        source text of the guard of the controlled branch
  c15_ctrl_theta_scale k with theta = k * theta in that branch   (source: theta = -theta / 2)
  c15_delegates        name -> (target registry name, (a, b)): the function returns
                       qpdbasis_from_instruction(<Target>Gate(a*theta + b*pi)) with unchanged coeffs
  c15_cx_names, c15_cx_coeffs, c15_move_coeffs
  c15_nonlocal_coeffs  the 58 coefficient expressions of _nonlocal_qpd_basis_from_u
  c15_swap_u, c15_iswap_u   literal u vectors; each entry (ra, rb, ia, ib) = (ra + rb*sqrt2) + i (ia + ib*sqrt2)
  c15_eigvals          rows of integer coefficients of the four eigenvalues in (theta0, theta1, theta2)
  c15_eigvecs          the 4x4 matrix `np.ones([1, 1]) / 2 - np.eye(4)`
  c15_u_formula        normalised text of the return expression of _u_from_thetavec
  c15_kak_call         normalised text of the three statements of the KAK path that produce the basis
  c15_setter           normalised text of the body of the QPDBasis.coeffs setter
  c15_overhead_expr    normalised text of the return expression of QPDBasis.overhead
  c15_doc_table        rows of the documented sampling-overhead table: (class name, formula text)
"""
from __future__ import annotations

import ast
import os
import re
from fractions import Fraction

REPO = os.environ.get("CKT_REPO", "/repo")
PKG = os.path.join(REPO, "qiskit_addon_cutting")
DECOMP = os.path.join(PKG, "qpd", "decompositions.py")
BASIS = os.path.join(PKG, "qpd", "qpd_basis.py")
DOCS = os.path.join(REPO, "docs", "explanation", "index.rst")


class Shape(Exception):
    pass


# --------------------------------------------------------------------------------------
# helpers
# --------------------------------------------------------------------------------------

_cache = {}


def _tree(path):
    if path not in _cache:
        with open(path) as f:
            src = f.read()
        _cache[path] = (ast.parse(src), src)
    return _cache[path]


def _registered(tree):
    """[(names, FunctionDef)] for functions decorated with _register_qpdbasis_from_instruction."""
    out = []
    for node in tree.body:
        if isinstance(node, ast.FunctionDef):
            for d in node.decorator_list:
                if isinstance(d, ast.Call) and isinstance(d.func, ast.Name) and d.func.id == "_register_qpdbasis_from_instruction":
                    names = []
                    for a in d.args:
                        if not (isinstance(a, ast.Constant) and isinstance(a.value, str)):
                            raise Shape("non-literal registry name")
                        names.append(a.value)
                    if d.keywords:
                        raise Shape("keywords in registry decorator")
                    out.append((names, node))
    return out


def _func_of(name):
    tree, _ = _tree(DECOMP)
    hits = [fn for names, fn in _registered(tree) if name in names]
    if len(hits) != 1:
        raise Shape(f"{name}: expected exactly one registered function, found {len(hits)}")
    return hits[0]


def _names_of(name):
    tree, _ = _tree(DECOMP)
    hits = [names for names, fn in _registered(tree) if name in names]
    if len(hits) != 1:
        raise Shape(f"{name}: expected exactly one registered function, found {len(hits)}")
    return hits[0]


def _toplevel(fname, path=DECOMP):
    tree, _ = _tree(path)
    hits = [n for n in tree.body if isinstance(n, ast.FunctionDef) and n.name == fname]
    if len(hits) != 1:
        raise Shape(f"{fname}: expected exactly one definition")
    return hits[0]


def _all_nodes_no_nested_defs(fn):
    stack = list(fn.body)
    while stack:
        x = stack.pop()
        yield x
        if isinstance(x, (ast.FunctionDef, ast.AsyncFunctionDef, ast.ClassDef, ast.Lambda)):
            raise Shape("nested definition in a translated function")
        stack.extend(ast.iter_child_nodes(x))


def _assignments_to(fn, name):
    """All statements in fn (any depth) that bind `name` (Assign/AugAssign/AnnAssign/for/with/walrus)."""
    out = []
    for x in _all_nodes_no_nested_defs(fn):
        if isinstance(x, ast.Assign):
            for t in x.targets:
                for n in ast.walk(t):
                    if isinstance(n, ast.Name) and n.id == name:
                        out.append(x)
        elif isinstance(x, (ast.AugAssign, ast.AnnAssign)):
            for n in ast.walk(x.target):
                if isinstance(n, ast.Name) and n.id == name:
                    out.append(x)
        elif isinstance(x, (ast.For, ast.comprehension)):
            for n in ast.walk(x.target):
                if isinstance(n, ast.Name) and n.id == name:
                    out.append(x)
        elif isinstance(x, ast.NamedExpr):
            if x.target.id == name:
                out.append(x)
        elif isinstance(x, ast.withitem) and x.optional_vars is not None:
            for n in ast.walk(x.optional_vars):
                if isinstance(n, ast.Name) and n.id == name:
                    out.append(x)
    return out


def _unique_simple_assign(fn, name):
    a = _assignments_to(fn, name)
    if len(a) != 1 or not isinstance(a[0], ast.Assign) or len(a[0].targets) != 1 or not isinstance(a[0].targets[0], ast.Name):
        raise Shape(f"{name}: expected exactly one simple assignment, found {len(a)}")
    return a[0]


def _is_np(node, attr):
    return (isinstance(node, ast.Attribute) and node.attr == attr and isinstance(node.value, ast.Name) and node.value.id == "np")


def _np_call1(node, attr):
    """np.<attr>(x) with exactly one positional argument -> x, else None."""
    if isinstance(node, ast.Call) and _is_np(node.func, attr) and len(node.args) == 1 and not node.keywords:
        return node.args[0]
    return None


def _number(node):
    """Exact rational value of a real numeric literal."""
    if isinstance(node, ast.Constant) and type(node.value) in (int, float):
        if type(node.value) is float:
            return Fraction(repr(node.value))  # exact DECIMAL value as written (0.5 -> 1/2)
        return Fraction(node.value)
    raise Shape(f"not a numeric literal: {ast.dump(node)}")


def _z(v):
    return f"({int(v)})%Z"


def _q(fr):
    fr = Fraction(fr)
    return f"(Qmake ({fr.numerator})%Z ({fr.denominator})%positive)"


def _tok(name, args=()):
    return f'("{name}", [{"; ".join(_z(a) for a in args)}])'


def _coq_list(items):
    return "[" + "; ".join(items) + "]"


def _coq_string(s):
    return '"' + s.replace('"', '""') + '"'


def _exprs(list_of_token_lists):
    return _coq_list([_coq_list(toks) for toks in list_of_token_lists])


# --------------------------------------------------------------------------------------
# rotation family: expressions over cos/sin(theta_prime)
# --------------------------------------------------------------------------------------


def _rot_expr(fn, node, depth=0):
    if depth > 4:
        raise Shape("name inlining too deep")
    if isinstance(node, ast.Constant):
        fr = _number(node)
        return [_tok("const", (fr.numerator, fr.denominator))]
    if isinstance(node, ast.UnaryOp) and isinstance(node.op, ast.USub):
        return _rot_expr(fn, node.operand, depth) + [_tok("neg")]
    if isinstance(node, ast.BinOp) and isinstance(node.op, ast.Mult):
        return _rot_expr(fn, node.left, depth) + _rot_expr(fn, node.right, depth) + [_tok("mul")]
    if isinstance(node, ast.BinOp) and isinstance(node.op, ast.Pow):
        if not (isinstance(node.right, ast.Constant) and type(node.right.value) is int and node.right.value == 2):
            raise Shape("power other than ** 2")
        return _rot_expr(fn, node.left, depth) + [_tok("sq")]
    for f in ("cos", "sin"):
        a = _np_call1(node, f)
        if a is not None:
            if not (isinstance(a, ast.Name) and a.id == "theta_prime"):
                raise Shape(f"np.{f} of something other than theta_prime")
            return [_tok(f)]
    if isinstance(node, ast.Name):
        if node.id in ("theta", "theta_prime", "gate"):
            raise Shape(f"bare {node.id} in a coefficient")
        return _rot_expr(fn, _unique_simple_assign(fn, node.id).value, depth + 1)
    raise Shape(f"rotation coefficient: unknown node {ast.dump(node)[:120]}")


def _returned_basis_args(fn):
    """The function must end with `return QPDBasis(maps, coeffs)`; returns the coeffs argument node."""
    rets = [x for x in _all_nodes_no_nested_defs(fn) if isinstance(x, ast.Return)]
    if len(rets) != 1 or fn.body[-1] is not rets[0]:
        raise Shape("expected a single final return")
    v = rets[0].value
    if not (isinstance(v, ast.Call) and isinstance(v.func, ast.Name) and v.func.id == "QPDBasis" and len(v.args) == 2 and not v.keywords):
        raise Shape("return is not QPDBasis(maps, coeffs)")
    return v.args[1]


def _no_writes_through(fn, name):
    """`name` is never the base of an attribute/subscript assignment, never passed to a call other than
    QPDBasis(...) / zip, never mutated by a method call."""
    for x in _all_nodes_no_nested_defs(fn):
        if isinstance(x, (ast.Assign, ast.AugAssign, ast.AnnAssign, ast.Delete)):
            tgts = x.targets if isinstance(x, (ast.Assign, ast.Delete)) else [x.target]
            for t in tgts:
                if isinstance(t, (ast.Attribute, ast.Subscript)):
                    for n in ast.walk(t):
                        if isinstance(n, ast.Name) and n.id == name:
                            raise Shape(f"write through {name}")
        if isinstance(x, ast.Call) and isinstance(x.func, ast.Attribute):
            for n in ast.walk(x.func.value):
                if isinstance(n, ast.Name) and n.id == name:
                    raise Shape(f"method call on {name}")


def _rot_fn():
    return _func_of("rxx")


def fact_rot_names():
    return _coq_list([_coq_string(n) for n in _names_of("rxx")])


def fact_rot_coeffs():
    fn = _rot_fn()
    arg = _returned_basis_args(fn)
    if not (isinstance(arg, ast.Name) and arg.id == "coeffs"):
        raise Shape("rotation family does not return QPDBasis(maps, coeffs)")
    _no_writes_through(fn, "coeffs")
    lst = _unique_simple_assign(fn, "coeffs").value
    if not isinstance(lst, ast.List):
        raise Shape("coeffs is not a list display")
    return _exprs([_rot_expr(fn, e) for e in lst.elts])


def _linear_in(node, var):
    """Coefficient k such that node == k * var, for expressions over {var, numbers, unary -, *, /}."""

    def ev(n):  # returns (k, c): value = k*var + c
        if isinstance(n, ast.Name) and n.id == var:
            return (Fraction(1), Fraction(0))
        if isinstance(n, ast.Constant):
            return (Fraction(0), _number(n))
        if isinstance(n, ast.UnaryOp) and isinstance(n.op, ast.USub):
            k, c = ev(n.operand)
            return (-k, -c)
        if isinstance(n, ast.BinOp) and isinstance(n.op, ast.Mult):
            (k1, c1), (k2, c2) = ev(n.left), ev(n.right)
            if k1 != 0 and k2 != 0:
                raise Shape("non-linear")
            return (k1 * c2 + k2 * c1, c1 * c2)
        if isinstance(n, ast.BinOp) and isinstance(n.op, ast.Div):
            (k1, c1), (k2, c2) = ev(n.left), ev(n.right)
            if k2 != 0 or c2 == 0:
                raise Shape("division by a non-constant")
            return (k1 / c2, c1 / c2)
        raise Shape(f"angle expression: unknown node {ast.dump(n)[:100]}")

    k, c = ev(node)
    if c != 0:
        raise Shape("affine offset in angle expression")
    return k


def fact_theta_prime_scale():
    fn = _rot_fn()
    a = _unique_simple_assign(fn, "theta_prime")
    # theta_prime must be assigned at the top level of the function, after every assignment to theta
    if a not in fn.body:
        raise Shape("theta_prime assigned under a condition")
    pos = fn.body.index(a)
    for later in fn.body[pos + 1:]:
        for n in ast.walk(later):
            if isinstance(n, ast.Name) and n.id == "theta" and isinstance(n.ctx, ast.Store):
                raise Shape("theta rebound after theta_prime")
    return _q(_linear_in(a.value, "theta"))


def _ctrl_branch():
    fn = _rot_fn()
    assigns = _assignments_to(fn, "theta")
    # exactly: theta = _theta_from_instruction(gate)   (top level)   and   theta = <k*theta>   inside one `if`
    if len(assigns) != 2:
        raise Shape(f"theta: expected two assignments, found {len(assigns)}")
    first = [a for a in assigns if a in fn.body]
    if len(first) != 1 or not isinstance(first[0], ast.Assign):
        raise Shape("theta: expected one top-level assignment")
    v = first[0].value
    if not (isinstance(v, ast.Call) and isinstance(v.func, ast.Name) and v.func.id == "_theta_from_instruction"
            and len(v.args) == 1 and isinstance(v.args[0], ast.Name) and v.args[0].id == "gate"):
        raise Shape("theta is not _theta_from_instruction(gate)")
    other = [a for a in assigns if a is not first[0]][0]
    ifs = [s for s in fn.body if isinstance(s, ast.If) and other in s.body]
    if len(ifs) != 1 or ifs[0].orelse:
        raise Shape("second theta assignment is not directly inside a top-level if without else")
    if fn.body.index(ifs[0]) < fn.body.index(first[0]):
        raise Shape("controlled branch precedes theta = _theta_from_instruction(gate)")
    if not isinstance(other, ast.Assign):
        raise Shape("controlled branch: theta not a plain assignment")
    return ifs[0], other


def fact_ctrl_test():
    i, _ = _ctrl_branch()
    return _coq_string(ast.unparse(i.test))


def fact_ctrl_theta_scale():
    _, a = _ctrl_branch()
    return _q(_linear_in(a.value, "theta"))


# --------------------------------------------------------------------------------------
# delegating functions (cs, csdg, cp, csx, csxdg, dcx, ecr)
# --------------------------------------------------------------------------------------

CLASS_TO_NAME = {"CRZGate": "crz", "CRXGate": "crx", "CRYGate": "cry", "iSwapGate": "iswap", "CXGate": "cx",
                 "SwapGate": "swap", "RZZGate": "rzz", "RXXGate": "rxx", "RYYGate": "ryy", "CZGate": "cz"}


def _affine(node, env):
    """(a, b) with value = a*theta + b*pi; env maps local names to such pairs."""
    if isinstance(node, ast.Name):
        if node.id in env:
            return env[node.id]
        raise Shape(f"unknown name {node.id} in angle")
    if _is_np(node, "pi"):
        return (Fraction(0), Fraction(1))
    if isinstance(node, ast.UnaryOp) and isinstance(node.op, ast.USub):
        a, b = _affine(node.operand, env)
        return (-a, -b)
    if isinstance(node, ast.BinOp) and isinstance(node.op, (ast.Mult, ast.Div)):
        if isinstance(node.right, ast.Constant):
            k = _number(node.right)
            a, b = _affine(node.left, env)
            if isinstance(node.op, ast.Div):
                if k == 0:
                    raise Shape("division by zero")
                return (a / k, b / k)
            return (a * k, b * k)
        if isinstance(node.left, ast.Constant) and isinstance(node.op, ast.Mult):
            k = _number(node.left)
            a, b = _affine(node.right, env)
            return (a * k, b * k)
    raise Shape(f"angle: unknown node {ast.dump(node)[:100]}")


def _only_map_edits(stmt):
    """for operations in unique_by_id(m[i] for m in retval.maps): operations.insert/append(...) [+ ifs on gate.name]."""
    if not isinstance(stmt, ast.For) or stmt.orelse:
        return False
    if not (isinstance(stmt.target, ast.Name) and stmt.target.id == "operations"):
        return False
    it = stmt.iter
    if not (isinstance(it, ast.Call) and isinstance(it.func, ast.Name) and it.func.id == "unique_by_id" and len(it.args) == 1
            and isinstance(it.args[0], ast.GeneratorExp)):
        return False
    ge = it.args[0]
    if len(ge.generators) != 1 or ge.generators[0].ifs:
        return False
    src = ge.generators[0].iter
    if not (isinstance(src, ast.Attribute) and src.attr == "maps" and isinstance(src.value, ast.Name) and src.value.id == "retval"):
        return False
    if not (isinstance(ge.elt, ast.Subscript) and isinstance(ge.elt.value, ast.Name) and ge.elt.value.id == ge.generators[0].target.id):
        return False

    def body_ok(body):
        for s in body:
            if isinstance(s, ast.Expr) and isinstance(s.value, ast.Call) and isinstance(s.value.func, ast.Attribute) \
                    and isinstance(s.value.func.value, ast.Name) and s.value.func.value.id == "operations" \
                    and s.value.func.attr in ("insert", "append"):
                for n in ast.walk(s.value):
                    if isinstance(n, ast.Name) and n.id in ("retval", "coeffs"):
                        return False
                continue
            return False
        return True

    return body_ok(stmt.body)


def _delegate(name):
    fn = _func_of(name)
    env = {}
    target = None
    body = list(fn.body)
    if not body or not isinstance(body[-1], ast.Return) or not (isinstance(body[-1].value, ast.Name) and body[-1].value.id == "retval"):
        raise Shape(f"{name}: does not end with `return retval`")
    for s in body[:-1]:
        if isinstance(s, ast.Expr) and isinstance(s.value, ast.Constant) and isinstance(s.value.value, str):
            continue  # docstring
        if isinstance(s, ast.Assign) and len(s.targets) == 1 and isinstance(s.targets[0], ast.Name):
            tgt = s.targets[0].id
            v = s.value
            if tgt == "retval":
                if target is not None:
                    raise Shape(f"{name}: retval assigned twice")
                if not (isinstance(v, ast.Call) and isinstance(v.func, ast.Name) and v.func.id == "qpdbasis_from_instruction"
                        and len(v.args) == 1 and not v.keywords and isinstance(v.args[0], ast.Call)
                        and isinstance(v.args[0].func, ast.Name) and not v.args[0].keywords):
                    raise Shape(f"{name}: retval is not qpdbasis_from_instruction(<Gate>(...))")
                cls = v.args[0].func.id
                if cls not in CLASS_TO_NAME:
                    raise Shape(f"{name}: unknown gate class {cls}")
                if len(v.args[0].args) == 0:
                    ang = (Fraction(0), Fraction(0))
                elif len(v.args[0].args) == 1:
                    ang = _affine(v.args[0].args[0], env)
                else:
                    raise Shape(f"{name}: more than one gate argument")
                target = (CLASS_TO_NAME[cls], ang)
                continue
            if tgt == "theta":
                if target is not None:
                    raise Shape(f"{name}: theta assigned after use")
                if isinstance(v, ast.Call) and isinstance(v.func, ast.Name) and v.func.id == "_theta_from_instruction" \
                        and len(v.args) == 1 and isinstance(v.args[0], ast.Name) and v.args[0].id == "gate":
                    env["theta"] = (Fraction(1), Fraction(0))
                else:
                    env["theta"] = _affine(v, env)
                continue
            if tgt in ("rot_gate",):
                continue
            raise Shape(f"{name}: assignment to unexpected name {tgt}")
        if isinstance(s, ast.If):
            # if gate.name == "<lit>": theta *= k ; rot_gate = ...
            t = s.test
            if not (isinstance(t, ast.Compare) and len(t.ops) == 1 and isinstance(t.ops[0], ast.Eq)
                    and isinstance(t.left, ast.Attribute) and t.left.attr == "name" and isinstance(t.left.value, ast.Name)
                    and t.left.value.id == "gate" and isinstance(t.comparators[0], ast.Constant)
                    and isinstance(t.comparators[0].value, str)) or s.orelse:
                raise Shape(f"{name}: unknown if shape")
            if target is not None:
                raise Shape(f"{name}: conditional after retval")
            taken = t.comparators[0].value == name
            for b in s.body:
                if isinstance(b, ast.AugAssign) and isinstance(b.target, ast.Name) and b.target.id == "theta" and isinstance(b.op, ast.Mult):
                    k = _number(b.value) if isinstance(b.value, ast.Constant) else -_number(b.value.operand) \
                        if (isinstance(b.value, ast.UnaryOp) and isinstance(b.value.op, ast.USub)) else None
                    if k is None:
                        raise Shape(f"{name}: theta *= non-literal")
                    if taken:
                        a0, b0 = env["theta"]
                        env["theta"] = (a0 * k, b0 * k)
                elif isinstance(b, ast.Assign) and len(b.targets) == 1 and isinstance(b.targets[0], ast.Name) and b.targets[0].id == "rot_gate":
                    pass
                else:
                    raise Shape(f"{name}: unknown statement in if body")
            continue
        if _only_map_edits(s):
            if target is None:
                raise Shape(f"{name}: map edit before retval")
            continue
        raise Shape(f"{name}: unknown statement {ast.dump(s)[:100]}")
    if target is None:
        raise Shape(f"{name}: no delegation found")
    return target


DELEGATING = ["dcx", "cs", "csdg", "cp", "csx", "csxdg", "ecr"]


def fact_delegates():
    items = []
    for n in DELEGATING:
        tname, (a, b) = _delegate(n)
        items.append(f"({_coq_string(n)}, ({_coq_string(tname)}, ({_q(a)}, {_q(b)})))")
    return _coq_list(items)


# --------------------------------------------------------------------------------------
# constant families
# --------------------------------------------------------------------------------------


def fact_cx_names():
    return _coq_list([_coq_string(n) for n in _names_of("cx")])


def fact_cx_coeffs():
    fn = _func_of("cx")
    arg = _returned_basis_args(fn)
    if not (isinstance(arg, ast.Name) and arg.id == "coeffs"):
        raise Shape("cx family does not return QPDBasis(maps, coeffs)")
    _no_writes_through(fn, "coeffs")
    lst = _unique_simple_assign(fn, "coeffs").value
    if not isinstance(lst, ast.List):
        raise Shape("cx coeffs is not a list display")
    return _coq_list([_q(_signed_number(e)) for e in lst.elts])


def _signed_number(e):
    if isinstance(e, ast.UnaryOp) and isinstance(e.op, ast.USub):
        return -_number(e.operand)
    return _number(e)


def _zip_rows(fn, names):
    """`<names> = zip((...), (...), ...)` -> list of row tuples (as AST element lists)."""
    hits = []
    for s in fn.body:
        if isinstance(s, ast.Assign) and len(s.targets) == 1 and isinstance(s.targets[0], ast.Tuple):
            ids = [t.id if isinstance(t, ast.Name) else None for t in s.targets[0].elts]
            if ids == names:
                hits.append(s)
    if len(hits) != 1:
        raise Shape(f"expected exactly one `{', '.join(names)} = zip(...)`")
    v = hits[0].value
    if not (isinstance(v, ast.Call) and isinstance(v.func, ast.Name) and v.func.id == "zip" and not v.keywords):
        raise Shape("not a zip(...) call")
    rows = []
    for a in v.args:
        if not (isinstance(a, ast.Tuple) and len(a.elts) == len(names)):
            raise Shape("zip row of unexpected arity")
        rows.append(a.elts)
    return rows


def fact_move_coeffs():
    fn = _func_of("move")
    arg = _returned_basis_args(fn)
    if not (isinstance(arg, ast.Name) and arg.id == "coeffs"):
        raise Shape("move does not return QPDBasis(maps, coeffs)")
    _no_writes_through(fn, "coeffs")
    if len(_assignments_to(fn, "coeffs")) != 1:
        raise Shape("move: coeffs bound more than once")
    rows = _zip_rows(fn, ["maps1", "maps2", "coeffs"])
    return _coq_list([_q(_signed_number(r[2])) for r in rows])


# --------------------------------------------------------------------------------------
# the 58-term list
# --------------------------------------------------------------------------------------


def _u_index(node):
    if isinstance(node, ast.Subscript) and isinstance(node.value, ast.Name) and node.value.id == "u" \
            and isinstance(node.slice, ast.Constant) and type(node.slice.value) is int and 0 <= node.slice.value < 4:
        return node.slice.value
    raise Shape(f"not u[k]: {ast.dump(node)[:80]}")


def _uu_pair(fn, node):
    """node is a Name bound once to u[j] * np.conj(u[k])  ->  (j, k)."""
    if not isinstance(node, ast.Name):
        raise Shape("np.real/np.imag of a non-name")
    v = _unique_simple_assign(fn, node.id).value
    if not (isinstance(v, ast.BinOp) and isinstance(v.op, ast.Mult)):
        raise Shape(f"{node.id}: not a product")
    j = _u_index(v.left)
    c = _np_call1(v.right, "conj")
    if c is None:
        raise Shape(f"{node.id}: right factor is not np.conj(u[k])")
    return j, _u_index(c)


def _nl_expr(fn, node):
    if isinstance(node, ast.UnaryOp) and isinstance(node.op, ast.USub):
        if isinstance(node.operand, ast.Constant):
            fr = -_number(node.operand)
            return [_tok("const", (fr.numerator, fr.denominator))]
        return _nl_expr(fn, node.operand) + [_tok("neg")]
    if isinstance(node, ast.Constant):
        fr = _number(node)
        return [_tok("const", (fr.numerator, fr.denominator))]
    if isinstance(node, ast.BinOp) and isinstance(node.op, ast.Mult):
        return _nl_expr(fn, node.left) + _nl_expr(fn, node.right) + [_tok("mul")]
    if isinstance(node, ast.BinOp) and isinstance(node.op, ast.Pow):
        if not (isinstance(node.right, ast.Constant) and type(node.right.value) is int and node.right.value == 2):
            raise Shape("power other than ** 2")
        a = _np_call1(node.left, "abs")
        if a is None:
            raise Shape("** 2 of something other than np.abs(u[k])")
        return [_tok("abs2", (_u_index(a),))]
    for f, t in (("real", "re"), ("imag", "im")):
        a = _np_call1(node, f)
        if a is not None:
            j, k = _uu_pair(fn, a)
            return [_tok(t, (j, k))]
    raise Shape(f"nonlocal coefficient: unknown node {ast.dump(node)[:120]}")


def fact_nonlocal_coeffs():
    fn = _toplevel("_nonlocal_qpd_basis_from_u")
    arg = _returned_basis_args(fn)
    if not (isinstance(arg, ast.Name) and arg.id == "coeffs"):
        raise Shape("_nonlocal_qpd_basis_from_u does not return QPDBasis(maps, coeffs)")
    _no_writes_through(fn, "coeffs")
    if len(_assignments_to(fn, "coeffs")) != 1:
        raise Shape("coeffs bound more than once")
    # u may only be rebound by `u = np.asarray(u)` (first statement after an optional docstring)
    ua = _assignments_to(fn, "u")
    if len(ua) != 1 or not (isinstance(ua[0], ast.Assign) and _np_call1(ua[0].value, "asarray") is not None
                            and isinstance(_np_call1(ua[0].value, "asarray"), ast.Name) and _np_call1(ua[0].value, "asarray").id == "u"):
        raise Shape("u rebound by something other than np.asarray(u)")
    rows = _zip_rows(fn, ["coeffs", "maps1", "maps2"])
    return _exprs([_nl_expr(fn, r[0]) for r in rows])


# --------------------------------------------------------------------------------------
# literal u vectors, exactly, over Q(sqrt2)(i)
# --------------------------------------------------------------------------------------


class Q2:
    """a + b*sqrt(2), a, b rational."""

    def __init__(self, a=0, b=0):
        self.a, self.b = Fraction(a), Fraction(b)

    def __add__(self, o):
        return Q2(self.a + o.a, self.b + o.b)

    def __sub__(self, o):
        return Q2(self.a - o.a, self.b - o.b)

    def __neg__(self):
        return Q2(-self.a, -self.b)

    def __mul__(self, o):
        return Q2(self.a * o.a + 2 * self.b * o.b, self.a * o.b + self.b * o.a)

    def inv(self):
        n = self.a * self.a - 2 * self.b * self.b
        if n == 0:
            raise Shape("division by zero in Q(sqrt2)")
        return Q2(self.a / n, -self.b / n)

    def iszero(self):
        return self.a == 0 and self.b == 0


class C2:
    def __init__(self, re, im):
        self.re, self.im = re, im

    def __add__(self, o):
        return C2(self.re + o.re, self.im + o.im)

    def __sub__(self, o):
        return C2(self.re - o.re, self.im - o.im)

    def __mul__(self, o):
        return C2(self.re * o.re - self.im * o.im, self.re * o.im + self.im * o.re)

    def inv(self):
        n = (self.re * self.re + self.im * self.im).inv()
        return C2(self.re * n, -(self.im * n))


def _sqrt_int(n):
    """sqrt of a positive integer inside Q(sqrt2)."""
    if n <= 0:
        raise Shape("sqrt of a non-positive literal")
    r = int(round(n ** 0.5))
    if r * r == n:
        return Q2(r, 0)
    if n % 2 == 0:
        m = n // 2
        r = int(round(m ** 0.5))
        if r * r == m:
            return Q2(0, r)
    raise Shape(f"sqrt({n}) is not in Q(sqrt2)")


def _cexpr(node):
    if isinstance(node, ast.Constant):
        v = node.value
        if type(v) in (int, float):
            return C2(Q2(_number(node)), Q2())
        if type(v) is complex and v.real == 0:
            return C2(Q2(), Q2(Fraction(repr(v.imag))))
        raise Shape("unknown literal in u vector")
    if isinstance(node, ast.UnaryOp) and isinstance(node.op, ast.USub):
        x = _cexpr(node.operand)
        return C2(-x.re, -x.im)
    if isinstance(node, ast.BinOp):
        if isinstance(node.op, ast.Add):
            return _cexpr(node.left) + _cexpr(node.right)
        if isinstance(node.op, ast.Sub):
            return _cexpr(node.left) - _cexpr(node.right)
        if isinstance(node.op, ast.Mult):
            return _cexpr(node.left) * _cexpr(node.right)
        if isinstance(node.op, ast.Div):
            return _cexpr(node.left) * _cexpr(node.right).inv()
    a = _np_call1(node, "sqrt")
    if a is not None:
        if not (isinstance(a, ast.Constant) and type(a.value) is int):
            raise Shape("np.sqrt of a non-integer literal")
        return C2(_sqrt_int(a.value), Q2())
    raise Shape(f"u vector: unknown node {ast.dump(node)[:100]}")


def _uvec(node):
    if isinstance(node, ast.List):
        return [_cexpr(e) for e in node.elts]
    if isinstance(node, ast.BinOp) and isinstance(node.op, ast.Mult) and isinstance(node.left, ast.List) \
            and isinstance(node.right, ast.Constant) and type(node.right.value) is int and node.right.value >= 0:
        return [_cexpr(e) for e in node.left.elts] * node.right.value
    raise Shape("u vector is not a list display (optionally * n)")


def _literal_u(name):
    fn = _func_of(name)
    body = [s for s in fn.body if not (isinstance(s, ast.Expr) and isinstance(s.value, ast.Constant))]
    if len(body) != 1 or not isinstance(body[0], ast.Return):
        raise Shape(f"{name}: body is not a single return")
    v = body[0].value
    if not (isinstance(v, ast.Call) and isinstance(v.func, ast.Name) and v.func.id == "_nonlocal_qpd_basis_from_u"
            and len(v.args) == 1 and not v.keywords):
        raise Shape(f"{name}: not _nonlocal_qpd_basis_from_u(<literal>)")
    vec = _uvec(v.args[0])
    if len(vec) != 4:
        raise Shape(f"{name}: u vector of length {len(vec)}")
    return _coq_list([f"({_q(z.re.a)}, {_q(z.re.b)}, {_q(z.im.a)}, {_q(z.im.b)})" for z in vec])


def fact_swap_u():
    return _literal_u("swap")


def fact_iswap_u():
    return _literal_u("iswap")


# --------------------------------------------------------------------------------------
# _u_from_thetavec and the KAK path
# --------------------------------------------------------------------------------------


def _theta_linear(node):
    """integer coefficients (k0,k1,k2) of an expression over theta[0..2], unary -, +, -, and -np.sum(theta)."""
    if isinstance(node, ast.Subscript) and isinstance(node.value, ast.Name) and node.value.id == "theta" \
            and isinstance(node.slice, ast.Constant) and type(node.slice.value) is int and 0 <= node.slice.value < 3:
        v = [0, 0, 0]
        v[node.slice.value] = 1
        return v
    a = _np_call1(node, "sum")
    if a is not None and isinstance(a, ast.Name) and a.id == "theta":
        return [1, 1, 1]
    if isinstance(node, ast.UnaryOp) and isinstance(node.op, ast.USub):
        return [-x for x in _theta_linear(node.operand)]
    if isinstance(node, ast.BinOp) and isinstance(node.op, (ast.Add, ast.Sub)):
        l, r = _theta_linear(node.left), _theta_linear(node.right)
        s = 1 if isinstance(node.op, ast.Add) else -1
        return [x + s * y for x, y in zip(l, r)]
    raise Shape(f"eigenvalue: unknown node {ast.dump(node)[:100]}")


def fact_eigvals():
    fn = _toplevel("_u_from_thetavec")
    ta = _assignments_to(fn, "theta")
    if len(ta) != 1 or not (isinstance(ta[0], ast.Assign) and _np_call1(ta[0].value, "asarray") is not None
                            and isinstance(_np_call1(ta[0].value, "asarray"), ast.Name) and _np_call1(ta[0].value, "asarray").id == "theta"):
        raise Shape("theta rebound by something other than np.asarray(theta)")
    v = _unique_simple_assign(fn, "eigvals").value
    a = _np_call1(v, "array")
    if a is None or not isinstance(a, ast.List) or len(a.elts) != 4:
        raise Shape("eigvals is not np.array([e0, e1, e2, e3])")
    return _coq_list([_coq_list([_z(k) for k in _theta_linear(e)]) for e in a.elts])


def fact_eigvecs():
    fn = _toplevel("_u_from_thetavec")
    v = _unique_simple_assign(fn, "eigvecs").value
    if ast.unparse(v) != "np.ones([1, 1]) / 2 - np.eye(4)":
        raise Shape("eigvecs is not np.ones([1, 1]) / 2 - np.eye(4)")
    rows = []
    for i in range(4):
        rows.append(_coq_list([_q(Fraction(1, 2) - (1 if i == j else 0)) for j in range(4)]))
    return _coq_list(rows)


def fact_u_formula():
    fn = _toplevel("_u_from_thetavec")
    rets = [x for x in _all_nodes_no_nested_defs(fn) if isinstance(x, ast.Return)]
    if len(rets) != 1 or fn.body[-1] is not rets[0]:
        raise Shape("_u_from_thetavec: expected a single final return")
    return _coq_string(ast.unparse(rets[0].value))


def fact_kak_call():
    fn = _toplevel("qpdbasis_from_instruction")
    texts = []
    for x in _all_nodes_no_nested_defs(fn):
        if isinstance(x, ast.Assign) and len(x.targets) == 1 and isinstance(x.targets[0], ast.Name) and x.targets[0].id in ("d", "u", "retval", "mat"):
            texts.append((x.lineno, ast.unparse(x)))
    texts.sort()
    return _coq_list([_coq_string(t) for _, t in texts])


# --------------------------------------------------------------------------------------
# QPDBasis.coeffs setter / overhead
# --------------------------------------------------------------------------------------


def _method(cls_name, meth, decorator_pred):
    tree, _ = _tree(BASIS)
    for node in tree.body:
        if isinstance(node, ast.ClassDef) and node.name == cls_name:
            hits = [f for f in node.body if isinstance(f, ast.FunctionDef) and f.name == meth and decorator_pred(f)]
            if len(hits) != 1:
                raise Shape(f"{cls_name}.{meth}: expected exactly one match")
            return hits[0]
    raise Shape(f"class {cls_name} not found")


def _body_text(fn):
    out = []
    for s in fn.body:
        if isinstance(s, ast.Expr) and isinstance(s.value, ast.Constant) and isinstance(s.value.value, str):
            continue
        out.append(ast.unparse(s).replace("\n", " ; "))
    return out


def fact_setter():
    fn = _method("QPDBasis", "coeffs",
                 lambda f: any(isinstance(d, ast.Attribute) and d.attr == "setter" for d in f.decorator_list))
    return _coq_list([_coq_string(re.sub(r"\s+", " ", t)) for t in _body_text(fn)])


def fact_overhead_expr():
    fn = _method("QPDBasis", "overhead", lambda f: any(isinstance(d, ast.Name) and d.id == "property" for d in f.decorator_list))
    return _coq_list([_coq_string(t) for t in _body_text(fn)])


def fact_kappa_readers():
    """Every place in qpd_basis.py that binds self._kappa / self._probabilities / self._coeffs."""
    tree, _ = _tree(BASIS)
    items = []
    for node in tree.body:
        if isinstance(node, ast.ClassDef) and node.name == "QPDBasis":
            for f in node.body:
                if isinstance(f, ast.FunctionDef):
                    for x in ast.walk(f):
                        tg = []
                        if isinstance(x, ast.Assign):
                            tg = x.targets
                        elif isinstance(x, (ast.AugAssign, ast.AnnAssign)):
                            tg = [x.target]
                        for t in tg:
                            for n in ast.walk(t):
                                if isinstance(n, ast.Attribute) and n.attr in ("_kappa", "_probabilities", "_coeffs"):
                                    kind = "setter" if any(isinstance(d, ast.Attribute) and d.attr == "setter" for d in f.decorator_list) else "other"
                                    items.append((f"{f.name}/{kind}", n.attr))
    items.sort()
    return _coq_list([f"({_coq_string(a)}, {_coq_string(b)})" for a, b in items])


# --------------------------------------------------------------------------------------
# documented table
# --------------------------------------------------------------------------------------


def fact_doc_table():
    with open(DOCS) as f:
        lines = f.read().splitlines()
    try:
        start = next(i for i, l in enumerate(lines) if l.strip() == "Sampling overhead reference table")
    except StopIteration:
        raise Shape("docs: table heading not found")
    i = start
    while i < len(lines) and not lines[i].startswith("+-"):
        i += 1
    tbl = []
    while i < len(lines) and (lines[i].startswith("+") or lines[i].startswith("|")):
        tbl.append(lines[i])
        i += 1
    if len(tbl) < 5:
        raise Shape("docs: grid table not found")
    border = tbl[0]
    cuts = [k for k, ch in enumerate(border) if ch == "+"]
    if len(cuts) != 4:
        raise Shape("docs: expected a three-column table")
    ncol = 3
    # split into row blocks; a separator line may leave a column open (cell spanning several rows)
    blocks = []  # each: dict(text=[col texts], open_below=[bool]*3)
    cur = [[] for _ in range(ncol)]
    for ln in tbl[1:]:
        if len(ln) != len(border):
            raise Shape("docs: ragged table line")
        if ln.startswith("+"):
            open_below = []
            for c in range(ncol):
                seg = ln[cuts[c] + 1:cuts[c + 1]]
                if set(seg) <= {"-"} or set(seg) <= {"="}:
                    open_below.append(False)
                elif seg.strip() == "":
                    open_below.append(True)
                else:
                    raise Shape("docs: unknown separator segment")
            blocks.append(dict(text=[" ".join(x for x in col if x) for col in cur], open_below=open_below))
            cur = [[] for _ in range(ncol)]
        else:
            for c in range(ncol):
                cur[c].append(ln[cuts[c] + 1:cuts[c + 1]].strip())
    if any(any(col) for col in cur):
        raise Shape("docs: table does not end with a border")
    header, rows = blocks[0], blocks[1:]
    if [t for t in header["text"]] != ["Instruction(s)", "KAK decomposition angles", "Sampling overhead factor"]:
        raise Shape(f"docs: unexpected header {header['text']}")
    # resolve spanning cells in the formula column: text of a spanning group = concatenation over the group
    formula = [None] * len(rows)
    k = 0
    while k < len(rows):
        grp = [k]
        while rows[grp[-1]]["open_below"][2]:
            if grp[-1] + 1 >= len(rows):
                raise Shape("docs: open cell at the end of the table")
            grp.append(grp[-1] + 1)
        txt = " ".join(rows[g]["text"][2] for g in grp if rows[g]["text"][2]).strip()
        for g in grp:
            formula[g] = txt
        k = grp[-1] + 1
    out = []
    for r, fml in zip(rows, formula):
        if r["open_below"][0]:
            raise Shape("docs: spanning cell in the instruction column")
        m = re.findall(r":math:`([^`]*)`", fml)
        if len(m) < 1:
            raise Shape(f"docs: no formula in row {r['text'][0][:40]}")
        ftxt = re.sub(r"\s+", "", m[0])
        names = re.findall(r":class:`(?:~?[\w.]*\.)?(\w+)`", r["text"][0])
        if not names:
            raise Shape(f"docs: no instruction class in row {r['text'][0][:40]}")
        leftover = re.sub(r":class:`[^`]*`", "", r["text"][0])
        if re.search(r":\w+:`", leftover):
            raise Shape("docs: unknown role in instruction cell")
        for n in names:
            out.append((n, ftxt))
    return _coq_list([f"({_coq_string(a)}, {_coq_string(b)})" for a, b in out])


EXPRS = "list (list (string * list Z))"

# Sentinel values for the fact types of this file.  tools/extract_facts.py omits a definition whose type has no
# sentinel, which would stop Model/Kappa.v (hence the correspondence checker) from compiling: no failing input could
# then be searched for.  With a sentinel the failure is still recorded in facts.json and every obligation that
# mentions the fact breaks (the empty list satisfies none of them), but the harness keeps running.
_SENTINELS = {
    EXPRS: "[]",
    "list (string * (string * (Q * Q)))": "[]",
    "list Q": "[(Qmake (-1)%Z 1%positive)]",
    "list (Q * Q * Q * Q)": "[]",
    "list (list Z)": "[]",
    "list (list Q)": "[]",
    "string": '"<EXTRACTION-FAILED>"',
}
import sys as _sys  # noqa: E402

_main = _sys.modules.get("__main__")
if _main is not None and isinstance(getattr(_main, "SENTINEL", None), dict):
    for _k, _v in _SENTINELS.items():
        _main.SENTINEL.setdefault(_k, _v)

FACTS = [
    ("c15_rot_names", "list string", fact_rot_names),
    ("c15_rot_coeffs", EXPRS, fact_rot_coeffs),
    ("c15_theta_prime_scale", "Q", fact_theta_prime_scale),
    ("c15_ctrl_test", "string", fact_ctrl_test),
    ("c15_ctrl_theta_scale", "Q", fact_ctrl_theta_scale),
    ("c15_delegates", "list (string * (string * (Q * Q)))", fact_delegates),
    ("c15_cx_names", "list string", fact_cx_names),
    ("c15_cx_coeffs", "list Q", fact_cx_coeffs),
    ("c15_move_coeffs", "list Q", fact_move_coeffs),
    ("c15_nonlocal_coeffs", EXPRS, fact_nonlocal_coeffs),
    ("c15_swap_u", "list (Q * Q * Q * Q)", fact_swap_u),
    ("c15_iswap_u", "list (Q * Q * Q * Q)", fact_iswap_u),
    ("c15_eigvals", "list (list Z)", fact_eigvals),
    ("c15_eigvecs", "list (list Q)", fact_eigvecs),
    ("c15_u_formula", "string", fact_u_formula),
    ("c15_kak_call", "list string", fact_kak_call),
    ("c15_setter", "list string", fact_setter),
    ("c15_overhead_expr", "list string", fact_overhead_expr),
    ("c15_kappa_writers", "list (string * string)", fact_kappa_readers),
    ("c15_doc_table", "list (string * string)", fact_doc_table),
]

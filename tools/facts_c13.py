"""Facts for C13 (utils/simulation.py), picked up by tools/extract_facts.py.

sim_tolerance      : Q    the module constant _TOLERANCE (exact decimal value of the literal)
sim_isclose_sites  : nat  number of truncation tests of the exact shape  np.isclose(<name>, 0, atol=_TOLERANCE)
                          inside simulate_statevector_outcomes (the model prunes the 0- and the 1-child with |p| <= tol,
                          no rtol keyword, compared against the literal 0)
Fail closed: any other shape raises Shape -> sentinel value -> the obligations in Properties/C13.v fail.
"""
from __future__ import annotations

import ast
import os
from fractions import Fraction

REPO = os.environ.get("CKT_REPO", "/repo")
SRC = os.path.join(REPO, "qiskit_addon_cutting", "utils", "simulation.py")


class Shape(ValueError):
    pass


def _tree():
    with open(SRC) as f:
        src = f.read()
    return ast.parse(src), src


def fact_sim_tolerance():
    tree, src = _tree()
    found = [
        n
        for n in ast.walk(tree)
        if isinstance(n, ast.Assign) and any(isinstance(t, ast.Name) and t.id == "_TOLERANCE" for t in n.targets)
    ]
    if len(found) != 1 or found[0] not in tree.body:
        raise Shape(f"_TOLERANCE: expected exactly one module-level assignment, found {len(found)}")
    v = found[0].value
    if not isinstance(v, ast.Constant) or isinstance(v.value, bool) or not isinstance(v.value, (int, float)):
        raise Shape("_TOLERANCE: not a numeric literal")
    txt = ast.get_source_segment(src, v).replace("_", "")
    fr = Fraction(txt)
    if fr < 0:
        raise Shape("_TOLERANCE negative")
    return f"(Qmake ({fr.numerator})%Z ({fr.denominator})%positive)"


def fact_sim_isclose_sites():
    tree, _ = _tree()
    fns = [n for n in tree.body if isinstance(n, ast.FunctionDef) and n.name == "simulate_statevector_outcomes"]
    if len(fns) != 1:
        raise Shape("simulate_statevector_outcomes not found")
    good = 0
    for n in ast.walk(fns[0]):
        if not isinstance(n, ast.Call):
            continue
        f = n.func
        is_isclose = (isinstance(f, ast.Attribute) and f.attr == "isclose") or (isinstance(f, ast.Name) and f.id == "isclose")
        if not is_isclose:
            continue
        ok = (
            isinstance(f, ast.Attribute)
            and isinstance(f.value, ast.Name)
            and f.value.id == "np"
            and len(n.args) == 2
            and isinstance(n.args[0], ast.Name)
            and isinstance(n.args[1], ast.Constant)
            and n.args[1].value == 0
            and not isinstance(n.args[1].value, bool)
            and len(n.keywords) == 1
            and n.keywords[0].arg == "atol"
            and isinstance(n.keywords[0].value, ast.Name)
            and n.keywords[0].value.id == "_TOLERANCE"
        )
        if not ok:
            raise Shape("an isclose call in simulate_statevector_outcomes has an unrecognised shape")
        good += 1
    return f"{good}%nat"


FACTS = [
    ("sim_tolerance", "Q", fact_sim_tolerance),
    ("sim_isclose_sites", "nat", fact_sim_isclose_sites),
]

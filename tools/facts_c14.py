"""Facts for C14 (qpd/decompose.py): data only, fail-closed (raise Shape when the AST is not as expected)."""
from __future__ import annotations

import ast

from extract_facts import Shape, parse, coq_list, coq_string, _functions, _raises_in

REL = "qpd/decompose.py"


def _fn(name):
    tree, src = parse(REL)
    found = [node for qn, node in _functions(tree) if qn == name]
    if len(found) != 1:
        raise Shape(f"{name}: expected exactly one definition, found {len(found)}")
    return found[0], src


def _walk_no_nested(fn):
    stack = list(ast.iter_child_nodes(fn))
    out = []
    while stack:
        x = stack.pop()
        if isinstance(x, (ast.FunctionDef, ast.AsyncFunctionDef, ast.ClassDef)):
            continue
        out.append(x)
        stack.extend(ast.iter_child_nodes(x))
    return out


def _first_text(e):
    """leading literal text of the message of `raise ValueError(<str or f-string>)`."""
    if not (isinstance(e, ast.Call) and isinstance(e.func, ast.Name) and e.func.id == "ValueError" and len(e.args) == 1):
        raise Shape("raise is not ValueError(<one message>)")
    a = e.args[0]
    if isinstance(a, ast.Constant) and isinstance(a.value, str):
        return a.value
    if isinstance(a, ast.JoinedStr) and a.values and isinstance(a.values[0], ast.Constant) and isinstance(a.values[0].value, str):
        return a.values[0].value
    raise Shape("message does not start with literal text")


def fact_validate_messages():
    """first 20 characters of every ValueError message of _validate_qpd_instructions, in source order
    (= the order in which the model performs the checks)."""
    fn, _ = _fn("_validate_qpd_instructions")
    raises = [x for x in _walk_no_nested(fn) if isinstance(x, ast.Raise) and x.exc is not None]
    raises.sort(key=lambda r: (r.lineno, r.col_offset))
    if not raises:
        raise Shape("no raise found")
    return coq_list([coq_string(_first_text(r.exc)[:20]) for r in raises])


def fact_offset_updates():
    """every update of data_id_offset in _decompose_qpd_instructions, in source order, as '<op><literal>'."""
    fn, _ = _fn("_decompose_qpd_instructions")
    ups = []
    for x in _walk_no_nested(fn):
        if isinstance(x, ast.AugAssign) and isinstance(x.target, ast.Name) and x.target.id == "data_id_offset":
            if not (isinstance(x.value, ast.Constant) and isinstance(x.value.value, int)):
                raise Shape("data_id_offset updated by a non-literal")
            op = {ast.Add: "+=", ast.Sub: "-="}.get(type(x.op))
            if op is None:
                raise Shape("data_id_offset updated by an unexpected operator")
            ups.append((x.lineno, f"{op}{x.value.value}"))
        elif isinstance(x, ast.Assign) and any(isinstance(t, ast.Name) and t.id == "data_id_offset" for t in x.targets):
            if not (isinstance(x.value, ast.Constant) and x.value.value == 0):
                raise Shape("data_id_offset assigned something other than 0")
            ups.append((x.lineno, "=0"))
    ups.sort()
    if not ups:
        raise Shape("no data_id_offset update found")
    return coq_list([coq_string(u) for _, u in ups])


def fact_sorted_2q():
    """qpdgate_ids_2q = sorted(qpdgate_ids_2q) is present exactly once."""
    fn, _ = _fn("_decompose_qpd_instructions")
    n = 0
    for x in _walk_no_nested(fn):
        if (isinstance(x, ast.Assign) and len(x.targets) == 1 and isinstance(x.targets[0], ast.Name)
                and x.targets[0].id == "qpdgate_ids_2q" and isinstance(x.value, ast.Call)
                and isinstance(x.value.func, ast.Name) and x.value.func.id == "sorted" and len(x.value.args) == 1
                and not x.value.keywords and isinstance(x.value.args[0], ast.Name) and x.value.args[0].id == "qpdgate_ids_2q"):
            n += 1
    if n != 1:
        raise Shape(f"expected one `qpdgate_ids_2q = sorted(qpdgate_ids_2q)`, found {n}")
    return "true"


def fact_min_register():
    """ClassicalRegister(max(<literal>, len(qpd_measure_ids)), ...): the literal."""
    fn, _ = _fn("_decompose_qpd_measurements")
    vals = []
    for x in _walk_no_nested(fn):
        if isinstance(x, ast.Call) and isinstance(x.func, ast.Name) and x.func.id == "ClassicalRegister":
            if not x.args:
                raise Shape("ClassicalRegister without positional size")
            a = x.args[0]
            if not (isinstance(a, ast.Call) and isinstance(a.func, ast.Name) and a.func.id == "max" and len(a.args) == 2
                    and isinstance(a.args[0], ast.Constant) and isinstance(a.args[0].value, int)
                    and isinstance(a.args[1], ast.Call) and isinstance(a.args[1].func, ast.Name) and a.args[1].func.id == "len"):
                raise Shape("register size is not max(<int>, len(...))")
            vals.append(a.args[0].value)
    if len(vals) != 1 or vals[0] < 0:
        raise Shape(f"expected one ClassicalRegister(max(k, len(..))), found {vals}")
    return f"{vals[0]}%nat"


def fact_unset_basis_id_sites():
    """number of `raise ValueError` in _decompose_qpd_instructions (the repaired code has the one refusing basis_id None)."""
    fn, _ = _fn("_decompose_qpd_instructions")
    return f"{_raises_in(fn)}%nat"


def fact_unset_check_first():
    """in _decompose_qpd_instructions the ValueError for an unset basis_id precedes every modification of the
    circuit (`circuit.data[...] = `, `circuit.data.insert(...)`, `del circuit.data[...]`)."""
    fn, _ = _fn("_decompose_qpd_instructions")
    raises, muts = [], []
    for x in _walk_no_nested(fn):
        if isinstance(x, ast.Raise) and x.exc is not None:
            raises.append(x.lineno)
        elif isinstance(x, ast.Assign) and any(isinstance(t, ast.Subscript) for t in x.targets):
            muts.append(x.lineno)
        elif isinstance(x, ast.Delete):
            muts.append(x.lineno)
        elif (isinstance(x, ast.Call) and isinstance(x.func, ast.Attribute)
              and x.func.attr in ("insert", "append", "pop", "remove", "clear", "extend")):
            muts.append(x.lineno)
    if not muts:
        raise Shape("no circuit modification found")
    return "true" if raises and max(raises) < min(muts) else "false"


FACTS = [
    ("c14_validate_messages", "list string", fact_validate_messages),
    ("c14_offset_updates", "list string", fact_offset_updates),
    ("c14_sorted_2q", "bool", fact_sorted_2q),
    ("c14_min_register", "nat", fact_min_register),
    ("c14_decompose_value_errors", "nat", fact_unset_basis_id_sites),
    ("c14_unset_check_first", "bool", fact_unset_check_first),
]

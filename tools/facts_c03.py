"""Facts for C03 (cut_wires).  Data only; fail closed.

c03_function_sites : EVERY function defined in wire_cutting_transforms.py (qualified name, sorted) with its number of
                     `raise ValueError` sites, INCLUDING those with none.  value_error_sites (extract_facts.py) omits
                     functions without a raise site, so "0 sites" cannot be told from "no such function" there; here a
                     renamed, deleted or misspelt function is a missing key.
"""
from __future__ import annotations

from extract_facts import parse, Shape, coq_list, coq_string, _functions, _raises_in


def fact_function_sites():
    tree, _ = parse("wire_cutting_transforms.py")
    items = sorted((qn, _raises_in(fn)) for qn, fn in _functions(tree))
    if not items:
        raise Shape("wire_cutting_transforms.py defines no function")
    if len({a for a, _ in items}) != len(items):
        raise Shape("wire_cutting_transforms.py defines a function name twice")
    return coq_list([f"({coq_string(a)}, {b}%nat)" for a, b in items])


FACTS = [
    ("c03_function_sites", "list (string * nat)", fact_function_sites),
]

#!/usr/bin/env python3
"""Re-base every seeded/<id>/patch.diff onto /repo's current HEAD (after fix: commits) and re-confirm it:
suite passes with it, demo fails with it, demo passes without it.  Keeps the original as patch.orig.diff."""
import json, os, shutil, subprocess, sys
ROOT = os.path.dirname(os.path.dirname(os.path.abspath(__file__)))
only = sys.argv[1:]
head = subprocess.run(["git", "-C", "/repo", "rev-parse", "--short", "HEAD"], capture_output=True, text=True).stdout.strip()
for sid in sorted(os.listdir(os.path.join(ROOT, "seeded"))):
    if only and sid not in only: continue
    d = os.path.join(ROOT, "seeded", sid)
    meta = json.load(open(os.path.join(d, "meta.json")))
    if meta.get("rebased_on") == head and not only: continue
    wt = f"/tmp/rebase_{sid}"
    subprocess.run(["git", "-C", "/repo", "worktree", "remove", "--force", wt], capture_output=True)
    subprocess.run(["git", "-C", "/repo", "worktree", "add", "-q", wt, "HEAD"], check=True)
    env = dict(os.environ, PYTHONPATH=wt, PYTHONHASHSEED="0")
    run = lambda cmd, **k: subprocess.run(cmd, cwd=wt, env=env, capture_output=True, text=True, **k)
    try:
        src = os.path.join(d, "patch.orig.diff") if os.path.exists(os.path.join(d, "patch.orig.diff")) else os.path.join(d, "patch.diff")
        r = run(["git", "apply", "--3way", src])
        if r.returncode != 0:
            print(sid, "CONFLICT", r.stderr[-300:]); continue
        run(["git", "reset", "-q"])
        newdiff = run(["git", "diff", "HEAD"]).stdout
        t = run(["/venv/bin/python", "-m", "pytest", "-q", "-p", "no:cacheprovider", "-x"], timeout=1500)
        d1 = run(["/venv/bin/python", os.path.join(d, "demo.py")], timeout=1200)
        run(["git", "checkout", "--", "."])
        d0 = run(["/venv/bin/python", os.path.join(d, "demo.py")], timeout=1200)
        ok = t.returncode == 0 and d1.returncode != 0 and d0.returncode == 0
        print(sid, "OK" if ok else f"NOT-CONFIRMED tests={t.returncode} demo_with={d1.returncode} demo_without={d0.returncode}")
        if ok:
            if not os.path.exists(os.path.join(d, "patch.orig.diff")):
                shutil.copy(os.path.join(d, "patch.diff"), os.path.join(d, "patch.orig.diff"))
            open(os.path.join(d, "patch.diff"), "w").write(newdiff)
            meta["rebased_on"] = head
            meta.setdefault("confirmed_by_lead", []).append(f"re-confirmed on /repo {head}: suite passes with patch, demo fails with patch, passes without")
            json.dump(meta, open(os.path.join(d, "meta.json"), "w"), indent=1)
        else:
            meta["rebase_problem"] = f"on {head}: tests={t.returncode} demo_with={d1.returncode} demo_without={d0.returncode}"
            json.dump(meta, open(os.path.join(d, "meta.json"), "w"), indent=1)
    finally:
        subprocess.run(["git", "-C", "/repo", "worktree", "remove", "--force", wt], capture_output=True)
        shutil.rmtree(wt, ignore_errors=True)

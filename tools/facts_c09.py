"""Facts for property C09 (process-global state, writes to it, randomness, history sources).

Walks the AST of EVERY module of the package (fail-closed: an unexpected statement kind at
module level, a star import, a dynamic-state primitive such as globals()/setattr/exec, or a
syntax error raises Shape, which turns every fact of this file into its sentinel value).

Emitted (all `list (string * string)`, sorted unless the order is the fact):

  module_globals        (module, name)           module-level (and class-level) bindings whose value is a
                                                 mutable display/comprehension or a call; mutable/call
                                                 default arguments appear as "func(param=)"
  import_time_calls     (module, call text)      bare call statements executed at import, in source order
  global_uses           (module:function, text)  EVERY reference to a listed global from inside a function
                                                 body or a default argument, with its syntactic role
                                                 (read / arg / subscript-read / call:<method> / WRITE-…)
  global_writes         (module:function, text)  the subset of global_uses that can modify process state
                                                 (rebinding, attribute/item assignment or deletion, augmented
                                                 assignment, `global`/`nonlocal` declarations, calls of mutator
                                                 methods), PLUS every attribute/item assignment through a
                                                 function parameter other than self/cls (may alias a global),
                                                 (PARAM-WRITE, with the assigned expression; PARAM-CALL for mutator
                                                 methods), PLUS the same through a local that was bound, transitively,
                                                 to an expression mentioning a global (ALIAS-WRITE / ALIAS-CALL),
                                                 PLUS writes / mutator calls rooted at a module-level function or class
                                                 name or an imported name (DEF-WRITE / DEF-CALL: function attributes,
                                                 class attributes), PLUS, in cut_finding, writes / mutator calls through
                                                 two or more levels below self (SELF-CHAIN-WRITE / SELF-CHAIN-CALL)
  registry_method_writes(Class.method, target)   self-attribute/item writes inside the classes that have a
                                                 module-level instance in the package (ActionNames, …)
  registry_mutator_calls(module:function, text)  every call, from a function body, of a method listed in
                                                 registry_method_writes (receiver text . method)
  rng_uses              (module:function, text)  np.random.* / numpy.random.* / random.* / default_rng /
                                                 RandomState / secrets / os.urandom / uuid (imports listed under
                                                 function "<import>")
  history_sources       (module:function, text)  time / datetime / os.environ / os.getpid / id( / hash( / object
                                                 default repr uses, whole package (C09 needs the cut_finding ones)
  memoisation_sites     (module:function, text)  functools caches (hidden per-process state)
"""
from __future__ import annotations

import ast
import os

REPO = os.environ.get("CKT_REPO", "/repo")
PKG = os.path.join(REPO, "qiskit_addon_cutting")


class Shape(Exception):
    pass


def coq_string(s):
    return '"' + s.replace('"', '""') + '"'


def coq_pairs(items):
    return "[" + "; ".join(f"({coq_string(a)}, {coq_string(b)})" for a, b in items) + "]"


MUTATORS = {
    "append", "extend", "insert", "pop", "remove", "clear", "update", "setdefault", "add", "discard",
    "sort", "reverse", "popitem", "__setitem__", "__delitem__", "__setattr__", "appendleft", "popleft",
    "seed", "shuffle", "setstate", "set_state",
}
DYNAMIC = {"globals", "setattr", "delattr", "exec", "eval", "vars", "__import__", "locals", "compile"}
RNG_MODULES = {"random", "secrets", "uuid", "numpy.random"}
RNG_NAMES = {"default_rng", "RandomState", "urandom", "SystemRandom", "uuid1", "uuid4", "getrandbits", "token_bytes", "token_hex",
             "SeedSequence", "Generator", "BitGenerator", "PCG64", "MT19937", "Philox", "SFC64"}
HIST_MODULES = {"time", "datetime"}
CACHE_NAMES = {"lru_cache", "cache", "cached_property", "singledispatch", "memoize"}

_CACHE = {}


def _modules():
    out = []
    for root, dirs, files in os.walk(PKG):
        dirs.sort()
        for fn in sorted(files):
            if fn.endswith(".py"):
                rel = os.path.relpath(os.path.join(root, fn), PKG)
                mod = rel[:-3].replace(os.sep, ".")
                if mod.endswith("__init__"):
                    mod = mod[: -len("__init__")].rstrip(".") or "__init__"
                out.append((mod, rel))
    if len(out) < 20:
        raise Shape(f"only {len(out)} modules found under {PKG}")
    return out


def _is_type_checking(test):
    return (isinstance(test, ast.Name) and test.id == "TYPE_CHECKING") or (
        isinstance(test, ast.Attribute) and test.attr == "TYPE_CHECKING")


def _mutable_value(v):
    """Is the bound value possibly a mutable object?  displays, comprehensions, calls (anything constructed)."""
    if v is None:
        return False
    if isinstance(v, (ast.List, ast.Dict, ast.Set, ast.ListComp, ast.DictComp, ast.SetComp, ast.Call)):
        return True
    if isinstance(v, ast.Attribute):
        # np.inf: no; OptimizationSettings().seed (attribute of an object constructed at import): yes
        return _dotted(v) is None
    if isinstance(v, (ast.Constant, ast.Name, ast.Lambda, ast.JoinedStr, ast.UnaryOp, ast.Compare)):
        return False
    if isinstance(v, ast.Tuple):
        return any(_mutable_value(e) for e in v.elts)
    if isinstance(v, ast.BinOp):
        return _mutable_value(v.left) or _mutable_value(v.right)
    if isinstance(v, ast.IfExp):
        return _mutable_value(v.body) or _mutable_value(v.orelse)
    if isinstance(v, ast.Subscript):
        return False  # typing aliases such as  X = Dict[str, int]
    raise Shape(f"module-level value of unrecognised kind {type(v).__name__}")


def _txt(node):
    return ast.unparse(node)


def _root_name(node):
    """Leftmost Name of an attribute/subscript/call chain, or None."""
    while True:
        if isinstance(node, ast.Name):
            return node.id
        if isinstance(node, (ast.Attribute, ast.Subscript, ast.Starred)):
            node = node.value
        elif isinstance(node, ast.Call):
            node = node.func
        else:
            return None


def _chain_depth(node):
    """number of attribute/subscript steps between the root name and the written location:
    self.a = 1, self.a[k] = 2, self.a.b = 2 …"""
    d = 0
    while isinstance(node, (ast.Attribute, ast.Subscript)):
        d += 1
        node = node.value
    return d


def _dotted(node):
    parts = []
    while isinstance(node, ast.Attribute):
        parts.append(node.attr)
        node = node.value
    if isinstance(node, ast.Name):
        parts.append(node.id)
        return ".".join(reversed(parts))
    return None


class ModInfo:
    def __init__(self, mod, rel):
        self.mod = mod
        self.rel = rel
        with open(os.path.join(PKG, rel)) as f:
            self.tree = ast.parse(f.read())
        self.globals = []          # names bound at module level to mutable/call values
        self.class_attrs = []      # Class.attr
        self.defaults = []         # func(param=)
        self.import_calls = []     # call text
        self.imported = {}         # local name -> (source module text, original name)
        self.module_aliases = {}   # local alias -> module dotted name (import x.y as z)
        self.functions = []        # (qualname, node, class name or None)
        self.classes = {}          # class name -> node
        self._scan_module(self.tree.body)

    # ---- module level ----
    def _bind(self, target, value, prefix, sink):
        if isinstance(target, ast.Name):
            if target.id == "__all__":
                return
            if _mutable_value(value):
                sink.append(prefix + target.id)
        elif isinstance(target, (ast.Tuple, ast.List)):
            for e in target.elts:
                self._bind(e, ast.Call(func=ast.Name(id="?"), args=[], keywords=[]), prefix, sink)
        elif isinstance(target, (ast.Attribute, ast.Subscript)):
            raise Shape(f"{self.mod}: module-level attribute/item assignment {_txt(target)}")
        else:
            raise Shape(f"{self.mod}: module-level target {type(target).__name__}")

    def _scan_module(self, body):
        for st in body:
            if isinstance(st, ast.Import):
                for a in st.names:
                    self.module_aliases[a.asname or a.name.split(".")[0]] = a.name if a.asname else a.name.split(".")[0]
            elif isinstance(st, ast.ImportFrom):
                src = "." * st.level + (st.module or "")
                for a in st.names:
                    if a.name == "*":
                        raise Shape(f"{self.mod}: star import from {src}")
                    self.imported[a.asname or a.name] = (src, a.name)
            elif isinstance(st, ast.Assign):
                for t in st.targets:
                    self._bind(t, st.value, "", self.globals)
            elif isinstance(st, ast.AnnAssign):
                if st.value is not None:
                    self._bind(st.target, st.value, "", self.globals)
            elif isinstance(st, (ast.FunctionDef, ast.AsyncFunctionDef)):
                self._scan_function(st, "", None)
            elif isinstance(st, ast.ClassDef):
                self._scan_class(st, "")
            elif isinstance(st, ast.Expr):
                if isinstance(st.value, ast.Constant):
                    continue  # docstring
                if isinstance(st.value, ast.Call):
                    self.import_calls.append(_txt(st.value))
                else:
                    raise Shape(f"{self.mod}: module-level expression {_txt(st)[:60]}")
            elif isinstance(st, ast.If):
                if _is_type_checking(st.test):
                    for s2 in st.body:
                        if not isinstance(s2, (ast.Import, ast.ImportFrom)):
                            raise Shape(f"{self.mod}: non-import under TYPE_CHECKING")
                    self._scan_module(st.orelse)
                else:
                    # e.g. `if hasattr(0, "bit_count")` in utils.bitwise: both branches are scanned; the test is
                    # recorded among the import-time calls so that a new import-time conditional is visible
                    self.import_calls.append("if " + _txt(st.test))
                    self._scan_module(st.body)
                    self._scan_module(st.orelse)
            elif isinstance(st, ast.Try):
                # only the package-version probe of __init__ is expected
                self._scan_module(st.body)
                for h in st.handlers:
                    self._scan_module(h.body)
                self._scan_module(st.orelse)
                self._scan_module(st.finalbody)
            elif isinstance(st, ast.Pass):
                continue
            else:
                raise Shape(f"{self.mod}: module-level statement {type(st).__name__}")

    def _scan_class(self, cls, prefix):
        self.classes[prefix + cls.name] = cls
        for st in cls.body:
            if isinstance(st, ast.Assign):
                for t in st.targets:
                    self._bind(t, st.value, prefix + cls.name + ".", self.class_attrs)
            elif isinstance(st, ast.AnnAssign):
                if st.value is not None:
                    self._bind(st.target, st.value, prefix + cls.name + ".", self.class_attrs)
            elif isinstance(st, (ast.FunctionDef, ast.AsyncFunctionDef)):
                self._scan_function(st, prefix + cls.name + ".", prefix + cls.name)
            elif isinstance(st, ast.ClassDef):
                self._scan_class(st, prefix + cls.name + ".")
            elif isinstance(st, ast.Expr) and isinstance(st.value, ast.Constant):
                continue
            elif isinstance(st, ast.Pass):
                continue
            else:
                raise Shape(f"{self.mod}: class-level statement {type(st).__name__} in {cls.name}")

    def _scan_function(self, fn, prefix, cls):
        qn = prefix + fn.name
        self.functions.append((qn, fn, cls))
        a = fn.args
        pos = a.posonlyargs + a.args
        for arg, d in zip(pos[len(pos) - len(a.defaults):], a.defaults):
            if _mutable_value(d) or isinstance(d, (ast.Name, ast.Attribute)):
                self.defaults.append((qn, arg.arg, d))
        for arg, d in zip(a.kwonlyargs, a.kw_defaults):
            if d is not None and (_mutable_value(d) or isinstance(d, (ast.Name, ast.Attribute))):
                self.defaults.append((qn, arg.arg, d))
        for ch in ast.walk(fn):
            if ch is fn:
                continue
            if isinstance(ch, (ast.FunctionDef, ast.AsyncFunctionDef)) and ch in _direct_defs(fn):
                self._scan_function(ch, qn + ".", cls)
            elif isinstance(ch, ast.ClassDef) and ch in _direct_defs(fn):
                self._scan_class(ch, qn + ".")


def _direct_defs(fn):
    """defs/classes nested in fn but not inside a deeper def."""
    out = []
    stack = list(ast.iter_child_nodes(fn))
    while stack:
        x = stack.pop()
        if isinstance(x, (ast.FunctionDef, ast.AsyncFunctionDef, ast.ClassDef)):
            out.append(x)
            continue
        stack.extend(ast.iter_child_nodes(x))
    return out


def _own_nodes(fn):
    """All nodes lexically in fn's body (and decorators/defaults excluded), not inside nested defs."""
    out = []
    stack = list(fn.body)
    while stack:
        x = stack.pop()
        out.append(x)
        if isinstance(x, (ast.FunctionDef, ast.AsyncFunctionDef, ast.ClassDef)):
            continue
        stack.extend(ast.iter_child_nodes(x))
    return out


def _info():
    if "mods" in _CACHE:
        return _CACHE["mods"]
    mods = [ModInfo(m, r) for m, r in _modules()]
    _CACHE["mods"] = mods
    return mods


def _global_table():
    """(module -> set of its own mutable global names), and per module the visible names that denote a
    mutable global of some module of the package (own + imported by `from .x import name`)."""
    mods = _info()
    own = {m.mod: set(m.globals) for m in mods}
    all_names = set()
    for s in own.values():
        all_names |= s
    visible = {}
    for m in mods:
        vis = {n: m.mod for n in m.globals}
        for local, (src, orig) in m.imported.items():
            if orig in all_names and src.startswith("."):
                vis[local] = src.lstrip(".").split(".")[-1] or "?"
        visible[m.mod] = vis
    return own, visible


# ------------------------------------------------------------------------------------------------
# facts
# ------------------------------------------------------------------------------------------------

def fact_module_globals():
    items = []
    for m in _info():
        for n in m.globals:
            items.append((m.mod, n))
        for n in m.class_attrs:
            items.append((m.mod, n))
        for qn, p, d in m.defaults:
            if _mutable_value(d):
                items.append((m.mod, f"{qn}({p}={_txt(d)})"))
    return coq_pairs(sorted(items))


def fact_import_time_calls():
    items = []
    for m in _info():
        for c in m.import_calls:
            items.append((m.mod, c))
    return coq_pairs(items)  # source order is the fact (registration order)


def _params(fn):
    a = fn.args
    ps = [x.arg for x in a.posonlyargs + a.args + a.kwonlyargs]
    if a.vararg:
        ps.append(a.vararg.arg)
    if a.kwarg:
        ps.append(a.kwarg.arg)
    return ps


def _local_bindings(fn):
    """names bound in fn's own scope (assignment targets, for targets, with-as, comprehension vars excluded)."""
    bound = {}
    for x in _own_nodes(fn):
        tg = []
        if isinstance(x, ast.Assign):
            tg = [(t, x.value) for t in x.targets]
        elif isinstance(x, ast.AnnAssign) and x.value is not None:
            tg = [(x.target, x.value)]
        elif isinstance(x, ast.AugAssign):
            tg = [(x.target, x.value)]
        elif isinstance(x, (ast.For, ast.AsyncFor)):
            tg = [(x.target, x.iter)]
        elif isinstance(x, ast.NamedExpr):
            tg = [(x.target, x.value)]
        elif isinstance(x, (ast.With, ast.AsyncWith)):
            tg = [(i.optional_vars, i.context_expr) for i in x.items if i.optional_vars is not None]
        for t, v in tg:
            for n in ast.walk(t):
                if isinstance(n, ast.Name) and isinstance(n.ctx, ast.Store):
                    bound.setdefault(n.id, []).append(v)
    return bound


def _uses():
    """-> (uses, writes): lists of (module:function, text)."""
    if "uses" in _CACHE:
        return _CACHE["uses"]
    own, visible = _global_table()
    uses, writes = [], []
    for m in _info():
        vis = visible[m.mod]
        # default arguments referring to a global (evaluated once, at import: an alias for all later calls)
        for qn, p, d in m.defaults:
            for n in ast.walk(d):
                if isinstance(n, ast.Name) and n.id in vis:
                    uses.append((f"{m.mod}:{qn}", f"default {p}={n.id}"))
        for qn, fn, cls in m.functions:
            where = f"{m.mod}:{qn}"
            params = _params(fn)
            bound = _local_bindings(fn)
            declared = set()
            nodes = _own_nodes(fn)
            for x in nodes:
                if isinstance(x, (ast.Global, ast.Nonlocal)):
                    kind = "global" if isinstance(x, ast.Global) else "nonlocal"
                    for n in x.names:
                        declared.add(n)
                        writes.append((where, f"{kind} {n}"))
                if isinstance(x, ast.Call) and isinstance(x.func, ast.Name) and x.func.id in DYNAMIC:
                    raise Shape(f"{where}: dynamic state primitive {x.func.id}()")
                if isinstance(x, ast.Attribute) and x.attr in ("__dict__", "modules") and not isinstance(x.ctx, ast.Store):
                    raise Shape(f"{where}: {_txt(x)}")

            def is_global_name(name):
                if name in declared:
                    return True
                return name in vis and name not in params and name not in bound

            # locals bound to an expression that mentions a global, or (transitively) such a local: possible aliases.
            # (locals derived from parameters are NOT followed: they are mostly fresh copies; the dynamic fingerprints of the
            # correspondence cover that route)
            tainted = set()
            changed = True
            while changed:
                changed = False
                for name, vals in bound.items():
                    for v in vals:
                        names = {n.id for n in ast.walk(v) if isinstance(n, ast.Name)}
                        if name not in tainted and any(is_global_name(n) or n in tainted for n in names):
                            tainted.add(name)
                            changed = True

            parent = {}
            for x in nodes:
                for ch in ast.iter_child_nodes(x):
                    parent[id(ch)] = x
            def_names = {q.split(".")[0] for q, _f, _c in m.functions} | {c.split(".")[0] for c in m.classes}

            def write_target(t, how, value=None):
                val = "" if value is None else " := " + _txt(value)[:70]
                if isinstance(value, ast.Call) and isinstance(value.func, ast.Name) and value.func.id == "cast" \
                        and m.imported.get("cast") != ("typing", "cast"):
                    raise Shape(f"{where}: cast is not typing.cast")
                if isinstance(t, (ast.Tuple, ast.List)):
                    for e in t.elts:
                        write_target(e, how, value)
                    return
                if isinstance(t, ast.Starred):
                    write_target(t.value, how, value)
                    return
                if isinstance(t, ast.Name):
                    if t.id in declared:
                        writes.append((where, f"WRITE-{how} {t.id}{val}"))
                    return
                root = _root_name(t)
                if root is None:
                    return
                if is_global_name(root):
                    writes.append((where, f"WRITE-{how} {_txt(t)}{val}"))
                elif root in params and root not in ("self", "cls"):
                    # the assigned expression matters where a parameter can alias a process-global table (cut_finding);
                    # elsewhere (QuantumCircuit.data surgery …) only the target is recorded, so that unrelated edits of the
                    # right-hand sides do not break C09's obligation
                    pv = val if m.mod.startswith("cut_finding") else ""
                    writes.append((where, f"PARAM-WRITE-{how} {_txt(t)}{pv}"))
                elif root in tainted:
                    writes.append((where, f"ALIAS-WRITE-{how} {_txt(t)}{val}"))
                elif root in ("self", "cls"):
                    # two-level chains  self.<attr>.<attr>… = …  in cut_finding: a write THROUGH an object held by self
                    # (e.g. self.search_funcs.cost_func = … would hit the process-global SearchFunctions table)
                    if m.mod.startswith("cut_finding") and _chain_depth(t) >= 2:
                        writes.append((where, f"SELF-CHAIN-WRITE-{how} {_txt(t)}{val}"))
                elif root not in bound and root not in params and (root in def_names or root in m.imported or root in m.module_aliases):
                    # function attributes, class attributes, attributes of imported objects/modules: process-global too
                    writes.append((where, f"DEF-WRITE-{how} {_txt(t)}{val}"))


            for x in nodes:
                if isinstance(x, ast.Assign):
                    for t in x.targets:
                        write_target(t, "assign", x.value)
                elif isinstance(x, ast.AnnAssign) and x.value is not None:
                    write_target(x.target, "assign", x.value)
                elif isinstance(x, ast.AugAssign):
                    write_target(x.target, "augassign", x.value)
                elif isinstance(x, ast.Delete):
                    for t in x.targets:
                        write_target(t, "del")
                elif isinstance(x, (ast.For, ast.AsyncFor)):
                    write_target(x.target, "for")
                elif isinstance(x, (ast.With, ast.AsyncWith)):
                    for i in x.items:
                        if i.optional_vars is not None:
                            write_target(i.optional_vars, "with")
                elif isinstance(x, ast.Call) and isinstance(x.func, ast.Attribute) and x.func.attr in MUTATORS \
                        and _root_name(x.func.value) is not None and not is_global_name(_root_name(x.func.value)):
                    root = _root_name(x.func.value)
                    if root in params and root not in ("self", "cls"):
                        writes.append((where, f"PARAM-CALL {_txt(x.func)}"))
                    elif root in tainted:
                        writes.append((where, f"ALIAS-CALL {_txt(x.func)}"))
                    elif root in ("self", "cls"):
                        if m.mod.startswith("cut_finding") and _chain_depth(x.func.value) >= 2:
                            writes.append((where, f"SELF-CHAIN-CALL {_txt(x.func)}"))
                    elif root not in bound and root not in params and _chain_depth(x.func.value) >= 1 and (
                            root in def_names or root in m.imported):
                        writes.append((where, f"DEF-CALL {_txt(x.func)}"))

                elif isinstance(x, ast.Name) and isinstance(x.ctx, ast.Load) and is_global_name(x.id):
                    p = parent.get(id(x))
                    role = "read"
                    if isinstance(p, ast.Attribute) and p.value is x:
                        pp = parent.get(id(p))
                        if isinstance(pp, ast.Call) and pp.func is p:
                            role = f"call:{p.attr}"
                            if p.attr in MUTATORS:
                                writes.append((where, f"WRITE-call {x.id}.{p.attr}"))
                        elif isinstance(p.ctx, ast.Store) or isinstance(p.ctx, ast.Del):
                            role = f"attr-write:{p.attr}"
                        else:
                            role = f"attr:{p.attr}"
                    elif isinstance(p, ast.Subscript) and p.value is x:
                        role = "item-write" if isinstance(p.ctx, (ast.Store, ast.Del)) else "subscript-read"
                    elif isinstance(p, ast.Call) and (x in p.args):
                        role = f"arg-of:{_txt(p.func)}"
                    elif isinstance(p, ast.keyword):
                        pp = parent.get(id(p))
                        role = f"kwarg:{p.arg}-of:{_txt(pp.func) if isinstance(pp, ast.Call) else '?'}"
                    uses.append((where, f"{x.id} {role}"))
    uses = sorted(set(uses))
    writes = sorted(set(writes))
    _CACHE["uses"] = (uses, writes)
    return uses, writes


def fact_global_uses():
    return coq_pairs(_uses()[0])


def fact_global_writes():
    return coq_pairs(_uses()[1])


def _registry_classes():
    """Classes of the package that are instantiated at import time (module-level assignment values, import-time
    call arguments, class-level attribute values, default arguments), closed under base classes defined in the
    package.  Their instances are the process-global objects."""
    mods = _info()
    cls_index = {}
    for m in mods:
        for cn, node in m.classes.items():
            cls_index.setdefault(cn, []).append((m, node))
    out = {}
    sites = []

    def note(cn, where):
        for (cm, node) in cls_index[cn]:
            if cn not in out:
                out[cn] = (cm, node)
            sites.append((cn, where))

    def visit_import_time(m, body):
        for st in body:
            if isinstance(st, (ast.FunctionDef, ast.AsyncFunctionDef)):
                for d in list(st.args.defaults) + [k for k in st.args.kw_defaults if k is not None] + list(st.decorator_list):
                    for x in ast.walk(d):
                        if isinstance(x, ast.Call) and isinstance(x.func, ast.Name) and x.func.id in cls_index:
                            note(x.func.id, f"{m.mod}:{st.name}")
                continue
            if isinstance(st, ast.ClassDef):
                visit_import_time(m, st.body)
                continue
            for x in ast.walk(st):
                if isinstance(x, ast.Call) and isinstance(x.func, ast.Name) and x.func.id in cls_index:
                    note(x.func.id, m.mod)

    for m in mods:
        visit_import_time(m, m.tree.body)
    # close under package-defined base classes
    changed = True
    while changed:
        changed = False
        for cn, (cm, node) in list(out.items()):
            for b in node.bases:
                bn = b.id if isinstance(b, ast.Name) else None
                if bn in cls_index and bn not in out:
                    note(bn, f"base of {cn}")
                    changed = True
    return out, sorted(set(sites))


def fact_registry_classes():
    return coq_pairs(_registry_classes()[1])


def _registry_method_writes():
    items = []
    for cn, (m, node) in sorted(_registry_classes()[0].items()):
        for st in node.body:
            if not isinstance(st, (ast.FunctionDef, ast.AsyncFunctionDef)):
                continue
            for x in _own_nodes(st):
                tg = []
                if isinstance(x, ast.Assign):
                    tg = list(x.targets)
                elif isinstance(x, (ast.AugAssign, ast.AnnAssign)):
                    tg = [x.target]
                elif isinstance(x, ast.Delete):
                    tg = list(x.targets)
                for t in tg:
                    if isinstance(t, (ast.Attribute, ast.Subscript)) and _root_name(t) == "self":
                        items.append((f"{cn}.{st.name}", _txt(t)))
                if isinstance(x, ast.Call) and isinstance(x.func, ast.Attribute) and x.func.attr in MUTATORS \
                        and _root_name(x.func.value) == "self":
                    items.append((f"{cn}.{st.name}", _txt(x.func)))
    return sorted(set(items))


def fact_registry_method_writes():
    return coq_pairs(_registry_method_writes())


def fact_registry_mutator_calls():
    methods = {a.split(".", 1)[1] for a, _ in _registry_method_writes()} - {"__init__", "__post_init__"}
    items = []
    for m in _info():
        for qn, fn, cls in m.functions:
            for x in _own_nodes(fn):
                if isinstance(x, ast.Call) and isinstance(x.func, ast.Attribute) and x.func.attr in methods:
                    items.append((f"{m.mod}:{qn}", _txt(x.func)))
    return coq_pairs(sorted(set(items)))


def _walk_with_function(m):
    """yield (function qualname or '<module>', node) for every node of the module, each node attributed to the
    innermost enclosing def."""
    owned = set()
    for qn, fn, cls in m.functions:
        for x in _own_nodes(fn):
            owned.add(id(x))
            yield qn, x
        for d in fn.decorator_list:
            for x in ast.walk(d):
                owned.add(id(x))
                yield qn, x
        for d in list(fn.args.defaults) + [k for k in fn.args.kw_defaults if k is not None]:
            for x in ast.walk(d):
                owned.add(id(x))
                yield qn, x
    for x in ast.walk(m.tree):
        if id(x) not in owned and not isinstance(x, (ast.FunctionDef, ast.AsyncFunctionDef)):
            yield "<module>", x


def fact_rng_uses():
    items = []
    for m in _info():
        rng_local = {}   # local name -> description (imported from an RNG module)
        for st in ast.walk(m.tree):
            if isinstance(st, ast.Import):
                for a in st.names:
                    if a.name in RNG_MODULES or a.name.split(".")[0] in ("random", "secrets", "uuid"):
                        items.append((f"{m.mod}:<import>", f"import {a.name}"))
                        rng_local[a.asname or a.name.split(".")[0]] = a.name
            elif isinstance(st, ast.ImportFrom):
                src = st.module or ""
                if src in RNG_MODULES or src.startswith("numpy.random"):
                    for a in st.names:
                        items.append((f"{m.mod}:<import>", f"from {src} import {a.name}"))
                        rng_local[a.asname or a.name] = f"{src}.{a.name}"
                elif src == "numpy":
                    for a in st.names:
                        if a.name == "random":
                            items.append((f"{m.mod}:<import>", "from numpy import random"))
                            rng_local[a.asname or a.name] = "numpy.random"
                elif src == "os":
                    for a in st.names:
                        if a.name == "urandom":
                            items.append((f"{m.mod}:<import>", "from os import urandom"))
                            rng_local[a.asname or a.name] = "os.urandom"
        seen_attr_children = set()
        for qn, x in _walk_with_function(m):
            where = f"{m.mod}:{qn}"
            if isinstance(x, ast.Attribute):
                d = _dotted(x)
                if d is None:
                    if x.attr in RNG_NAMES:
                        items.append((where, "?." + x.attr))
                    continue
                parts = d.split(".")
                hit = False
                if len(parts) >= 3 and parts[0] in ("np", "numpy") and parts[1] == "random":
                    hit = True
                elif parts[0] in rng_local and len(parts) >= 2:
                    hit = True
                elif parts[0] == "os" and parts[1] == "urandom":
                    hit = True
                elif parts[-1] in RNG_NAMES:
                    hit = True
                if hit:
                    # record only maximal chains (np.random.Generator inside np.random.Generator.x …)
                    items.append((where, ".".join(parts[:3]) if parts[0] in ("np", "numpy") else d))
            elif isinstance(x, ast.Name) and isinstance(x.ctx, ast.Load):
                if x.id in rng_local and x.id not in ("np", "numpy"):
                    items.append((where, x.id))
                elif x.id in RNG_NAMES:
                    items.append((where, x.id))
    # drop the attribute-root duplicates: a Name `random` used as root of random.x is reported as random.x only
    out = set(items)
    roots = {(w, t.split(".")[0]) for (w, t) in out if "." in t and not t.startswith(("import", "from"))}
    out = {(w, t) for (w, t) in out if not ((w, t) in roots and "." not in t and any(
        (w2 == w and t2.startswith(t + ".")) for (w2, t2) in out))}
    return coq_pairs(sorted(out))


def fact_history_sources():
    items = []
    for m in _info():
        hist_local = set()
        for st in ast.walk(m.tree):
            if isinstance(st, ast.Import):
                for a in st.names:
                    if a.name.split(".")[0] in HIST_MODULES:
                        items.append((f"{m.mod}:<import>", f"import {a.name}"))
                        hist_local.add(a.asname or a.name.split(".")[0])
            elif isinstance(st, ast.ImportFrom) and (st.module or "").split(".")[0] in HIST_MODULES:
                for a in st.names:
                    items.append((f"{m.mod}:<import>", f"from {st.module} import {a.name}"))
                    hist_local.add(a.asname or a.name)
        for qn, x in _walk_with_function(m):
            where = f"{m.mod}:{qn}"
            if isinstance(x, ast.Call) and isinstance(x.func, ast.Name) and x.func.id in ("id", "hash", "object"):
                items.append((where, f"{x.func.id}("))
            elif isinstance(x, ast.Attribute):
                d = _dotted(x)
                if d and (d.startswith("os.environ") or d in ("os.getenv", "os.getpid", "os.times", "sys.argv")):
                    items.append((where, d))
                elif d and d.split(".")[0] in hist_local:
                    items.append((where, d))
            elif isinstance(x, ast.Name) and isinstance(x.ctx, ast.Load) and x.id in hist_local:
                items.append((where, x.id))
    return coq_pairs(sorted(set(items)))


def fact_memoisation_sites():
    items = []
    for m in _info():
        for qn, fn, cls in m.functions:
            for d in fn.decorator_list:
                for x in ast.walk(d):
                    name = x.id if isinstance(x, ast.Name) else x.attr if isinstance(x, ast.Attribute) else None
                    if name in CACHE_NAMES:
                        items.append((f"{m.mod}:{qn}", _txt(d)))
    return coq_pairs(sorted(set(items)))


def _const_text(v):
    if isinstance(v, ast.Constant) and (v.value is None or isinstance(v.value, str)):
        return "None" if v.value is None else v.value
    raise Shape(f"action name/group is not a None/str literal: {_txt(v)}")


def _single_return(cls_node, method):
    for st in cls_node.body:
        if isinstance(st, ast.FunctionDef) and st.name == method:
            body = [b for b in st.body if not (isinstance(b, ast.Expr) and isinstance(b.value, ast.Constant))]
            if len(body) == 1 and isinstance(body[0], ast.Return) and body[0].value is not None:
                return body[0].value
            raise Shape(f"{cls_node.name}.{method}: body is not a single return")
    raise Shape(f"{cls_node.name}.{method} not found")


def fact_action_table():
    """(name, comma-joined group names) of the actions registered at import, in registration order."""
    m = next(x for x in _info() if x.mod == "cut_finding.cutting_actions")
    items = []
    for st in m.tree.body:
        if isinstance(st, ast.Expr) and isinstance(st.value, ast.Call):
            c = st.value
            if not (isinstance(c.func, ast.Attribute) and c.func.attr == "define_action"
                    and isinstance(c.func.value, ast.Name) and c.func.value.id == "disjoint_subcircuit_actions"
                    and len(c.args) == 1 and isinstance(c.args[0], ast.Call) and isinstance(c.args[0].func, ast.Name)
                    and not c.args[0].args and not c.args[0].keywords and not c.keywords):
                raise Shape(f"import-time call of unexpected shape: {_txt(c)}")
            cls = m.classes.get(c.args[0].func.id)
            if cls is None:
                raise Shape(f"action class {c.args[0].func.id} not defined in cutting_actions")
            name = _const_text(_single_return(cls, "get_name"))
            groups = _single_return(cls, "get_group_names")
            if not isinstance(groups, (ast.List, ast.Tuple)):
                raise Shape(f"{cls.name}.get_group_names does not return a list display")
            items.append((name, ",".join(_const_text(g) for g in groups.elts)))
    if not items:
        raise Shape("no registered actions")
    return coq_pairs(items)


SLOTS = ["cost_func", "next_state_func", "goal_state_func", "upperbound_cost_func", "mincost_bound_func"]


def fact_func_tables():
    """(module:slot, function name) for every module-level  X = SearchFunctions(slot=fn, …)  table, slots in
    dataclass field order; an unset slot is "None"."""
    ssg = next(x for x in _info() if x.mod == "cut_finding.search_space_generator")
    cls = ssg.classes.get("SearchFunctions")
    if cls is None:
        raise Shape("SearchFunctions not found")
    fields = [st.target.id for st in cls.body if isinstance(st, ast.AnnAssign) and isinstance(st.target, ast.Name)]
    if fields != SLOTS:
        raise Shape(f"SearchFunctions fields are {fields}")
    if not any(isinstance(d, ast.Name) and d.id == "dataclass" for d in cls.decorator_list):
        raise Shape("SearchFunctions is not a plain @dataclass")
    items = []
    for m in _info():
        for st in m.tree.body:
            if isinstance(st, ast.Assign) and isinstance(st.value, ast.Call) and isinstance(st.value.func, ast.Name) \
                    and st.value.func.id == "SearchFunctions":
                if st.value.args or len(st.targets) != 1 or not isinstance(st.targets[0], ast.Name):
                    raise Shape(f"{m.mod}: SearchFunctions table of unexpected shape")
                kw = {}
                for k in st.value.keywords:
                    if k.arg not in SLOTS or not isinstance(k.value, ast.Name):
                        raise Shape(f"{m.mod}: SearchFunctions keyword {k.arg}={_txt(k.value)}")
                    kw[k.arg] = k.value.id
                for sl in SLOTS:
                    items.append((f"{m.mod}:{st.targets[0].id}.{sl}", kw.get(sl, "None")))
    if len(items) != 10:
        raise Shape(f"expected two SearchFunctions tables, found {len(items) // 5}")
    return coq_pairs(items)


def fact_anonymous_registers():
    """Register constructions without a name: Qiskit numbers anonymous registers with a process-global counter, so
    their NAMES depend on the history of the process (the harness interns such names like uuids)."""
    items = []
    for m in _info():
        for qn, x in _walk_with_function(m):
            if isinstance(x, ast.Call):
                f = x.func
                name = f.id if isinstance(f, ast.Name) else f.attr if isinstance(f, ast.Attribute) else None
                if name in ("QuantumRegister", "ClassicalRegister", "AncillaRegister"):
                    named = any(k.arg == "name" for k in x.keywords) or len(x.args) >= 2
                    if not named:
                        items.append((f"{m.mod}:{qn}", _txt(x)))
    return coq_pairs(sorted(set(items)))


_T = "list (string * string)"
FACTS = [
    ("c09_module_globals", _T, fact_module_globals),
    ("c09_import_time_calls", _T, fact_import_time_calls),
    ("c09_global_uses", _T, fact_global_uses),
    ("c09_global_writes", _T, fact_global_writes),
    ("c09_action_table", _T, fact_action_table),
    ("c09_func_tables", _T, fact_func_tables),
    ("c09_registry_classes", _T, fact_registry_classes),
    ("c09_registry_method_writes", _T, fact_registry_method_writes),
    ("c09_registry_mutator_calls", _T, fact_registry_mutator_calls),
    ("c09_rng_uses", _T, fact_rng_uses),
    ("c09_history_sources", _T, fact_history_sources),
    ("c09_memoisation_sites", _T, fact_memoisation_sites),
    ("c09_anonymous_registers", _T, fact_anonymous_registers),
]

if __name__ == "__main__":
    for name, ty, fn in FACTS:
        print(name)
        try:
            v = fn()
        except Shape as e:
            print("   SHAPE FAILURE:", e)
            continue
        for it in v[1:-1].split("); ("):
            print("   ", it)

#!/usr/bin/env python3
"""Run every registered check once (sequentially) and print a summary table.
    python3 tools/full_pass.py [--tier quick] [--only C03,C04] [--repo /tmp/ckt_fixed]
"""
import argparse, json, os, subprocess, sys, time
ROOT = os.path.dirname(os.path.dirname(os.path.abspath(__file__)))
sys.path.insert(0, os.path.join(ROOT, "lib"))
from props import PROPS
ap = argparse.ArgumentParser(); ap.add_argument("--tier", default="quick"); ap.add_argument("--only"); ap.add_argument("--repo"); ap.add_argument("--tag", default="")
a = ap.parse_args()
ids = a.only.split(",") if a.only else sorted(PROPS)
env = dict(os.environ)
if a.repo: env["CKT_REPO"] = a.repo
if a.tag: env["CKT_TAG"] = a.tag
rows = []
for pid in ids:
    t = time.time()
    r = subprocess.run(["python3", os.path.join(ROOT, "run.py"), pid, "--tier", a.tier], cwd=ROOT, env=env, capture_output=True, text=True)
    lines = r.stdout.strip().splitlines()
    viol = [l for l in lines if l.startswith("VIOLATION")]
    kf = [l for l in lines if l.startswith("KNOWN-FINDING")]
    rows.append((pid, r.returncode, round(time.time() - t, 1), viol, kf, [l for l in lines if "problem:" in l][:3]))
    print(pid, "exit", r.returncode, f"{time.time()-t:.0f}s", viol[:1], kf, flush=True)
print("\nSUMMARY")
for pid, rc, dt, viol, kf, pb in rows:
    print(f"{pid}: exit={rc} wall={dt}s violations={len(viol)} known={len(kf)} {pb}")

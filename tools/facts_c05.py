"""Facts for C05 (cutting_experiments.py: generate_cutting_experiments and helpers): data only, fail-closed."""
from __future__ import annotations

import ast

from extract_facts import Shape, parse, coq_list, coq_string, _functions

REL = "cutting_experiments.py"


def _fn(name, rel=REL):
    tree, src = parse(rel)
    found = [node for qn, node in _functions(tree) if qn == name]
    if len(found) != 1:
        raise Shape(f"{name}: expected exactly one definition, found {len(found)}")
    return found[0]


def _walk_no_nested(fn):
    stack = list(ast.iter_child_nodes(fn))
    out = []
    while stack:
        x = stack.pop()
        if isinstance(x, (ast.FunctionDef, ast.AsyncFunctionDef, ast.ClassDef)):
            continue
        out.append(x)
        stack.extend(ast.iter_child_nodes(x))
    return out


def _call_name(call):
    f = call.func
    if isinstance(f, ast.Name):
        return f.id
    if isinstance(f, ast.Attribute):
        return f.attr
    raise Shape("call of something that is neither a name nor an attribute")


def _stmt_call(st):
    if isinstance(st, ast.Expr) and isinstance(st.value, ast.Call):
        return _call_name(st.value)
    if isinstance(st, ast.Assign) and isinstance(st.value, ast.Call):
        return _call_name(st.value)
    return None


def _group_loop():
    fn = _fn("generate_cutting_experiments")
    loops = [x for x in _walk_no_nested(fn) if isinstance(x, ast.For) and ast.unparse(x.iter) == "enumerate(so.groups)"]
    if len(loops) != 1:
        raise Shape(f"expected one `for .. in enumerate(so.groups)` loop, found {len(loops)}")
    return loops[0]


def fact_group_loop_calls():
    """statement-level calls of the innermost loop, in order; a guarded `if ...: _remove_final_resets(..)` (the F2 repair)
    is reported by c05_f2_guard instead."""
    names = []
    for st in _group_loop().body:
        if isinstance(st, ast.If):
            continue
        n = _stmt_call(st)
        if n is None:
            raise Shape(f"unexpected statement in the group loop: {ast.unparse(st)[:60]}")
        names.append(n)
    return coq_list([coq_string(n) for n in names])


def fact_f2_guard():
    """[] when the loop has no `if`; otherwise [position among the loop's statements, test, calls in the body...]."""
    body = _group_loop().body
    ifs = [(i, st) for i, st in enumerate(body) if isinstance(st, ast.If)]
    if not ifs:
        return coq_list([])
    if len(ifs) > 1 or ifs[0][1].orelse:
        raise Shape("more than one conditional / an else branch in the group loop")
    i, st = ifs[0]
    inner = [_stmt_call(s) for s in st.body]
    if any(n is None for n in inner):
        raise Shape("conditional body is not a list of calls")
    return coq_list([coq_string(str(i)), coq_string(ast.unparse(st.test))] + [coq_string(n) for n in inner])


def fact_pass_order():
    fn = _fn("generate_cutting_experiments")
    loops = [x for x in _walk_no_nested(fn) if isinstance(x, ast.For) and ast.unparse(x.iter) == "subexperiments"]
    if len(loops) != 1:
        raise Shape(f"expected one `for circ in subexperiments` loop, found {len(loops)}")
    names = [_stmt_call(st) for st in loops[0].body]
    if any(n is None for n in names):
        raise Shape("pass loop contains something that is not a call")
    return coq_list([coq_string(n) for n in names])


def _assign_rhs(fn, target):
    hits = [x for x in _walk_no_nested(fn) if isinstance(x, ast.Assign) and len(x.targets) == 1
            and ast.unparse(x.targets[0]) == target]
    if len(hits) != 1:
        raise Shape(f"expected one assignment to {target}, found {len(hits)}")
    return ast.unparse(hits[0].value)


def fact_formulas():
    """the right-hand sides the coefficient model mirrors."""
    fn = _fn("generate_cutting_experiments")
    return coq_list([coq_string(_assign_rhs(fn, t)) for t in
                     ["kappa", "num_samples", "sorted_samples", "actual_coeff", "sampled_coeff", "map_ids_tmp"][:5]]
                    + [coq_string(";".join(sorted(ast.unparse(x.value) for x in _walk_no_nested(fn)
                                                 if isinstance(x, ast.Assign) and ast.unparse(x.targets[0]) == "map_ids_tmp")))])


def fact_dummy_index():
    fn = _fn("_get_pauli_indices")
    hits = [x for x in _walk_no_nested(fn) if isinstance(x, ast.Assign) and ast.unparse(x.targets[0]) == "pauli_indices"]
    hits.sort(key=lambda x: (x.lineno, x.col_offset))
    return coq_list([coq_string(ast.unparse(x.value)) for x in hits])


def fact_register_names():
    a = _fn("_append_measurement_register")
    b = _fn("_decompose_qpd_measurements", "qpd/decompose.py")
    out = []
    for fn in (a, b):
        for x in _walk_no_nested(fn):
            if isinstance(x, ast.Call) and _call_name(x) == "ClassicalRegister":
                kw = [k for k in x.keywords if k.arg == "name"]
                if len(kw) != 1 or not isinstance(kw[0].value, ast.Constant):
                    raise Shape("ClassicalRegister without literal name=")
                out.append(kw[0].value.value)
    return coq_list([coq_string(n) for n in out])


def fact_loops():
    """the for-loops of generate_cutting_experiments in source order as '<nesting depth>:<target> in <iterable>'."""
    fn = _fn("generate_cutting_experiments")
    out = []

    def walk(node, depth):
        for ch in ast.iter_child_nodes(node):
            if isinstance(ch, (ast.FunctionDef, ast.AsyncFunctionDef, ast.ClassDef, ast.Lambda)):
                continue
            if isinstance(ch, ast.For):
                out.append((ch.lineno, f"{depth}:{ast.unparse(ch.target)} in {ast.unparse(ch.iter)}"))
                walk(ch, depth + 1)
            elif isinstance(ch, (ast.ListComp, ast.DictComp, ast.GeneratorExp, ast.SetComp)):
                continue
            else:
                walk(ch, depth)

    walk(fn, 0)
    out.sort()
    return coq_list([coq_string(t) for _, t in out])


def fact_label_parse():
    """how the cut id is read off a label (both helpers) and how `bases` is ordered."""
    a = _fn("_get_mapping_ids_by_partition")
    b = _fn("_get_bases_by_partition")
    return coq_list([coq_string(_assign_rhs(a, "decomp_id")), coq_string(_assign_rhs(b, "decomp_id")), coq_string(_assign_rhs(b, "bases"))])


FACTS = [
    ("c05_label_parse", "list string", fact_label_parse),
    ("c05_loops", "list string", fact_loops),
    ("c05_group_loop_calls", "list string", fact_group_loop_calls),
    ("c05_f2_guard", "list string", fact_f2_guard),
    ("c05_pass_order", "list string", fact_pass_order),
    ("c05_formulas", "list string", fact_formulas),
    ("c05_dummy_index", "list string", fact_dummy_index),
    ("c05_register_names", "list string", fact_register_names),
]

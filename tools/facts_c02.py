"""Facts for C02/C15 extracted from qpd/decompositions.py (data only, fail-closed).

  cx_family_coeffs    : list Q       literal `coeffs = [...]` of the cx/cy/cz/ch function
  move_table_coeffs   : list Q       third components of the rows of the move table
  family_coeff_shape  : list string  shape of the rxx-family coefficient list over theta_prime
                                     (requires theta_prime = -theta / 2 and cs_theta_prime = cos*sin)
  nonlocal_term_count : nat          number of rows of the zip(...) table in _nonlocal_qpd_basis_from_u
"""
from __future__ import annotations

import ast
import os
from fractions import Fraction

REPO = os.environ.get("CKT_REPO", "/repo")
SRC = os.path.join(REPO, "qiskit_addon_cutting", "qpd", "decompositions.py")
QSENT = "[(Qmake (-1)%Z 1%positive)]"


def _tree():
    with open(SRC) as f:
        return ast.parse(f.read())


def _registered(tree, name):
    for node in tree.body:
        if isinstance(node, ast.FunctionDef):
            for d in node.decorator_list:
                if isinstance(d, ast.Call) and getattr(d.func, "id", None) == "_register_qpdbasis_from_instruction":
                    if any(isinstance(a, ast.Constant) and a.value == name for a in d.args):
                        return node
    raise ValueError(f"no function registered for {name}")


def _num(node):
    if isinstance(node, ast.UnaryOp) and isinstance(node.op, ast.USub):
        return -_num(node.operand)
    if isinstance(node, ast.Constant) and isinstance(node.value, (int, float)) and not isinstance(node.value, bool):
        return Fraction(repr(node.value))
    raise ValueError("not a numeric literal: " + ast.dump(node))


def _q(fr):
    return f"(Qmake ({fr.numerator})%Z ({fr.denominator})%positive)"


def _assign(fn, name):
    found = [n for n in ast.walk(fn) if isinstance(n, ast.Assign) and len(n.targets) == 1
             and isinstance(n.targets[0], ast.Name) and n.targets[0].id == name]
    if len(found) != 1:
        raise ValueError(f"{name}: expected one assignment, found {len(found)}")
    return found[0].value


def fact_cx_family_coeffs():
    try:
        v = _assign(_registered(_tree(), "cx"), "coeffs")
        if not isinstance(v, ast.List):
            raise ValueError("coeffs is not a list literal")
        return "[" + "; ".join(_q(_num(e)) for e in v.elts) + "]"
    except Exception:  # noqa: BLE001  (fail closed: sentinel breaks the obligation)
        return QSENT


def _zip_rows(fn):
    calls = [n for n in ast.walk(fn) if isinstance(n, ast.Call) and getattr(n.func, "id", None) == "zip"
             and n.args and all(isinstance(a, ast.Tuple) for a in n.args)]
    if len(calls) != 1:
        raise ValueError(f"expected one zip(<tuples>) table, found {len(calls)}")
    return calls[0].args


def fact_move_table_coeffs():
    try:
        rows = _zip_rows(_registered(_tree(), "move"))
        if any(len(r.elts) != 3 for r in rows):
            raise ValueError("move table rows are not triples")
        return "[" + "; ".join(_q(_num(r.elts[2])) for r in rows) + "]"
    except Exception:  # noqa: BLE001
        return QSENT


def _is_np_call(node, fname, argname):
    return (isinstance(node, ast.Call) and isinstance(node.func, ast.Attribute) and node.func.attr == fname
            and getattr(node.func.value, "id", None) == "np" and len(node.args) == 1
            and getattr(node.args[0], "id", None) == argname)


def fact_family_coeff_shape():
    fn = _registered(_tree(), "rxx")
    tp = _assign(fn, "theta_prime")
    ok = (isinstance(tp, ast.BinOp) and isinstance(tp.op, ast.Div) and isinstance(tp.left, ast.UnaryOp)
          and isinstance(tp.left.op, ast.USub) and getattr(tp.left.operand, "id", None) == "theta"
          and isinstance(tp.right, ast.Constant) and tp.right.value == 2)
    if not ok:
        raise ValueError("theta_prime is not -theta / 2")
    cs = _assign(fn, "cs_theta_prime")
    if not (isinstance(cs, ast.BinOp) and isinstance(cs.op, ast.Mult) and _is_np_call(cs.left, "cos", "theta_prime")
            and _is_np_call(cs.right, "sin", "theta_prime")):
        raise ValueError("cs_theta_prime is not np.cos(theta_prime) * np.sin(theta_prime)")
    v = _assign(fn, "coeffs")
    if not isinstance(v, ast.List):
        raise ValueError("coeffs is not a list literal")
    out = []
    for e in v.elts:
        if isinstance(e, ast.BinOp) and isinstance(e.op, ast.Pow) and isinstance(e.right, ast.Constant) and e.right.value == 2:
            if _is_np_call(e.left, "cos", "theta_prime"):
                out.append("cos2")
                continue
            if _is_np_call(e.left, "sin", "theta_prime"):
                out.append("sin2")
                continue
        if isinstance(e, ast.Name) and e.id == "cs_theta_prime":
            out.append("cs")
            continue
        if isinstance(e, ast.UnaryOp) and isinstance(e.op, ast.USub) and getattr(e.operand, "id", None) == "cs_theta_prime":
            out.append("-cs")
            continue
        raise ValueError("unrecognised coefficient expression: " + ast.dump(e))
    return "[" + "; ".join('"' + s + '"' for s in out) + "]"


def fact_nonlocal_term_count():
    tree = _tree()
    fns = [n for n in tree.body if isinstance(n, ast.FunctionDef) and n.name == "_nonlocal_qpd_basis_from_u"]
    if len(fns) != 1:
        raise ValueError("_nonlocal_qpd_basis_from_u not found")
    return str(len(_zip_rows(fns[0]))) + "%nat"


FACTS = [
    ("cx_family_coeffs", "list Q", fact_cx_family_coeffs),
    ("move_table_coeffs", "list Q", fact_move_table_coeffs),
    ("family_coeff_shape", "list string", fact_family_coeff_shape),
    ("nonlocal_term_count", "nat", fact_nonlocal_term_count),
]

"""Facts for C02/C15 extracted from qpd/decompositions.py (data only, fail-closed).

  cx_family_coeffs    : list Q       literal `coeffs = [...]` of the cx/cy/cz/ch function
  move_table_coeffs   : list Q       third components of the rows of the move table
  family_coeff_shape  : list string  shape of the rxx-family coefficient list over theta_prime
                                     (requires theta_prime = -theta / 2 and cs_theta_prime = cos*sin)
  nonlocal_term_count : nat          number of rows of the zip(...) table in _nonlocal_qpd_basis_from_u
"""
from __future__ import annotations

import ast
import os
from fractions import Fraction

REPO = os.environ.get("CKT_REPO", "/repo")
SRC = os.path.join(REPO, "qiskit_addon_cutting", "qpd", "decompositions.py")
QSENT = "[(Qmake (-1)%Z 1%positive)]"


def _tree():
    with open(SRC) as f:
        return ast.parse(f.read())


def _registered(tree, name):
    for node in tree.body:
        if isinstance(node, ast.FunctionDef):
            for d in node.decorator_list:
                if isinstance(d, ast.Call) and getattr(d.func, "id", None) == "_register_qpdbasis_from_instruction":
                    if any(isinstance(a, ast.Constant) and a.value == name for a in d.args):
                        return node
    raise ValueError(f"no function registered for {name}")


def _num(node):
    if isinstance(node, ast.UnaryOp) and isinstance(node.op, ast.USub):
        return -_num(node.operand)
    if isinstance(node, ast.Constant) and isinstance(node.value, (int, float)) and not isinstance(node.value, bool):
        return Fraction(repr(node.value))
    raise ValueError("not a numeric literal: " + ast.dump(node))


def _q(fr):
    return f"(Qmake ({fr.numerator})%Z ({fr.denominator})%positive)"


def _assign(fn, name):
    found = [n for n in ast.walk(fn) if isinstance(n, ast.Assign) and len(n.targets) == 1
             and isinstance(n.targets[0], ast.Name) and n.targets[0].id == name]
    if len(found) != 1:
        raise ValueError(f"{name}: expected one assignment, found {len(found)}")
    return found[0].value


def fact_cx_family_coeffs():
    try:
        v = _assign(_registered(_tree(), "cx"), "coeffs")
        if not isinstance(v, ast.List):
            raise ValueError("coeffs is not a list literal")
        return "[" + "; ".join(_q(_num(e)) for e in v.elts) + "]"
    except Exception:  # noqa: BLE001  (fail closed: sentinel breaks the obligation)
        return QSENT


def _zip_rows(fn):
    calls = [n for n in ast.walk(fn) if isinstance(n, ast.Call) and getattr(n.func, "id", None) == "zip"
             and n.args and all(isinstance(a, ast.Tuple) for a in n.args)]
    if len(calls) != 1:
        raise ValueError(f"expected one zip(<tuples>) table, found {len(calls)}")
    return calls[0].args


def fact_move_table_coeffs():
    try:
        rows = _zip_rows(_registered(_tree(), "move"))
        if any(len(r.elts) != 3 for r in rows):
            raise ValueError("move table rows are not triples")
        return "[" + "; ".join(_q(_num(r.elts[2])) for r in rows) + "]"
    except Exception:  # noqa: BLE001
        return QSENT


def _is_np_call(node, fname, argname):
    return (isinstance(node, ast.Call) and isinstance(node.func, ast.Attribute) and node.func.attr == fname
            and getattr(node.func.value, "id", None) == "np" and len(node.args) == 1
            and getattr(node.args[0], "id", None) == argname)


def fact_family_coeff_shape():
    fn = _registered(_tree(), "rxx")
    tp = _assign(fn, "theta_prime")
    ok = (isinstance(tp, ast.BinOp) and isinstance(tp.op, ast.Div) and isinstance(tp.left, ast.UnaryOp)
          and isinstance(tp.left.op, ast.USub) and getattr(tp.left.operand, "id", None) == "theta"
          and isinstance(tp.right, ast.Constant) and tp.right.value == 2)
    if not ok:
        raise ValueError("theta_prime is not -theta / 2")
    cs = _assign(fn, "cs_theta_prime")
    if not (isinstance(cs, ast.BinOp) and isinstance(cs.op, ast.Mult) and _is_np_call(cs.left, "cos", "theta_prime")
            and _is_np_call(cs.right, "sin", "theta_prime")):
        raise ValueError("cs_theta_prime is not np.cos(theta_prime) * np.sin(theta_prime)")
    v = _assign(fn, "coeffs")
    if not isinstance(v, ast.List):
        raise ValueError("coeffs is not a list literal")
    out = []
    for e in v.elts:
        if isinstance(e, ast.BinOp) and isinstance(e.op, ast.Pow) and isinstance(e.right, ast.Constant) and e.right.value == 2:
            if _is_np_call(e.left, "cos", "theta_prime"):
                out.append("cos2")
                continue
            if _is_np_call(e.left, "sin", "theta_prime"):
                out.append("sin2")
                continue
        if isinstance(e, ast.Name) and e.id == "cs_theta_prime":
            out.append("cs")
            continue
        if isinstance(e, ast.UnaryOp) and isinstance(e.op, ast.USub) and getattr(e.operand, "id", None) == "cs_theta_prime":
            out.append("-cs")
            continue
        raise ValueError("unrecognised coefficient expression: " + ast.dump(e))
    return "[" + "; ".join('"' + s + '"' for s in out) + "]"


def fact_nonlocal_term_count():
    tree = _tree()
    fns = [n for n in tree.body if isinstance(n, ast.FunctionDef) and n.name == "_nonlocal_qpd_basis_from_u"]
    if len(fns) != 1:
        raise ValueError("_nonlocal_qpd_basis_from_u not found")
    return str(len(_zip_rows(fns[0]))) + "%nat"


def fact_registry_groups():
    """decorator argument groups, in source order (type list (list string) has no sentinel: fail closed by hand)"""
    try:
        tree = _tree()
        groups = []
        for node in tree.body:
            if isinstance(node, ast.FunctionDef):
                for d in node.decorator_list:
                    if isinstance(d, ast.Call) and getattr(d.func, "id", None) == "_register_qpdbasis_from_instruction":
                        names = []
                        for a in d.args:
                            if not (isinstance(a, ast.Constant) and isinstance(a.value, str)):
                                raise ValueError("non-literal registry name")
                            names.append(a.value)
                        groups.append(names)
        if not groups:
            raise ValueError("no registrations")
        return "[" + "; ".join("[" + "; ".join('"' + n + '"' for n in g) + "]" for g in groups) + "]"
    except Exception:  # noqa: BLE001
        return '[["<EXTRACTION-FAILED>"]]'


def _aexpr(node, var="theta"):
    """render an angle expression over {theta, np.pi/2, unary minus, /2} in the notation of show_aexpr"""
    if isinstance(node, ast.Name) and node.id == var:
        return "theta"
    if isinstance(node, ast.UnaryOp) and isinstance(node.op, ast.USub):
        return "neg(" + _aexpr(node.operand, var) + ")"
    if isinstance(node, ast.BinOp) and isinstance(node.op, ast.Div) and isinstance(node.right, ast.Constant) and node.right.value == 2:
        if isinstance(node.left, ast.Attribute) and node.left.attr == "pi" and getattr(node.left.value, "id", None) == "np":
            return "pihalf"
        lf = node.left
        if (isinstance(lf, ast.UnaryOp) and isinstance(lf.op, ast.USub) and isinstance(lf.operand, ast.Attribute)
                and lf.operand.attr == "pi" and getattr(lf.operand.value, "id", None) == "np"):
            return "neg(pihalf)"      # -np.pi / 2
        return "div2(" + _aexpr(node.left, var) + ")"
    raise ValueError("unrecognised angle expression: " + ast.dump(node))


def _calls(fn, name):
    return [n for n in ast.walk(fn) if isinstance(n, ast.Call) and getattr(n.func, "id", None) == name]


def _inner(fn, cls):
    """argument of the single call qpdbasis_from_instruction(<cls>(<expr>))"""
    cs = [c for c in _calls(fn, "qpdbasis_from_instruction")]
    if len(cs) != 1 or len(cs[0].args) != 1:
        raise ValueError("expected one nested qpdbasis_from_instruction call")
    g = cs[0].args[0]
    if not (isinstance(g, ast.Call) and getattr(g.func, "id", None) == cls and len(g.args) == 1 and not g.keywords):
        raise ValueError("nested call is not " + cls + "(<expr>)")
    return _aexpr(g.args[0])


def fact_angle_flow():
    tree = _tree()
    out = []
    # _theta_from_instruction: theta = float(gate.params[0]) ... return theta, nothing else touches theta
    tf = [n for n in tree.body if isinstance(n, ast.FunctionDef) and n.name == "_theta_from_instruction"]
    if len(tf) != 1:
        raise ValueError("_theta_from_instruction not found")
    tf = tf[0]
    v = _assign(tf, "theta")
    ok = (isinstance(v, ast.Call) and getattr(v.func, "id", None) == "float" and len(v.args) == 1
          and isinstance(v.args[0], ast.Subscript) and isinstance(v.args[0].value, ast.Attribute) and v.args[0].value.attr == "params"
          and isinstance(v.args[0].slice, ast.Constant) and v.args[0].slice.value == 0)
    rets = [n for n in ast.walk(tf) if isinstance(n, ast.Return)]
    if not ok or len(rets) != 1:
        raise ValueError("_theta_from_instruction: theta is not float(gate.params[0]) / several returns")
    out.append(("theta_from_instruction", _aexpr(rets[0].value)))
    fam = _registered(tree, "rxx")
    th_assigns = [n for n in ast.walk(fam) if isinstance(n, ast.Assign) and len(n.targets) == 1 and getattr(n.targets[0], "id", None) == "theta"]
    if len(th_assigns) != 2:
        raise ValueError("family: expected theta = _theta_from_instruction(gate) and one reassignment")
    first, second = th_assigns
    if not (isinstance(first.value, ast.Call) and getattr(first.value.func, "id", None) == "_theta_from_instruction"):
        raise ValueError("family: theta is not obtained from _theta_from_instruction")
    out.append(("family.controlled.theta", _aexpr(second.value)))
    rot = _assign(fam, "rot")
    if not (isinstance(rot, ast.Call) and len(rot.args) == 1):
        raise ValueError("family: rot")
    out.append(("family.controlled.rot", _aexpr(rot.args[0])))
    out.append(("family.theta_prime", _aexpr(_assign(fam, "theta_prime"))))
    cs = _registered(tree, "cs")
    out.append(("cs.theta", _aexpr(_assign(cs, "theta"))))
    aug = [n for n in ast.walk(cs) if isinstance(n, ast.AugAssign)]
    if not (len(aug) == 1 and isinstance(aug[0].op, ast.Mult) and getattr(aug[0].target, "id", None) == "theta"
            and isinstance(aug[0].value, ast.UnaryOp) and isinstance(aug[0].value.op, ast.USub)
            and isinstance(aug[0].value.operand, ast.Constant) and aug[0].value.operand.value == 1):
        raise ValueError("cs: theta *= -1 not found")
    out.append(("cs.csdg_factor", "neg"))
    out.append(("cs.inner", "crz(" + _inner(cs, "CRZGate") + ")"))
    cp = _registered(tree, "cp")
    out.append(("cp.inner", "crz(" + _inner(cp, "CRZGate") + ")"))
    ph = _calls(cp, "PhaseGate")
    if len(ph) != 1 or len(ph[0].args) != 1:
        raise ValueError("cp: PhaseGate")
    out.append(("cp.phase", _aexpr(ph[0].args[0])))
    out.append(("csx.inner", "crx(" + _inner(_registered(tree, "csx"), "CRXGate") + ")"))
    out.append(("csxdg.inner", "crx(" + _inner(_registered(tree, "csxdg"), "CRXGate") + ")"))
    return "[" + "; ".join('("' + k + '", "' + v + '")' for k, v in out) + "]"


FACTS = [
    ("registry_groups", "list (list string)", fact_registry_groups),
    ("angle_flow", "list (string * string)", fact_angle_flow),
    ("cx_family_coeffs", "list Q", fact_cx_family_coeffs),
    ("move_table_coeffs", "list Q", fact_move_table_coeffs),
    ("family_coeff_shape", "list string", fact_family_coeff_shape),
    ("nonlocal_term_count", "nat", fact_nonlocal_term_count),
]

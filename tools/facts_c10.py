"""Facts for C10 (utils/transforms.py, cutting_decomposition.py): data only, fail-closed."""
from __future__ import annotations

import ast

from extract_facts import Shape, parse, coq_list, coq_string, _functions


def _fn(rel, name):
    tree, src = parse(rel)
    found = [node for qn, node in _functions(tree) if qn == name]
    if len(found) != 1:
        raise Shape(f"{name}: expected exactly one definition, found {len(found)}")
    return found[0]


def _walk_no_nested(fn):
    stack = list(ast.iter_child_nodes(fn))
    out = []
    while stack:
        x = stack.pop()
        if isinstance(x, (ast.FunctionDef, ast.AsyncFunctionDef, ast.ClassDef)):
            continue
        out.append(x)
        stack.extend(ast.iter_child_nodes(x))
    return out


def _calls_in_order(fn, names):
    """names of the interesting callees (plain names or attribute names) in source order."""
    cs = []
    for x in _walk_no_nested(fn):
        if isinstance(x, ast.Call):
            f = x.func
            nm = f.id if isinstance(f, ast.Name) else f.attr if isinstance(f, ast.Attribute) else None
            if nm in names:
                cs.append((x.lineno, x.col_offset, nm))
    cs.sort()
    return [c[2] for c in cs]


SEP_HELPERS = {"_split_barriers", "_partition_labels_from_circuit", "_qubit_map_from_partition_labels",
               "_separate_instructions_by_partition", "_circuit_from_instructions", "_combine_barriers"}


def fact_separate_calls():
    """helper calls of separate_circuit in source order (= the order of the model's stages)."""
    fn = _fn("utils/transforms.py", "separate_circuit")
    cs = _calls_in_order(fn, SEP_HELPERS)
    if not cs:
        raise Shape("no helper call found in separate_circuit")
    return coq_list([coq_string(c) for c in cs])


PROBLEM_CALLS = {"_partition_labels_from_circuit", "partition_circuit_qubits", "decompose", "separate_circuit",
                 "decompose_observables", "_split_barriers"}


def fact_problem_calls():
    """stage calls of partition_problem in source order; note: no _split_barriers before the automatic labelling."""
    fn = _fn("cutting_decomposition.py", "partition_problem")
    cs = _calls_in_order(fn, PROBLEM_CALLS)
    if not cs:
        raise Shape("no stage call found in partition_problem")
    return coq_list([coq_string(c) for c in cs])


def fact_idle_group_removed():
    """partition_problem removes the None key from the sub-observables:  <dict>.pop(None, ...)."""
    fn = _fn("cutting_decomposition.py", "partition_problem")
    n = 0
    for x in _walk_no_nested(fn):
        if (isinstance(x, ast.Call) and isinstance(x.func, ast.Attribute) and x.func.attr == "pop" and x.args
                and isinstance(x.args[0], ast.Constant) and x.args[0].value is None):
            n += 1
    return "true" if n == 1 else "false"


def fact_auto_ignores_qpd2():
    """the automatic labelling of partition_problem is called with ignore=lambda inst: isinstance(inst.operation, TwoQubitQPDGate)."""
    fn = _fn("cutting_decomposition.py", "partition_problem")
    for x in _walk_no_nested(fn):
        if isinstance(x, ast.Call) and isinstance(x.func, ast.Name) and x.func.id == "_partition_labels_from_circuit":
            kws = {k.arg: k.value for k in x.keywords}
            if set(kws) != {"ignore"}:
                raise Shape(f"unexpected keywords {sorted(kws)}")
            lam = kws["ignore"]
            if not (isinstance(lam, ast.Lambda) and isinstance(lam.body, ast.Call) and isinstance(lam.body.func, ast.Name)
                    and lam.body.func.id == "isinstance" and len(lam.body.args) == 2
                    and isinstance(lam.body.args[1], ast.Name) and lam.body.args[1].id == "TwoQubitQPDGate"):
                raise Shape("ignore= is not `lambda inst: isinstance(..., TwoQubitQPDGate)`")
            return "true"
    raise Shape("no call of _partition_labels_from_circuit in partition_problem")


def fact_keep_idle_default():
    """default of keep_idle_wires in _partition_labels_from_circuit."""
    fn = _fn("utils/transforms.py", "_partition_labels_from_circuit")
    for a, d in zip(fn.args.kwonlyargs, fn.args.kw_defaults):
        if a.arg == "keep_idle_wires":
            if not (isinstance(d, ast.Constant) and isinstance(d.value, bool)):
                raise Shape("keep_idle_wires default is not a bool literal")
            return "true" if d.value else "false"
    raise Shape("keep_idle_wires is not a keyword-only argument")


def fact_label_suffix():
    """the label given to a numbered cut gate: an f-string  f"{...label}_{i}"  (constant parts only)."""
    fn = _fn("cutting_decomposition.py", "partition_problem")
    found = []
    for x in _walk_no_nested(fn):
        if isinstance(x, ast.Assign) and len(x.targets) == 1 and isinstance(x.targets[0], ast.Attribute) and x.targets[0].attr == "label":
            v = x.value
            if not isinstance(v, ast.JoinedStr):
                raise Shape("label is not assigned an f-string")
            parts = ["{}" if isinstance(p, ast.FormattedValue) else str(p.value) for p in v.values]
            found.append("".join(parts))
    if len(found) != 1:
        raise Shape(f"expected one label assignment, found {found}")
    return coq_string(found[0])


def fact_relabel_resets_definition():
    """partition_problem, where it renames a TwoQubitQPDGate (`.label = f"..."`), also drops the cached definition
    (`.definition = None`) in the same block, so that the halves are rebuilt from the new label whatever the call history."""
    fn = _fn("cutting_decomposition.py", "partition_problem")
    for x in _walk_no_nested(fn):
        body = getattr(x, "body", None)
        if not isinstance(body, list):
            continue
        lab = [y for y in body if isinstance(y, ast.Assign) and len(y.targets) == 1
               and isinstance(y.targets[0], ast.Attribute) and y.targets[0].attr == "label"]
        if not lab:
            continue
        rst = [y for y in body if isinstance(y, ast.Assign) and len(y.targets) == 1
               and isinstance(y.targets[0], ast.Attribute) and y.targets[0].attr == "definition"
               and isinstance(y.value, ast.Constant) and y.value.value is None and y.lineno > lab[0].lineno]
        return "true" if len(lab) == 1 and len(rst) == 1 else "false"
    raise Shape("no block assigning .label found in partition_problem")


FACTS = [
    ("c10_separate_calls", "list string", fact_separate_calls),
    ("c10_problem_calls", "list string", fact_problem_calls),
    ("c10_idle_group_removed", "bool", fact_idle_group_removed),
    ("c10_auto_ignores_qpd2", "bool", fact_auto_ignores_qpd2),
    ("c10_keep_idle_default", "bool", fact_keep_idle_default),
    ("c10_label_suffix", "string", fact_label_suffix),
    ("c10_relabel_resets_definition", "bool", fact_relabel_resets_definition),
]

#!/usr/bin/env python3
"""Confirm a seeded change produced by an independent agent and file it under /verif/seeded/<id>/.

    python3 tools/confirm_seed.py /tmp/mut_C17 1 C17-1

In the scratch worktree: apply patchN.diff, run the repo test suite (must pass), run demoN.py (must fail),
undo, run demoN.py (must pass).  Then copy patch.diff / demo.py / meta.json (with what was run) to seeded/<id>/.
"""
import json, os, shutil, subprocess, sys

ROOT = os.path.dirname(os.path.dirname(os.path.abspath(__file__)))
wt, n, sid = sys.argv[1], sys.argv[2], sys.argv[3]
env = dict(os.environ, PYTHONPATH=wt, PYTHONHASHSEED="0")

def run(cmd, **k):
    return subprocess.run(cmd, cwd=wt, env=env, capture_output=True, text=True, **k)

patch, demo, meta = f"patch{n}.diff", f"demo{n}.py", f"meta{n}.json"
run(["git", "checkout", "--", "qiskit_addon_cutting"])
ran = []
r = run(["git", "apply", patch]); ran.append(f"git apply {patch} -> {r.returncode}")
assert r.returncode == 0, r.stderr
t = run(["/venv/bin/python", "-m", "pytest", "-q", "-p", "no:cacheprovider", "-x"], timeout=1500)
line = [l for l in t.stdout.splitlines() if " passed" in l or " failed" in l][-1:]
ran.append(f"pytest with patch -> {line}")
ok_tests = t.returncode == 0
d1 = run(["/venv/bin/python", demo], timeout=900); ran.append(f"demo with patch -> exit {d1.returncode}")
run(["git", "checkout", "--", "qiskit_addon_cutting"])
d0 = run(["/venv/bin/python", demo], timeout=900); ran.append(f"demo without patch -> exit {d0.returncode}")
subprocess.run(f"find {wt} -name __pycache__ -prune -exec rm -rf {{}} +", shell=True)
confirmed = ok_tests and d1.returncode != 0 and d0.returncode == 0
print("\n".join(ran)); print("CONFIRMED" if confirmed else "NOT CONFIRMED")
if not confirmed:
    print(d1.stdout[-500:], d1.stderr[-500:], d0.stdout[-500:], d0.stderr[-800:]); sys.exit(1)
dst = os.path.join(ROOT, "seeded", sid); os.makedirs(dst, exist_ok=True)
shutil.copy(os.path.join(wt, patch), os.path.join(dst, "patch.diff"))
shutil.copy(os.path.join(wt, demo), os.path.join(dst, "demo.py"))
m = json.load(open(os.path.join(wt, meta)))
m.setdefault("property", sid.split("-")[0])
m["confirmed_by_lead"] = ran
m["demo_tail_with_patch"] = (d1.stdout + d1.stderr)[-400:]
json.dump(m, open(os.path.join(dst, "meta.json"), "w"), indent=1)

"""Facts for C12 (reset optimisations).  Data only; fail closed (raise -> sentinel).

reset_pipeline_order : the calls applied to every generated subexperiment, in source order
reset_scan_shapes    : per list pass [reversed scan?, #del statements, #loops]  (the early-exit `break`s are pure
                       optimisations and deliberately NOT pinned)
reset_call_sites     : every call of a reset pass anywhere in generate_cutting_experiments, in source order, with
                       "guarded" when it sits under `if not cog.pauli_indices:` and "loop" when in the final loop
reset_dag_calls      : per transpiler pass the dag methods/attributes used by run()
"""
from __future__ import annotations

import ast

from extract_facts import parse, Shape, coq_list, coq_string, _functions

LIST_PASSES = ["_consolidate_resets", "_remove_resets_in_zero_state", "_remove_final_resets"]


def _fn(rel, qualname):
    tree, _ = parse(rel)
    found = [n for qn, n in _functions(tree) if qn == qualname]
    if len(found) != 1:
        raise Shape(f"{rel}:{qualname}: expected exactly one definition, found {len(found)}")
    return found[0]


def fact_reset_pipeline_order():
    fn = _fn("cutting_experiments.py", "generate_cutting_experiments")
    # the loop whose body is nothing but reset-pass calls on the loop variable:
    #     for circ in subexperiments: _remove_resets_in_zero_state(circ); ...
    loops = []
    for node in ast.walk(fn):
        if not (isinstance(node, ast.For) and isinstance(node.target, ast.Name) and not node.orelse):
            continue
        names = []
        for st in node.body:
            c = st.value if isinstance(st, ast.Expr) else None
            if not (isinstance(c, ast.Call) and isinstance(c.func, ast.Name) and "reset" in c.func.id
                    and len(c.args) == 1 and not c.keywords
                    and isinstance(c.args[0], ast.Name) and c.args[0].id == node.target.id):
                names = None
                break
            names.append(c.func.id)
        if names:
            loops.append(names)
    if len(loops) != 1:
        raise Shape(f"expected exactly one reset-optimisation loop in generate_cutting_experiments, found {len(loops)}")
    return coq_list([coq_string(n) for n in loops[0]])


def fact_reset_scan_shapes():
    items = []
    for name in LIST_PASSES:
        fn = _fn("cutting_experiments.py", name)
        rev = dele = loops = 0
        for node in ast.walk(fn):
            if isinstance(node, ast.Delete):
                dele += 1
            elif isinstance(node, (ast.For, ast.While)):
                loops += 1
                if isinstance(node, ast.For):
                    for sub in ast.walk(node.iter):
                        if isinstance(sub, ast.Call) and isinstance(sub.func, ast.Name) and sub.func.id == "reversed":
                            rev = 1
        items.append(f"({coq_string(name)}, [{rev}; {dele}; {loops}]%nat)")
    return coq_list(items)


def fact_reset_dag_calls():
    items = []
    for cls in ("RemoveFinalReset", "ConsolidateResets"):
        fn = _fn("utils/transpiler_passes.py", f"{cls}.run")
        used = set()
        for node in ast.walk(fn):
            if isinstance(node, ast.Attribute) and isinstance(node.value, ast.Name) and node.value.id == "dag":
                used.add(node.attr)
        if not used:
            raise Shape(f"{cls}.run does not use its dag argument")
        items.append(f"({coq_string(cls)}, {coq_string(','.join(sorted(used)))})")
    return coq_list(items)


def fact_reset_call_sites():
    fn = _fn("cutting_experiments.py", "generate_cutting_experiments")
    sites = []

    def visit(node, ctx):
        for ch in ast.iter_child_nodes(node):
            c = ctx
            if isinstance(ch, ast.If):
                t = ch.test
                guarded = (isinstance(t, ast.UnaryOp) and isinstance(t.op, ast.Not) and isinstance(t.operand, ast.Attribute)
                           and t.operand.attr == "pauli_indices" and not ch.orelse)
                c = "guarded" if guarded else "other-if"
            elif isinstance(ch, (ast.For, ast.While)) and ctx == "top":
                c = "loop"
            if isinstance(ch, ast.Call) and isinstance(ch.func, ast.Name) and "reset" in ch.func.id:
                sites.append((ch.lineno, ch.col_offset, ch.func.id, ctx))
            visit(ch, c)

    visit(fn, "top")
    sites.sort()
    if not sites:
        raise Shape("no reset pass is called in generate_cutting_experiments")
    return coq_list([f"({coq_string(n)}, {coq_string(c)})" for _, _, n, c in sites])


FACTS = [
    ("reset_pipeline_order", "list string", fact_reset_pipeline_order),
    ("reset_scan_shapes", "list (string * list nat)", fact_reset_scan_shapes),
    ("reset_dag_calls", "list (string * string)", fact_reset_dag_calls),
    ("reset_call_sites", "list (string * string)", fact_reset_call_sites),
]

#!/usr/bin/env python3
"""Fail-closed fact extractor: /repo source (Python AST)  ->  coq/theories/Extracted/Facts.v

Only DATA is emitted (constants, name lists, guard counts, tables), never control flow.
Each fact has an expected AST shape at its anchor; when the shape is not recognised the
fact is emitted as a sentinel value (so every proof obligation that mentions it fails)
and the failure is recorded in facts.json.  Stdlib only.
"""
from __future__ import annotations

import ast
import hashlib
import json
import os
import sys
from fractions import Fraction

REPO = os.environ.get("CKT_REPO", "/repo")
PKG = os.path.join(REPO, "qiskit_addon_cutting")


class Shape(Exception):
    pass


def parse(rel):
    with open(os.path.join(PKG, rel)) as f:
        src = f.read()
    return ast.parse(src), src


def coq_string(s):
    return '"' + s.replace('"', '""') + '"'


def coq_list(items):
    return "[" + "; ".join(items) + "]"


def q_of_number_text(txt):
    fr = Fraction(txt)
    return f"(Qmake ({fr.numerator})%Z ({fr.denominator})%positive)"


# --------------------------------------------------------------------------------------
# individual facts; each returns the Coq value text (type declared in FACTS)
# --------------------------------------------------------------------------------------


def fact_registry_names():
    tree, _ = parse("qpd/decompositions.py")
    names = []
    for node in tree.body:
        if isinstance(node, ast.FunctionDef):
            for d in node.decorator_list:
                if isinstance(d, ast.Call) and isinstance(d.func, ast.Name) and d.func.id == "_register_qpdbasis_from_instruction":
                    for a in d.args:
                        if not (isinstance(a, ast.Constant) and isinstance(a.value, str)):
                            raise Shape("non-literal registry name")
                        names.append(a.value)
                    if d.keywords:
                        raise Shape("keywords in registry decorator")
    if not names:
        raise Shape("no registered names found")
    return coq_list([coq_string(n) for n in names])


def _module_constant(rel, name):
    tree, src = parse(rel)
    found = []
    for node in ast.walk(tree):
        if isinstance(node, ast.Assign):
            for t in node.targets:
                if isinstance(t, ast.Name) and t.id == name:
                    found.append(node)
    if len(found) != 1:
        raise Shape(f"{name}: expected exactly one assignment, found {len(found)}")
    v = found[0].value
    if not isinstance(v, ast.Constant) or not isinstance(v.value, (int, float)):
        raise Shape(f"{name}: not a numeric literal")
    return ast.get_source_segment(src, v)


def fact_nonzero_atol():
    return q_of_number_text(_module_constant("qpd/weights.py", "_NONZERO_ATOL"))


def _functions(tree):
    """yield (qualified name, node) for all function defs (methods as Class.name)."""
    out = []

    def visit(node, prefix):
        for ch in ast.iter_child_nodes(node):
            if isinstance(ch, (ast.FunctionDef, ast.AsyncFunctionDef)):
                out.append((prefix + ch.name, ch))
                visit(ch, prefix + ch.name + ".")
            elif isinstance(ch, ast.ClassDef):
                visit(ch, prefix + ch.name + ".")
            else:
                visit(ch, prefix)

    visit(tree, "")
    return out


GUARD_FILES = [
    "cutting_decomposition.py",
    "cutting_experiments.py",
    "cutting_reconstruction.py",
    "qpd/decompose.py",
    "qpd/decompositions.py",
    "qpd/qpd_basis.py",
    "qpd/instructions/qpd_gate.py",
    "qpd/weights.py",
    "automated_cut_finding.py",
    "cut_finding/optimization_settings.py",
    "utils/transforms.py",
    "utils/observable_grouping.py",
    "wire_cutting_transforms.py",
    "utils/simulation.py",
]


def _raises_in(fn):
    """ValueError raise statements lexically inside fn but not inside nested defs."""
    n = 0
    stack = list(ast.iter_child_nodes(fn))
    while stack:
        x = stack.pop()
        if isinstance(x, (ast.FunctionDef, ast.AsyncFunctionDef, ast.ClassDef)):
            continue
        if isinstance(x, ast.Raise) and x.exc is not None:
            e = x.exc
            f = e.func if isinstance(e, ast.Call) else e
            if isinstance(f, ast.Name) and f.id == "ValueError":
                n += 1
        stack.extend(ast.iter_child_nodes(x))
    return n


def fact_value_error_sites():
    items = []
    for rel in GUARD_FILES:
        tree, _ = parse(rel)
        mod = rel[:-3].replace("/", ".")
        for qn, fn in _functions(tree):
            k = _raises_in(fn)
            if k:
                items.append((f"{mod}:{qn}", k))
    items.sort()
    return coq_list([f"({coq_string(a)}, {b}%nat)" for a, b in items])


FACTS = [
    ("registry_names", "list string", fact_registry_names),
    ("nonzero_atol", "Q", fact_nonzero_atol),
    ("value_error_sites", "list (string * nat)", fact_value_error_sites),
]

# further fact groups are registered by tools/facts_*.py modules (imported below if present)


def ast_hashes():
    hashes = {}
    for root, _, files in os.walk(PKG):
        for fn in sorted(files):
            if not fn.endswith(".py"):
                continue
            rel = os.path.relpath(os.path.join(root, fn), PKG)
            try:
                tree, _ = parse(rel)
            except SyntaxError:
                hashes[rel] = "SYNTAX-ERROR"
                continue
            for qn, node in _functions(tree):
                h = hashlib.sha256(ast.dump(node, include_attributes=False).encode()).hexdigest()[:16]
                hashes[f"{rel}:{qn}"] = h
    return hashes


SENTINEL = {
    "list string": '["<EXTRACTION-FAILED>"%string]',
    "Q": "(Qmake (-1)%Z 1%positive)",
    "nat": "4999",
    "list (string * nat)": '[("<EXTRACTION-FAILED>"%string, 4999)]',
    "list nat": "[4999]",
    "list (string * list nat)": '[("<EXTRACTION-FAILED>"%string, [4999])]',
    "list (string * string)": '[("<EXTRACTION-FAILED>"%string, "<EXTRACTION-FAILED>"%string)]',
    "bool": "false",
}


def main():
    out_v = sys.argv[1]
    out_json = sys.argv[2]
    here = os.path.dirname(os.path.abspath(__file__))
    sys.path.insert(0, here)
    facts = list(FACTS)
    import_failures = {}
    for extra in sorted(f for f in os.listdir(here) if f.startswith("facts_") and f.endswith(".py")):
        try:
            m = __import__(extra[:-3])
            facts.extend(m.FACTS)
        except Exception as e:  # noqa: BLE001  (a broken fact module must not take the others down)
            import_failures[extra] = f"{type(e).__name__}: {e}"
    lines = [
        "(* GENERATED by tools/extract_facts.py from /repo on every run. Do not edit. *)",
        "From Coq Require Import List String ZArith QArith.",
        "Import ListNotations.",
        "Close Scope Q_scope.",
        "Open Scope string_scope.",
        "",
    ]
    failures = {}
    for name, ty, fn in facts:
        try:
            val = fn()
        except Exception as e:  # noqa: BLE001  fail closed: any problem => sentinel value
            val = SENTINEL.get(ty)
            failures[name] = f"{type(e).__name__}: {e}"
            if val is None:
                # no sentinel of that type: omit the definition, every user then fails to compile (fail closed)
                lines.append(f"(* fact {name} could not be extracted *)")
                continue
        lines.append(f"Definition {name} : {ty} := {val}.")
    text = "\n".join(lines) + "\n"
    old = None
    if os.path.exists(out_v):
        old = open(out_v).read()
    if old != text:
        with open(out_v, "w") as f:
            f.write(text)
    with open(out_json, "w") as f:
        json.dump(dict(failures=failures, import_failures=import_failures, ast_hashes=ast_hashes(), changed=(old != text)), f, indent=1)
    print(json.dumps(dict(facts=len(facts), failures=failures, changed=(old != text))))


if __name__ == "__main__":
    main()

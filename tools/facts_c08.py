"""Facts for C08 (best-first engine): the shapes of the three rules the optimality proof depends on.

bf_bound_branch_requeues : in BestFirstSearch.optimization_pass, the branch taken when the popped state exceeds a cost bound
    puts the state back into the queue unless the flag is already set (`if not self.min_reached: self.pqueue.put(state, depth, cost)`)
    before `return None, None`.  false: the branch only returns (the popped state is dropped: DESIGN F3).
bf_put_prunes_above_upperbound : BestFirstSearch.put enqueues exactly when `self.upperbound_cost is None or cost <= self.upperbound_cost`.
bf_flag_rule : update_minimum_reached sets the flag exactly when
    `min_cost is None or (self.upperbound_cost is not None and self.upperbound_cost <= min_cost)`.
Any other shape raises Shape (fail closed, see extract_facts.py)."""
from __future__ import annotations

import ast

from extract_facts import parse


class Shape(ValueError):
    """unexpected AST shape"""


def _method(cls_name, name):
    tree, _ = parse("cut_finding/best_first_search.py")
    for c in tree.body:
        if isinstance(c, ast.ClassDef) and c.name == cls_name:
            for m in c.body:
                if isinstance(m, ast.FunctionDef) and m.name == name:
                    return m
    raise Shape(f"{cls_name}.{name} not found")


def _norm(node):
    return ast.unparse(node).replace(" ", "")


def fact_bound_branch_requeues():
    m = _method("BestFirstSearch", "optimization_pass")
    hits = [n for n in ast.walk(m) if isinstance(n, ast.If) and _norm(n.test) == "costisNoneorself.cost_bounds_exceeded(cost)"]
    if len(hits) != 1:
        raise Shape("expected exactly one `if cost is None or self.cost_bounds_exceeded(cost)`")
    body = hits[0].body
    if hits[0].orelse:
        raise Shape("unexpected else branch")
    if not body or _norm(body[-1]) != "return(None,None)":
        raise Shape("the bound branch does not end with `return None, None`")
    rest = body[:-1]
    if not rest:
        return "false"
    if len(rest) == 1 and isinstance(rest[0], ast.If) and _norm(rest[0].test) == "notself.min_reached" and not rest[0].orelse:
        inner = [s for s in rest[0].body if not (isinstance(s, ast.Expr) and isinstance(s.value, ast.Constant))]
        if len(inner) == 1 and _norm(inner[0]) == "self.pqueue.put(state,depth,cost)":
            return "true"
    raise Shape("unrecognised statements in the bound branch: " + "; ".join(ast.unparse(s) for s in rest))


def fact_put_prunes_above_upperbound():
    m = _method("BestFirstSearch", "put")
    ifs = [n for n in ast.walk(m) if isinstance(n, ast.If)]
    if len(ifs) != 1:
        raise Shape("expected exactly one `if` in BestFirstSearch.put")
    ok = (_norm(ifs[0].test) == "self.upperbound_costisNoneorcost<=self.upperbound_cost" and not ifs[0].orelse
          and [_norm(s) for s in ifs[0].body] == ["self.pqueue.put(state,depth,cost)", "self.num_enqueues+=1"])
    return "true" if ok else "false"


def fact_flag_rule():
    m = _method("BestFirstSearch", "update_minimum_reached")
    ifs = [n for n in ast.walk(m) if isinstance(n, ast.If)]
    if len(ifs) != 1:
        raise Shape("expected exactly one `if` in update_minimum_reached")
    ok = (_norm(ifs[0].test) == "min_costisNoneor(self.upperbound_costisnotNoneandself.upperbound_cost<=min_cost)"
          and not ifs[0].orelse and [_norm(s) for s in ifs[0].body] == ["self.min_reached=True"])
    return "true" if ok else "false"


FACTS = [
    ("bf_bound_branch_requeues", "bool", fact_bound_branch_requeues),
    ("bf_put_prunes_above_upperbound", "bool", fact_put_prunes_above_upperbound),
    ("bf_flag_rule", "bool", fact_flag_rule),
]

"""Facts for C19 (reset-free subexperiments).  Data only; fail closed (raise -> sentinel / omitted definition).

c19_move_table       : the `move` basis of qpd/decompositions.py as (source-qubit sequence, destination-qubit sequence)
                       per map, every operation by its class name
c19_stage_order      : what the property needs of generate_cutting_experiments' control flow, in execution order: the calls of
                       _append_measurement_register, decompose_qpd_instructions, _append_measurement_circuit; a reset pass
                       guarded by `if not cog.pauli_indices:` as "if-not-pauli_indices:<name>"; every unguarded call of one of
                       the three reset passes as "pass" (wherever the clean-up loop lives, in whatever order)
c19_pass_names       : the names behind those "pass" tokens, sorted
c19_dummy_index      : the qubit index measured by _get_pauli_indices when the group measures nothing
"""
from __future__ import annotations

import ast

from extract_facts import parse, Shape, coq_list, coq_string, _functions


def _fn(rel, qualname):
    tree, _ = parse(rel)
    found = [n for qn, n in _functions(tree) if qn == qualname]
    if len(found) != 1:
        raise Shape(f"{rel}:{qualname}: expected exactly one definition, found {len(found)}")
    return found[0]


def _move_function():
    tree, _ = parse("qpd/decompositions.py")
    found = []
    for node in tree.body:
        if not isinstance(node, ast.FunctionDef):
            continue
        for d in node.decorator_list:
            if (isinstance(d, ast.Call) and isinstance(d.func, ast.Name)
                    and d.func.id == "_register_qpdbasis_from_instruction"
                    and any(isinstance(a, ast.Constant) and a.value == "move" for a in d.args)):
                found.append(node)
    if len(found) != 1:
        raise Shape(f"expected exactly one function registered for 'move', found {len(found)}")
    return found[0]


def fact_move_table():
    fn = _move_function()
    seqs = {}
    zips = []
    for st in fn.body:
        if isinstance(st, ast.Assign) and len(st.targets) == 1 and isinstance(st.targets[0], ast.Name) \
                and isinstance(st.value, ast.List):
            names = []
            for e in st.value.elts:
                if not (isinstance(e, ast.Call) and isinstance(e.func, ast.Name) and not e.args and not e.keywords):
                    raise Shape(f"move: element of {st.targets[0].id} is not a plain constructor call")
                names.append(e.func.id)
            seqs[st.targets[0].id] = names
        elif isinstance(st, ast.Assign) and isinstance(st.value, ast.Call) and isinstance(st.value.func, ast.Name) \
                and st.value.func.id == "zip" and all(isinstance(a, ast.Tuple) for a in st.value.args):
            tgt = st.targets[0]
            if not (isinstance(tgt, ast.Tuple) and [getattr(e, "id", None) for e in tgt.elts] == ["maps1", "maps2", "coeffs"]):
                raise Shape("move: zip(...) is not unpacked into maps1, maps2, coeffs")
            zips.append(st.value)
    if len(zips) != 1:
        raise Shape(f"move: expected exactly one zip(...) of (source, destination, coefficient) rows, found {len(zips)}")
    # maps = list(zip(maps1, maps2)); QPDBasis(maps, coeffs)
    src = ast.unparse(fn)
    if "maps = list(zip(maps1, maps2))" not in src or "QPDBasis(maps, coeffs)" not in src:
        raise Shape("move: maps are not built as list(zip(maps1, maps2)) / QPDBasis(maps, coeffs)")
    rows = []
    for t in zips[0].args:
        if len(t.elts) != 3 or not all(isinstance(e, ast.Name) for e in t.elts[:2]):
            raise Shape("move: row is not (name, name, coefficient)")
        a, b = t.elts[0].id, t.elts[1].id
        if a not in seqs or b not in seqs:
            raise Shape(f"move: row refers to an unknown sequence {a}/{b}")
        rows.append(f"({coq_list([coq_string(n) for n in seqs[a]])}, {coq_list([coq_string(n) for n in seqs[b]])})")
    if not rows:
        raise Shape("move: empty table")
    return coq_list(rows)


RESET_PASSES = ("_remove_resets_in_zero_state", "_remove_final_resets", "_consolidate_resets")
STAGES = ("_append_measurement_register", "decompose_qpd_instructions", "_append_measurement_circuit")


def _stage_walk(stmts, guard, out, names):
    """statements in execution order -> stage tokens.  Only the calls the property cares about are reported:
    the three stages of the inner loop, the repair call guarded by `if not cog.pauli_indices`, and every unguarded call of
    one of the three reset passes (anonymised as "pass"; their names are collected separately)."""
    for st in stmts:
        if isinstance(st, (ast.For, ast.While)):
            _stage_walk(st.body, guard, out, names)
            if st.orelse:
                _stage_walk(st.orelse, guard, out, names)
        elif isinstance(st, ast.If):
            test = ast.unparse(st.test)
            _stage_walk(st.body, guard + [test], out, names)
            _stage_walk(st.orelse, guard + ["not (" + test + ")"], out, names)
        elif isinstance(st, ast.With):
            _stage_walk(st.body, guard, out, names)
        elif isinstance(st, ast.Try):
            raise Shape("stage order: try statement in generate_cutting_experiments")
        else:
            for node in ast.walk(st):
                if isinstance(node, ast.Call) and isinstance(node.func, ast.Name):
                    n = node.func.id
                    if n in STAGES:
                        if guard:
                            raise Shape(f"stage order: {n} is called conditionally ({guard})")
                        out.append(n)
                    elif n in RESET_PASSES:
                        if not guard:
                            out.append("pass")
                            names.append(n)
                        elif guard == ["not cog.pauli_indices"]:
                            out.append("if-not-pauli_indices:" + n)
                        else:
                            raise Shape(f"stage order: {n} is called under an unrecognised condition {guard}")


def _stages():
    fn = _fn("cutting_experiments.py", "generate_cutting_experiments")
    out, names = [], []
    _stage_walk(fn.body, [], out, names)
    if not out:
        raise Shape("stage order: no stage call found")
    return out, names


def fact_stage_order():
    return coq_list([coq_string(n) for n in _stages()[0]])


def fact_pass_names():
    return coq_list([coq_string(n) for n in sorted(_stages()[1])])


def fact_dummy_index():
    fn = _fn("cutting_experiments.py", "_get_pauli_indices")
    vals = []
    for node in ast.walk(fn):
        if isinstance(node, ast.If) and ast.unparse(node.test) == "not pauli_indices":
            for st in node.body:
                if (isinstance(st, ast.Assign) and isinstance(st.value, ast.List) and len(st.value.elts) == 1
                        and isinstance(st.value.elts[0], ast.Constant) and isinstance(st.value.elts[0].value, int)):
                    vals.append(st.value.elts[0].value)
    if len(vals) != 1:
        raise Shape("_get_pauli_indices: expected `if not pauli_indices: pauli_indices = [<int>]`")
    return f"{vals[0]}%nat"


FACTS = [
    ("c19_move_table", "list (list string * list string)", fact_move_table),
    ("c19_stage_order", "list string", fact_stage_order),
    ("c19_pass_names", "list string", fact_pass_names),
    ("c19_dummy_index", "nat", fact_dummy_index),
]

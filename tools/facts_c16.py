"""Facts for C16 (copy discipline): every `.copy()` call site, every `inplace` parameter, every
`if not inplace:` branch and every `copy.copy` / `copy.deepcopy` use in the anchored files, as
(module:function, normalised text).  Data only; fail-closed (any unexpected shape raises Shape)."""
from __future__ import annotations

import ast

from extract_facts import parse, Shape, coq_string, coq_list, _functions

FILES = [
    "cutting_decomposition.py",
    "cutting_experiments.py",
    "qpd/decompose.py",
    "qpd/decompositions.py",
    "wire_cutting_transforms.py",
    "automated_cut_finding.py",
    "utils/transforms.py",
    "cutting_reconstruction.py",
]


def _own_nodes(fn):
    """nodes lexically inside fn but not inside nested defs/classes, in source order."""
    out = []

    def visit(node):
        for ch in ast.iter_child_nodes(node):
            if isinstance(ch, (ast.FunctionDef, ast.AsyncFunctionDef, ast.ClassDef)):
                continue
            out.append(ch)
            visit(ch)

    visit(fn)
    return out


def _sites(rel):
    tree, _src = parse(rel)
    mod = rel[:-3].replace("/", ".")
    items = []
    # module-level imports of the copy module must be visible too
    for node in tree.body:
        if isinstance(node, ast.Import):
            for a in node.names:
                if a.name == "copy":
                    items.append((f"{mod}:<module>", "import copy"))
        if isinstance(node, ast.ImportFrom) and node.module == "copy":
            items.append((f"{mod}:<module>", "from copy import " + ",".join(a.name for a in node.names)))
    for qn, fn in _functions(tree):
        where = f"{mod}:{qn}"
        args = fn.args
        allargs = list(args.posonlyargs) + list(args.args) + list(args.kwonlyargs)
        defaults = {}
        pos = list(args.posonlyargs) + list(args.args)
        for a, d in zip(pos[len(pos) - len(args.defaults):], args.defaults):
            defaults[a.arg] = d
        for a, d in zip(args.kwonlyargs, args.kw_defaults):
            if d is not None:
                defaults[a.arg] = d
        for a in allargs:
            if a.arg == "inplace":
                d = defaults.get("inplace")
                if d is None:
                    items.append((where, "param inplace (no default)"))
                elif isinstance(d, ast.Constant) and isinstance(d.value, bool):
                    items.append((where, f"param inplace={d.value}"))
                else:
                    raise Shape(f"{where}: non-literal default for inplace")
        for node in _own_nodes(fn):
            if isinstance(node, ast.Call):
                f = node.func
                if isinstance(f, ast.Attribute) and f.attr == "copy":
                    if isinstance(f.value, ast.Name) and f.value.id == "copy":
                        items.append((where, "copy.copy(" + ", ".join(ast.unparse(a) for a in node.args) + ")"))
                    else:
                        if node.args or node.keywords:
                            items.append((where, "call " + ast.unparse(node)))
                        else:
                            items.append((where, "call " + ast.unparse(f.value) + ".copy()"))
                elif isinstance(f, ast.Attribute) and f.attr == "deepcopy":
                    items.append((where, "deepcopy " + ast.unparse(node)))
                elif isinstance(f, ast.Name) and f.id in ("deepcopy", "copy"):
                    items.append((where, "call " + ast.unparse(node)))
                # calls that pass an inplace flag
                for kw in node.keywords:
                    if kw.arg == "inplace":
                        items.append((where, "pass " + ast.unparse(f) + "(inplace=" + ast.unparse(kw.value) + ")"))
            if isinstance(node, ast.If):
                names = {n.id for n in ast.walk(node.test) if isinstance(n, ast.Name)}
                if "inplace" in names:
                    body = "; ".join(ast.unparse(b) for b in node.body)
                    if node.orelse:
                        raise Shape(f"{where}: `if … inplace …` with an else branch")
                    items.append((where, "if " + ast.unparse(node.test) + ": " + body))
    return items


def fact_c16_copy_sites():
    items = []
    for rel in FILES:
        items.extend(_sites(rel))
    if not items:
        raise Shape("no copy sites found")
    return coq_list([f"({coq_string(a)}, {coq_string(b)})" for a, b in items])


FACTS = [
    ("c16_copy_sites", "list (string * string)", fact_c16_copy_sites),
]

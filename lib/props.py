"""Registry of claimed properties: where the theorems live, which harness ties the model to /repo.

Each property has one file lib/props.d/<ID>.py defining PID and ENTRY (a dict, see C17.py)."""
import glob
import importlib.util
import os
import sys

_here = os.path.dirname(os.path.abspath(__file__))
sys.path.insert(0, _here)
from props_common import GUARD_ENV, HOOK_COMMITS, NOT_APPLICABLE, STD_NOTE  # noqa: E402,F401

PROPS = {}
for _f in sorted(glob.glob(os.path.join(_here, "props.d", "*.py"))):
    _spec = importlib.util.spec_from_file_location("props_d_" + os.path.basename(_f)[:-3], _f)
    _m = importlib.util.module_from_spec(_spec)
    _spec.loader.exec_module(_m)
    PROPS[_m.PID] = _m.ENTRY

"""Shared constants for property registry entries."""

GUARD_ENV = "QAC_VERIF"
HOOK_COMMITS = []
NOT_APPLICABLE = {}

STD_NOTE = ("Trusted: Coq 8.16.1 kernel + vm_compute; the hand-written Gallina model (tied to the source by the correspondence check and "
            "the regenerated facts, not verified against Python semantics); tools/extract_facts.py; the harness case writers. "
            "Binary64 rounding is not modelled. ")


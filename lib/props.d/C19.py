from props_common import STD_NOTE

PID = "C19"
ENTRY = dict(
        title="Wire cuts without qubit re-use yield reset-free subexperiments",
        prop_file="Properties/C19.v",
        corr_files=["Corr/C19Corr.v"],
        theorems=["c19_wire_normal_form", "c19_no_leading", "c19_no_trailing", "c19_no_double", "c19_wf_resets_wf",
                  "c19_pattern_reset_free", "c19_pattern_pointwise",
                  "c19_no_reset", "c19_pre_pass_pattern", "c19_no_reuseb_sound", "c19_suffix_avoids_sourcesb_sound",
                  "c19_passes_bit_terms", "c19_repair_bit_terms",
                  "c19_finish_postconditions", "c19_finish_bit_terms", "c19_reference_total", "c19_second_clause_bit_terms",
                  "c19_unseparated_suffix", "c19_unseparated_no_reset", "c19_partitioned_no_reuse", "c19_placeholder_bit_masked",
                  "c19_registry_bases_class", "c19_env_entry_class", "c19_all_bases_classes", "c19_move_table_agrees_with_c02",
                  "c19_cut_wires_no_reuse",
                  "c19_input_ok_plain", "c19_cut_wires_no_reuse_gen",
                  "c19_separated_no_reuse", "c19_separated_suffix", "c19_separated_no_reset",
                  "c19_facts_move_table", "c19_facts_move_shape", "c19_facts_order"],
        allowed_axioms=[],
        facts=["c19_move_table", "c19_stage_order", "c19_pass_names", "c19_dummy_index"],
        harness="c19",
        level_text="Clause 1 is proved for observables that are the identity on every Move source (always the case after "
                   "cut_wires/expand_observables; with hand-placed Moves an observable on a source is a use of that qubit and one Reset "
                   "must and does stay, c19_ex_obs_on_source). Unbounded theorems (all circuits, all qubit counts, all map choices, by induction over instruction lists) about the "
                   "executable model of one subexperiment of generate_cutting_experiments: (1) after the three reset passes (flags, early "
                   "exits and index deletion modelled) every wire is its old sequence with leading resets dropped, then trailing resets "
                   "dropped, then reset runs squashed - hence no reset first or last on a qubit and no two consecutive resets, in every "
                   "workflow; (2) if on every wire resets occur only at the beginning and at the end, no reset survives; (3) for a subcircuit "
                   "whose Move-like placeholders read from a qubit that is not used afterwards and write to a qubit not used before (other "
                   "placeholders: bases without Reset; no Reset of its own) and a measured-qubit list avoiding the source qubits, the "
                   "modelled pipeline (register, decomposition = C14's model and splice theorem, repair step for the identity group, "
                   "measurement suffix, three passes) returns a circuit with zero resets, for every map choice; (4) the cut_wires model "
                   "(C03) produces circuits with that no-re-use property (also when the input already holds gate-cut placeholders "
                   "whose bases have no Reset); (4b) the SEPARATED workflow, composed from the models of C03, C10 and C11: for every "
                   "circuit with wire-cut markers (no Reset, no one-qubit placeholder, pre-placed two-qubit placeholders only with "
                   "reset-free bases), cut_wires then partition_problem with ANY labelling it accepts (explicit or automatic; gates "
                   "it cuts itself have reset-free bases) gives subcircuits that all satisfy no-re-use (c19_separated_no_reuse: "
                   "'source half last / destination half first on its qubit' is carried wire by wire through placeholder insertion, "
                   "numbering, the two halves, the decompose oracle, restriction to a label and qubit re-indexing, using C10's "
                   "recomposition theorem); for observables expanded from the original qubits (expand_observables model) the measured "
                   "qubits of every commuting group of every partition avoid the source qubits (c19_separated_suffix: a source "
                   "position is never an original qubit's position, restriction keeps letters, a group measures only where a member is "
                   "non-identity); hence every partition, every group - the identity group with its placeholder measurement included - "
                   "and every valid map choice yields zero resets (c19_separated_no_reset); (5) the three passes keep the Herbrand term of every classical "
                   "bit (C12) and the repair step keeps the term of every classical bit the appended suffix does not write. The `move` basis "
                   "table and the call order are regenerated from the source and pinned by reflexivity. Closed under the global context. "
                   "The model is run against >600 real subexperiments per run (pre-pass circuit rebuilt through the private functions). "
                   "Stream moves_fresh_descending (plus three fixed problems): fresh hand-placed Moves that all go from a HIGHER onto a LOWER "
                   "qubit index (never produced by cut_wires), cut through the public cut_gates wrapper, unseparated and automatic "
                   "partitions, identity on the sources.",
        level_note=STD_NOTE + "No axioms. The model describes the REPAIRED behaviour (DESIGN section 6, F2: final resets are removed before the "
                   "placeholder measurement is appended); on the unrepaired tree the fact obligation on the call order and the correspondence "
                   "both fail and the judged replay is an identity-sub-observable input. 'Values unaffected' is equality of Herbrand terms "
                   "(modelling assumption M1); that the placeholder bit is masked out of every observable is C11's c11_dummy, cited, not "
                   "re-proved here. The judge decides 'no qubit is re-used' on the problem as STATED (plain Move(source, destination) "
                   "instructions, recorded before cut_gates rewrites them) as well as on the circuit handed to generate_cutting_experiments: if "
                   "either has no re-use, any surviving reset is a judged violation, so a wrapper that re-orders a placeholder's qubits is caught.",
        assumptions=[
            "RIDER to clause 1 ('whatever the observables'): c19_no_reset is proved for observable groups whose measured qubits avoid every "
            "Move source (suffix_avoids_sources; kind: input precondition). The hypothesis is necessary - c19_ex_obs_on_source: with Z on a "
            "hand-placed Move's source the model, and the implementation alike (`h 0; Move(0,1); s 1`, observable `IZ`), keep one Reset "
            "between the QPD measurement and the observable measurement, and removing it would change the values. After "
            "cut_wires/expand_observables a source always carries the identity: discharged in c19_separated_suffix (separated) and "
            "c19_unseparated_suffix / c19_unseparated_no_reset (unseparated). The harness' judge counts an observable on a source as a use",
            "hand-placed Moves through partition_problem: c19_partitioned_no_reuse covers circuits whose Moves are already TwoQubitQPDGates "
            "(cut_gates, then any labelling) and whose other cut gates have reset-free bases; a PLAIN `Move` instruction crossing a partition "
            "(cut by partition_problem itself) is not covered by a theorem (open: c19_partitioned_no_reuse_open), only by the streams "
            "moves_fresh_labels / moves_obs_on_source and the judge",
            "the `_bit_terms` theorems (c19_passes_bit_terms, c19_repair_bit_terms, c19_finish_bit_terms, c19_second_clause_bit_terms) prove "
            "equality of the Herbrand terms of the classical bits, excluding the placeholder bit of an identity group; "
            "c19_placeholder_bit_masked (from C11's cog_post_init/decode) shows that bit is ignored by the decoding; M1 (terms -> laws, "
            "kind: physics) and the reconstruction formula (C06) are cited, not composed; that generate_cutting_experiments calls the "
            "modelled pipeline with these arguments for every sample (budget clause) is C05's statement",
            "hypothesis kinds of the workflow theorems (c19_separated_*, c19_unseparated_*, c19_partitioned_no_reuse): dx_contract and "
            "grouping_contract are oracle contracts (inhabited: c10_dx_contract_inhabited, the examples' oracles); wf_circ / input_ok / "
            "no_uuid / letter count / no_halves are input preconditions; partition_problem = Ok, collection = Ok, finish = Ok are "
            "success-case premises (a refusal returns no subexperiment)",
            "c19_second_clause_bit_terms is the property's second clause on the model for arbitrary subcircuits: hypotheses are only `valid` "
            "(C14: a proper grouping with in-range map ids) and sub_ok (indices in range, arities of Reset/Measure/placeholders/QPDMeasure); "
            "the reference circuit's existence and well-formedness are PROVED (c19_reference_total), no longer assumed; what remains outside: "
            "M1, the masking of the placeholder bit (C11) and the reconstruction formula (C06)",
            "c19_registry_bases_class / c19_env_entry_class discharge, from C02's Model/Bases.v (20 registered names + KAK path), the part of "
            "no_reuse's hypothesis that says every placeholder basis is reset-free or Move-like: only `move` contains a Reset; that Model/Bases.v "
            "is what qpdbasis_from_instruction returns is C02's correspondence, and that an environment entry equals circ_basis of such a "
            "basis is checked per case by the C19 correspondence (the env literal), not proved; hand-made QPDBasis objects stay a hypothesis",
            "finish-level statements: c19_finish_postconditions (no reset first/last/doubled on any wire of a returned subexperiment, for "
            "every valid request on a subcircuit whose resets and placeholders act inside the circuit - re-use and user resets included) "
            "and c19_finish_bit_terms (every classical bit of the returned subexperiment has the Herbrand term it has in the subexperiment "
            "with no reset removed, except the placeholder bit of an identity group); the latter takes well-formedness of the reference "
            "circuit as a hypothesis and stops at bit terms: M1, the masking of the placeholder bit (C11) and the reconstruction formula "
            "(C06) link them to reconstructed values and are not re-proved",
            "problem-level antecedent for HAND-PLACED Moves through partition_problem: no theorem derives the subcircuit-level no_reuse "
            "from the problem-level one (c19_separated_* cover marker circuits only); that class is covered by the correspondence streams "
            "moves_fresh / moves_fresh_labels and the judge",
            "facts: the order of the three passes among themselves and the place of the clean-up loop are NOT pinned (c19_stage_order only "
            "demands register < decomposition < repair < measurement suffix < the three passes): every order gives the same list (argued "
            "from c19_wire_normal_form; an order that changed the output would be caught by the exact list comparison)",
            "harness: the pre-pass circuit is rebuilt through private helpers of cutting_experiments.py (_append_measurement_register, "
            "_append_measurement_circuit, _get_bases, _get_mapping_ids_by_partition, _get_bases_by_partition) and the sampling is replayed "
            "under the same numpy global seed with the z*ngroups+j layout of the experiment list (C05/C09); a rename of a private helper "
            "makes the contract prepass_circuit_can_be_rebuilt_through_the_private_functions fail (reported, generator does not crash)",
            "every generated case is judged (contract judge_accepts_clean_case), also when model and implementation agree; the judge "
            "simulates <= 5 qubits only (histogram *.values_check counts the skipped cases)",
            "Model/ResetFree.v composes the hand-written models of C11 (measurement register/suffix), C14 (decomposition) and C12 (reset "
            "passes); tied to /repo by the C19 correspondence (exact instruction lists of real subexperiments, of the intermediate "
            "decomposed circuit, and of the model's passes applied to the implementation's intermediate circuit) and by the regenerated "
            "facts (move table, inner-loop call order, pass order, dummy index)",
            "no_reuse is stated on the circuit handed to generate_cutting_experiments (subcircuit with SingleQubitQPDGate halves, or the "
            "unseparated circuit with TwoQubitQPDGates); c19_cut_wires_no_reuse(_gen) establishes it for the unseparated cut_wires output, "
            "c19_separated_no_reuse for every subcircuit of partition_problem applied to that output",
            "the separated-workflow theorems (4b) are about the composition of the hand-written models of C03 (cut_wires, "
            "expand_observables), C10 (partition_problem, separate_circuit) and C11 (ObservableCollection); their oracles and contracts are "
            "inherited: QuantumCircuit.decompose(TwoQubitQPDGate) keeps every wire's sequence (dx_contract), Qiskit's qubit-wise commuting "
            "grouping returns only the given observables (grouping_contract), QPDBasis.from_instruction gives bases without Reset for the "
            "gates partition_problem cuts itself (a hypothesis: true of every registered basis except `move`; a hand-placed Move that "
            "crosses partitions is the re-use clause's business, c19_no_reset); hypotheses on the input: indices in range, a marker on one "
            "qubit, no one-qubit barrier already labelled like a split piece (no_uuid), observables with one letter per original qubit; "
            "`valid` (grouping accepted by the validation, map ids in range) is a hypothesis, as in c19_no_reset; that "
            "generate_cutting_experiments calls `finish` with exactly these subcircuits, groups and ids is C05's model, not re-proved here",
            "placeholder arity/distinct qubits (QuantumCircuit.append) and 'the subcircuit has no Reset of its own' are hypotheses of "
            "c19_no_reset (part of no_reuse); observables acting on a Move source are excluded by suffix_avoids_sources",
            "M1 (Herbrand adequacy) for the value statements; well-formedness (indices in range, Reset one qubit, Measure one qubit one "
            "clbit) is a hypothesis there; conditional/control-flow instructions are outside the model",
            "the judge decides 'no re-use' independently in Python on the pre-partition circuit AND on the stated problem (plain Moves, "
            "before cut_gates): every Move destination untouched "
            "before, every source untouched afterwards, no observable letter on a source, no reset in the circuit",
        ],
    )

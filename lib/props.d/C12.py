from props_common import STD_NOTE

PID = "C12"
ENTRY = dict(
        title="Reset-removal optimisations never change measurement statistics",
        prop_file="Properties/C12.v",
        corr_files=["Corr/C12Corr.v"],
        theorems=["c12_consolidate_only_resets", "c12_zero_only_resets", "c12_final_only_resets", "c12_pipeline_only_resets",
                  "c12_dag_rfr_only_resets", "c12_dag_rfr_fix_only_resets", "c12_dag_consolidate_only_resets",
                  "c12_del_resets_meaning", "c12_del_resets_clbit_wire",
                  "c12_consolidate_semantics", "c12_zero_semantics", "c12_dag_consolidate_semantics",
                  "c12_final_semantics", "c12_final_dropped_iff", "c12_final_dropped_zero", "c12_final_complete",
                  "c12_pipeline_semantics",
                  "c12_dag_rfr_semantics", "c12_dag_rfr_dropped_iff", "c12_dag_rfr_fix_semantics",
                  "c12_dag_rfr_fix_is_fixed_point", "c12_dag_equiv_final", "c12_dag_equiv_consolidate",
                  "c12_dag_equiv_consolidate_rest",
                  "c12_facts_pipeline", "c12_facts_scans", "c12_facts_dag"],
        allowed_axioms=[],
        facts=["reset_pipeline_order", "reset_scan_shapes", "reset_dag_calls"],
        harness="c12",
        level_text="Unbounded theorems (all circuits, all qubit/clbit counts, by induction) about executable models of the three list scans "
                   "(_consolidate_resets, _remove_resets_in_zero_state, _remove_final_resets, with flags, early exits and index deletion), their "
                   "composition as applied to every subexperiment, and wire-level models of RemoveFinalReset (one run and iterated to the fixed "
                   "point) and ConsolidateResets: each deletes only Reset instructions (all else kept in order); consolidation and zero-state "
                   "removal leave the whole symbolic denotation (every classical bit, every wire) unchanged; final-reset removal leaves every "
                   "classical bit and every wire unchanged except the wires q < nq whose last instruction is a reset, which the original leaves "
                   "in |0>; the DAG fixed point equals the list pass, ConsolidateResets equals _consolidate_resets on every wire. Closed under "
                   "the global context. The models are run against the implementation on every program of length <= 4 (thorough: <= 5) over a "
                   "10-letter alphabet plus random circuits, and every case is also simulated by an independent density-matrix oracle.",
        level_note=STD_NOTE + "No axioms. 'Same statistics' is proved as equality of Herbrand wire-history terms (Common/Herbrand.v); that equal "
                   "terms give equal joint laws/conditional states under density-matrix semantics is modelling assumption M1, cross-checked "
                   "numerically on every generated case by the harness simulator (oracle contract), not proved.",
        assumptions=[
            "Model/ResetPasses.v is a hand-written model of the five passes; tied to /repo by the C12 correspondence (exact instruction lists "
            "for the list passes; per-wire sequences for the transpiler passes run through PassManager, whose circuit->DAG->circuit round trip "
            "may permute independent instructions) and by the regenerated facts (pipeline order, scan direction/early exits, DAG calls used)",
            "M1: a compositional (density-matrix) semantics factors through the Herbrand denotation; initial and reset wires are the same term Zero",
            "well-formedness hypothesis of the semantic theorems: qubit/clbit indices in range, Reset on exactly one qubit and no clbit, Measure one "
            "qubit and one clbit; conditional (c_if / control-flow) resets are outside the property's quantifier and outside the model",
            "the DAG is modelled by the instruction list: predecessor of a wire's output node = last instruction on that wire, successor of a "
            "node on its wire = next instruction on that wire",
        ],
    )

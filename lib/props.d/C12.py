from props_common import STD_NOTE

PID = "C12"
ENTRY = dict(
        title="Reset-removal optimisations never change measurement statistics",
        prop_file="Properties/C12.v",
        corr_files=["Corr/C12Corr.v"],
        theorems=[
                  # (1) only resets are deleted
                  "c12_consolidate_only_resets", "c12_zero_only_resets", "c12_final_only_resets", "c12_pipeline_only_resets",
                  "c12_dag_rfr_only_resets", "c12_dag_rfr_fix_only_resets", "c12_dag_consolidate_only_resets",
                  "c12_del_resets_meaning", "c12_del_resets_clbit_wire",
                  # (2) Herbrand semantics (statistics via M1)
                  "c12_consolidate_semantics", "c12_zero_semantics", "c12_dag_consolidate_semantics",
                  "c12_final_semantics", "c12_final_dropped_iff", "c12_final_dropped_zero", "c12_final_complete",
                  "c12_final_reappend", "c12_pipeline_semantics", "c12_pipeline_dropped",
                  "c12_dag_rfr_semantics", "c12_dag_rfr_dropped_iff", "c12_dag_rfr_fix_semantics",
                  # (3) DAG passes = list passes (no M1)
                  "c12_dag_rfr_fix_is_fixed_point", "c12_dag_equiv_final", "c12_dag_equiv_consolidate",
                  "c12_dag_equiv_consolidate_rest",
                  # (4) call sites
                  "c12_site_only_resets", "c12_site_semantics_placeholder",
                  # (5) concrete / abstract-law branch semantics (no M1)
                  "c12_sim_consolidate", "c12_sim_consolidate_any", "c12_sim_zero",
                  "c12_sim_laws_consolidate", "c12_sim_laws_zero", "c12_sim_qsim_laws", "c12_sim_laws_final",
                  # definitional restatements / corollaries (no content of their own)
                  "c12_site_observed_def", "c12_sim_born_law_cor",
                  # fact obligations (constants regenerated from the source; not theorems about behaviour)
                  "c12_facts_pipeline_obligation", "c12_facts_scans_obligation", "c12_facts_dag_obligation",
                  "c12_facts_sites_obligation"],
        allowed_axioms=[],
        facts=["reset_pipeline_order", "reset_scan_shapes", "reset_dag_calls", "reset_call_sites"],
        harness="c12",
        level_text="Unbounded theorems (all circuits, all qubit/clbit counts, by induction) about executable models of the three list scans "
                   "(_consolidate_resets, _remove_resets_in_zero_state, _remove_final_resets, with flags, early exits and index deletion), their "
                   "composition as applied to every subexperiment, and wire-level models of RemoveFinalReset (one run and iterated to the fixed "
                   "point) and ConsolidateResets: each deletes only Reset instructions (all else kept in order); consolidation and zero-state "
                   "removal leave the whole symbolic denotation (every classical bit, every wire) unchanged; final-reset removal leaves every "
                   "classical bit and every wire unchanged except the wires q < nq whose last instruction is a reset, which the original leaves "
                   "in |0>; the DAG fixed point equals the list pass, ConsolidateResets equals _consolidate_resets on every wire; the call sites "
                   "inside generate_cutting_experiments (pipeline, and final-reset removal before the placeholder measurement of an identity "
                   "sub-observable) leave every classical bit unchanged except the placeholder's own, ignored, bit. Closed under "
                   "the global context. The models are run against the implementation on every program of length <= 4 (thorough: <= 5) over the "
                   "10-letter alphabet and every program of length <= 3 (thorough: <= 4) over its symmetric 13-letter completion, random circuits in three call forms (in place, "
                   "inplace=False, applied twice), and end to end on the subexperiments of generate_cutting_experiments for small wire-cut "
                   "problems; every case is also simulated by an independent density-matrix oracle.",
        level_note=STD_NOTE + "Counting: 35 theorems with content, 2 definitional restatements (c12_site_observed_def = c12_pipeline_semantics "
                   "unfolded; c12_sim_born_law_cor = a rewrite of c12_sim_consolidate/_zero) and 4 fact obligations (c12_facts_*_obligation: "
                   "extracted constants equal what the model assumes - call sites/order, scan direction, DAG methods; they pin neither flags "
                   "nor early exits). Hypotheses: wf (input precondition, enforced by Qiskit) everywhere; simple + interpreted (input "
                   "precondition = the property's quantifier: only gates/measurements/resets/barriers, every gate id mapped to a QSim gate of "
                   "the right arity) in c12_sim_*; reset_laws / commute_laws (physics of the interpretation) in c12_sim_laws_*. "
                   "WITHOUT M1: c12_sim_consolidate/_any/_zero - for _consolidate_resets and _remove_resets_in_zero_state the list of positive-"
                   "weight (classical register, exact state vector) branches is unchanged in the concrete state-vector semantics "
                   "Model/ResetSim.v over Common/QSim.v (gates x y z h s sdg sx sxdg cx cz swap ccx, any number of qubits); "
                   "c12_sim_laws_consolidate/_zero - the same in any branch semantics satisfying the ten laws reset_laws (covers rotation "
                   "gates; c12_sim_qsim_laws discharges them for QSim); c12_sim_laws_final - _remove_final_resets in any branch semantics "
                   "satisfying five commutation laws: up to branch order, c = (pass output) followed by the removed resets; these five laws "
                   "are NOT discharged for QSim (its flip re-normalises rationals, so they hold only up to Qeq / under a validity invariant). "
                   "Hence for the exact simulator M1 is still what carries c12_final_*, c12_pipeline_*, c12_site_*, c12_dag_rfr*, "
                   "c12_dag_consolidate_semantics to statistics; ConsolidateResets has no concrete theorem (it needs the same commutation "
                   "laws plus branch permutation). The concrete semantics is compared with the numpy simulator on ~1200 cases per run "
                   "(chk_sim). No axioms. 'Same statistics' in group (2) is equality of Herbrand wire-history terms (Common/Herbrand.v); "
                   "that equal terms give equal joint laws/conditional states is modelling assumption M1, cross-checked numerically on every "
                   "generated case by the harness simulator (oracle contract), not proved.",
        assumptions=[
            "Model/ResetPasses.v is a hand-written model of the five passes; tied to /repo by the C12 correspondence (exact instruction lists "
            "for the list passes; per-wire sequences for the transpiler passes run through PassManager, whose circuit->DAG->circuit round trip "
            "may permute independent instructions) and by the regenerated facts (pipeline order, scan direction/early exits, DAG calls used)",
            "M1: a compositional (density-matrix) semantics factors through the Herbrand denotation; initial and reset wires are the same term Zero "
            "- needed by c12_final_*, c12_pipeline_*, c12_site_*, c12_dag_*_semantics only; c12_sim_* are proved in the concrete / abstract-law "
            "branch semantics and do not use it",
            "the concrete semantics (Model/ResetSim.v: measure/reset = two unnormalised projected branches, Born weight = squared norm; gates "
            "from Common/QSim.v) is hand-written; tied to the harness's numpy simulator by chk_sim; gates outside the QSim set (rotations) "
            "are covered only under the abstract laws (c12_sim_laws_*), not by an instance; on instructions outside [simple] (Move, QPD "
            "placeholders, CutWire) bstep is the identity, which is not their meaning - the c12_sim_* statements therefore require simple c",
            "hypotheses reset_laws (10) and commute_laws (5) of c12_sim_laws_*: algebraic laws of the interpretation; reset_laws proved for QSim, "
            "commute_laws only shown consistent (one-point model)",
            "well-formedness hypothesis of the semantic theorems: qubit/clbit indices in range, Reset on exactly one qubit and no clbit, Measure one "
            "qubit and one clbit; conditional (c_if / control-flow) resets are outside the property's quantifier and outside the model",
            "OBSERVATION (outside the quantifier 'gates, mid-circuit measurements, resets and barriers'; not modelled, not checked, recorded in the "
            "harness histograms observation.*): conditional resets are treated as unconditional by BOTH halves - _consolidate_resets keeps a "
            "leading reset(q).c_if(c,1) and deletes the unconditional reset after it; ConsolidateResets deletes an unconditional reset that is "
            "followed by a conditional one - each changes the classical-bit law",
            "OBSERVATION (outside the quantifier): the list passes recognise a reset by operation.name == 'reset', the transpiler passes by "
            "isinstance(op, Reset); on a non-Reset instruction named 'reset' (h q; Instruction('reset',1,0,[])) _remove_final_resets deletes "
            "it and RemoveFinalReset does not, so the two are not equivalent there",
            "at the guarded call site the placeholder measurement's bit (observable_measurements[0] of an identity sub-observable) changes; that "
            "reconstruction ignores this bit is C01/C19's business; C12 proves and checks only the other classical bits there",
            "the DAG is modelled by the instruction list: predecessor of a wire's output node = last instruction on that wire, successor of a "
            "node on its wire = next instruction on that wire",
        ],
    )

from props_common import STD_NOTE

PID = "C12"
ENTRY = dict(
        title="Reset-removal optimisations never change measurement statistics",
        prop_file="Properties/C12.v",
        corr_files=["Corr/C12Corr.v"],
        theorems=["c12_consolidate_only_resets", "c12_zero_only_resets", "c12_final_only_resets", "c12_pipeline_only_resets",
                  "c12_dag_rfr_only_resets", "c12_dag_rfr_fix_only_resets", "c12_dag_consolidate_only_resets",
                  "c12_del_resets_meaning", "c12_del_resets_clbit_wire",
                  "c12_consolidate_semantics", "c12_zero_semantics", "c12_dag_consolidate_semantics",
                  "c12_final_semantics", "c12_final_dropped_iff", "c12_final_dropped_zero", "c12_final_complete",
                  "c12_pipeline_semantics",
                  "c12_dag_rfr_semantics", "c12_dag_rfr_dropped_iff", "c12_dag_rfr_fix_semantics",
                  "c12_dag_rfr_fix_is_fixed_point", "c12_dag_equiv_final", "c12_dag_equiv_consolidate",
                  "c12_dag_equiv_consolidate_rest",
                  "c12_sim_consolidate", "c12_sim_consolidate_any", "c12_sim_zero", "c12_sim_born_law",
                  "c12_site_only_resets", "c12_site_semantics_observed", "c12_site_semantics_placeholder",
                  "c12_facts_pipeline", "c12_facts_scans", "c12_facts_dag", "c12_facts_sites"],
        allowed_axioms=[],
        facts=["reset_pipeline_order", "reset_scan_shapes", "reset_dag_calls", "reset_call_sites"],
        harness="c12",
        level_text="Unbounded theorems (all circuits, all qubit/clbit counts, by induction) about executable models of the three list scans "
                   "(_consolidate_resets, _remove_resets_in_zero_state, _remove_final_resets, with flags, early exits and index deletion), their "
                   "composition as applied to every subexperiment, and wire-level models of RemoveFinalReset (one run and iterated to the fixed "
                   "point) and ConsolidateResets: each deletes only Reset instructions (all else kept in order); consolidation and zero-state "
                   "removal leave the whole symbolic denotation (every classical bit, every wire) unchanged; final-reset removal leaves every "
                   "classical bit and every wire unchanged except the wires q < nq whose last instruction is a reset, which the original leaves "
                   "in |0>; the DAG fixed point equals the list pass, ConsolidateResets equals _consolidate_resets on every wire; the call sites "
                   "inside generate_cutting_experiments (pipeline, and final-reset removal before the placeholder measurement of an identity "
                   "sub-observable) leave every classical bit unchanged except the placeholder's own, ignored, bit. Closed under "
                   "the global context. The models are run against the implementation on every program of length <= 4 (thorough: <= 5) over a "
                   "10-letter alphabet (plus its symmetric 13-letter completion one length shorter), random circuits in three call forms (in place, "
                   "inplace=False, applied twice), and end to end on the subexperiments of generate_cutting_experiments for small wire-cut "
                   "problems; every case is also simulated by an independent density-matrix oracle.",
        level_note=STD_NOTE + "For _consolidate_resets and _remove_resets_in_zero_state M1 is NOT needed any more: c12_sim_* prove, for every "
                   "circuit of gates from the QSim set (x y z h s sdg sx sxdg cx cz swap ccx), measurements, resets and barriers on any number of "
                   "qubits, that the list of positive-weight (classical register, exact state vector) branches is unchanged in the concrete "
                   "state-vector semantics Model/ResetSim.v over Common/QSim.v (also valid for any other semantics satisfying the ten algebraic "
                   "laws of Proofs/ResetSimP.v); that semantics is itself compared with the numpy simulator on ~1200 cases per run (chk_sim). "
                   "M1 is still what carries the final-reset, pipeline, call-site and DAG-pass theorems to statistics. "
                   "No axioms. 'Same statistics' is proved as equality of Herbrand wire-history terms (Common/Herbrand.v); that equal "
                   "terms give equal joint laws/conditional states under density-matrix semantics is modelling assumption M1, cross-checked "
                   "numerically on every generated case by the harness simulator (oracle contract), not proved.",
        assumptions=[
            "Model/ResetPasses.v is a hand-written model of the five passes; tied to /repo by the C12 correspondence (exact instruction lists "
            "for the list passes; per-wire sequences for the transpiler passes run through PassManager, whose circuit->DAG->circuit round trip "
            "may permute independent instructions) and by the regenerated facts (pipeline order, scan direction/early exits, DAG calls used)",
            "M1: a compositional (density-matrix) semantics factors through the Herbrand denotation; initial and reset wires are the same term Zero "
            "- needed by c12_final_*, c12_pipeline_*, c12_site_*, c12_dag_* only; c12_sim_consolidate / c12_sim_zero / c12_sim_born_law are "
            "proved directly in the concrete state-vector semantics and do not use it",
            "the concrete semantics (Model/ResetSim.v: measure/reset = two unnormalised projected branches, Born weight = squared norm; gates "
            "from Common/QSim.v) is hand-written; tied to the harness's numpy simulator by chk_sim; gates outside the QSim set (rotations) "
            "are covered only under the abstract laws of Proofs/ResetSimP.v, not by an instance",
            "well-formedness hypothesis of the semantic theorems: qubit/clbit indices in range, Reset on exactly one qubit and no clbit, Measure one "
            "qubit and one clbit; conditional (c_if / control-flow) resets are outside the property's quantifier and outside the model",
            "OBSERVATION (outside the quantifier 'gates, mid-circuit measurements, resets and barriers'; not modelled, not checked, recorded in the "
            "harness histograms observation.*): conditional resets are treated as unconditional by BOTH halves - _consolidate_resets keeps a "
            "leading reset(q).c_if(c,1) and deletes the unconditional reset after it; ConsolidateResets deletes an unconditional reset that is "
            "followed by a conditional one - each changes the classical-bit law",
            "OBSERVATION (outside the quantifier): the list passes recognise a reset by operation.name == 'reset', the transpiler passes by "
            "isinstance(op, Reset); on a non-Reset instruction named 'reset' (h q; Instruction('reset',1,0,[])) _remove_final_resets deletes "
            "it and RemoveFinalReset does not, so the two are not equivalent there",
            "at the guarded call site the placeholder measurement's bit (observable_measurements[0] of an identity sub-observable) changes; that "
            "reconstruction ignores this bit is C01/C19's business; C12 proves and checks only the other classical bits there",
            "the DAG is modelled by the instruction list: predecessor of a wire's output node = last instruction on that wire, successor of a "
            "node on its wire = next instruction on that wire",
        ],
    )

from props_common import STD_NOTE

PID = "C17"
ENTRY = dict(
        title="Restricting and expanding observables is faithful to qubit identity",
        prop_file="Properties/C17.v",
        corr_files=["Corr/C17Corr.v"],
        theorems=["c17_restrict", "c17_decompose", "c17_members", "c17_recombine", "c17_expand",
                  "c17_refuses_count", "c17_refuses_missing", "c17_facts"],
        allowed_axioms=[],
        facts=["value_error_sites"],
        harness="c17",
        level_text="Unbounded theorems (all list lengths, all label sequences, all qubit identity lists) about the executable model of "
                   "restriction/decomposition/expansion of observables: letters kept in order, phase dropped/kept, partition recombines to the "
                   "original string, refusals. Closed under the global context. The model is run against the implementation on >1000 generated "
                   "cases per run.",
        level_note=STD_NOTE + "No axioms.",
        assumptions=[
            "Model/Observables.v is a hand-written model of observables_restricted_to_subsystem, decompose_observables, expand_observables; "
            "tied to /repo by the C17 correspondence (vm_compute of the model on the inputs the implementation ran on)",
            "Qubit objects are modelled as identity tags; PauliList symplectic arrays as one letter per qubit index",
            "labels are interned by Python ==/hash classes (dict-key semantics)",
        ],
    )

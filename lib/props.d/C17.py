from props_common import STD_NOTE

PID = "C17"
ENTRY = dict(
        title="Restricting and expanding observables is faithful to qubit identity",
        prop_file="Properties/C17.v",
        corr_files=["Corr/C17Corr.v"],
        theorems=["c17_restrict", "c17_decompose", "c17_members", "c17_recombine", "c17_expand",
                  "c17_refuses_count", "c17_refuses_missing",
                  "c17_restrict_paths", "c17_restrict_out_of_range",
                  "c17_decompose_call_total", "c17_decompose_call_crash",
                  "c17_expand_outcome", "c17_refusal_reason",
                  "c17_call_recombine", "c17_call_cover_exactly_once",
                  "c17_expand_phase_kept", "c17_expand_zero_qubits",
                  "c17_interning_contract", "c17_interner_sound",
                  "c17_facts", "c17_source_facts"],
        allowed_axioms=[],
        facts=["value_error_sites", "c17_source_shape"],
        harness="c17",
        level_text="Unbounded theorems (all list lengths incl. 0 qubits and the empty list of observables, all label sequences, all qubit "
                   "identity lists) about the executable model of restriction/decomposition/expansion of observables: letters kept in "
                   "order, phase dropped/kept, partition recombines to the original string, refusals; plus outcome (totality) theorems: "
                   "expansion is answered iff the counts agree and every original qubit is present, otherwise refused with the count "
                   "message first and else the FIRST missing qubit named, and it never fails otherwise; decomposition as a public call "
                   "answers iff there are at most num_qubits labels (more labels: IndexError, reachable); the dict returned by that public call "
                   "covers every qubit index exactly once whatever the label values (None included) and every row recombines to the "
                   "original letters; expansion keeps every phase on every answered call (closed form for 0-qubit originals); the label "
                   "glue is modelled (Python labels of any type with dict-key equality, first key object kept, the harness's Interner) "
                   "and proved sound: interning commutes with the grouping, and the Interner's numbering is the dict-key equality "
                   "whenever that equality is an equivalence. Closed under the global "
                   "context. The model is run against the implementation on 1500 generated cases per quick run (about 21000 thorough).",
        level_note=STD_NOTE + "No axioms. The source-shape fact (tools/facts_c17.py) pins, statement by statement, the lines the model "
                   "mirrors (no phase argument in the restriction, `!=` count guard on num_qubits, CircuitError handler, result width "
                   "final_circuit.num_qubits, copied phase vector); it is a syntactic tie, not a semantics of Python.",
        assumptions=[
            "Model/Observables.v is a hand-written model of observables_restricted_to_subsystem, decompose_observables, expand_observables; "
            "tied to /repo by the C17 correspondence (vm_compute of the model on the inputs the implementation ran on) and by the "
            "statement-level source fact c17_source_shape",
            "Qubit objects are modelled as identity tags assigned by Python ==/hash (what QuantumCircuit.find_bit uses); PauliList "
            "symplectic arrays as one letter per qubit index; classical bits, ancilla flags and register structure are NOT in the model - "
            "the harness varies them (registers owning bits, registers over loose bits, overlapping registers, ancilla registers, clbits, "
            "outputs of cut_wires/_transform_cuts_to_moves) and checks that the answer depends on the two .qubits lists only",
            "labels: the nat labels of the model are the harness Interner's numbering of the Python labels. That this numbering is sound is "
            "no longer an assumption about the harness: c17_interner_sound proves it for the modelled Interner from three premises on "
            "Python's dict-key equality (reflexive, symmetric, transitive), and c17_interning_contract states the exact contract "
            "(ids equal <-> same dict key) for any numbering. What remains assumed, and is monitored on every generated call "
            "(contracts interning_is_dict_key_equality, dict_key_equality_is_equivalence, dict_keeps_first_key_object; also for the "
            "Qubit objects of the expand stream): that Python's dict and harness/common.py Interner behave as Model/ObservablesExt.v "
            "says on the objects used (False/0/0.0/np.int64(0), True/1/1.0/np.bool_(True), equal tuples/frozensets built separately)",
            "a refusal counts only if the ValueError is raised by a frame of the package with one of the two documented messages "
            "('must have the same number of qubits' / 'cannot be found in the `final_circuit`'); a ValueError from numpy broadcasting is "
            "recorded as an undocumented refusal and never accepted (neither by the model comparison nor by judge)",
            "observations outside the property's quantifier (recorded, compared with the model where it has an opinion, never judged): "
            "an index >= num_qubits in a restriction is an IndexError (model: Crashed) except on the list[Pauli] path with an empty list "
            "(returns []); more partition labels than qubits -> IndexError inside decompose_observables (model: Crashed), fewer labels "
            "-> the trailing qubits are silently dropped (no validation in the source); repeated indices in a restriction repeat the "
            "letter (not a subset: judge silent); negative indices wrap around in numpy (the model has naturals only; never generated); "
            "the container type of the result (PauliList vs list) is not modelled; a single Pauli passed to expand_observables is "
            "treated as a list of num_qubits rows by len() (docstring says observable(s))",
        ],
    )

from props_common import STD_NOTE

PID = "C17"
ENTRY = dict(
        title="Restricting and expanding observables is faithful to qubit identity",
        prop_file="Properties/C17.v",
        corr_files=["Corr/C17Corr.v"],
        theorems=["c17_restrict", "c17_decompose", "c17_members", "c17_recombine", "c17_expand",
                  "c17_refuses_count", "c17_refuses_missing",
                  "c17_restrict_paths_def", "c17_restrict_out_of_range",
                  "c17_decompose_call_total", "c17_decompose_call_crash",
                  "c17_expand_outcome", "c17_refusal_reason",
                  "c17_call_recombine", "c17_call_cover_exactly_once",
                  "c17_expand_phase_kept_def", "c17_expand_zero_qubits_def",
                  "c17_interning_contract", "c17_interner_sound", "c17_recombine_any_partition",
                  "c17_facts", "c17_source_facts"],
        allowed_axioms=[],
        facts=["value_error_sites", "c17_source_shape"],
        harness="c17",
        level_text="Unbounded theorems (all list lengths incl. 0 qubits and the empty list of observables, all label sequences, all qubit "
                   "identity lists) about the executable model of restriction/decomposition/expansion of observables. "
                   "READ-OFFS of one-line model definitions (low proof content; the weight of these clauses is on the correspondence and "
                   "the source-shape fact): c17_restrict (letters kept in the given order, phase dropped; also says the letter is a real "
                   "letter of the input row, not a default), c17_restrict_paths_def, c17_expand_phase_kept_def, c17_expand_zero_qubits_def. "
                   "PROVED WITH CONTENT: the label-grouping loop (c17_decompose/c17_members: one entry per distinct label, exactly the "
                   "ascending positions of that label); recombination over ANY family of index blocks covering exactly 0..n-1, blocks and "
                   "indices in any order (c17_recombine_any_partition), over the label-induced partition (c17_recombine) and over the dict "
                   "returned by the public call, which covers every index exactly once whatever the label values, None included "
                   "(c17_call_recombine, c17_call_cover_exactly_once); expansion: every output position described (same qubit object / "
                   "identity elsewhere / phase kept / width) (c17_expand); on a well-formed PauliList expansion is answered iff the counts "
                   "agree and every original qubit is present, otherwise refused, never another failure (c17_expand_outcome), with the "
                   "count message first and else the FIRST missing qubit named (c17_refusal_reason, about the parallel function "
                   "expand_refusal, linked to expand by Refused <-> reason present); decomposition as a public call answers IF there are at "
                   "most num_qubits labels; with more labels it is an IndexError, EXCEPT on the list[Pauli] path with an empty list, which is "
                   "answered (c17_decompose_call_total/_crash); the label glue (Python labels of any type with dict-key equality, first key "
                   "object kept, the harness's Interner) is modelled and proved sound (c17_interning_contract, c17_interner_sound). "
                   "Closed under the global context. The model is run against the implementation on 1620 generated cases per quick run "
                   "(about 22500 thorough). Of these, 120 (1500) are a targeted HISTORY stream: a PauliList with a non-trivial phase is "
                   "restricted / decomposed 1..3 times (well-formed subsets, exact partitions) and THEN the same PauliList object is "
                   "expanded (interleave / transform finals); the expansion is compared with the model and judged against the observables "
                   "as the caller built them, so an earlier use that alters its argument (e.g. zeroes the phase in place) is a failing input.",
        level_note=STD_NOTE + "No axioms. The source-shape fact (tools/facts_c17.py) pins, statement by statement, the lines the model "
                   "mirrors (no phase argument in the restriction, `!=` count guard on num_qubits, CircuitError handler, result width "
                   "final_circuit.num_qubits, copied phase vector); it is a syntactic tie, not a semantics of Python.",
        assumptions=[
            "Model/Observables.v is a hand-written model of observables_restricted_to_subsystem, decompose_observables, expand_observables; "
            "tied to /repo by the C17 correspondence (vm_compute of the model on the inputs the implementation ran on) and by the "
            "statement-level source fact c17_source_shape",
            "input preconditions that remain as theorem hypotheses (Qiskit/PauliList invariants, not established by the modelled code): "
            "every row of the observable list has the width the call is about (length (plets p) = n resp. nobs) - without it the model's "
            "totalised nth/scatter would invent or drop letters where numpy raises (Example c17_ex_width_premise_needed); the .qubits "
            "lists of both circuits are duplicate-free (NoDup oq, NoDup fq); c17_recombine_any_partition: the blocks cover exactly "
            "0..n-1 (disjointness is not needed). Success-case hypothesis: c17_call_recombine/_cover_exactly_once assume the call "
            "returned Ok D with len(labels) = n (satisfiable by c17_decompose_call_total). Oracle-kind hypotheses: reflexive/symmetric/"
            "transitive dict-key equality in c17_interner_sound (monitored)",
            "definitions that theorem statements mention but that live in Proofs/ObservablesP.v (members, pI): not moved to Model/ because "
            "that file is in the cones of C01/C03/C10/C11/C19; relabel was moved to Model/ObservablesExt.v",
            "Qubit objects are modelled as identity tags assigned by Python ==/hash (what QuantumCircuit.find_bit uses); PauliList "
            "symplectic arrays as one letter per qubit index; classical bits, ancilla flags and register structure are NOT in the model - "
            "the harness varies them (registers owning bits, registers over loose bits, overlapping registers, ancilla registers, clbits, "
            "outputs of cut_wires/_transform_cuts_to_moves) and checks that the answer depends on the two .qubits lists only",
            "labels: the nat labels of the model are the harness Interner's numbering of the Python labels. That this numbering is sound is "
            "no longer an assumption about the harness: c17_interner_sound proves it for the modelled Interner from three premises on "
            "Python's dict-key equality (reflexive, symmetric, transitive), and c17_interning_contract states the exact contract "
            "(ids equal <-> same dict key) for any numbering. What remains assumed, and is monitored on every generated call "
            "(contracts interning_is_dict_key_equality, dict_key_equality_is_equivalence, dict_keeps_first_key_object; also for the "
            "Qubit objects of the expand stream): that Python's dict and harness/common.py Interner behave as Model/ObservablesExt.v "
            "says on the objects used (False/0/0.0/np.int64(0), True/1/1.0/np.bool_(True), equal tuples/frozensets built separately)",
            "a refusal counts only if the ValueError is raised by a frame of the package with one of the two documented messages "
            "('must have the same number of qubits' / 'cannot be found in the `final_circuit`'); a ValueError from numpy broadcasting is "
            "recorded as an undocumented refusal and never accepted (neither by the model comparison nor by judge)",
            "observations outside the property's quantifier (recorded, compared with the model where it has an opinion, never judged): "
            "an index >= num_qubits in a restriction is an IndexError (model: Crashed) except on the list[Pauli] path with an empty list "
            "(returns []); more partition labels than qubits -> IndexError inside decompose_observables (model: Crashed), fewer labels "
            "-> the trailing qubits are silently dropped (no validation in the source); repeated indices in a restriction repeat the "
            "letter (not a subset: judge silent); negative indices wrap around in numpy (the model has naturals only; never generated); "
            "the container type of the result (PauliList vs list) is not modelled; a single Pauli passed to expand_observables is "
            "treated as a list of num_qubits rows by len() (docstring says observable(s))",
        ],
    )

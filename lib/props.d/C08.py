from props_common import STD_NOTE

PID = "C08"
ENTRY = dict(
        title="A reported minimum really is the minimum sampling overhead",
        prop_file="Properties/C08.v",
        corr_files=["Corr/C08Corr.v"],
        theorems=["c08_stub"],
        allowed_axioms=[],
        facts=[],
        harness="c08",
        level_text="stub",
        level_note=STD_NOTE,
        assumptions=[],
    )

from props_common import STD_NOTE

PID = "C08"
ENTRY = dict(
        title="A reported minimum really is the minimum sampling overhead",
        prop_file="Properties/C08.v",
        corr_files=["Corr/C08Corr.v"],
        theorems=["c08_action_factor", "c08_factor_ge_1", "c08_cost_monotone", "c08_dijkstra_generic", "c08_frontier_invariant",
                  "c08_driver_invariant", "c08_flag_sound_guarded", "c08_pruning_sound", "c08_pruning_sound_request",
                  "c08_result_two_qubit", "c08_wide_gate_no_result", "c08_gammas_from_table", "c08_flag_sound",
                  "c08_result_is_assignment", "c08_reported_minimum_is_minimum",
                  "c08_flag_sound_modulo_pruning", "c08_pruning_sound_bounded", "c08_flag_sound_bounded",
                  "c08_unrestricted_guarded", "c08_seed_independent_guarded", "c08_result_attained", "c08_unrestricted_modulo_pruning",
                  "c08_seed_independent_modulo_pruning", "c08_unrestricted", "c08_seed_independent", "c08_unrestricted_total",
                  "c08_unrestricted_bounded", "c08_seed_independent_bounded", "c08_enough_fuel",
                  "c08_facts", "c08_fact_requeue"],
        allowed_axioms=[],
        facts=["cf_left_wire_mult", "cf_right_wire_mult", "cf_both_wires_mult", "cf_gate_cut_uses_gate_gamma",
               "cf_upper_bound_cost_is_gamma_ub", "cf_stop_at_first_min", "cf_overhead_is_square",
               "bf_bound_branch_requeues", "bf_put_prunes_above_upperbound", "bf_flag_rule"],
        harness="c08",
        level_text="Unbounded theorems (any number of gates/qubits, any tape, any fuel) about the executable model of the cut search "
                   "(best-first engine with the REPAIRED bound branch, greedy incumbent, wire-cut budget, driver loop, find_cuts metadata). "
                   "HEADLINE (canonical names, no hypothesis about the search space; hypotheses: gtab_ge1 = every kappa in the gate table handed "
                   "to the model is >= 1, evaluated by the Coq case checker on every case [oracle fact about QPDBasis.kappa]; circ_nodup = no "
                   "instruction uses a qubit twice [input precondition]; and, where stated, find_cuts_full = Val r [success case]): "
                   "c08_flag_sound: flag true => returned overhead <= cost^2 of EVERY assignment of permitted kinds that meets the width limit in the "
                   "wire-segment specification assignment_cost; c08_result_is_assignment: the returned overhead IS cost^2 of such an assignment "
                   "(attainment, so an under-reporting model would fail); c08_reported_minimum_is_minimum: both together; "
                   "c08_unrestricted / c08_seed_independent: with max_backjumps = None and some assignment within max_gamma a returned result "
                   "has the flag set and two tapes give equal overhead; c08_unrestricted_total: the TOTAL form - inside the domain (circ_wf: "
                   "multi-qubit gates are two-qubit gates on distinct qubits; all of them known to the gate table; no classical bits; valid "
                   "settings; W >= 1; some cut kind; enough fuel) such a request DOES return a value with the flag set (not Crash: C07 "
                   "never-crashes; not ValueError: a dead-ended greedy pass with known gammas means no gate cuts and W = 1, where the "
                   "specification has no assignment). "
                   "c08_pruning_sound (exchange argument, all sizes) and its converse (Proofs/BestFirstAttain.v) connect the guarded search space "
                   "with the specification: every assignment that meets the width limit is matched in cost by a goal the guarded actions (width "
                   "checks, r1 == r2 guards, can_expand_subcircuit, W < 2 guard, no-merge clauses, can_add_wires under the budget min(#gate inputs, "
                   "max_wire_cuts_gamma(greedy gamma | max_gamma))) reach from the start state, and every goal is an assignment of the same cost. "
                   "STEPPING STONES kept under explicit names: ..._guarded (relative to the guarded search space only), ..._modulo_pruning "
                   "(pruning soundness as a premise), ..._bounded (finite-domain enumeration <=3 gates, <=4 qubits, gammas 3/7, an independent "
                   "check; the 4-gate enumeration is outside the cone and not registered), c08_result_attained (best = greedy incumbent or "
                   "guarded goal), c08_frontier_invariant / c08_driver_invariant (engine pass and repeat-until-None driver loop, backjump and "
                   "bound accounting across passes), c08_action_factor / c08_factor_ge_1 / c08_cost_monotone, c08_enough_fuel, "
                   "c08_dijkstra_generic (a standalone generic lemma, NOT used by the proof chain and saying nothing about the code by itself). "
                   "c08_result_two_qubit: a returned value proves every multi-qubit gate has two qubits; c08_wide_gate_no_result: a circuit with a "
                   "wider gate never yields a value (conclusion is '<> Val r', not '= Ref': that the model returns the ValueError is shown only for "
                   "the instance c08_ex_wide and compared with find_cuts on the malformed stream; excluding Crash would need C07's invariants "
                   "for gate lists with a wide gate). Non-vacuity: c08_ex_five_* = 5 qubits, 5 gates, gate and wire cuts, max_backjumps = None, two "
                   "tapes, through find_cuts_full (optimum 12 found and flagged under both tapes; flag false for max_gamma below the optimum and "
                   "for a backjump limit). Closed under the global context. The model's (overhead, minimum_reached) are compared exactly with "
                   "find_cuts on ~3000 requests x 1-3 seeds per quick run (bounded-exhaustive small circuits, random circuits, the F3 witness "
                   "class, limits far above 1024, malformed incl. a three-qubit gate), and the independent brute-force oracle runs on every case. "
                   "Stream 'budget' (12 fixed + 50 rng-drawn circuits per quick run): 3-4 gates from two of cx / rzz(asin 1/2, 1/4, 3/4) (gammas 3, 2, 3/2, 5/2, "
                   "exact in binary64) whose gate-cut incumbents fall BETWEEN the steps 3, 7, 15 of the wire-cut budget and whose brute-force optimum "
                   "needs a wire cut (first or second gate input); unrestricted search, strict model comparison and oracle.",
        level_note=STD_NOTE + "No axioms. heapq is modelled as extract-min over a list (oracle contract O-heap); the numpy Generator as a recorded tape.",
        assumptions=[
            "Model/CutFinder*.v (written for C07) is a hand-written model of find_cuts and the cut_finding package; tied to the source by the C07 "
            "correspondence (all intermediate objects) and the C08 correspondence (overhead and flag, strict)",
            "the model implements the REPAIRED behaviour of BestFirstSearch.optimization_pass (a popped state over a bound is re-queued unless "
            "the flag is set; candidate fix F3); fact bf_bound_branch_requeues ties this to the source and is false on the unrepaired tree",
            "gate gammas >= 1: reduced to the executable check gtab_ge1 of the gate table (c08_gammas_from_table), evaluated inside Coq on every "
            "generated case (Corr/C08Corr.v: chk_c08); that the table holds kappa of QPD bases, which are >= 1, is C15 (c15_ge_1 over the reals, and the axiom-free "
            "Q-level c15_gamma_table_ge1 / c15_gamma_table_consts of Proofs/KappaQ.v); not connected by proof: C15's table is keyed by gate NAME "
            "and angle, the model's gate table by interned gate id with kappa as observed by the harness, and the model's circuit does not carry names",
            "c08_pruning_sound is proved for gate lists of well-formed two-qubit gates (two distinct qubits below the number of qubits). For a "
            "request of find_cuts that returns a value, 'two qubits' is derived (c08_result_two_qubit) and 'below the number of qubits' is "
            "proved from the renumbering; 'distinct' remains the hypothesis circ_nodup of the request-level theorems (Qiskit rejects duplicate "
            "qubit arguments when an instruction is appended). The specification is the wire-segment semantics of Proofs/BestFirstSpec.v "
            "(assignment_cost), a hand-written declarative definition; the brute-force oracle of harness/c08.py still probes the same "
            "statement on every generated case (a rejected case is marked k_oracle=false and reported)",
            "c08_unrestricted_total additionally assumes circ_wf (two DISTINCT qubits per multi-qubit gate), every multi-qubit gate known to the "
            "gate table, no classical bits, settings_ok, W >= 1, a permitted cut kind and fuel >= 5-ary tree size + 3 (input preconditions); "
            "seed -> tape (one draw per heap push) is an oracle contract, tested",
            "binary64: gamma_UB ** 2 is exact below 2^26 (cases with a larger greedy gamma are skipped by the generator)",
            "max_wire_cuts_gamma is modelled exactly over Q (np.log2/np.ceil corner cases at powers of two are not modelled)",
            "harness/c08.py: `judge` (own 5^g brute force on wire segments) runs on EVERY generated case (contract judge_accepts_clean_case) with "
            "clauses (a) flag => minimum, (b) unrestricted => flag, (c) unrestricted => same overhead for every seed, (d) returned overhead never "
            "below the brute-force optimum (attainment), (e) unrestricted and feasible => find_cuts does not raise; its domain = the theorems' "
            "hypotheses (only 1- and 2-qubit instructions besides barriers, no classical bits, max_gamma >= 1, max_backjumps >= 0 or None, W >= 1, "
            "some cut kind allowed); searches visiting more states than the model-evaluation budget (3000 quick / 20000 thorough) are kept and "
            "judged by the oracle only (k_check_model = false)",
            "observations (not alarms): all requests of one run execute in one harness process, so a defect that depends on the call history "
            "would be attributed to the later request and a `--replay` in a fresh process might not reproduce it (call-history independence is "
            "C09's subject); the per-case oracle uses a budget of 400 000 search nodes, `judge` on a replay 3 000 000 (verdicts can only move "
            "from undecided to decided); gate kinds in the streams have dyadic gammas (cx, cz: 3; swap, iswap: 7; rzz(0): 1) so that every "
            "compared product is exact in binary64; the budget stream adds rzz(asin s), s in {1/4, 1/2, 3/4}, with kappa exactly 3/2, 2, 5/2 (checked by a generator contract) — non-dyadic gammas (rzz/cp at generic angles) are exercised by C07's tolerance stream only",
        ],
    )

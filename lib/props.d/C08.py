from props_common import STD_NOTE

PID = "C08"
ENTRY = dict(
        title="A reported minimum really is the minimum sampling overhead",
        prop_file="Properties/C08.v",
        corr_files=["Corr/C08Corr.v"],
        theorems=["c08_action_factor", "c08_factor_ge_1", "c08_cost_monotone", "c08_dijkstra", "c08_frontier_invariant", "c08_driver_invariant",
                  "c08_flag_sound_guarded", "c08_pruning_sound", "c08_pruning_sound_request", "c08_result_two_qubit",
                  "c08_wide_gate_no_result", "c08_gammas_from_table", "c08_flag_sound_unbounded",
                  "c08_flag_sound", "c08_pruning_sound_bounded", "c08_flag_sound_bounded",
                  "c08_unrestricted", "c08_seed_independent", "c08_result_attained", "c08_unrestricted_spec",
                  "c08_seed_independent_spec", "c08_unrestricted_unbounded", "c08_seed_independent_unbounded",
                  "c08_unrestricted_bounded", "c08_seed_independent_bounded", "c08_enough_fuel",
                  "c08_facts", "c08_fact_requeue"],
        allowed_axioms=[],
        facts=["cf_left_wire_mult", "cf_right_wire_mult", "cf_both_wires_mult", "cf_gate_cut_uses_gate_gamma",
               "cf_upper_bound_cost_is_gamma_ub", "cf_stop_at_first_min", "cf_overhead_is_square",
               "bf_bound_branch_requeues", "bf_put_prunes_above_upperbound", "bf_flag_rule"],
        harness="c08",
        level_text="Unbounded theorems (any number of gates/qubits, any tape, any fuel) about the executable model of the cut search "
                   "(best-first engine with the REPAIRED bound branch, greedy incumbent, wire-cut budget, driver loop, find_cuts metadata): every "
                   "action multiplies the cost by a factor >= 1; generic Dijkstra/pruning lemmas; the frontier invariant is preserved by a pass; "
                   "minimum_reached = true implies that the returned overhead is <= that of every goal of the guarded search space; an "
                   "unrestricted search (no backjump limit, some goal within max_gamma) always sets the flag and its overhead does not depend on "
                   "the random tape; enough fuel excludes NoFuel. The step from the guarded search space to the declarative specification "
                   "(all 5^g assignments on the wire-segment graph) is now PROVED UNBOUNDED (c08_pruning_sound: any number of qubits and "
                   "two-qubit gates, any width limit, any cut-kind combination, any max_gamma, gammas >= 1): every assignment of permitted "
                   "kinds that meets the width limit is matched in cost by a goal that the guarded actions (width checks, r1 == r2 guards, "
                   "can_expand_subcircuit, the W < 2 guard, the no-merge clauses, can_add_wires under the budget min(#gate inputs, "
                   "max_wire_cuts_gamma(greedy gamma | max_gamma))) reach from the start state of the search. Exchange argument: the "
                   "assignment is normalised against the final components of its own wire segments (useless cuts become leave, a "
                   "both-wires cut with one useless side becomes a single wire cut), the search follows the normalised assignment "
                   "under a simulation invariant, 4^(wire cuts) <= cost bounds the wire cuts by max_wire_cuts_gamma, and when the "
                   "assignment costs more than the greedy incumbent the greedy path itself is shown to exist under the smaller budget. "
                   "Consequently c08_flag_sound_unbounded / c08_unrestricted_unbounded / c08_seed_independent_unbounded hold for every "
                   "request without any hypothesis on the search space; their only hypotheses are the two checkable facts gtab_ge1 (every kappa in "
                   "the gate table handed to the model is >= 1; evaluated by the Coq case checker on every generated case) and circ_nodup (no "
                   "instruction uses a qubit twice). That every multi-qubit gate acts on exactly two qubits is DERIVED from the existence of a "
                   "result (c08_result_two_qubit: a returned state is a goal reached from level 0, a path visits every level, and the "
                   "successor function raises ValueError at the level of a wider gate); conversely a circuit with a wider gate never yields a "
                   "result (c08_wide_gate_no_result; the model returns the ValueError, compared with find_cuts in the malformed stream). "
                   "The finite-domain enumeration (c08_pruning_sound_bounded: <=3 gates, <=4 qubits, gammas 3/7; <=4 gates in "
                   "Proofs/BestFirstSpec4.v outside this property's cone) is kept as an independent check of the same statement. "
                   "Closed under the global context. The model's (overhead, minimum_reached) are compared exactly with find_cuts on >1300 requests "
                   "x 2-3 seeds per quick run (bounded-exhaustive small circuits + random circuits + the F3 witness class; thorough: all 162 300 "
                   "requests of the <=4-gate space + 5000 random ones), and the independent brute-force oracle runs on every generated case.",
        level_note=STD_NOTE + "No axioms. heapq is modelled as extract-min over a list (oracle contract O-heap); the numpy Generator as a recorded tape.",
        assumptions=[
            "Model/CutFinder*.v (written for C07) is a hand-written model of find_cuts and the cut_finding package; tied to the source by the C07 "
            "correspondence (all intermediate objects) and the C08 correspondence (overhead and flag, strict)",
            "the model implements the REPAIRED behaviour of BestFirstSearch.optimization_pass (a popped state over a bound is re-queued unless "
            "the flag is set; candidate fix F3); fact bf_bound_branch_requeues ties this to the source and is false on the unrepaired tree",
            "gate gammas >= 1: reduced to the executable check gtab_ge1 of the gate table (c08_gammas_from_table), evaluated inside Coq on every "
            "generated case (Corr/C08Corr.v: chk_c08); that the table holds kappa of QPD bases, which are >= 1, is C15 (c15_ge_1, over the reals; "
            "not connected by proof)",
            "c08_pruning_sound is proved for gate lists of well-formed two-qubit gates (two distinct qubits below the number of qubits). For a "
            "request of find_cuts that returns a value, 'two qubits' is derived (c08_result_two_qubit) and 'below the number of qubits' is "
            "proved from the renumbering; 'distinct' remains the hypothesis circ_nodup of the request-level theorems (Qiskit rejects duplicate "
            "qubit arguments when an instruction is appended). The specification is the wire-segment semantics of Proofs/BestFirstSpec.v "
            "(assignment_cost), a hand-written declarative definition; the brute-force oracle of harness/c08.py still probes the same "
            "statement on every generated case (a rejected case is marked k_oracle=false and reported)",
            "binary64: gamma_UB ** 2 is exact below 2^26 (cases with a larger greedy gamma are skipped by the generator)",
            "max_wire_cuts_gamma is modelled exactly over Q (np.log2/np.ceil corner cases at powers of two are not modelled)",
            "harness/c08.py: `judge` (own 5^g brute force on wire segments) runs on EVERY generated case (contract judge_accepts_clean_case) with "
            "clauses (a) flag => minimum, (b) unrestricted => flag, (c) unrestricted => same overhead for every seed, (d) returned overhead never "
            "below the brute-force optimum (attainment), (e) unrestricted and feasible => find_cuts does not raise; its domain = the theorems' "
            "hypotheses (only 1- and 2-qubit instructions besides barriers, no classical bits, max_gamma >= 1, max_backjumps >= 0 or None, W >= 1, "
            "some cut kind allowed); searches visiting more states than the model-evaluation budget (3000 quick / 20000 thorough) are kept and "
            "judged by the oracle only (k_check_model = false)",
            "observations (not alarms): all requests of one run execute in one harness process, so a defect that depends on the call history "
            "would be attributed to the later request and a `--replay` in a fresh process might not reproduce it (call-history independence is "
            "C09's subject); the per-case oracle uses a budget of 400 000 search nodes, `judge` on a replay 3 000 000 (verdicts can only move "
            "from undecided to decided); gate kinds in the streams have dyadic gammas (cx, cz: 3; swap, iswap: 7; rzz(0): 1) so that every "
            "compared product is exact in binary64 — non-dyadic gammas (rzz/cp at generic angles) are exercised by C07's tolerance stream only",
        ],
    )

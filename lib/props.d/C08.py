from props_common import STD_NOTE

PID = "C08"
ENTRY = dict(
        title="A reported minimum really is the minimum sampling overhead",
        prop_file="Properties/C08.v",
        corr_files=["Corr/C08Corr.v"],
        theorems=["c08_action_factor", "c08_factor_ge_1", "c08_cost_monotone", "c08_dijkstra", "c08_frontier_invariant",
                  "c08_flag_sound_guarded", "c08_flag_sound", "c08_pruning_sound_bounded", "c08_flag_sound_bounded",
                  "c08_unrestricted", "c08_seed_independent", "c08_result_attained", "c08_unrestricted_spec",
                  "c08_seed_independent_spec", "c08_unrestricted_bounded", "c08_seed_independent_bounded", "c08_enough_fuel",
                  "c08_facts", "c08_fact_requeue"],
        allowed_axioms=[],
        facts=["cf_left_wire_mult", "cf_right_wire_mult", "cf_both_wires_mult", "cf_gate_cut_uses_gate_gamma",
               "cf_upper_bound_cost_is_gamma_ub", "cf_stop_at_first_min", "cf_overhead_is_square",
               "bf_bound_branch_requeues", "bf_put_prunes_above_upperbound", "bf_flag_rule"],
        harness="c08",
        level_text="Unbounded theorems (any number of gates/qubits, any tape, any fuel) about the executable model of the cut search "
                   "(best-first engine with the REPAIRED bound branch, greedy incumbent, wire-cut budget, driver loop, find_cuts metadata): every "
                   "action multiplies the cost by a factor >= 1; generic Dijkstra/pruning lemmas; the frontier invariant is preserved by a pass; "
                   "minimum_reached = true implies that the returned overhead is <= that of every goal of the guarded search space; an "
                   "unrestricted search (no backjump limit, some goal within max_gamma) always sets the flag and its overhead does not depend on "
                   "the random tape; enough fuel excludes NoFuel. The step from the guarded search space to the declarative specification "
                   "(all 5^g assignments on the wire-segment graph) is a named hypothesis (pruning_sound_for) of c08_flag_sound and is PROVED ONLY "
                   "ON A FINITE DOMAIN by complete enumeration inside Coq (c08_pruning_sound_bounded: every circuit up to relabelling with <=3 "
                   "two-qubit gates of gamma 3/7 on <=4 qubits incl. idle ones, W in 1..4, every cut-kind combination, symbolic instruction ids); "
                   "the same for <=4 gates (14 510 circuits) is proved in Proofs/BestFirstSpec4.v but kept outside this property's cone because "
                   "coqchk needs over an hour for it; the unbounded exchange argument is open. "
                   "Closed under the global context. The model's (overhead, minimum_reached) are compared exactly with find_cuts on >1300 requests "
                   "x 2-3 seeds per quick run (bounded-exhaustive small circuits + random circuits + the F3 witness class; thorough: all 162 300 "
                   "requests of the <=4-gate space + 5000 random ones), and the independent brute-force oracle runs on every generated case.",
        level_note=STD_NOTE + "No axioms. heapq is modelled as extract-min over a list (oracle contract O-heap); the numpy Generator as a recorded tape.",
        assumptions=[
            "Model/CutFinder*.v (written for C07) is a hand-written model of find_cuts and the cut_finding package; tied to the source by the C07 "
            "correspondence (all intermediate objects) and the C08 correspondence (overhead and flag, strict)",
            "the model implements the REPAIRED behaviour of BestFirstSearch.optimization_pass (a popped state over a bound is re-queued unless "
            "the flag is set; candidate fix F3); fact bf_bound_branch_requeues ties this to the source and is false on the unrepaired tree",
            "gate gammas >= 1 (hypothesis gammas_ok_in; kappa of every QPD basis, C15; monitored on every generated case)",
            "c08_pruning_sound (guards, no-merge clauses and the wire-cut budget ceil(log2(gamma+1)-1) lose no optimum) is proved by enumeration "
            "for <=3 gates / <=4 qubits / gammas {3,7} only (<=4 gates outside the cone); beyond that it is a hypothesis of c08_flag_sound, probed "
            "on every generated case by the brute-force oracle of harness/c08.py (a rejected case is marked k_oracle=false and reported)",
            "binary64: gamma_UB ** 2 is exact below 2^26 (cases with a larger greedy gamma are skipped by the generator)",
            "max_wire_cuts_gamma is modelled exactly over Q (np.log2/np.ceil corner cases at powers of two are not modelled)",
        ],
    )

from props_common import STD_NOTE

PID = "C09"
ENTRY = dict(
        title="Cut finding is reproducible under a seed and independent of call history",
        prop_file="Properties/C09.v",
        corr_files=["Corr/C09Corr.v"],
        theorems=["c09_registry_yields_search_actions", "c09_seeded_search_model", "c09_seeded_search_model_total", "c09_search_model_any_tape",
                  "c09_seeded_same_everywhere", "c09_import_state_reachable", "c09_smallest_probability_nonneg",
                  "c09_inf_is_exact", "c09_finite_exact_margin_partial", "c09_invalid_num_samples_refused_no_sampling",
                  "c09_greedy_writes_identity", "c09_registries_invariant", "c09_registries_invariant_history",
                  "c09_rng_untouched", "c09_state_untouched", "c09_state_untouched_history", "c09_py_never_written",
                  "c09_np_only_writer", "c09_history_independent", "c09_rng_independent", "c09_seeded",
                  "c09_gen_exact_pure", "c09_gen_finite_exact_pure", "c09_from_instruction_pure", "c09_fresh_interpreter",
                  "c09_copy_ok", "c09_import_registry_ok", "c09_facts_action_table", "c09_facts_func_tables",
                  "c09_facts_basis_registry", "c09_facts_greedy_writes", "c09_facts_no_direct_global_write",
                  "c09_facts_cut_finding_sources"],
        allowed_axioms=[],
        facts=["registry_names", "c09_module_globals", "c09_import_time_calls", "c09_global_uses", "c09_global_writes",
               "c09_action_table", "c09_func_tables", "c09_registry_classes", "c09_registry_method_writes",
               "c09_registry_mutator_calls", "c09_rng_uses", "c09_history_sources", "c09_memoisation_sites",
               "c09_anonymous_registers"],
        harness="c09",
        harness_timeout=3000,
        level_text="Unbounded theorems about an explicit process-state model (Model/Process.v): the package's four process-global registries and "
                   "numpy's/Python's global generators as state; find_cuts / generate_cutting_experiments / QPDBasis.from_instruction as a transition "
                   "function `step` that performs the reads and writes found in the source. What is proved, by kind: "
                   "(1) 14 SHAPE COROLLARIES (registries_invariant(_history), rng_untouched, state_untouched(_history), py_never_written, np_only_writer, "
                   "history_independent, rng_independent, fresh_interpreter, seeded, gen_exact_pure, gen_finite_exact_pure, from_instruction_pure) are `step` "
                   "unfolded plus greedy_writes = identity: they hold because of how the model hands its inputs to the (abstract) result functions, and say that "
                   "nothing else of the state reaches a result and nothing is left behind; "
                   "(2) sampler classification with content: num_samples = inf never reaches the sampler (smallest probability >= 0 is proved from the modelled "
                   "|coeffs|/kappa, min-nonzero, product), num_samples < 1 is refused without sampling, and a finite num_samples is certainly all-exact when the exact "
                   "smallest probability exceeds 1/num_samples by the relative margin 2^-40 (PARTIAL: inside the margin and below, the float comparison of the "
                   "code decides and the model makes no claim; five cx bases at num_samples = 7776 sit on the boundary and the real code samples); "
                   "(3) registry mechanics (copy never asserts on a well-formed registry, the import registry is well formed, the copy's TwoQubitGates group is "
                   "the action list C07's search model hard-codes); "
                   "(4) the cut finder made concrete: with C07/C08's executable search model as find_cuts, in every state reachable from import the seeded result "
                   "IS that model's output on the tape of the seed, and with C07's fuel bound it is a real outcome (c09_seeded_search_model_total). "
                   "Closed under the global context. The model's write-set is tied to /repo by 14 regenerated AST fact lists over the whole package and by "
                   "running >400 real calls per run in separate interpreters; the threshold model is tied by the weights stream (branch taken and movement of "
                   "numpy's state of generate_qpd_weights on real coefficients, incl. the float boundary) and by feeding the real coefficient lists of every "
                   "generation call of the histories into reaches_sampler.",
        level_note=STD_NOTE + "No axioms. The theorems are about the PROCESS MODEL, not about CPython: what generation and from_instruction compute is abstract "
                   "(record `oracles`, fields are functions); only the cut finder is an executable model (C07's, whose own tie to /repo is C07's correspondence). "
                   "That the real code reads and writes nothing else rests on (i) the facts obligations in Properties/C09.v (static, whole package, fail-closed: a new "
                   "module global, a new write to one or through an aliased parameter / a local aliasing a global / a function or class attribute / a two-level self chain "
                   "in cut_finding, a new np.random/random/uuid/time/id/hash use breaks a proof obligation) and (ii) the history correspondence (dynamic: fingerprints of "
                   "the real registries, object identities, both generator states and canonical results after every call of 36+ histories per run, each also against a "
                   "fresh interpreter; PYTHONHASHSEED drawn per interpreter for one history variant and half of the fresh interpreters; one variant passes the same argument "
                   "objects again; the wire-cuts-only searches of every family — gate_lo=False flips, star, two gate blocks sharing a qubit — are thus repeated on the SAME circuit object, and the "
                   "harness records what find_cuts returned even when it wrote into that object, so leftovers of the first call surface as a different result of the repetition; "
                   "'input circuit unchanged' is a monitored contract). Passing the same argument objects twice (argument mutation) has no theorem: arguments are immutable values in the model. State inside "
                   "Qiskit/numpy/rustworkx (e.g. Qiskit's counter that names anonymous registers) is outside the model. Remaining hypotheses: exact_class c (input "
                   "restriction: the property speaks about these calls), import_state / wf_registry (precondition, discharged for the import-time state and preserved by "
                   "every history), circ_wf + fuel bound (precondition of the totality corollary), the 2^-40 margin (input restriction of the partial threshold theorem).",
        assumptions=[
            "Model/Process.v is a hand-written model of the process-global state of qiskit_addon_cutting and of the reads/writes of it performed by "
            "find_cuts, generate_cutting_experiments and QPDBasis.from_instruction; ActionNames.define_action/copy/get_action_subset and "
            "greedy_best_first_search's three attribute assignments are mirrored line by line, everything else the calls compute is an abstract function",
            "O-rng: numpy.random.default_rng(seed) with an integer seed yields a stream that is a function of the seed and does not involve the global "
            "RandomState (monitored on every seeded find_cuts call, in every interpreter)",
            "typing.cast(T, x) returns x (monitored)",
            "floating point: the code decides `np.prod(min probabilities) >= 1/num_samples` in binary64; the model decides in exact rationals with a relative "
            "safety margin 2^-40 and claims nothing inside it. ASSUMED: the binary64 evaluation of the product (k <= ~10^3 factors, each a rounded quotient) and of the "
            "reciprocal errs by less than 2^-41 relative each; tied (not proved) by the weights stream, which drives generate_qpd_weights at the exact boundary, one ulp "
            "and 1e-9 around it. A basis whose coefficients are all zero (kappa = 0: Python computes nan and fails with OverflowError/ValueError) is modelled as refused; "
            "no gate has such a basis",
            "QPDBasis.probabilities = |coeffs| / sum|coeffs| and _min_filter_nonzero / np.prod are modelled (Process.probabilities, min_filter_nonzero, "
            "prod_min_nonzero) in exact rationals; that the smallest probability is >= 0 is now a theorem (c09_smallest_probability_nonneg), no longer a "
            "hypothesis; the formula probabilities == |coeffs|/kappa is monitored on every generation case",
            "cut finder made concrete (Model/ProcessCF.v): find_cuts_pure is instantiated by the executable cut-finder model of C07/C08 (Model/CutFinder*.v) "
            "with the action list read from the fresh copy of the process registry; c09_seeded_search_model etc. are therefore statements about that search "
            "model, whose own tie to /repo is C07's correspondence (tape recorded from default_rng); C09 adds the group stream (get_group('TwoQubitGates') of "
            "real filtered copies vs two_qubit_group and vs the list the search model hard-codes). A function table that does not hold the five import-time "
            "functions, or an action name unknown to the search model, is outside this instance (value None; a copy WITHOUT the TwoQubitGates group is modelled: AssertionError = Crashed as soon as a gate is expanded); "
            "unreachable from import by c09_import_state_reachable",
            "with num_samples = inf, threshold = 1/inf = 0.0 and `smallest_probability >= threshold` holds, so _generate_qpd_weights returns from the "
            "all-exact branch before _populate_samples (the only np.random.choice site); modelled in reaches_sampler, observed on every generation call",
            "function objects and action objects are modelled by their names; object identity (`is`) of every registry member, of both tables' slots and "
            "of the default arguments that alias them is checked after every call by the harness",
            "process-global state inside dependencies (Qiskit's register-name counter, numpy internals other than the global RandomState, the Rust "
            "TwoQubitWeylDecomposition) is not modelled; anonymous register names are interned per result like uuids",
            "judge (property-level oracle) covers: equal subject calls give equal canonical results across positions, histories and fresh interpreters, "
            "and a subject call leaves numpy's and Python's global generator states unchanged. A change of a registry that changes no result is reported "
            "as a model/implementation disagreement without a judged input (the property text speaks about results only)",
            "observation (outside the quantifier): partition_problem names the registers of its subcircuits through Qiskit's process-global counter of "
            "anonymous registers (utils/transforms.py QuantumRegister(bits=...)), so these NAMES depend on the call history; generate_cutting_experiments "
            "receives them as part of its arguments and is pure in them",
            "observation (outside the documented argument types): ObservableCollection given a non-PauliList iterable (list[Pauli] inside a dict of "
            "observables) de-duplicates with PauliList(set(observables)); Pauli.__hash__ is a string hash, so the ORDER of the commuting groups then "
            "depends on PYTHONHASHSEED of the interpreter. With the documented PauliList arguments (.unique()) the order is hash independent; the "
            "fresh interpreters of the harness run under several hash seeds (seeded change C09-r3-1 is caught that way)",
            "the different variants of a family are compared with each other through the shared fresh-interpreter table (two histories that disagree "
            "with each other cannot both agree with it), not pairwise",
            "not modelled because unreachable from the three calls: the scalar group_name branch of ActionNames.define_action and "
            "get_action_subset(None, groups); early exits of find_cuts before the greedy pass (max_gamma < 1, conversion errors) are modelled as if the "
            "identity writes had happened (unobservable)",
            "results are compared as canonical forms: instruction lists via harness/circ.py, metadata, coefficient lists and basis maps with floats "
            "compared bit for bit (float.hex / sha256 of matrix bytes)",
        ],
    )

from props_common import STD_NOTE

PID = "C04"
ENTRY = dict(
        title="Joint weights are exact above threshold, normalised, and unbiased in the tail",
        prop_file="Properties/C04.v",
        corr_files=["Corr/C04Corr.v"],
        theorems=["c04_exact_complete", "c04_no_zero", "c04_count_sum", "c04_unbiased", "c04_infinite",
                  "c04_refuses", "c04_machine_refines_spec", "c04_final_sort", "c04_never_crashes", "c04_always_served",
                  "c04_one_draw_bridge", "c04_n_draw_bridge", "c04_sampler_unbiased", "c04_public_wrapper",
                  "c04_public_refuses", "c04_count_general", "c04_sum_deficit_visited", "c04_weights_positive", "c04_tape_law",
                  "c04_public_all", "c04_public_total", "c04_facts"],
        allowed_axioms=[],
        facts=["nonzero_atol"],
        harness="c04",
        level_text="Unbounded theorems (any number of bases and maps, every family of sorting permutations = every tie order, every "
                   "admissible answer tape of numpy.random.choice) about the executable model of qpd/weights.py over exact rationals. "
                   "PROVED: every joint map with p >= 1/N is EXACT with weight N*p (N <= 1e14); no returned key has probability zero and "
                   "every weight is > 0; at most ceil(N) entries for every valid input without an entry bit-equal to 1e-14 (sub-cut-off "
                   "entries, zeroed table entries and the repaired F9 branch included; c04_count_general); sum <= N with deficit <= "
                   "N*1e-14*(#prefixes of the full tree+1), and outside the all-exact branch <= N*1e-14*(#entries of the tables actually "
                   "popped); sum == N exactly when no input/table entry lies in (0,1e-14] (no_entry_in_cutoff); infinite budget = "
                   "exactly the maps with p >= 1e-14, weight p; N<1/NaN/-inf refused; totality (never Crashed; served when every "
                   "basis has an entry above the cut-off); the line-by-line step machine yields the specification's sequence (numbers "
                   "up to Qeq); the final sort is a sorted rearrangement with distinct keys. TAIL: the tape law of the sampler is a "
                   "probability law and an admissible tape exists, with no cut-off hypothesis (c04_tape_law); for every number of "
                   "draws the expectation over all oracle tapes of the sample counts equals the functional ecount "
                   "(c04_n_draw_bridge); under no_entry_in_cutoff and N <= 1e14 the expectation over all tapes of the weight in the "
                   "RETURNED dictionary is N*p (c04_sampler_unbiased), and the functional expected_weight is N*p for every joint map "
                   "with the success of the call discharged (c04_unbiased). PUBLIC: generate_qpd_weights (probabilities |c|/kappa, "
                   "core, stable sort) is modelled; c04_public_all states every clause through it, c04_public_total totality. "
                   "NOT PROVED: a bias bound for the tail when the cut-off zeroes a table entry (only the aggregate sum deficit); "
                   "binary64 effects and QPDBasis.probabilities in floats (correspondence only). Closed under the global context. The "
                   "model contains the repaired behaviour of finding F9. Model (specification AND step machine, permutation wrapper, "
                   "weights, draw-tape sampler, expectation functional, final sort, public wrapper) is run against the implementation "
                   "on >1000 generated cases per run, the sequence of generator yields included; for samples_needed<=3 every answer "
                   "sequence of the oracle is enumerated. HISTORIES: a targeted public-history stream hands generate_qpd_weights RE-USED "
                   "QPDBasis objects (built with 1-2 other coefficient vectors, then probabilities read / weights generated / untouched, "
                   "then the case's vectors assigned through the public coeffs setter); model and judge use the probabilities of the "
                   "CURRENT coefficients, |c|/sum|c|.",
        level_note=STD_NOTE + "No axioms. Modelling assumptions: O-choice (numpy.random.choice(range(n),k,p) returns k indices, each of "
                   "positive probability; E[count_i]=k*p_i; different calls independent) -- the support part is monitored on every case, "
                   "the law enters only through the expectation functional; np.argsort(cp)[::-1] returns SOME descending permutation "
                   "(recorded per case and checked); np.sum/np.prod/np.min/np.max/np.isclose/np.flatnonzero/math.ceil/Counter/"
                   "itertools.product/sorted are modelled by their exact-arithmetic meaning.",
        assumptions=[
            "Model/Weights.v is a hand-written model of weights.py over Q (binary64 rounding out of scope; the correspondence drives the "
            "implementation with dyadic inputs under a 53-bit mantissa budget on which binary64 is exact, argued in harness/c04.py and "
            "re-checked by exact comparison of Fraction(float) with the model's Q)",
            "the cut-off 1e-14 is read from weights.py on every run (Extracted/Facts.v nonzero_atol)",
            "hypothesis kinds: valid/in_range/kappa<>0 = input preconditions; sorting_perms_b = argsort contract (oracle, monitored); "
            "`gen_weights ... = Some (Ok r)` = admissible tape (oracle support contract; satisfiable by c04_tape_law); "
            "no_entry_in_cutoff / no_entry_at_cutoff = restrictions INSIDE the property's quantifier, see below",
            "hypothesis no_entry_in_cutoff (exact-sum clause of c04_count_sum, c04_unbiased, c04_sampler_unbiased): every input entry is 0 or > 1e-14 "
            "(observation O2: an entry bit-equal to the cut-off is ignored by the all-exact test but still emitted, so the entry count can "
            "exceed ceil(N)), and no raw conditional-table entry of the DFS lies in (0,1e-14]; otherwise the mass lost is bounded as stated",
            "hypothesis N <= 1e14 (atol*N <= 1) in c04_exact_complete/c04_count_sum/c04_unbiased: beyond it the all-exact branch "
            "drops maps with 1/N <= p < 1e-14 (non-vacuity example c04_ex_bound_needed); the property's range is N <= 1e6 or infinity",
            "observation: a single zeroed table entry carries conditional mass <= 1e-14, but zeroings accumulate along the tree (two maps of "
            "2^-47 under one prefix drop 2^-46 > 1e-14 together): the property's 'up to the 1e-14 cutoff' is read as the bound of "
            "c04_count_sum, N*1e-14*(#prefixes+1); judge uses the same bound",
            "harness: numpy.random.choice is replaced by a stub that applies numpy's own argument checks (ValueError if p does not sum "
            "to 1 within sqrt(eps), negative, NaN) and, on the seeded streams, delegates to the real numpy.random.choice; results with "
            "non-finite weights are canonicalised as crashes; the real-gate public stream is compared as a set (near-ties in the sort key)",
            "the model has the REPAIRED F9 behaviour (`if samples_needed < 1: return retval`); on the unrepaired /repo the implementation "
            "raises AssertionError on such inputs and the run reports a VIOLATION",
            "c04_machine_refines_spec compares numbers with Qeq (the machine's first running product is probs[0][0], the "
            "specification's 1*probs[0][0]); the theorems are stated on the specification, the machine is tied to it by this theorem "
            "and both are compared with the implementation's yield sequence",
        ],
    )

from props_common import STD_NOTE

PID = "C04"
ENTRY = dict(
        title="Joint weights are exact above threshold, normalised, and unbiased in the tail",
        prop_file="Properties/C04.v",
        corr_files=["Corr/C04Corr.v"],
        theorems=["c04_exact_complete", "c04_no_zero", "c04_count_sum", "c04_unbiased", "c04_infinite",
                  "c04_refuses", "c04_machine_refines_spec", "c04_final_sort", "c04_never_crashes", "c04_always_served",
                  "c04_one_draw_bridge", "c04_n_draw_bridge", "c04_sampler_unbiased", "c04_public_wrapper",
                  "c04_public_refuses", "c04_facts"],
        allowed_axioms=[],
        facts=["nonzero_atol"],
        harness="c04",
        level_text="Unbounded theorems (any number of bases and maps, every family of sorting permutations = every tie order, every "
                   "admissible answer tape of numpy.random.choice) about the executable model of qpd/weights.py over exact rationals: "
                   "every joint map with p >= 1/N is EXACT with weight N*p (N <= 1e14); no returned key has probability zero; infinite "
                   "budget = exactly the maps with p >= 1e-14, weight p; N < 1 / NaN / -inf refused; the weights sum to at most N with a "
                   "deficit bounded by N*1e-14*(#prefixes+1), and to N exactly with at most ceil(N) entries when no input or table "
                   "entry lies in the cut-off band (0,1e-14]; for EVERY joint map the expected weight (expectation functional using only "
                   "E[count_i]=n*p_i) equals N*p under the same hypothesis (telescoping product of the renormalised tables; the "
                   "single-leftover shortcut included); the line-by-line step machine of the DFS generator, run with fuel "
                   "2*(#prefixes)+2, yields the sequence of the recursive specification for all inputs (numbers up to Qeq); the public "
                   "function's final sort is a sorted rearrangement with distinct keys. Closed under the global context. The model "
                   "contains the repaired behaviour of finding F9. Model (specification AND step machine, permutation wrapper, weights, "
                   "draw-tape sampler, expectation functional, final sort) is run against the implementation on >1000 generated cases "
                   "per run, the sequence of generator yields included; for samples_needed<=3 every answer sequence of the oracle is "
                   "enumerated. Totality: on valid input, any sorting permutations and any admissible tape the model never answers "
                   "Crashed (all remaining asserts unreachable) and, when every basis has an entry above the cut-off, N>=1 is served. "
                   "The link between the tape sampler `populate` and the expectation functional `ecount` is proved for EVERY number of "
                   "draws (c04_n_draw_bridge: summing over all oracle tapes, weighted by the product of the probabilities the code "
                   "passed to numpy.random.choice, the tape law has mass 1 and the expected count of a joint map is ecount), hence "
                   "c04_sampler_unbiased: the expectation over all tapes of count*single_sample_weight returned by the real sampling "
                   "loop is N*p -- unbiasedness follows from O-choice alone. The public wrapper generate_qpd_weights (probabilities "
                   "|c|/kappa from the coefficients, core, stable sort) is modelled and all theorems transfer through "
                   "c04_public_wrapper (kappa <> 0).",
        level_note=STD_NOTE + "No axioms. Modelling assumptions: O-choice (numpy.random.choice(range(n),k,p) returns k indices, each of "
                   "positive probability; E[count_i]=k*p_i; different calls independent) -- the support part is monitored on every case, "
                   "the law enters only through the expectation functional; np.argsort(cp)[::-1] returns SOME descending permutation "
                   "(recorded per case and checked); np.sum/np.prod/np.min/np.max/np.isclose/np.flatnonzero/math.ceil/Counter/"
                   "itertools.product/sorted are modelled by their exact-arithmetic meaning.",
        assumptions=[
            "Model/Weights.v is a hand-written model of weights.py over Q (binary64 rounding out of scope; the correspondence drives the "
            "implementation with dyadic inputs under a 53-bit mantissa budget on which binary64 is exact, argued in harness/c04.py and "
            "re-checked by exact comparison of Fraction(float) with the model's Q)",
            "the cut-off 1e-14 is read from weights.py on every run (Extracted/Facts.v nonzero_atol)",
            "hypothesis no_entry_in_cutoff (c04_count_sum exactness clause, c04_unbiased): every input entry is 0 or > 1e-14 "
            "(observation O2: an entry bit-equal to the cut-off is ignored by the all-exact test but still emitted, so the entry count can "
            "exceed ceil(N)), and no raw conditional-table entry of the DFS lies in (0,1e-14]; otherwise the mass lost is bounded as stated",
            "hypothesis N <= 1e14 (atol*N <= 1) in c04_exact_complete/c04_count_sum/c04_unbiased: beyond it the all-exact branch "
            "drops maps with 1/N <= p < 1e-14 (non-vacuity example c04_ex_bound_needed); the property's range is N <= 1e6 or infinity",
            "observation: a single zeroed table entry carries conditional mass <= 1e-14, but zeroings accumulate along the tree (two maps of "
            "2^-47 under one prefix drop 2^-46 > 1e-14 together): the property's 'up to the 1e-14 cutoff' is read as the bound of "
            "c04_count_sum, N*1e-14*(#prefixes+1); judge uses the same bound",
            "harness: numpy.random.choice is replaced by a stub that applies numpy's own argument checks (ValueError if p does not sum "
            "to 1 within sqrt(eps), negative, NaN) and, on the seeded streams, delegates to the real numpy.random.choice; results with "
            "non-finite weights are canonicalised as crashes; the real-gate public stream is compared as a set (near-ties in the sort key)",
            "the model has the REPAIRED F9 behaviour (`if samples_needed < 1: return retval`); on the unrepaired /repo the implementation "
            "raises AssertionError on such inputs and the run reports a VIOLATION",
            "c04_machine_refines_spec compares numbers with Qeq (the machine's first running product is probs[0][0], the "
            "specification's 1*probs[0][0]); the theorems are stated on the specification, the machine is tied to it by this theorem "
            "and both are compared with the implementation's yield sequence",
        ],
    )

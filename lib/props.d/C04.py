from props_common import STD_NOTE

PID = "C04"
ENTRY = dict(
        title="Joint weights are exact above threshold, normalised, and unbiased in the tail",
        prop_file="Properties/C04.v",
        corr_files=["Corr/C04Corr.v"],
        theorems=["c04_refuses", "c04_facts"],
        allowed_axioms=[],
        facts=["nonzero_atol"],
        harness="c04",
        level_text="(filled in below as theorems land)",
        level_note=STD_NOTE + "No axioms.",
        assumptions=[],
    )

from props_common import STD_NOTE

PID = "C13"
ENTRY = dict(
        title="The exact sampler returns the true outcome distribution of dynamic circuits",
        prop_file="Properties/C13.v",
        corr_files=["Corr/C13Corr.v"],
        theorems=["c13_pushforward", "c13_expectation", "c13_total", "c13_pruned_bound", "c13_outcome_bound", "c13_event_bound",
                  "c13_support", "c13_refuses", "c13_never_crashes", "c13_sampler", "c13_qsim_instance", "c13_facts",
                  "c13_qsim_bound", "c13_qsim_outcome_bound"],
        allowed_axioms=[],
        facts=["sim_tolerance", "sim_isclose_sites", "value_error_sites"],
        harness="c13",
        level_text="Unbounded theorems (every program length, every number of qubits/clbits) about the executable model of "
                   "simulate_statevector_outcomes, stated for EVERY instrument (state, apply, p1, proj, flipx): with tolerance 0 the "
                   "returned association list has distinct keys and, as a finite map outcome -> Q, equals the push-forward of an "
                   "independently defined recursive path semantics (measurement splits with weights 1-p1/p1 and clears/sets its bit, "
                   "later writes overwrite, reset splits and leaves bits alone), for every function of the outcome; it sums to 1; with "
                   "any tolerance >= 0 and 0<=p1<=1 the mass is within (#truncated branches)*tol of 1 and every reported outcome has "
                   "positive probability; conditioned operations / clbits on non-measurements anywhere give ValueError; the "
                   "reversed-order deletions never go out of range. The quantum step itself is NOT proved: the model is instantiated "
                   "with an exact Q(sqrt2)(i) state-vector simulator written in Coq and evaluated against the implementation on ~900 "
                   "generated circuits per run (keys exactly and in dict order, probabilities within 1e-12), and every case is also "
                   "compared with an independent numpy density-matrix simulator.",
        level_note=STD_NOTE + "No axioms. The Born rule / Qiskit's Statevector semantics is not formalised: it enters as the abstract "
                   "instrument of the theorems and as Common/QSim.v (definitions, audited per case for exact rational probabilities) in the comparison.",
        assumptions=[
            "Model/Sim.v is a hand-written model of simulate_statevector_outcomes (dict in insertion order, k0/k1 masks, pending delete/insert, "
            "cleanup, truncation |p| <= _TOLERANCE, refusals) and of ExactSampler.run (Qiskit's BaseSamplerV1 validation: no clbits / no Measure "
            "-> ValueError, monitored as an oracle contract); tied to the source by the C13 correspondence and the extracted _TOLERANCE / isclose-shape facts",
            "Qiskit's Statevector.probabilities / evolve / _evolve_instruction (barrier = identity) implement the instrument: compared per case with "
            "Common/QSim.v (Clifford gate set x y z h s sdg sx sxdg cx cz swap, exact arithmetic) inside Coq and with a numpy density-matrix simulator",
            "p0 is modelled as 1 - p1 (the implementation reads both from sv.probabilities); binary64 rounding is not modelled (results compared within 1e-12)",
            "arbitrary (non-Clifford) unitaries and branches near the cut-off are only compared with the harness's density-matrix oracle (1e-9)",
        ],
    )

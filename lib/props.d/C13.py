from props_common import STD_NOTE

PID = "C13"
ENTRY = dict(
        title="The exact sampler returns the true outcome distribution of dynamic circuits",
        prop_file="Properties/C13.v",
        corr_files=["Corr/C13Corr.v"],
        theorems=["c13_pushforward", "c13_expectation", "c13_total", "c13_pruned_bound", "c13_outcome_bound", "c13_event_bound",
                  "c13_support", "c13_refuses", "c13_never_crashes", "c13_sampler", "c13_qsim_instance", "c13_facts",
                  "c13_qsim_bound", "c13_qsim_outcome_bound", "c13_branches", "c13_tree_law", "c13_sampler_run_ok",
                  "c13_sampler_run_refuses", "c13_sampler_run_single", "c13_qsim_born_step"],
        allowed_axioms=[],
        facts=["sim_tolerance", "sim_isclose_sites", "value_error_sites"],
        harness="c13",
        level_text="Unbounded theorems (every program length, every number of qubits/clbits) about the executable model of "
                   "simulate_statevector_outcomes, stated for EVERY instrument (state, apply, p1, proj, flipx): with tolerance 0 the "
                   "returned association list has distinct keys and, as a finite map outcome -> Q, equals the push-forward of an "
                   "independently defined recursive path semantics (measurement splits with weights 1-p1/p1 and clears/sets its bit, "
                   "later writes overwrite, reset splits and leaves bits alone), for every function of the outcome; it sums to 1; with "
                   "any tolerance >= 0 (in particular the source's 1e-16) and 0<=p1<=1 EVERY outcome's (every event's) returned probability "
                   "is at most its path-law probability and at most (#truncated branches)*tol below it (c13_outcome_bound / c13_event_bound, "
                   "instantiated at the extracted _TOLERANCE in c13_qsim_outcome_bound), the mass is within the same bound of 1 and every "
                   "reported outcome has positive probability; conditioned operations / clbits on non-measurements anywhere give "
                   "ValueError; the reversed-order deletions never go out of range. The quantum step itself is NOT proved: the model is "
                   "instantiated with an exact Q(sqrt2)(i) state-vector simulator written in Coq and evaluated against the implementation on "
                   "~900 generated circuits per run (as finite maps: key sets exactly, probabilities within 1e-12), and every case is also "
                   "compared with an independent numpy density-matrix simulator (also for arbitrary unitaries and for ExactSampler runs over "
                   "several parametrised circuits).",
        level_text_ext="Extension: (i) c13_branches / c13_tree_law -- for every instrument and EVERY tolerance (no hypothesis on p1) the dictionary "
                   "held when the loop ends is, entry by entry (multiset, Leibniz-equal weights and states), the set of leaves of an explicit branch "
                   "tree: gate operands applied in instruction order, measurement children clear/set the bit (overwrite), reset children keep the "
                   "register, children within tol cut with their subtree, leaf weight = product of the conditional probabilities on its path; so the "
                   "returned map equals the truncated-tree law exactly at the source's 1e-16. (ii) c13_sampler_run_ok/_refuses/_single -- the "
                   "ExactSampler.run wrapper over several circuits (Qiskit validation of all circuits, then one simulation per circuit): entry i is "
                   "what the function returns for circuit i alone; one invalid/refusing circuit refuses the call; tied by the samplerq stream "
                   "(incl. a second run after in-place extension of the same circuit objects on the same sampler). (iii) c13_qsim_born_step -- on the "
                   "exact simulator, for every vector and qubit: the post-measurement vector is the projection, |P0 v|^2+|P1 v|^2=|v|^2 exactly, and "
                   "(under the per-state audit bit) p1 = |P1 v|^2/|v|^2 unclamped; q2div is division in Q(sqrt2). STILL NOT PROVED: that QSim's gate "
                   "actions (x y z h s sdg sx sxdg cx cz swap ccx) are unitary and equal Qiskit's matrices -- every other gate is outside QSim "
                   "altogether -- and that the audit bit always holds (Clifford+ccx amplitudes have rational squared norms); both are checked per case.",
        level_note=STD_NOTE + "No axioms. The Born rule / Qiskit's Statevector semantics is not formalised: it enters as the abstract "
                   "instrument of the theorems and as Common/QSim.v (definitions, audited per case for exact rational probabilities) in the comparison. "
                   "OBSERVATION (outside the property's quantifier 'unitary gates, barriers, projective measurements and resets'): a reset nested "
                   "inside a composite instruction (qc.initialize(...), or a sub-circuit with reset appended via to_instruction()) is sent to "
                   "Statevector._evolve_instruction, which SAMPLES one outcome: e.g. h(0); cx(0,1); initialize([0,1],0); measure([0,1],[0,1]) returns "
                   "{3:1.0} or {1:1.0} varying between calls instead of {1:.5, 3:.5}. Neither the generator nor the model produces such inputs; "
                   "composites of unitaries (to_gate) are generated and modelled by inlining their definition. "
                   "OBSERVATION: ExactSampler().run refuses circuits without clbits / without a Measure (Qiskit's BaseSamplerV1 validation), although "
                   "the class docstring says all classical bits may remain unused. The order of the returned dict is mirrored by the model "
                   "(Example c13_ex_order) but is not part of the verdict (compared as maps).",
        assumptions=[
            "Model/Sim.v is a hand-written model of simulate_statevector_outcomes (dict in insertion order, k0/k1 masks, pending delete/insert, "
            "cleanup, truncation |p| <= _TOLERANCE, refusals) and of ExactSampler.run (Qiskit's BaseSamplerV1 validation: no clbits / no Measure "
            "-> ValueError, monitored as an oracle contract); tied to the source by the C13 correspondence and the extracted _TOLERANCE / isclose-shape facts",
            "Qiskit's Statevector.probabilities / evolve / _evolve_instruction (barrier = identity; a composite gate of unitaries = its definition) "
            "implement the instrument: compared per case with Common/QSim.v (gate set x y z h s sdg sx sxdg cx cz swap ccx, exact arithmetic) inside Coq "
            "and with a numpy density-matrix simulator",
            "p0 is modelled as 1 - p1 (the implementation reads both from sv.probabilities); binary64 rounding is not modelled (results compared within 1e-12)",
            "arbitrary unitaries, parametrised rotations, branches near the cut-off and multi-circuit / parameter_values sampler runs are only compared "
            "with the harness's density-matrix oracle (1e-9)",
            "the truncation count n of c13_outcome_bound / c13_pruned_bound is a ghost counter of the model, not observable on the implementation",
            "composite instructions containing resets/measurements (initialize, to_instruction with reset) and opaque operations holding clbits are "
            "outside the property's quantifier: not generated, never flagged by judge (see level_note for the observed behaviour)",
        ],
    )

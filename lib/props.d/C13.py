from props_common import STD_NOTE

PID = "C13"
ENTRY = dict(
        title="The exact sampler returns the true outcome distribution of dynamic circuits",
        prop_file="Properties/C13.v",
        corr_files=["Corr/C13Corr.v"],
        theorems=["c13_pushforward", "c13_expectation", "c13_total", "c13_distribution",
                  "c13_outcome_bound_static", "c13_event_bound_static", "c13_total_bound_static",
                  "c13_pruned_bound", "c13_outcome_bound", "c13_event_bound",
                  "c13_support", "c13_refuses", "c13_deletes_in_range",
                  "c13_branches", "c13_tree_law",
                  "c13_sampler_answer", "c13_sampler_run_ok", "c13_sampler_run_refuses",
                  "c13_qsim_p1_clamped", "c13_facts", "c13_qsim_bound", "c13_qsim_outcome_bound", "c13_qsim_outcome_bound_static",
                  "c13_qsim_born_step"],
        # c13_sampler_def, c13_sampler_run_single_def (unfoldings of the model's definition of Qiskit's validation) are kept in
        # Properties/C13.v as definitional remarks and are deliberately NOT registered as results.
        allowed_axioms=[],
        facts=["sim_tolerance", "sim_isclose_sites", "value_error_sites"],
        harness="c13",
        level_text="Unbounded theorems (every program length / width) about the executable model of simulate_statevector_outcomes, stated for "
                   "EVERY instrument (state, apply, p1, proj, flipx) -- the quantum step is abstract. PROVED about the bookkeeping: "
                   "(1) tolerance 0, NO premise on p1 (algebraic identities, they also hold for a non-probability p1): the returned list has "
                   "distinct keys and equals, as a finite map and for every function of the outcome, the push-forward of an independently "
                   "written recursive path semantics (measurement splits with weights 1-p1/p1 and clears/sets its bit, later writes overwrite, "
                   "reset splits and leaves bits alone); total 1 (c13_pushforward/_expectation/_total). With 0<=p1<=1 added: the answer is a "
                   "probability distribution, values in (0,1] (c13_distribution, c13_support). "
                   "(2) the source's tolerance (any tol >= 0, 0<=p1<=1): every outcome / every [0,1]-valued event is never above its path-law value "
                   "and at most 2*(#measure+#reset)*tol below it; the total is within the same bound of 1 (c13_*_bound_static; a-priori, "
                   "<= 4e-15 for 20 instructions at 1e-16; non-vacuity with a toy instrument where mass is really lost). 'Sums to one' and 'true "
                   "probability' therefore hold at the source's tolerance only up to this bound. The older c13_pruned_bound/_outcome_bound/"
                   "_event_bound give the sharper n*tol with n a ghost counter of the model (not observable, can double per branching measurement). "
                   "(3) any tolerance, no premise: the final dictionary is entry by entry the leaf multiset of an explicit tree CUT BY THE SAME "
                   "isclose0 RULE and the returned map is that tree's law (c13_branches/_tree_law: a specification of which branches are cut; "
                   "closeness to the uncut law only via (2)). (4) GIVEN the harness's classification of instructions into constructors, a "
                   "conditioned operation / a clbit on a non-measurement anywhere gives ValueError (c13_refuses); the model's only other exception "
                   "source, the reversed-order deletions, never fires (c13_deletes_in_range; Qiskit-internal exceptions are not modelled). "
                   "(5) ExactSampler: for ONE circuit passing Qiskit's validation the answer obeys (2) against the path law (c13_sampler_answer); "
                   "for several circuits entry i is the function's answer for circuit i alone and one invalid/refusing circuit refuses the call "
                   "(c13_sampler_run_ok/_refuses). For circuits without classical bits or without a Measure -- inside the property's quantifier -- "
                   "ExactSampler().run raises ValueError in Qiskit's BaseSamplerV1 validation; the sampler clause is NOT claimed for them (the "
                   "function clause is). Parameter binding is not modelled. "
                   "NOT PROVED (correspondence only): that Qiskit's Statevector is the Born instrument; the model is instantiated with an exact "
                   "Q(sqrt2)(i) simulator written in Coq (12 gates) and compared with the implementation on ~1000 generated circuits per run as "
                   "finite maps (key sets exactly, probabilities within 1e-12), and every case also with an independent numpy density-matrix simulator. "
                   "A targeted 'nearbranch' stream (48 / 600 circuits, oracle only, 1e-9) puts branches with close but unequal states (a controlled "
                   "rotation by 1e-7 .. 3e-5 about a random axis, control then reset or measured-reset-remeasured into the same bit) under ONE "
                   "classical key and measures the rotated qubit, so that any merging / identification of branch states up to a tolerance shows.",
        level_text_ext="QSim instance: c13_qsim_p1_clamped holds by the clamp in qp1's definition (it only discharges the premise 0<=p1<=1). "
                   "c13_qsim_born_step: for every vector and qubit, qproj (the projection by definition) has squared norm |P_b v|^2; "
                   "|P0 v|^2+|P1 v|^2=|v|^2 exactly; UNDER the per-state audit bit p1=|P1 v|^2/|v|^2 unclamped; q2div is division when c^2-2d^2<>0. "
                   "NOT proved: QSim's gate actions (x y z h s sdg sx sxdg cx cz swap ccx; every other gate is outside QSim) are unitary / equal "
                   "Qiskit's matrices; that the audit bit holds on all reachable states. QSim is total: on ill-formed operands (index out of range, "
                   "repeated operand, wrong arity) it returns some vector, so c13_qsim_* are meaningful only for wf_qprog programs (premise of "
                   "c13_qsim_outcome_bound_static; the checker tests wf_qprog, the audit bit, and norm preservation of every gate application on "
                   "every case).",
        level_note=STD_NOTE + "No axioms. sim_tolerance is the exact decimal value 1/10^16 of the source literal `1e-16` (the binary64 value Python uses is "
                   "about 2e-33 smaller; rounding is not modelled). "
                   "OBSERVATION (outside the property's quantifier 'unitary gates, barriers, projective measurements and resets'): a reset nested "
                   "inside a composite instruction (qc.initialize(...), or a sub-circuit with reset appended via to_instruction()) is sent to "
                   "Statevector._evolve_instruction, which SAMPLES one outcome: e.g. h(0); cx(0,1); initialize([0,1],0); measure([0,1],[0,1]) returns "
                   "{3:1.0} or {1:1.0} varying between calls instead of {1:.5, 3:.5}. Neither the generator nor the model produces such inputs; "
                   "composites of unitaries (to_gate) are generated and modelled by inlining their definition. "
                   "The order of the returned dict is mirrored by the model (Example c13_ex_order) but is not part of the verdict (compared as maps).",
        assumptions=[
            "[physics/oracle] Qiskit's Statevector.probabilities / evolve / _evolve_instruction (barrier = identity; a composite gate of unitaries = its "
            "definition; operands passed in instruction order) implement a Born instrument: compared per case with Common/QSim.v inside Coq and with a "
            "numpy density-matrix simulator; never proved",
            "[oracle] Qiskit's BaseSamplerV1.run validation (no circuits / no clbits / no Measure -> ValueError before the package's code) as modelled "
            "in Model.sampler / sampler_run; monitored as an oracle contract on every valid case",
            "[model] Model/Sim.v, Model/SimTree.v are hand-written models of simulate_statevector_outcomes (dict in insertion order, k0/k1 masks, "
            "pending delete/insert, cleanup, truncation |p| <= _TOLERANCE, the two refusals) and of ExactSampler.run; tied to the source by the C13 "
            "correspondence and the extracted _TOLERANCE / isclose-shape facts; which constructor an instruction maps to (PCond, PGateWithClbit, ...) is "
            "decided by the harness",
            "[model] p0 is modelled as 1 - p1 (the implementation reads both from sv.probabilities); binary64 rounding is not modelled (results compared "
            "within 1e-12); parameter binding (assign_parameters) is not modelled",
            "[success-case] the bounds are stated for runs that return (simulate = Ok out); c13_pushforward/c13_tree_law prove that every program "
            "without a refusing instruction does return",
            "[input precondition] statements about the QSim instance presuppose wf_qprog (what QuantumCircuit guarantees); arbitrary unitaries, "
            "parametrised rotations, branches near the cut-off and multi-circuit / parameter_values sampler runs are only compared with the harness's "
            "density-matrix oracle (1e-9)",
            "[outside the quantifier] composite instructions containing resets/measurements (initialize, to_instruction with reset) and opaque operations "
            "holding clbits: not generated, never flagged by judge (see level_note)",
        ],
    )

from props_common import STD_NOTE

PID = "C10"
ENTRY = dict(
        title="Separating and partitioning a circuit preserves its structure and meaning",
        prop_file="Properties/C10.v",
        corr_files=["Corr/C10Corr.v"],
        theorems=["c10_split_barriers", "c10_combine_barriers", "c10_separate", "c10_exactly_one", "c10_members",
                  "c10_commute", "c10_recompose", "c10_recompose_circuit", "c10_union_find", "c10_auto_idle", "c10_auto_components", "c10_keep_idle_wires",
                  "c10_separate_drops_idle", "c10_dx_contract_inhabited", "c10_cuts", "c10_cut_decision", "c10_cuts_only", "c10_problem_recompose",
                  "c10_subobs_keys", "c10_subobs_tensor", "c10_problem_subobs", "c10_separate_total", "c10_separate_total_auto", "c10_cutting_total",
                  "c10_problem_total", "c10_problem_total_auto", "c10_separate_refuses", "c10_problem_refuses",
                  "c10_idle_observable", "c10_idle_observable_problem", "c10_facts"],
        allowed_axioms=[],
        facts=["value_error_sites", "c10_separate_calls", "c10_problem_calls", "c10_idle_group_removed",
               "c10_auto_ignores_qpd2", "c10_keep_idle_default", "c10_label_suffix",
               "c10_relabel_resets_definition"],
        harness="c10",
        level_text="Unbounded theorems (induction; all circuit lengths, qubit counts, label sequences, Pauli lists) about the executable model "
                   "of utils/transforms.py and of partition_circuit_qubits / numbering / halves / sub-observables of cutting_decomposition.py. "
                   "SUCCESS-CASE: c10_separate (each subcircuit IS the original restricted to its label, order kept, barriers restricted per "
                   "partition, re-indexed; keys, qubit map), c10_recompose (per-wire sequences of the back-mapped parts equal the original's; "
                   "any interleaving CARRYING THE ORIGINAL INSTANCE TAGS with the original clbit order has the original's Herbrand "
                   "denotation), c10_recompose_circuit (the literally recomposed circuit, tags forgotten: its denotation is the original's "
                   "with instance tags renamed injectively), c10_cuts (the k-th placeholder yields halves 0/1 with suffix k, same basis, in the "
                   "right partitions and positions; bases ordered by k), c10_cut_decision (which gates are replaced), c10_cuts_only (every "
                   "numeric-suffix half in a subcircuit is one of these two - as a set; multiplicity not stated; input must not contain "
                   "halves with numeric suffix), c10_subobs_keys / c10_subobs_tensor / c10_problem_subobs (keys, letters recombine, phase 0), "
                   "c10_problem_recompose (per wire only, against the cut circuit; no denotation statement). "
                   "TOTALITY: c10_separate_total (valid explicit labelling), c10_separate_total_auto (automatic labels: >=1 qubit per "
                   "instruction, qubits in range, clbits in registers), c10_problem_total (validations pass, instructions on labelled qubits, "
                   "no uncuttable gate, OBSERVABLES IDENTITY ON THE None-LABELLED QUBITS, for every decompose oracle satisfying its contract), "
                   "c10_problem_total_auto (automatic labels: only the shape of the input and identity on untouched qubits). "
                   "AUTOMATIC LABELS: union-find correctness, None iff no instruction at all touches the qubit, components of the non-ignored "
                   "instructions, consecutive labels ordered by least qubit. REFUSALS incl. the repaired F4 (= Refused). "
                   "c10_exactly_one / c10_members are facts about the specification functions that give c10_separate its meaning, not "
                   "clauses on their own. Closed under the global context. The models are run against the implementation on >3000 generated "
                   "cases per quick run (10 streams incl. every helper, call forms, call histories).",
        level_note=STD_NOTE + "No axioms. partition_problem is modelled with the REPAIRED idle-qubit behaviour F4 (None group removed from "
                   "the sub-observables; ValueError when an observable acts on a None-labelled qubit); on the unrepaired tree the "
                   "correspondence disagrees exactly there and the property-level oracle confirms the violation.",
        assumptions=[
            "Model/Separate.v and Model/Partition.v are hand-written models; tied to /repo by the C10 correspondence (vm_compute of the "
            "models on the inputs the implementation ran on; exact comparison of instruction lists, keys, orders, qubit maps, bases, "
            "sub-observables, refusals) and by regenerated facts (stage order, refusal-site counts, ignore= predicate, label suffix)",
            "labels are interned by Python ==/hash classes (None kept apart); gates, barrier uuid labels and QPD bases (by QPDBasis.__eq__) "
            "are interned per case",
            "oracle rustworkx.connected_components: assumed to return the connected components (monitored on every call made during "
            "generation); the model computes them by union-find and proves that computation correct",
            "oracle QuantumCircuit.decompose(TwoQubitQPDGate) (circuit -> DAG -> circuit): assumed to return a permutation of the in-place "
            "expansion with the same per-qubit instruction sequences (monitored on every call); therefore the subcircuits of "
            "partition_problem are compared with the model up to reordering of instructions that share no qubit, and the theorems about "
            "partition_problem hold for every dx satisfying that contract",
            "oracle QPDBasis.from_instruction: basis handle / ValueError per gate, supplied by the harness by calling it",
            "Herbrand adequacy M1 (DESIGN 3.1): equal wire-history terms mean equal channel; barriers and cut_wire markers are identities; "
            "QPD placeholders are opaque tagged gates",
            "kinds of remaining hypotheses: INPUT PRECONDITIONS no_uuid, in_range, no_empty_instr, clbits_ok, input_ok/shape_ok (>=1 qubit, no "
            "clbits, placeholders on two qubits), 'no half with numeric suffix' (c10_cuts_only), NoDup of the creator tags of the chosen "
            "interleaving (c10_recompose_circuit); ORACLE dx_contract (decompose), rustworkx components, from_instruction table; "
            "MODELLING M1 (Herbrand adequacy; instance tags are names, so denotations are compared up to injective renaming)",
            "input circuits do not already contain one-qubit barriers labelled '_uuid=...' (hypothesis no_uuid of the theorems; such a "
            "label is reserved by the implementation and would be merged by _combine_barriers)",
            "observations outside the property's quantifier (neither compared nor judged): circuit.global_phase is not carried into the "
            "subcircuits (physically irrelevant for expectation values); instructions with .condition / control flow are not generated; "
            "user barrier labels are lost when a multi-qubit barrier is split and re-joined; a zero-qubit non-barrier instruction "
            "(GlobalPhaseGate) raises AssertionError in _separate_instructions_by_partition; automatic labelling of partition_problem "
            "counts barriers as connections while separate_circuit splits them first (judge accepts either reading)",
            "call forms: label sequences are passed as list / tuple / str / numpy array and observables as PauliList / list[Pauli] / empty "
            "collection; the model knows no call form, so all forms must give the same canonical result",
            "every call is also checked for leaving the caller's circuit (instructions, labels of the caller's gate objects) unchanged; "
            "a modified input is recorded as a failed call",
            "zero-qubit instructions and clbits outside every classical register are modelled as Crashed (IndexError / AssertionError / "
            "CircuitError in the implementation) and lie outside the property's quantifier",
        ],
    )

from props_common import STD_NOTE

PID = "C10"
ENTRY = dict(
        title="Separating and partitioning a circuit preserves its structure and meaning",
        prop_file="Properties/C10.v",
        corr_files=["Corr/C10Corr.v"],
        theorems=["c10_stub"],
        allowed_axioms=[],
        facts=[],
        harness="c10",
        level_text="stub",
        level_note=STD_NOTE,
        assumptions=[],
    )

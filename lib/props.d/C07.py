from props_common import STD_NOTE

PID = "C07"
ENTRY = dict(
        title="Automatic cut finding returns a feasible, faithfully accounted cut circuit",
        prop_file="Properties/C07.v",
        corr_files=["Corr/C07Corr.v"],
        theorems=["c07_correct", "c07_render_injective", "c07_only_markers", "c07_erase_markers", "c07_metadata", "c07_accounting",
                  "c07_feasible", "c07_cut_positions",
                  "c07_fails_only_if_infeasible", "c07_succeeds_when_feasible", "c07_clbits_always_refused",
                  "c07_export_never_crashes", "c07_indices_in_range", "c07_result_in_range", "c07_terminates",
                  "c07_pop_is_minimum", "c07_pop_contract_determines", "c07_queue_is_multiset", "c07_queue_seqs_distinct",
                  "c07_any_pop_same_search",
                  "c07_compression_congruence", "c07_union_respects_equiv", "c07_facts"],
        allowed_axioms=[],
        facts=["cf_left_wire_mult", "cf_right_wire_mult", "cf_both_wires_mult", "cf_gate_cut_uses_gate_gamma",
               "cf_action_registry", "cf_search_funcs", "cf_upper_bound_cost_is_gamma_ub", "cf_default_max_gamma",
               "cf_default_max_backjumps", "cf_stop_at_first_min", "cf_overhead_is_square"],
        harness="c07",
        level_text="Unbounded theorems (all circuits, all widths, all cut-kind combinations, all gamma/backjump limits, all random "
                   "tapes, all fuel) about the executable model of find_cuts (qc_to_cco, first-use renumbering, the five actions with "
                   "their guards and assertions, greedy pass, best-first search with its priority queue, CutOptimization, the "
                   "LOCutsOptimizer driver, export_cuts on the SimpleGateList, cut_gates, the sorted wire-cut insertion loop with its "
                   "running counter, metadata scan): whenever the model returns, the output is the input with only markers added "
                   "according to a permitted plan (CutWire immediately before the gate on its input qubit, cut gates wrapped), the "
                   "metadata lists exactly the marker positions/kinds, the overhead is the product kappa^2 / 16-per-marker over that "
                   "plan, every component of the independent wire-segment graph of the output has at most W segments; a ValueError "
                   "(supported two-qubit gates, valid settings, all four cut-kind combinations) only if no permitted plan is feasible; conversely it RETURNS "
                   "whenever some permitted plan is feasible (c07_succeeds_when_feasible, any max_gamma/max_backjumps/tape); the position of "
                   "every input instruction and of every marker in the output is given in closed form (running insertion offset) and "
                   "metadata['cuts'] is exactly that list (c07_cut_positions); never any other "
                   "exception: all assertions incl. those of export_cuts are unreachable and the nth_error-modelled lookups are in range "
                   "(c07_export_never_crashes); the array accesses the model totalises (nth with default, upd) are shown in range in "
                   "every reachable search state and in the result (c07_indices_in_range, c07_result_in_range); with classical bits the "
                   "call never returns (c07_clbits_always_refused); explicit fuel bound; the priority queue enters "
                   "only through the contract 'pop returns a minimum and removes it' (c07_any_pop_same_search). c07_correct bundles all "
                   "clauses for ONE plan, which is unique for the returned circuit (c07_render_injective). c07_metadata is close to "
                   "definitional (metadata is a scan of the output in model and source alike; the substantive statement is "
                   "c07_cut_positions); c07_erase_markers is a fact about render only (reading aid). Closed under the global "
                   "context. The model is run against the implementation on >450 (quick) / >7000 (thorough) generated cases per run, "
                   "comparing the output circuit, metadata, final and greedy search state, SearchStats, random-tape consumption and "
                   "the SimpleGateList after export_cuts.",
        level_note=STD_NOTE + "No axioms.",
        assumptions=[
            "Model/CutFinder*.v is a hand-written model of automated_cut_finding.find_cuts and cut_finding/*; tied to /repo by the C07 "
            "correspondence (vm_compute of the model on the inputs the implementation ran on, with the recorded random tape) and by "
            "the regenerated facts (cost multipliers 4/4/16, action registry order and groups, cost_func = upper-bound cost in both "
            "SearchFunctions tables, stop_at_first_min, overhead = gamma_UB**2, defaults)",
            "bell_pairs, gamma_LB, cut_actions_list are not modelled: they do not influence the default cost function "
            "(facts obligation); a cost tuple (gamma_UB, inf) is modelled by gamma_UB",
            "path compression in find_wire_root is left out of the state. Proved: compression yields an equivalent forest (same length, "
            "well-formed, same find, same roots: c07_compression_congruence) and union_roots respects that equivalence "
            "(c07_union_respects_equiv), i.e. every union-find operation the model uses cannot distinguish a compressed forest; the "
            "whole-run simulation with compression at every find is NOT stated as one theorem",
            "oracles: the numpy Generator of the priority queue is a tape nat -> Q recorded by wrapping numpy.random.default_rng "
            "(theorems hold for every tape)",
            "heapq: the model keeps the queue as a list and pops the least (cost,-depth,rand,seq) entry. The former blanket assumption "
            "'the list model is adequate for heapq' is now reduced to the precise contract 'heappop returns an entry with no smaller "
            "entry in the heap under the tuple order and removes exactly it, heappush adds exactly the entry': c07_pop_is_minimum "
            "(the model's pop satisfies it), c07_pop_contract_determines (with pairwise different seq numbers - an invariant, "
            "c07_queue_seqs_distinct - the contract determines the popped entry and the remaining multiset) and "
            "c07_queue_is_multiset (the search loop depends on the queue only as a multiset) are proved, and the capstone "
            "c07_any_pop_same_search runs the whole optimisation (greedy start, passes, fall-back, driver loop) with an ABSTRACT pop "
            "satisfying exactly that contract and shows the same best state, goals, counters and flag as the list model. heapq itself "
            "is not modelled (kind: oracle contract, one hypothesis)",
            "gate kappas and the canonical wrapped form of a gate (TwoQubitQPDGate.from_instruction) are inputs supplied by the "
            "harness from QPDBasis; theorems about the segment graph assume the wrapped form is a TwoQubitQPDGate (gtab_ok)",
            "max_wire_cuts_gamma is modelled exactly over Q (least k with 2^(k+1) >= g+1); binary64 corner cases of "
            "np.ceil(np.log2(g+1)-1) and rounding of gamma products beyond 2^53 are out of scope (the generator keeps the greedy gamma "
            "below 2^53 where binary64 is exact; overhead beyond 2^52 is compared with relative tolerance 2^-50)",
            "the model implements the REPAIRED queue behaviour of BestFirstSearch.optimization_pass (DESIGN F3: a popped state over a "
            "cost bound is pushed back unless min_reached); the C07 checker does not compare minimum_reached / tape consumption on "
            "cases where the model took that branch unless CKT_C07_STRICT=1 (that flag is property C08's subject)",
            "NOT proved (tested by the harness judge only): that the wire-segment graph agrees with the package's own "
            "cut_wires + partition_problem on barrier-free outputs; that the finder's plan space (wire cuts only directly before "
            "two-qubit gates) loses no feasible width; any link of kappa to C15's gamma theorems (kappas are harness inputs)",
            "theorem hypotheses: circ_wf (multi-qubit non-barrier instructions act on exactly two distinct qubits), circ_plain (gates "
            "and barriers only) for the segment-graph theorems; circuits with classical bits are refused by cut_gates and lie outside "
            "the property's domain",
            "OBSERVATION (outside the quantifier 'circuits of one- and two-qubit gates (all supported families)'): a two-qubit "
            "instruction that is not a Gate (gamma None, cannot be gate-cut) can make the greedy pass dead-end although a plan "
            "exists; the truncated search (small max_gamma / max_backjumps) then ends in ValueError, e.g. cx(0,1); opaque2(1,2), W=2, "
            "gate cuts only, max_gamma=2. The model reproduces this exactly (compared in the targeted stream); judge treats such "
            "circuits as outside the domain; c07_fails_only_if_infeasible requires every multi-qubit gate to have a kappa",
            "OBSERVATION (boundary of 'all gamma limits >= 1'): max_gamma = float('inf') together with a dead-ended greedy pass "
            "raises OverflowError (int(np.ceil(np.log2(inf+1)-1)) in max_wire_cuts_gamma), e.g. cx(0,1) on 2+ qubits, W=1, wire "
            "cuts only, max_gamma=inf: OverflowError instead of the ValueError raised for every finite limit. The model's Q has no "
            "infinity; the harness records the behaviour in the histogram observation.max_gamma_inf and neither compares nor "
            "judges it (c07_export_never_crashes speaks about finite limits only)",
            "harness (tested, not proved): families_stream_judge_ok - several gate cuts of one parametrised family (rzz/rxx/ryy/rzx/crx/cry/crz/cp) "
            "with different angles; the judge checks that every cut gate in the returned circuit carries the QPD basis of the INPUT "
            "gate at its position and that the reported overhead is the product over the bases actually placed; a fixed corpus of "
            "repeated-pair circuits (ApplyGate inside one subcircuit) is in the targeted stream; cases the oracle rejects are written "
            "to cases_-flagged.json so that the search step of run.py reports them as judged inputs",
            "harness contracts: judge_accepts_clean_case (the property-level oracle is run on every generated case and must accept "
            "it), wide_stream_judge_ok (judge-only stream without model comparison: all registered gate families with random "
            "angles, 9-10 qubits, up to 25 two-qubit gates, several registers, global phase, labels, searches and gammas beyond "
            "the model-evaluation budget); the judge also re-analyses barrier-free outputs with the package's own "
            "cut_wires + partition_problem",
        ],
    )

from props_common import STD_NOTE

PID = "C07"
ENTRY = dict(
        title="Automatic cut finding returns a feasible, faithfully accounted cut circuit",
        prop_file="Properties/C07.v",
        corr_files=["Corr/C07Corr.v"],
        theorems=["c07_only_markers", "c07_erase_markers", "c07_metadata", "c07_accounting", "c07_feasible", "c07_fails_only_if_infeasible",
                  "c07_compression_invisible", "c07_facts"],
        allowed_axioms=[],
        facts=["cf_left_wire_mult", "cf_right_wire_mult", "cf_both_wires_mult", "cf_gate_cut_uses_gate_gamma",
               "cf_action_registry", "cf_search_funcs", "cf_upper_bound_cost_is_gamma_ub", "cf_default_max_gamma",
               "cf_default_max_backjumps", "cf_stop_at_first_min", "cf_overhead_is_square"],
        harness="c07",
        level_text="(in progress)",
        level_note=STD_NOTE + "No axioms.",
        assumptions=[],
    )

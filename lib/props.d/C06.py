from props_common import STD_NOTE

PID = "C06"
ENTRY = dict(
        title="Reconstruction computes the defined estimator for both result formats",
        prop_file="Properties/C06.v",
        corr_files=["Corr/C06Corr.v"],
        theorems=["c06_process_outcome_spec", "c06_estimator", "c06_v1_v2", "c06_v1_merge", "c06_v1_v2_dict", "c06_split_pack",
                  "c06_from_bytes", "c06_count_refused", "c06_public_count_refused",
                  "c06_sign_values", "c06_keys", "c06_keys_same_result", "c06_refusal_causes", "c06_measured_qubits", "c06_mask_bits",
                  "c06_lookup", "c06_letters_shape", "c06_keys_parser", "c06_estimator_parser", "c06_v2_own_shots", "c06_public_estimator",
                  "c06_grouping_bridge", "c06_grouping_shape", "c06_lookup_nonempty", "c06_estimator_grouping",
                  "c06_v1_v2_estimator_grouping", "c06_public_estimator_grouping",
                  "c06_oracle_contract_inhabited",
                  "c06_types_refused", "c06_keyset_refused", "c06_phase_refused", "c06_public_map", "c06_public_list",
                  "c06_facts"],
        allowed_axioms=[],
        facts=["value_error_sites"],
        harness="c06",
        level_text="Unbounded theorems (any number of partitions, commuting groups, observables, coefficients, outcomes/shots, any "
                   "register widths, exact rationals incl. negative quasi-probabilities) about the executable MODEL of "
                   "reconstruct_expectation_values / _process_outcome / _process_outcome_v2 / _outcome_to_int. PROVED: (1) c06_estimator: "
                   "under the input preconditions 'result count = #coefficients x #groups', 'every partition has nobs lookup lists, each "
                   "NON-EMPTY with existing locations' (locs_ok_ne; an empty list would make the model's mean 0/0 = 0 where numpy gives nan) "
                   "and 'every V1 key is accepted', the model returns sum_i coeff_i * prod_partitions E_i,partition[k] up to equality of "
                   "rationals, E being defined declaratively by bit tests (parity of the QPD bits times parity of the measured bits "
                   "selected by the observable, weighted by the quasi-probabilities resp. 1/(shots of that pub), experiment index "
                   "i*#groups+m, mean over lookup locations); c06_process_outcome_spec: _process_outcome returns that declarative value "
                   "entry by entry. (2) V1 = V2: c06_v1_v2 for the one-entry-per-shot LIST (duplicates kept, literal equality); "
                   "c06_v1_merge / c06_v1_v2_dict for the DICT-shaped V1 twin (distinct integer keys, weight = summed 1/shots), equality "
                   "of rationals, under the preconditions of (1) plus 'observable values fit their register' (split_pack over N, no byte "
                   "boundary; big-endian row read for rows of any length). (3) c06_count_refused / c06_public_count_refused: a count "
                   "mismatch is refused by the loops and by the public function in both call forms; c06_refusal_causes: a refusal of the "
                   "loops has exactly two causes (count mismatch, rejected key) -- that the model never yields Crashed there is by "
                   "construction (nth defaults, truncating vmul) and is NOT a claim about Python on ill-shaped lookups. (4) keys: int / "
                   "binary / 0b 0B / 0x 0X keys go to the right radix (c06_keys under the int(s,0) contract; c06_keys_parser for the "
                   "executable parser without hypothesis); equivalent keys give the same result. (5) c06_grouping_bridge: the groups / "
                   "measured-bit counts / bitmasks / lookup that C11's model of ObservableCollection computes are exactly the partition the "
                   "C06 model builds from the letters; when the unique()/group_commuting oracle answer satisfies C11's grouping_contract, "
                   "c06_lookup_nonempty (no empty lookup), c06_estimator_grouping, c06_v1_v2_estimator_grouping and "
                   "c06_public_estimator_grouping hold with only: equal label sets, count match, every key accepted by the parser, "
                   "observable values fit. (6) c06_public_estimator lifts (1) through the dict-form public wrapper; c06_types_refused, "
                   "c06_keyset_refused, c06_phase_refused, c06_public_map, c06_public_list are by case analysis of the model's wrapper. "
                   "All closed under the global context. ONLY TESTED: model = implementation (~4400 generated cases per quick run, exact "
                   "rational comparison on dyadic data, 1e-9 on the non-power-of-two-shots stream), pyint0_ref = Python int(s,0), "
                   "container reads (QuasiDistribution, BitArray), binary64 arithmetic.",
        level_note=STD_NOTE + "No axioms.",
        assumptions=[
            "Model/Reconstruct.v is a hand-written model of cutting_reconstruction.py (+ bit_count, _get_pauli_indices' length); it is "
            "tied to /repo by the C06 correspondence (vm_compute of the model on the inputs the implementation ran on, results compared "
            "as exact rationals on dyadic data) and by the regenerated count of ValueError sites (7)",
            "the model is fed Pauli LETTERS: which observables share a commuting group and the group's general observable are read from "
            "the real ObservableCollection (PauliList.group_commuting / most_general_observable are C11's business; monitored: general = "
            "union of members, phases 0); measured qubits, bitmasks and lookup are recomputed by the model (c06_measured_qubits, "
            "c06_mask_bits, c06_lookup) and the real pauli_indices / pauli_bitmasks / lookup are compared with them (streams cog, lookup "
            "and monitors), so the reconstruction model never receives the implementation's own masks",
            "OBSERVATION (not reachable, not tested on the implementation): group_commuting puts every unique observable into exactly one "
            "group, so every lookup list has exactly one location (monitor lookup_has_exactly_one_location) and np.mean over locations "
            "is the identity on all reachable inputs; the 'mean over locations' clause is proved for the model (any number of "
            "locations) but compared with the implementation only for one location",
            "Python's int(s, 0): the general theorems keep it as an oracle (Section variable pyint0) with a contract, but "
            "c06_keys_parser / c06_estimator_parser / c06_estimator_grouping / c06_v1_v2_estimator_grouping instantiate it with the "
            "executable parser pyint0_ref and need NO contract hypothesis; what remains assumed is that pyint0_ref agrees with "
            "Python's int(s, 0) on strings without sign, underscore or non-space white space (compared on every generated string, "
            "stream pyint0)",
            "the C06 cone contains C11's Model/Grouping.v + Proofs/GroupingP.v (bridge); PauliList.unique()/group_commuting are "
            "ORACLES of that model. c06_grouping_bridge / c06_grouping_shape hold for every oracle answer for which the collection is "
            "built, but an answer that drops an observable would give an empty lookup where Python raises KeyError, so the end-to-end "
            "theorems (from_collection / part_from_collection) assume C11's grouping_contract for the oracle answer (kind: oracle; "
            "evaluated in Coq on every collection_part case and monitored in C11's harness); the composition is tied to /repo by the "
            "stream collection_part (C11's model run on the real groups, its masks / lookup compared with the real ones)",
            "remaining hypotheses of the end-to-end theorems, by kind: input preconditions (equal label sets, result count, every key "
            "accepted by the parser, observable value < 2^register width -- a BitArray invariant); oracle (grouping_contract); none of "
            "success-case kind",
            "OBSERVATION: _outcome_to_int treats a digit string whose second character is 0/1 as binary and any other as int(s,0): "
            "'10' -> 2 but '12' -> 12, '2' -> ValueError; such undocumented key shapes are outside the quantifier (judge silent, model = code)",
            "outcome keys are non-negative ints or str; quasi-probabilities, coefficients and 1/shots are exact rationals (binary64 "
            "rounding not modelled; the harness only feeds dyadic values on which float arithmetic is exact)",
            "Qiskit containers are taken at face value: QuasiDistribution normalises keys to int on construction (monitored), "
            "BitArray.array rows are big-endian bytes of the register value (monitored against BitArray.from_samples)",
            "sub-observable lists of different lengths across partitions, out-of-range or empty lookup lists, empty observable dicts "
            "and non-int/str keys are outside the property's domain: the model is total there (nth defaults, truncating vmul, "
            "Qmean [] = 0) where Python raises IndexError/KeyError or yields nan; nothing is claimed (premises exclude them) or compared",
        ],
    )

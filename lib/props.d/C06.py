from props_common import STD_NOTE

PID = "C06"
ENTRY = dict(
        title="Reconstruction computes the defined estimator for both result formats",
        prop_file="Properties/C06.v",
        corr_files=["Corr/C06Corr.v"],
        theorems=["c06_E_def", "c06_estimator", "c06_v1_v2", "c06_split_pack", "c06_from_bytes", "c06_count_refused",
                  "c06_sign_values", "c06_keys", "c06_keys_same_result", "c06_total", "c06_measured_qubits", "c06_mask_bits", "c06_lookup",
                  "c06_letters_shape", "c06_keys_parser", "c06_estimator_parser", "c06_v2_own_shots", "c06_public_estimator",
                  "c06_grouping_bridge", "c06_grouping_shape", "c06_estimator_grouping", "c06_v1_v2_estimator_grouping",
                  "c06_oracle_contract_inhabited",
                  "c06_types_refused", "c06_keyset_refused", "c06_phase_refused", "c06_public_map", "c06_public_list",
                  "c06_facts"],
        allowed_axioms=[],
        facts=["value_error_sites"],
        harness="c06",
        level_text="Unbounded theorems (any number of partitions, commuting groups, observables, coefficients, outcomes/shots, any "
                   "register widths, exact rationals incl. negative quasi-probabilities) about the executable model of "
                   "reconstruct_expectation_values / _process_outcome / _process_outcome_v2 / _outcome_to_int: the model returns "
                   "sum_i coeff_i * prod_partitions E_i,partition[k] with E defined declaratively by bit tests (parity of the QPD bits "
                   "times parity of the measured bits selected by the observable, averaged with the quasi-probabilities resp. 1/shots, "
                   "experiment index i*#groups+m, mean over lookup locations); V2 data and the V1 data describing the same shots give the "
                   "identical result (split_pack over N, no byte boundary; big-endian row read proved for rows of any length); count, "
                   "type, key-set and phase mismatches are refused; every processed value is +-1; int / binary / 0b / 0x keys are sent "
                   "to the right radix and equivalent keys give the same result. Closed under the global context. The model is run "
                   "against the implementation on ~4000 generated cases per quick run with exact rational comparison (within 1e-9 on the "
                   "non-power-of-two-shots stream); c06_total: the loops never crash and refuse only for a count mismatch or a rejected key. "
                   "Extension: c06_grouping_bridge proves that the groups / measured-bit counts / bitmasks / lookup produced by C11's model of "
                   "ObservableCollection (Model/Grouping.v: most_general_observable, __post_init__, lookup loop, for ANY answer of the "
                   "group_commuting oracle) are exactly the partition the C06 model uses, so c06_estimator_grouping and "
                   "c06_v1_v2_estimator_grouping state 'value = defined estimator' and 'V1 = V2' for the masks the grouping code really "
                   "produces with the executable key parser pyint0_ref, leaving only: count match, every key accepted by the parser, "
                   "observable values fit their register. c06_v2_own_shots: the V2 average divides by the shot count of the pub being "
                   "processed. c06_public_estimator lifts the estimator theorem through the public dict-form wrapper.",
        level_note=STD_NOTE + "No axioms.",
        assumptions=[
            "Model/Reconstruct.v is a hand-written model of cutting_reconstruction.py (+ bit_count, _get_pauli_indices' length); it is "
            "tied to /repo by the C06 correspondence (vm_compute of the model on the inputs the implementation ran on, results compared "
            "as exact rationals on dyadic data) and by the regenerated count of ValueError sites (7)",
            "the model is fed Pauli LETTERS: which observables share a commuting group and the group's general observable are read from "
            "the real ObservableCollection (PauliList.group_commuting / most_general_observable are C11's business; monitored: general = "
            "union of members, phases 0); measured qubits, bitmasks and lookup are recomputed by the model (c06_measured_qubits, "
            "c06_mask_bits, c06_lookup) and the real pauli_indices / pauli_bitmasks / lookup are compared with them (streams cog, lookup "
            "and monitors), so the reconstruction model never receives the implementation's own masks",
            "OBSERVATION (not reachable, not tested on the implementation): group_commuting puts every unique observable into exactly one "
            "group, so every lookup list has exactly one location (monitor lookup_has_exactly_one_location) and np.mean over locations "
            "is the identity on all reachable inputs; the 'mean over locations' clause is proved for the model (any number of "
            "locations) but compared with the implementation only for one location",
            "Python's int(s, 0): the general theorems keep it as an oracle (Section variable pyint0) with a contract, but "
            "c06_keys_parser / c06_estimator_parser / c06_estimator_grouping / c06_v1_v2_estimator_grouping instantiate it with the "
            "executable parser pyint0_ref and need NO contract hypothesis; what remains assumed is that pyint0_ref agrees with "
            "Python's int(s, 0) on strings without sign, underscore or non-space white space (compared on every generated string, "
            "stream pyint0)",
            "the C06 cone now contains C11's Model/Grouping.v + Proofs/GroupingP.v (bridge); PauliList.unique()/group_commuting stay "
            "oracles of that model, but the C06 theorems hold for every oracle answer for which the collection is built (no use of "
            "the grouping contract); the composition is tied to /repo by the stream collection_part (C11's model run on the real "
            "groups, its masks / lookup compared with the real pauli_bitmasks / lookup)",
            "OBSERVATION: _outcome_to_int treats a digit string whose second character is 0/1 as binary and any other as int(s,0): "
            "'10' -> 2 but '12' -> 12, '2' -> ValueError; such undocumented key shapes are outside the quantifier (judge silent, model = code)",
            "outcome keys are non-negative ints or str; quasi-probabilities, coefficients and 1/shots are exact rationals (binary64 "
            "rounding not modelled; the harness only feeds dyadic values on which float arithmetic is exact)",
            "Qiskit containers are taken at face value: QuasiDistribution normalises keys to int on construction (monitored), "
            "BitArray.array rows are big-endian bytes of the register value (monitored against BitArray.from_samples)",
            "sub-observable lists of different lengths across partitions, empty observable dicts and non-int/str keys are outside the "
            "property's domain; the model is total there but nothing is claimed or compared",
        ],
    )

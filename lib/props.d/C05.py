from props_common import STD_NOTE

PID = "C05"
ENTRY = dict(
        title="Generated subexperiments and coefficients follow the documented contract",
        prop_file="Properties/C05.v",
        corr_files=["Corr/C05Corr.v"],
        theorems=["c05_generate_is_core", "c05_tables", "c05_coeffs", "c05_chosen", "c05_coeffs_sum", "c05_coeffs_sign",
                  "c05_kappa_nonneg", "c05_exact_total", "c05_exact_coeff", "c05_sorted", "c05_counts_layout", "c05_shape",
                  "c05_build_total", "c05_spec_exp", "c05_observable_bits", "c05_qpd_bits", "c05_projection", "c05_scans", "c05_bases_aligned", "c05_project_bound", "c05_refuse_types",
                  "c05_refuse_num_samples", "c05_refuse_suffix", "c05_refuse_1q_unseparated",
                  "c05_c04_dictionary", "c05_inf_budget_end_to_end", "c05_coeffs_sum_c04_partial", "c05_groups_from_c11",
                  "c05_projection_all_partitions", "c05_facts"],
        allowed_axioms=[],
        facts=["value_error_sites", "c05_label_parse", "c05_loops", "c05_group_loop_calls", "c05_f2_guard", "c05_pass_order", "c05_formulas", "c05_dummy_index",
               "c05_register_names"],
        harness="c05",
        level_text="Unbounded theorems (any number of partitions, cuts, samples, groups, instructions; closed under the global context) "
                   "about the executable model of generate_cutting_experiments, which is composed of the C14 model of "
                   "decompose_qpd_instructions, the C11 model of the measurement register/suffix and the C12 model of the three reset "
                   "passes: a successful call is one run of the shared second half on explicitly known bases, partition table and groups "
                   "and only the two documented argument forms succeed; one coefficient per entry of the weights dictionary, equal to "
                   "w/sum(w) * kappa * sign(prod c) with the entry's weight type; sum|coeff| = kappa when no chosen product is 0; sign law; "
                   "with the exact infinite-budget weights (every joint map of non-zero probability once, weight prod|c|/kappa_j) the total "
                   "weight is 1 and each coefficient EQUALS prod_j c_{j,m_j}; the coefficient order is a stable descending sort of the "
                   "dictionary (permutation, sorted, equal weights keep dictionary order); per partition #coefficients x #groups circuits, "
                   "element z*G+j built from sample z and group j, partitions in the observables' order; every built circuit IS (before the "
                   "passes) the C14 splice of the chosen maps with QPD measurement k on clbit nc0+nobs+k followed by the C11 rotation/"
                   "measurement suffix on clbits nc0..nc0+nobs-1, registers old ++ observable ++ qpd, and after the passes the same up to "
                   "deleted resets with no placeholder or marker left; the placeholder labelled _k receives joint[k] in every partition, and when every cut id is an index into `bases` the ids are exactly 0..n-1 and bases[k] is the basis of a placeholder labelled _k (so coefficient and circuit use the same map of the same basis); "
                   "a totality theorem for the per-circuit step (valid request, no earlier observable register, matching width, measured qubits in range => always the declared circuit); COMPOSITION with the oracles' models (Proofs/ExperimentsC.v): every dictionary the C04 model (gen_weights + final_sort) returns, for any budget, has distinct keys, each selecting a coefficient in every basis, and no chosen product is 0; for the infinite budget the coefficient clauses hold end to end with NO hypothesis on the weights (one coefficient per dictionary entry, sum|coeff| = prod kappa, sign = sign of the product); for finite budgets sum|coeff| = prod kappa is proved only under positivity of the returned weights (c05_coeffs_sum_c04_partial: no C04 theorem gives that positivity yet); the groups of the C11 model (collection) are as many as the oracle's commuting groups, each with general observable = most_general_observable of its members and pauli_indices = its ascending non-identity positions; and for ANY number of partitions a circuit of partition l is built from the sample's joint map and its placeholder labelled _k receives joint[k]; refusal theorems for the type mismatches, num_samples < 1 / NaN / -inf, a missing or non-numeric label suffix and "
                   "one-qubit placeholders in an unseparated circuit. The model is run inside Coq on every input the implementation ran "
                   "on (about 310 generated calls per quick run, about 2900 in the thorough tier) and compared circuit by circuit, instruction by instruction, register "
                   "layout exactly, coefficient types exactly, coefficient values exactly where binary64 arithmetic is exact and within "
                   "1e-12*kappa otherwise.",
        level_note=STD_NOTE + "No axioms. The weights dictionary (generate_qpd_weights: property C04) and the commuting groups "
                   "(ObservableCollection: property C11) are oracle INPUTS of the model: the harness re-reads the weights with the same numpy "
                   "seed and asks the real ObservableCollection. The model follows the REPAIRED behaviour for defect F2 (final resets removed "
                   "before the placeholder measurement of an identity group; property C19). Cases in which a group measures nothing and a reset "
                   "can precede the placeholder measurement are routed to a separate checker group that accepts both the repaired and the "
                   "unrepaired output (extra resets on qubit 0 in exactly those circuits), so C05 stays quiet about F2 on an unrepaired tree (/repo has the repair since 6c55756); "
                   "the fact c05_f2_guard likewise accepts both. Idle qubits (defect F4, a None partition key) are not generated. "
                   "Names of the two final registers, float/WeightType types of the coefficient entries and 'inputs untouched' are checked "
                   "by the harness on the implementation's output and enter the per-case verdict.",
        assumptions=[
            "Model/Experiments.v is a hand-written model of generate_cutting_experiments, _get_mapping_ids_by_partition, "
            "_get_bases_by_partition, _get_bases; tied to the source by the C05 correspondence and by regenerated facts (loop nest, order of the "
            "per-circuit steps, order of the three passes, the sorted(..., reverse=True) call, the coefficient formula, the projection "
            "expression, the dummy index [0], the register names, ValueError site counts)",
            "it reuses Model/Decompose.v (C14), Model/Measurement.v (C11), Model/ResetPasses.v (C12); their own correspondences tie those "
            "to the source. The weight/num_samples types are local copies of those of Model/Weights.v (C04) so that the correspondence cone "
            "does not depend on the regenerated Facts.v; Proofs/ExperimentsP.v section I gives the conversion (of_wdict, of_num) and the "
            "equalities with Weights.qsum/qprod/cart/jointp for the C01 composition",
            "the composition theorems of section 8 take the C04 model's result r of gen_weights on probs_of(bases) and the C11 model's "
            "collection as GIVEN equations (they are statements about models glued by function application; the glued function is not "
            "run as a whole against the implementation — its three parts are, by the C04, C11 and C05 correspondences). Discharged "
            "thereby: for every budget the former oracle hypotheses 'keys select coefficients' and 'no chosen product is 0'; for the "
            "infinite budget also 'weights non-negative, total positive'. STILL an oracle hypothesis: positivity of the weights for finite "
            "budgets (monitored: weights_positive_right_length)",
            "oracle inputs: the weights dictionary of this call in dict order; ObservableCollection(...).groups per partition (or the "
            "exception it raised); QPDBasis objects interned by QPDBasis.__eq__ with maps and coefficients (Fraction of the floats)",
            "exact rational arithmetic; the sign is the sign of the exact product (binary64 underflow of np.prod is not modelled); "
            "sum()/np.prod association order is irrelevant in Q",
            "partition labels are interned by Python ==/hash (dict-key semantics); dicts have distinct keys",
            "OBSERVATION (outside the quantifier, not generated, neither model nor judge alarm on it): a label ending in a NEGATIVE "
            "integer ('x_-1') is accepted by the source (int('-1')) and then indexes map_ids[-1] / bases_dict[-1] with Python's negative "
            "indexing, silently misaligning the cuts; harness/circ.py canonicalises such a label as 'no suffix'",
            "the hypothesis exact_weights of c05_exact_total / c05_exact_coeff is an oracle contract: it is discharged for the C04 model in "
            "Properties/C01.v (c01_weights_from_c04), and its completeness half (every joint map with probability clearly above the 1e-14 "
            "cut-off is a key of the dictionary when num_samples = inf) is evaluated inside Coq on every infinite-budget case "
            "(Corr/C05Corr.v inf_complete) and restated independently in judge",
            "when generate_qpd_weights itself raises for a num_samples >= 1 the oracle has no output; such a case is counted and skipped "
            "(C04's business)",
            "judge fixes no order among the samples: it searches an assignment of the sampled joint maps to (coefficient z, block z of every "
            "partition) that is consistent and uses every map once, trying the documented order first; which resets may be missing from a "
            "returned circuit is judged by an independent rule (leading, final or duplicate on the qubit's wire; the placeholder "
            "measurement of an identity group does not count as a later instruction)",
            "outside the model: a user gate named qpd_measure, a pre-existing register named qpd_measurements, negative label suffixes (Python's negative indexing), "
            "circuits/observables of other types than QuantumCircuit/dict/PauliList beyond the modelled refusal order, total weight 0",
            "Python's sorted(..., reverse=True) is stable (equal keys keep their order); monitored on every case through the exact "
            "comparison of coefficient order and circuit order",
        ],
    )

from props_common import STD_NOTE

PID = "C05"
ENTRY = dict(
        title="Generated subexperiments and coefficients follow the documented contract",
        prop_file="Properties/C05.v",
        corr_files=["Corr/C05Corr.v"],
        theorems=["c05_generate_is_core", "c05_tables", "c05_coeffs", "c05_coeffs_distinct", "c05_chosen", "c05_coeffs_sum",
                  "c05_coeff_value_sign", "c05_coeffs_sign", "c05_kappa_nonneg", "c05_exact_total", "c05_exact_coeff", "c05_sorted",
                  "c05_counts_layout", "c05_shape", "c05_build_total", "c05_spec_exp", "c05_observable_bits", "c05_qpd_bits",
                  "c05_projection", "c05_scans", "c05_bases_aligned", "c05_bases_aligned_full", "c05_project_bound",
                  "c05_scan_valid", "c05_generate_total",
                  "c05_refuse_types", "c05_refuse_num_samples", "c05_refuse_suffix", "c05_refuse_1q_unseparated",
                  "c05_c04_dictionary", "c05_inf_budget_sum_sign", "c05_inf_budget_exact", "c05_generate_inf",
                  "c05_coeffs_sum_c04_partial", "c05_groups_from_c11", "c05_projection_all_partitions", "c05_facts"],
        allowed_axioms=[],
        facts=["value_error_sites", "c05_label_parse", "c05_loops", "c05_group_loop_calls", "c05_f2_guard", "c05_pass_order", "c05_formulas", "c05_dummy_index",
               "c05_register_names"],
        harness="c05",
        level_text="37 unbounded theorems, all closed under the global context, about the executable model of "
                   "generate_cutting_experiments (composed of the C14 model of decompose_qpd_instructions, the C11 model of the measurement "
                   "register/suffix and the C12 model of the three reset passes). "
                   "TOTALITY (separated form, c05_generate_total): an in-domain request (num_samples >= 1 or inf; groups built; subcircuits "
                   "without an observable_measurements register, two-qubit placeholders or unsuffixed placeholders; observable labels are circuit "
                   "labels, groups of the circuit's width measuring its qubits; every joint map of the dictionary selects a coefficient in every "
                   "basis and gives every placeholder an in-range map id) is answered with Ok; the requests issued are valid C14 requests "
                   "(c05_scan_valid) and the per-circuit step is total (c05_build_total). The unseparated form has no totality theorem (an Example "
                   "runs it). "
                   "SUCCESS-CASE theorems (premise `= Ok`, non-vacuous by the totality theorem): a successful call is one run of `core` and only "
                   "the two documented argument forms succeed; coefficient z = w/sum(w) * kappa * sign(prod c) of the z-th sample of a stable "
                   "descending sort (permutation, sorted, ties keep dictionary order), with the sample's weight type (c05_coeffs is a read-off for "
                   "any association list; c05_coeffs_distinct adds, for distinct keys and positive weights, distinct sorted keys and a positive "
                   "total); per partition #coefficients x #groups circuits, element z*G+j built from sample z and group j; every built circuit IS "
                   "(before the passes) the C14 splice + C11 suffix with registers old ++ observable ++ qpd, QPD bit k on clbit nc0+nobs+k, "
                   "observable bit k on nc0+k, measured indices inside the circuit; after the passes the same up to deleted resets (WHICH resets: "
                   "C12/C19) with no placeholder or marker; the placeholder labelled _k receives joint[k] in every partition for any number of "
                   "partitions. "
                   "COEFFICIENT CLAUSES: sum|coeff| = prod kappa and the sign law on the coefficients `core` returns hold under the premises "
                   "'weights positive' (+ 'no chosen product is 0' for the sum); with the dictionary of the C04 MODEL these premises are "
                   "discharged for num_samples = inf (c05_inf_budget_sum_sign, and tied to generate/bases/N in c05_generate_inf), and for inf "
                   "under no_subcutoff_map every coefficient EQUALS the product (c05_inf_budget_exact; false without that premise because "
                   "sub-1e-14 maps are dropped); for FINITE budgets only 'no chosen product is 0' is discharged from C04 and weight positivity "
                   "stays a premise (c05_coeffs_sum_c04_partial, c05_coeffs_sign). "
                   "`bases`: if every cut id is below len(bases) (input precondition) the ids are exactly 0..n-1, and if all placeholders of a cut "
                   "carry one basis handle (C10's output contract; the Python code does not check it) bases[k] is that handle "
                   "(c05_bases_aligned_full). Groups of the C11 model: count and pauli_indices characterised (c05_groups_from_c11; the reader "
                   "composes it with generate's groups argument). Refusal theorems (= Refused) for the type mismatches, num_samples < 1 / NaN / "
                   "-inf, a missing or non-numeric suffix, one-qubit placeholders in an unseparated circuit. "
                   "ONLY correspondence-tested (about 310 generated calls per quick run, about 2900 thorough; circuit by circuit, instruction by "
                   "instruction, register layout, coefficient types exactly, values exactly where binary64 is exact else within 1e-12*kappa): that "
                   "the model is the implementation; register NAMES, float/WeightType types of the coefficient entries, inputs untouched.",
        level_note=STD_NOTE + "No axioms. The weights dictionary (generate_qpd_weights: property C04) and the commuting groups "
                   "(ObservableCollection: property C11) are oracle INPUTS of the model: the harness re-reads the weights with the same numpy "
                   "seed and asks the real ObservableCollection. The model follows the REPAIRED behaviour for defect F2 (final resets removed "
                   "before the placeholder measurement of an identity group; property C19). Cases in which a group measures nothing and a reset "
                   "can precede the placeholder measurement are routed to a separate checker group that accepts both the repaired and the "
                   "unrepaired output (extra resets on qubit 0 in exactly those circuits), so C05 stays quiet about F2 on an unrepaired tree (/repo has the repair since 6c55756); "
                   "the fact c05_f2_guard likewise accepts both. Idle qubits (defect F4, a None partition key) are not generated. "
                   "Names of the two final registers, float/WeightType types of the coefficient entries and 'inputs untouched' are checked "
                   "by the harness on the implementation's output and enter the per-case verdict.",
        assumptions=[
            "Model/Experiments.v is a hand-written model of generate_cutting_experiments, _get_mapping_ids_by_partition, "
            "_get_bases_by_partition, _get_bases; tied to the source by the C05 correspondence and by regenerated facts (loop nest, order of the "
            "per-circuit steps, order of the three passes, the sorted(..., reverse=True) call, the coefficient formula, the projection "
            "expression, the dummy index [0], the register names, ValueError site counts)",
            "it reuses Model/Decompose.v (C14), Model/Measurement.v (C11), Model/ResetPasses.v (C12); their own correspondences tie those "
            "to the source. The weight/num_samples types are local copies of those of Model/Weights.v (C04) so that the correspondence cone "
            "does not depend on the regenerated Facts.v; Proofs/ExperimentsP.v section I gives the conversion (of_wdict, of_num) and the "
            "equalities with Weights.qsum/qprod/cart/jointp for the C01 composition",
            "KINDS OF PREMISES. Oracle (monitored per case): the weights dictionary / its positivity for finite budgets; sorting_perms_b "
            "of the C04 model; ObservableCollection results. Input preconditions: those of c05_generate_total; 'every cut id < len(bases)' "
            "and 'one basis handle per cut' in c05_bases_aligned(_full); kappa <> 0; a probability above 1e-14 in every basis; r <> []; "
            "no_subcutoff_map for exactness. Success-case: `core/generate = Ok` in the read-off theorems (discharged on the domain of "
            "c05_generate_total for the separated form)",
            "OBSERVATION: neither the Python code nor the model compares the bases of the two halves of a cut (_get_bases_by_partition keeps "
            "the last one it meets); a problem whose halves carry different bases is accepted and yields a coefficient from one basis and a "
            "circuit half from the other. partition_problem never produces such a problem (C10)",
            "the composition theorems of section 8 take the C04 model's result r of gen_weights on probs_of(bases) and the C11 model's "
            "collection as GIVEN equations (they are statements about models glued by function application; the glued function is not "
            "run as a whole against the implementation — its three parts are, by the C04, C11 and C05 correspondences). Discharged "
            "thereby: for every budget the former oracle hypotheses 'keys select coefficients' and 'no chosen product is 0'; for the "
            "infinite budget also 'weights non-negative, total positive'. STILL an oracle hypothesis: positivity of the weights for finite "
            "budgets (monitored: weights_positive_right_length)",
            "oracle inputs: the weights dictionary of this call in dict order; ObservableCollection(...).groups per partition (or the "
            "exception it raised); QPDBasis objects interned by QPDBasis.__eq__ with maps and coefficients (Fraction of the floats)",
            "exact rational arithmetic; the sign is the sign of the exact product (binary64 underflow of np.prod is not modelled); "
            "sum()/np.prod association order is irrelevant in Q",
            "partition labels are interned by Python ==/hash (dict-key semantics); dicts have distinct keys",
            "OBSERVATION (outside the quantifier, not generated, neither model nor judge alarm on it): a label ending in a NEGATIVE "
            "integer ('x_-1') is accepted by the source (int('-1')) and then indexes map_ids[-1] / bases_dict[-1] with Python's negative "
            "indexing, silently misaligning the cuts; harness/circ.py canonicalises such a label as 'no suffix'",
            "the hypothesis exact_weights of c05_exact_total / c05_exact_coeff is an oracle contract: it is discharged for the C04 model in "
            "Properties/C01.v (c01_weights_from_c04), and its completeness half (every joint map with probability clearly above the 1e-14 "
            "cut-off is a key of the dictionary when num_samples = inf) is evaluated inside Coq on every infinite-budget case "
            "(Corr/C05Corr.v inf_complete) and restated independently in judge",
            "when generate_qpd_weights itself raises for a num_samples >= 1 the oracle has no output; such a case is counted and skipped "
            "(C04's business)",
            "judge fixes no order among the samples: it searches an assignment of the sampled joint maps to (coefficient z, block z of every "
            "partition) that is consistent and uses every map once, trying the documented order first; which resets may be missing from a "
            "returned circuit is judged by an independent rule (leading, final or duplicate on the qubit's wire; the placeholder "
            "measurement of an identity group does not count as a later instruction)",
            "outside the model: a user gate named qpd_measure, a pre-existing register named qpd_measurements, negative label suffixes (Python's negative indexing), "
            "circuits/observables of other types than QuantumCircuit/dict/PauliList beyond the modelled refusal order, total weight 0",
            "Python's sorted(..., reverse=True) is stable (equal keys keep their order); monitored on every case through the exact "
            "comparison of coefficient order and circuit order",
        ],
    )

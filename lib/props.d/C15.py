from props_common import STD_NOTE

PID = "C15"
REAL_AXIOMS = [
    "ClassicalDedekindReals.sig_forall_dec",
    "ClassicalDedekindReals.sig_not_dec",
    "FunctionalExtensionality.functional_extensionality_dep",
]
ENTRY = dict(
        title="Sampling overheads match the documented closed forms",
        prop_file="Properties/C15.v",
        corr_files=["Corr/C15Corr.v"],
        theorems=["c15_rxx_family", "c15_controlled", "c15_cx_family", "c15_cs_family", "c15_swap_family", "c15_move",
                  "c15_rot_list", "c15_nonlocal_list", "c15_u_from_thetavec", "c15_weyl", "c15_weyl_t00", "c15_weyl_tt0",
                  "c15_weyl_symmetry", "c15_weyl_equiv_kappa", "c15_kak_doc_angles",
                  "c15_rzx_is_kak", "c15_xxpyy_is_kak", "c15_xxmyy_is_kak",
                  "c15_rzx_oracle", "c15_xxpyy_oracle", "c15_xxmyy_oracle", "c15_doc_kak_rows", "c15_gamma_table_excluded",
                  "c15_gamma_table_ge1", "c15_gamma_table_rot", "c15_gamma_table_consts", "c15_ge_1",
                  "c15_basis_invariants", "c15_setter_refuses", "c15_constructor", "c15_basis_invariants_R",
                  "c15_doc_table_sound", "c15_doc_approx", "c15_doc_table_rows", "c15_facts_registry", "c15_facts_source"],
        allowed_axioms=REAL_AXIOMS,
        facts=["registry_names", "c15_rot_names", "c15_rot_coeffs", "c15_theta_prime_scale", "c15_ctrl_test",
               "c15_ctrl_theta_scale", "c15_delegates", "c15_cx_names", "c15_cx_coeffs", "c15_move_coeffs",
               "c15_nonlocal_coeffs", "c15_swap_u", "c15_iswap_u", "c15_eigvals", "c15_eigvecs", "c15_u_formula",
               "c15_kak_call", "c15_setter", "c15_overhead_expr", "c15_kappa_writers", "c15_doc_table"],
        harness="c15",
        level_text="Theorems over the real numbers, for ALL angles theta / all Weyl coordinates (a,b,c) / all complex 4-vectors u, about the "
                   "coefficient expressions that tools/facts_c15.py TRANSLATES from decompositions.py on every run (rotation list, cx list, "
                   "move list, the 58-term list, the literal u vectors of swap/iswap, the sign/scale of theta_prime, the delegations of "
                   "cs/csdg/cp/csx/csxdg/dcx/ecr): kappa = 1+2|sin theta| (rxx, ryy, rzz), 1+2|sin(theta/2)| (crx, cry, crz, cp), 3 (cx family), "
                   "1+sqrt2 (cs family), 7 (swap, iswap, dcx), 4 (move); kappa of the KAK path as a closed form in the Weyl coordinates with "
                   "the corollaries (t,0,0) and (t,t,0), its invariance under the Weyl-group moves on (a,b,c) (transpositions, sign changes, shifts by "
                   "pi/2: the value does not depend on which representative of a local-equivalence class the decomposition returns) and the "
                   "documented KAK angles of every family; kappa constant on weyl_equiv classes of coordinate triples (c15_weyl_equiv_kappa: the "
                   "coordinate-level form of 'locally equivalent gates have equal kappa'; there is NO gate-level theorem for arbitrary gates; that local "
                   "factors and phase never enter holds by construction of the model — Remark c15_local_invariance_by_construction, not registered — "
                   "and is tied to the source only by the extracted call text and the conjugation streams); for rzx / xx_plus_yy / xx_minus_yy: the gate "
                   "MATRIX is a conjugate of N(a,b,c) by Kronecker products of UNITARY 2x2 matrices (c15_*_is_kak), and — with the oracle premise as an "
                   "explicit hypothesis — the kappa of the model's KAK-path basis is the documented closed form (c15_*_oracle); kappa >= 1; probabilities = |c|/sum|c|, "
                   "sum 1, overhead = kappa^2 for every coefficient vector and after any sequence of reassignments; every row of the documented "
                   "table (parsed from docs/explanation/index.rst) is sound for the model. The model is compared with the implementation on "
                   ">1000 generated inputs per run (all 20 registered names, rzx/xx_plus_yy/xx_minus_yy, random local conjugations, Haar-random "
                   "unitaries, arbitrary dyadic coefficient vectors); stream kakseq requests 4-8 locally conjugated registered gates of different "
                   "families back to back on temporary UnitaryGate objects in one process and compares EVERY answer with the closed form of its own "
                   "gate (chk_conj + judge), so an answer that depends on earlier requests (stale state not keyed on the gate's matrix) is a judged, "
                   "replayable history.",
        level_note=STD_NOTE + "c15_gamma_table_ge1 / _rot / _consts are statements over Q and are closed under the global context (NO axiom): "
                   "kappa >= 1 at every rational point of the unit circle for the 16 registered names other than cs, csdg, csx, csxdg (premise "
                   "fixed_angle name = false; c15_gamma_table_excluded lists the four: their point (cos pi/8, sin pi/8) is irrational and the Q statement "
                   "would be about lists they never produce; over R they are covered by c15_cs_family and c15_ge_1). "
                   "Extension round: for rzx, xx_plus_yy, xx_minus_yy it is now PROVED (c15_rzx_is_kak, c15_xxpyy_is_kak, c15_xxmyy_is_kak) that the "
                   "gate's 4x4 matrix equals K1 * N(a,b,c) * K2 with explicit local (Kronecker-product) factors and (a,b,c) = (-theta/2,0,0), "
                   "(-theta/4,-theta/4,0), (-theta/4,theta/4,0), N built from the code's own _u_from_thetavec, and that kappa of the KAK path at these "
                   "coordinates is the documented closed form. These are statements about the gate MATRIX. The statement about the MODEL'S OUTPUT "
                   "(c15_rzx_oracle, c15_xxpyy_oracle, c15_xxmyy_oracle) carries the oracle premise as an explicit Coq hypothesis of kind oracle/mathematics: "
                   "'the triple returned by TwoQubitWeylDecomposition is weyl_equiv to the proved one', which stands for (i) Qiskit returns an exact KAK "
                   "decomposition of the gate (monitored, 1e-9) and (ii) KAK coordinates of one gate differ only by Weyl-group moves (Lie theory, not "
                   "formalised). O-KAK is therefore still needed for these families, in this weaker, explicit form; the documented coordinates of the "
                   "three KAK rows of the table are proved weyl_equiv to the proved ones (c15_doc_kak_rows). The gate matrices themselves are hand-written from Qiskit's definitions and compared "
                   "with Gate.to_matrix() on every run (stream gatemat). Axioms: the three axioms of Coq's standard real numbers (ClassicalDedekindReals.sig_forall_dec, sig_not_dec, "
                   "functional_extensionality_dep), nothing else. For gates that reach the KAK path (rzx, xx_plus_yy, xx_minus_yy, any other "
                   "two-qubit unitary) the closed forms are proved AS A FUNCTION OF THE WEYL COORDINATES; that Qiskit's "
                   "TwoQubitWeylDecomposition returns exact coordinates of the gate (|theta/2| folded into the Weyl chamber, 0, 0) resp. (t,t,0) is "
                   "oracle O-KAK: monitored by the harness on every case (reconstruction of the gate to 1e-9, documented coordinates), not proved. "
                   "c15_facts_source demands the call TwoQubitWeylDecomposition(mat, fidelity=None): with Qiskit's default fidelity (1-1e-9) the oracle "
                   "snaps near-special gates to special classes, e.g. RZXGate(7e-5) to the identity class with kappa 1.0 instead of 1.00014 "
                   "(finding F14, repaired in /repo; harness witness F14 = rzx(7e-5)).",
        assumptions=[
            "Model/Kappa.v evaluates coefficient expressions regenerated from the source; the translator maps np.abs(u[k])**2 to re^2+im^2 and "
            "np.real/np.imag(u[j]*np.conj(u[k])) to the real bilinear forms; float literals are read as their decimal values",
            "registry dispatch (which name uses which list at which angle) is modelled from the extracted facts (decorator names, "
            "theta = -theta/2 under `gate.name[0] == 'c'`, theta_prime = -theta/2, delegations with their angles)",
            "O-KAK: TwoQubitWeylDecomposition returns an exact KAK decomposition (checked numerically per case, 1e-9)",
            "exact real arithmetic; rounding of binary64 is outside the model (comparisons use 1e-12 / 1e-9; dyadic vectors compare exactly)",
            "all-zero coefficient vectors (kappa = 0, NaN probabilities in numpy) are excluded from theorem and harness",
            "OUT OF SCOPE (lead decision): the basis stores the caller's coefficient OBJECT; editing it in place (basis.coeffs[k] = x, or "
            "mutating the list passed to the constructor) does not run the setter, so kappa/probabilities stay at their old values until "
            "coeffs is assigned again, e.g. b = QPDBasis.from_instruction(CXGate()); b.coeffs[0] = 5.0 leaves b.kappa == 3.0. "
            "'After coefficients are reassigned' is read as: through the setter. Model (value semantics) and judge only look at bases "
            "after construction or a setter assignment; the sequence stream performs such in-place edits but observes the edited basis "
            "only after the next setter call, and checks that FRESH bases are unaffected",
            "judge's kappa for gates on the KAK path is computed from the Weyl coordinates that Qiskit returned (after checking that "
            "they reproduce the gate to 1e-9), by the formula of c15_nonlocal_list evaluated in numpy",
        ],
    )

from props_common import STD_NOTE

PID = "C14"
ENTRY = dict(
        title="Decomposing cut placeholders puts the selected operations in the right place",
        prop_file="Properties/C14.v",
        corr_files=["Corr/C14Corr.v"],
        theorems=["c14_splice", "c14_splice_totalised", "c14_splice_strict_agrees", "c14_assign", "c14_validate_characterised",
                  "c14_no_placeholder", "c14_others_in_order", "c14_others_in_order_weak",
                  "c14_measure_bits", "c14_refuse_length", "c14_refuse_non_placeholder", "c14_refuse_differing_bases",
                  "c14_refuse_count", "c14_refuse_repeated_index", "c14_refuse_2q_in_pair", "c14_refuse_maps_length",
                  "c14_refuse_map_none", "c14_refuse_map_out_of_range", "c14_decided", "c14_decided_totalised",
                  "c14_never_crashes", "c14_index_outside_not_ok", "c14_index_outside_single_crashes", "c14_omitted",
                  "c14_omitted_never_crashes", "c14_setter_def", "c14_setter_invariant", "c14_basis_eq_reflects",
                  "c14_accepted_pair_same_basis", "c14_refuse_unequal_bases", "c14_refines", "c14_validate_quotient",
                  "c14_all_2q_split", "c14_2q_split_order_irrelevant", "c14_facts"],
        allowed_axioms=[],
        facts=["value_error_sites", "c14_validate_messages", "c14_offset_updates", "c14_sorted_2q", "c14_min_register",
               "c14_decompose_value_errors", "c14_unset_check_first"],
        harness="c14",
        level_text="Unbounded theorems (all circuit lengths, all placements and mixes of placeholders, all groupings, all in-range map "
                   "choices, all basis tables including empty sequences) about the executable model of decompose_qpd_instructions that "
                   "keeps the Python running offsets (sorted 2q indices, overwrite-first/insert-rest, delete-on-empty with offset -1). "
                   "PROVED about the model: for an accepted request with in-range map ids on a well-shaped circuit (wf_shape: shapes "
                   "Python can build) the result equals the declarative, default-free splice (c14_splice); no placeholder or marker is "
                   "left; every other instruction is found at its computed position (c14_others_in_order, positional); markers are "
                   "numbered consecutively into a register of size max(1, #markers); one refusal theorem per class the validation "
                   "knows (length, non-placeholder, differing bases, count, repeated index, 2q gate in a pair) and per bad map choice "
                   "(length, None, out of range incl. negative) — each for indices INSIDE the circuit; an index outside the circuit is "
                   "not refused but answered by Refused-or-Crashed (c14_index_outside_*: the code raises IndexError); the decision "
                   "theorem c14_decided (hypotheses: indices inside the circuit, wf_shape, and the class invariant wfb 'a set basis_id "
                   "is in range', which the modelled setter establishes for one- and two-qubit gates): splice or refusal, never a "
                   "crash; omitted map choice likewise under wfb; QPDBasis equality modelled and the object model proved to refine "
                   "the handle model (under wfb); the 2q-splitting loop splits every two-qubit placeholder whatever the listing "
                   "order. Closed under the global context. ONLY CORRESPONDENCE-TESTED (about 1700 calls per quick run, compared "
                   "instruction by instruction inside Coq, with the handle model and the object model): that the Python functions "
                   "(validation, setter, QPDBasis.__eq__, _define, the loops) are these model functions; that the new register is the "
                   "last one; that the input is untouched unless in place; that a refused in-place call leaves its argument unchanged.",
        level_note=STD_NOTE + "No axioms. Kinds of remaining hypotheses: input preconditions (valid / ids_in_range / wf_shape), class "
                   "invariant wfb (established by the modelled setter, c14_setter_invariant; Python can still break it by shrinking the "
                   "list passed to QPDBasis after a basis_id was set, because _set_maps stores the caller's list uncopied — then the "
                   "model answers Crashed = IndexError in _define), success-case premises (decompose = Ok (out, k)) in the corollaries. "
                   "c14_setter_def and c14_basis_eq_reflects are statements about the one-line model definitions of the setter and of "
                   "QPDBasis.__eq__, tied to the source by facts/correspondence, not proofs about Python. What counts as an "
                   "'inconsistent grouping' is exactly what c14_validate_characterised lists; a pair of two half-0 gates of one basis, "
                   "a lone half of a two-qubit basis and two gates of a one-qubit basis grouped as a pair are ACCEPTED by code and "
                   "model and decomposed half by half (c14_ex_accepted_odd_groupings); the property text speaks of placement, which "
                   "is well defined for them, so they are not treated as inconsistent. Observations (not generated, not judged): an "
                   "instruction index outside the circuit raises IndexError instead of ValueError (the docstring documents neither); "
                   "negative instruction indices are accepted by Python indexing and misplace the second half of a 2q placeholder "
                   "(qc.h(1); TwoQubitQPDGate(cx) on [0,1]; ids [[-1]], map 3 puts half 1 before h(1)); a second call on an already "
                   "decomposed circuit raises CircuitError (register name qpd_measurements exists). c14_no_placeholder, "
                   "c14_measure_bits, c14_omitted and the *_totalised theorems use the totalised splice (qubits by nth with default 0); "
                   "on well-shaped circuits it equals the default-free one (c14_splice_strict_agrees).",
        assumptions=[
            "Model/Decompose.v is a hand-written model of decompose_qpd_instructions, _validate_qpd_instructions, "
            "_decompose_qpd_instructions, _decompose_qpd_measurements, the basis_id setter range check and both _define methods; tied to "
            "the source by the C14 correspondence and by regenerated facts (validation message order, ValueError site counts, the "
            "sorted() call, the offset updates +1/+1/-1, the register size max(1, .))",
            "the model follows the REPAIRED behaviour: unset basis_id refused before any rewriting (F5, c8b859e); None / out-of-range "
            "map ids refused before any assignment (417f876, 32107ac); and the validation also refuses an instruction index mentioned "
            "twice and a TwoQubitQPDGate inside a two-element group (property: 'inconsistent groupings are refused'). (all "
            "committed in /repo: 417f876, c8b859e, 32107ac, 50945eb)",
            "known finding F17 (one gate object appended at several positions, inplace=True: every position gets the map id assigned "
            "last): such cases are compared with a model of the current aliasing behaviour in a separate quiet group only while "
            "KNOWN_FINDINGS.json lists C14/F17 as known; otherwise they are compared with the property-demanding model and alarm",
            "the model has no Instruction._definition cache: `definition` always reflects the current basis_id (what the property demands); "
            "the stream 'definition_read_before' exercises gates whose definition was read before the call",
            "QPDBasis equality is MODELLED (Model/DecomposeEq.v: rbasis_eqb = same qubit count, maps and exact coefficients; handles = "
            "object identities) and c14_refines proves that this model equals the handle-based model on the quotient circuit, so the "
            "theorems no longer rest on borrowing the implementation's == for the interning; the streams valid/omitted/malformed are "
            "compared with BOTH models. Remaining interning assumptions: ordinary gates and basis operations are compared by (name, "
            "arity, exact params, class) in place of Instruction.__eq__; coefficients by their exact binary64 value (-0.0 / NaN not produced)",
            "instruction arity is a Qiskit invariant (2q placeholder has two qubits, 1q placeholder one); negative instruction indices "
            "are outside the model and the quantifier and are not generated; map ids are Python ints or None (option Z)",
            "QuantumCircuit.copy()/add_register semantics (operations copied, new register's bits are the last clbits, register is "
            "cregs[-1] named qpd_measurements) are observed as monitored oracle contracts, not proved",
        ],
    )

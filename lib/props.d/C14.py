from props_common import STD_NOTE

PID = "C14"
ENTRY = dict(
        title="Decomposing cut placeholders puts the selected operations in the right place",
        prop_file="Properties/C14.v",
        corr_files=["Corr/C14Corr.v"],
        theorems=["c14_splice", "c14_assign", "c14_validate_characterised", "c14_no_placeholder", "c14_others_in_order",
                  "c14_measure_bits", "c14_refuse_length", "c14_refuse_non_placeholder", "c14_refuse_differing_bases",
                  "c14_refuse_count", "c14_refuse_repeated_index", "c14_refuse_2q_in_pair", "c14_refuse_maps_length",
                  "c14_refuse_map_none", "c14_refuse_map_out_of_range", "c14_decided", "c14_never_crashes", "c14_omitted",
                  "c14_omitted_never_crashes", "c14_setter", "c14_setter_invariant", "c14_basis_eq",
                  "c14_accepted_pair_same_basis", "c14_refuse_unequal_bases", "c14_refines", "c14_validate_quotient",
                  "c14_all_2q_split", "c14_2q_split_order_irrelevant", "c14_facts"],
        allowed_axioms=[],
        facts=["value_error_sites", "c14_validate_messages", "c14_offset_updates", "c14_sorted_2q", "c14_min_register",
               "c14_decompose_value_errors", "c14_unset_check_first"],
        harness="c14",
        level_text="Unbounded theorems (all circuit lengths, all placements and mixes of placeholders, all groupings, all in-range map "
                   "choices, all basis tables including empty sequences) about the executable model of decompose_qpd_instructions that "
                   "keeps the Python running offsets (sorted 2q indices, overwrite-first/insert-rest, delete-on-empty with offset -1): "
                   "the result equals the declarative splice `measures_numbered nc (flat_map splice (assign c ids maps))`; corollaries: no "
                   "placeholder or marker left, other instructions kept in order, markers numbered consecutively into a final register of "
                   "size max(1, #markers), one refusal theorem per class of inconsistent grouping / out-of-range, None or miscounted map "
                   "choice, omitted map choice = decomposition or refusal, and totality (c14_decided): every request whose indices lie "
                   "inside the circuit is either the splice or a refusal, never a crash. Closed under the global context. The model is run "
                   "inside Coq on every input the implementation ran on (about 1100 generated calls per quick run, inplace False and True) "
                   "and compared instruction by instruction.",
        level_note=STD_NOTE + "No axioms. The clause 'the input circuit is untouched unless inplace' is not a theorem (the model is "
                   "functional); it is observed on every generated call and enters the per-case verdict, as do 'a refused in-place call leaves its "
                   "argument unchanged' and 'the new register is the last one'. Observations outside the property's quantifier (not "
                   "generated, not judged): negative instruction indices are accepted by Python indexing and misplace the second half of a "
                   "2q placeholder (qc.h(1); TwoQubitQPDGate(cx) on [0,1]; ids [[-1]], map 3 puts half 1 before h(1)); a second call on an "
                   "already decomposed circuit raises CircuitError (register name qpd_measurements exists).",
        assumptions=[
            "Model/Decompose.v is a hand-written model of decompose_qpd_instructions, _validate_qpd_instructions, "
            "_decompose_qpd_instructions, _decompose_qpd_measurements, the basis_id setter range check and both _define methods; tied to "
            "the source by the C14 correspondence and by regenerated facts (validation message order, ValueError site counts, the "
            "sorted() call, the offset updates +1/+1/-1, the register size max(1, .))",
            "the model follows the REPAIRED behaviour: unset basis_id refused before any rewriting (F5, c8b859e); None / out-of-range "
            "map ids refused before any assignment (417f876, 32107ac); and the validation also refuses an instruction index mentioned "
            "twice and a TwoQubitQPDGate inside a two-element group (property: 'inconsistent groupings are refused'). Until the last "
            "repair is committed the facts (7 ValueErrors in _validate_qpd_instructions) and the correspondence fail on /repo",
            "known finding F17 (one gate object appended at several positions, inplace=True: every position gets the map id assigned "
            "last): such cases are compared with a model of the current aliasing behaviour in a separate quiet group only while "
            "KNOWN_FINDINGS.json lists C14/F17 as known; otherwise they are compared with the property-demanding model and alarm",
            "the model has no Instruction._definition cache: `definition` always reflects the current basis_id (what the property demands); "
            "the stream 'definition_read_before' exercises gates whose definition was read before the call",
            "QPDBasis equality is MODELLED (Model/DecomposeEq.v: rbasis_eqb = same qubit count, maps and exact coefficients; handles = "
            "object identities) and c14_refines proves that this model equals the handle-based model on the quotient circuit, so the "
            "theorems no longer rest on borrowing the implementation's == for the interning; the streams valid/omitted/malformed are "
            "compared with BOTH models. Remaining interning assumptions: ordinary gates and basis operations are compared by (name, "
            "arity, exact params, class) in place of Instruction.__eq__; coefficients by their exact binary64 value (-0.0 / NaN not produced)",
            "instruction arity is a Qiskit invariant (2q placeholder has two qubits, 1q placeholder one); negative instruction indices "
            "are outside the model and the quantifier and are not generated; map ids are Python ints or None (option Z)",
            "QuantumCircuit.copy()/add_register semantics (operations copied, new register's bits are the last clbits, register is "
            "cregs[-1] named qpd_measurements) are observed as monitored oracle contracts, not proved",
        ],
    )

from props_common import STD_NOTE

PID = "C11"
ENTRY = dict(
        title="Observable grouping and measurement circuits measure what they claim",
        prop_file="Properties/C11.v",
        corr_files=["Corr/C11Corr.v"],
        theorems=["c11_cover", "c11_groups_built", "c11_total", "c11_compatible", "c11_general_minimal",
                  "c11_mgo_accepts_iff", "c11_mgo_never_crashes", "c11_indices_masks", "c11_cog_refuses_phase",
                  "c11_decode", "c11_members_are_members", "c11_rotation_signs", "c11_register", "c11_suffix",
                  "c11_measure_ok", "c11_meas_refuses", "c11_suffix_semantics", "c11_process_outcome", "c11_expectation",
                  "c11_expectation_circuit", "c11_contract_inhabited", "c11_collection_reference_oracle",
                  "c11_born_two_qubits_abstract_rotations", "c11_expectation_two_qubits_abstract_rotations",
                  "c11_law_two_qubits_abstract_rotations_normalised", "c11_born_circuit_two_qubits", "c11_expectation_circuit_two_qubits",
                  "c11_collection_expectation", "c11_register_low_bits", "c11_mask_is_support", "c11_dummy", "c11_facts"],
        allowed_axioms=[],
        facts=["value_error_sites"],
        harness="c11",
        level="proof",
        level_text="Partial proof. (i) The Born/Heisenberg hypothesis is discharged EXACTLY in this regime: two qubits (n = 2, not n = 1 or n > 2), "
                   "pure states with Gaussian-integer (by scaling Gaussian-rational) amplitudes, circuit = subsystem (qubit_locations [0,1] or "
                   "[1,0]), register at clbits 0..k-1, outcome words without QPD bits. c11_born_circuit_two_qubits / "
                   "c11_expectation_circuit_two_qubits: the law is obtained by EXECUTING the instruction suffix returned by the measurement model "
                   "on the state vector (gate ids interpreted as the H/SX matrices), symbolically in the 8 integer coordinates, for all 16 general "
                   "observables; swapping H and SX in the suffix would falsify them. The *_abstract_rotations variants (c11_born_two_qubits_abstract_rotations "
                   "etc.) build the law letter-wise from rotation_of with identity locations, NOT from the instruction list. Outside this regime "
                   "(n != 2, mixed states e.g. after resets, circuits larger than the subsystem, QPD bits) the hypothesis stays an assumption "
                   "(Section hypotheses of c11_expectation / c11_expectation_circuit) and the clause is covered by the physics / e2e / gce streams "
                   "(testing). The state-vector specification is compared with qiskit's Statevector on every run (stream born2). "
                   "c11_collection_expectation composes collection -> lookup -> group -> mask -> _process_outcome -> expectation of an INPUT observable "
                   "(hypotheses: oracle contract, real Pauli letters, Born for the group's general observable, words without QPD bits); "
                   "c11_register_low_bits: on a circuit without clbits the register occupies clbits 0..k-1 = the low k bits _process_outcome decodes. "
                   "(ii) c11_contract_inhabited / c11_collection_reference_oracle: a first-fit greedy reference oracle "
                   "(Model/GroupingGreedy.v) satisfies the group_commuting/unique contract for every input of equal width, so the theorems "
                   "conditional on the contract are non-vacuous for every input and the collection built with it covers every observable "
                   "unconditionally; Qiskit's own grouping (rustworkx colouring) remains an oracle monitored at run time. Proved for all sizes (any number of qubits, members, groups; closed under the global context) about the "
                   "executable model of most_general_observable, CommutingObservableGroup.__post_init__, ObservableCollection.__init__, "
                   "_append_measurement_register/_append_measurement_circuit and the bitmask decoding: the lookup covers every input observable "
                   "and lists exactly the locations holding it; every member letter is I or the general observable's letter and the general "
                   "observable is non-identity exactly where some member is; pauli_indices are the ascending non-identity positions and bit i of "
                   "mask j is set iff member j acts on pauli_indices[i]; for every outcome word the product of (-1)^bit over the member's support "
                   "equals 1-2*(popcount(word & mask) & 1); H†ZH = +X, SX†ZSX = +Y by exact 2x2 arithmetic over Z[i] (SXdg would give -Y); the "
                   "appended suffix and the three refusal classes; the dummy measurement decodes to +1. The step from the instruction suffix to "
                   "outcome statistics is NOT proved: c11_expectation and c11_expectation_circuit (decoded value = expectation value of every member) "
                   "are conditional on the Born/Heisenberg hypothesis, a Section hypothesis shown satisfiable by exact state-vector arithmetic on a "
                   "concrete entangled two-qubit state (general observables XY, ZX, YY, XI, IY, the all-identity dummy, and XY through "
                   "qubit_locations [1,0]). c11_expectation_circuit states the hypothesis about the records read off the appended suffix itself "
                   "(c11_suffix_semantics: with gate ids interpreted as the H/SX matrices the suffix Z-measures rotation_of(letter)^dagger Z "
                   "rotation_of(letter) on qubit_locations[s] into register bit i) for injective qubit_locations; c11_process_outcome proves the "
                   "split of the outcome word at the register width. The model is run against the implementation on ~2300 generated cases per run [incl. uncut circuits with resets pushed through generate_cutting_experiments: each subexperiment = preparation + reset clean-up passes + suffix is simulated by the harness, decoded by _process_outcome + lookup and compared with Tr(rho P) of the input circuit] (every one also judged by the independent oracle: contract judge_accepts_clean_case) (groups are also re-read after "
                   "every use as register / measurement circuit / _process_outcome and must still equal the model's immutable result), and the decoded expectation "
                   "values are compared with qiskit Statevector/DensityMatrix values on random entangled preparations (1-4 qubits, some ending in resets) using an independent "
                   "numpy simulator.",
        level_note=STD_NOTE + "No axioms. PauliList.unique()/group_commuting(qubit_wise=True) are oracles: the model receives their actual "
                   "results; their contract (grouping_contract) is evaluated in Coq on every generated case and monitored in Python. "
                   "The 2x2 matrices of H/SX/SXdg in Model/Measurement.v are specifications, compared with Operator(gate) on every run.",
        assumptions=[
            "Model/Grouping.v and Model/Measurement.v are hand-written models of the functions named above; tied to /repo by the C11 "
            "correspondence (vm_compute of the model on the inputs the implementation ran on) and the extracted ValueError site counts",
            "PHYSICS hypothesis, discharged only for: n = 2, pure Gaussian-rational states, qubit_locations a permutation of the two "
            "qubits, register at clbits 0..k-1, no QPD bits (c11_born_circuit_two_qubits). It remains an assumption for n != 2 (incl. n = 1), "
            "mixed states, circuits larger than the subsystem, and words with QPD bits",
            "Born/Heisenberg hypothesis (Section Expectation): for local rotations U_q followed by Z-measurements, "
            "E[prod_{q in S} (-1)^{b_q}] = ev(tensor_{q in S} U_q^dagger Z U_q) for every sub-selection S of the measured qubits; "
            "not proved in general (Section hypotheses Born / BornCircuit)",
            "hypothesis kinds: Born/BornCircuit = physics; grouping_contract = oracle (Qiskit unique/group_commuting, monitored; inhabited by "
            "the greedy reference oracle); valid_letters, NoDup locs, locs < nqc, register bits distinct = input preconditions (the last "
            "established by c11_register / c11_register_low_bits); `collection ... = Ok` premises = success case (c11_total gives success "
            "from the contract for phase-free input)",
            "group_commuting/unique contract: groups are non-empty, partition the unique observables, and are pairwise qubit-wise commuting "
            "(monitored on every case)",
            "gate matrices: H = [[1,1],[1,-1]]/sqrt2, SX = [[1+i,1-i],[1-i,1+i]]/2 (checked against qiskit Operator on every run)",
            "observations outside the quantifier (neither compared nor judged): _process_outcome with a numpy integer outcome raises "
            "AttributeError in _outcome_to_int (documented type is int|str); negative qubit_locations are accepted by Qiskit with Python "
            "indexing semantics; the property text does not demand that the general observable be minimal "
            "(construct_general_observables may be overridden to measure extra qubits) - c11_general_minimal is a statement about the "
            "default most_general_observable only and the judge does not enforce it; inplace=True leaves a partially appended suffix "
            "when a CircuitError occurs mid-loop",
            "the isinstance(obs, Pauli) guard, negative/duplicate qubit_locations semantics beyond what the cases exercise, and quantum "
            "registers named observable_measurements are outside the model",
        ],
    )

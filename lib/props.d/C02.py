from props_common import STD_NOTE

PID = "C02"
ENTRY = dict(
        title="Every quasi-probability basis is an exact decomposition of its instruction",
        prop_file="Properties/C02.v",
        corr_files=["Corr/C02Corr.v"],
        theorems=["c02_keq_sound", "c02_family_exact", "c02_fixed_exact", "c02_move_exact", "c02_nonlocal_exact",
                  "c02_u_from_thetavec", "c02_kak_dressing", "c02_kak_model", "c02_kak_exact_partial", "c02_spec_sanity", "c02_refusal", "c02_missing_param_crashes",
                  "c02_registry", "c02_source_tables", "c02_dispatch_is_basis_of", "c02_dispatch_exact",
                  "c02_dispatch_move_exact", "c02_dispatch_kak", "c02_dispatch_refused", "c02_registry_groups", "c02_angle_flow"],
        allowed_axioms=["ClassicalDedekindReals.sig_not_dec", "ClassicalDedekindReals.sig_forall_dec",
                        "FunctionalExtensionality.functional_extensionality_dep"],
        facts=["registry_names", "cx_family_coeffs", "move_table_coeffs", "family_coeff_shape", "nonlocal_term_count", "registry_groups", "angle_flow"],
        harness="c02",
        level_text="PROVED about the hand-written model (identities of real 16x16 Pauli-transfer matrices; QPDMeasure = P0.P0 - P1.P1, "
                   "Reset as a channel): for each of the 19 registered gate names and EVERY real gate angle, the basis the modelled registry "
                   "dispatcher returns sums to the PTM of the gate's own unitary written in the gate angle (c02_dispatch_exact; the angle "
                   "arithmetic theta -> theta_prime, rotation/phase parameter = 2*theta_prime is part of the theorem); Move "
                   "(c02_dispatch_move_exact); the 58-term basis for every u in C^4; _u_from_thetavec for all Weyl coordinates. "
                   "KAK path: PARTIAL (c02_kak_exact_partial) - the modelled basis sums to kron(u3,u1).PTM(Uweyl(a,b,c)).kron(u2,u0) for "
                   "arbitrary real 4x4 matrices u_k; that this is the instruction's channel additionally needs O-KAK, u_k = PTM(K_k), PTM "
                   "functoriality and Uweyl = exp(i(aXX+bYY+cZZ)), none of which is proved (the composite is checked numerically per case). "
                   "Proof technique: boolean matrix equality over computable rings Q[c,s,r]/(s^2=1-c^2, 2r^2=1) (and variants) by "
                   "vm_compute + a proved evaluation homomorphism into Coq's reals. c02_spec_sanity is a set of boolean identities over those "
                   "rings (not lifted to R). c02_refusal / c02_missing_param_crashes / c02_dispatch_kak / c02_dispatch_refused restate the "
                   "model's branching on abstract flags (their value comes from the correspondence). Facts tie the registry groups, "
                   "coefficient tables and the 11 angle steps of the source to the definitions the functions of the model USE. "
                   "CORRESPONDENCE-TESTED only: model = code (operation sequences, list sharing, coefficients, refusals) on ~3000 bases per "
                   "run; the one-qubit / two-qubit specification matrices vs Qiskit; an independent numpy PTM residual is ANDed into every "
                   "case.",
        level_note=STD_NOTE + "Axioms: the three standard-library axioms behind Coq's classical real numbers "
                   "(sig_not_dec, sig_forall_dec, functional_extensionality_dep); nothing else.",
        assumptions=[
            "Model/Bases.v is a hand-written model of qpdbasis_from_instruction and the 20 registered functions (Python lists as heap "
            "cells so that unique_by_id/_copy_unique_sublists are reproduced); tied to /repo by the C02 correspondence and by the "
            "extracted registry / coefficient tables",
            "Common/Ptm.v: the 2x2 unitaries / Kraus operators of the one-qubit operations and the 4x4 target unitaries are "
            "specifications; they are compared with Qiskit's gate matrices at rational-circle angles on every run "
            "(QPDMeasure and Reset follow the property text)",
            "KAK path (hypotheses of kind oracle/specification, NOT proved): PTM functoriality ptm2(U.V) = ptm2(U).ptm2(V), "
            "ptm2(A x B) = kron(ptm1 A, ptm1 B), invariance under a global phase; the local matrices u_k of c02_kak_exact_partial are "
            "the PTMs of K2r,K1r,K2l,K1l; Uweyl (defined as the product of the factors cos t + i sin t PxP) equals "
            "exp(i(aXX+bYY+cZZ)); a failure of TwoQubitWeylDecomposition itself is not modelled",
            "O-KAK: TwoQubitWeylDecomposition(U) returns (a,b,c,K1l,K1r,K2l,K2r) with U proportional to "
            "(K1l x K1r) exp(i(aXX+bYY+cZZ)) (K2l x K2r); monitored numerically (1e-9) on every KAK case, and a case where it fails "
            "is treated as a model/implementation disagreement and judged by the PTM residual",
            "np.exp(1j*x) is modelled as cos x + i sin x and exp of a sum as the product of the factors; binary64 rounding is not "
            "modelled (coefficients compared within 1e-12)",
            "Observation (outside the claim): the registry is keyed by instruction NAME, in the source and in the model; an "
            "instruction that merely carries a registered name (QuantumCircuit(2,name='cx').to_gate(), Gate('cx',3,[]), "
            "Instruction('swap',2,0,[]), Gate('move',1,[])) receives the registered basis, and Gate('rzz',2,[]) raises IndexError "
            "(theorem c02_missing_param_crashes). Such inputs are generated as an observation stream; the oracle is silent on them",
            "nan/inf angles are outside 'all real angles' and are not generated",
            "rotation parameters are symbolic (2*theta', +-pi/2, +-pi/4); that 2*theta' is what the code's angle arithmetic "
            "(theta = -theta/2, rot(-theta), theta_prime = -theta/2, PhaseGate(theta/2), CRZGate(np.pi/2) ...) produces is now a "
            "theorem about Model/BasesDispatch.v (angles_ok and symbols_bound in c02_dispatch_exact); the 11 named angle steps that "
            "the model's functions use are compared with the expressions extracted from the source (fact angle_flow, "
            "c02_angle_flow: angle_flow_model is computed from those same named steps); the harness additionally checks the observed "
            "float parameter exactly",
            "Model/BasesDispatch.v models the registry dict (fact registry_groups), _theta_from_instruction and the nested registry "
            "calls; c02_dispatch_exact states exactness against the gate's own unitary in the gate angle theta for all real theta; "
            "those unitaries (Uh_*) are compared with gate.to_matrix() at every generated angle (chk_unitary_h)",
        ],
        harness_timeout=1500,
    )

from props_common import STD_NOTE

PID = "C03"
ENTRY = dict(
        title="Replacing wire-cut markers by Move operations preserves circuit semantics",
        prop_file="Properties/C03.v",
        corr_files=["Corr/C03Corr.v"],
        theorems=["c03_qubits", "c03_registers", "c03_instructions", "c03_instructions_kept", "c03_instructions_inserted",
                  "c03_semantics", "c03_cut_wires_as_moves", "c03_unwrap", "c03_semantics_cut_wires", "c03_markers_transparent", "c03_move_targets_fresh", "c03_expand", "c03_expand_letters",
                  "c03_facts"],
        allowed_axioms=[],
        facts=["value_error_sites"],
        harness="c03",
        level_text="Unbounded theorems (any number of qubits, any instruction list, any number and interleaving of markers; induction over the "
                   "instruction list) about the executable model of _circuit_structure_mapping/_transform_cut_wires: the result has the original "
                   "qubit objects in order, each preceded by one fresh qubit per marker on it (n + #markers qubits); instruction k of the result "
                   "is instruction k of the input relocated to the current positions (markers become the factory op on two adjacent positions, "
                   "everything else keeps operation and classical bits); in the symbolic wire-history (Herbrand) semantics with Move = "
                   "reset-and-swap the wire of every original qubit ends at the position of the original Qubit object, all other positions end "
                   "in |0>, all classical bits carry the same measurement terms, and each inserted Move hits a wire that is still |0>; "
                   "expand_observables puts qubit q's letter exactly on that final position. Closed under the global context. The model is "
                   "compared with cut_wires and _transform_cuts_to_moves on >14000 generated cases per quick run (all programs up to length 5 "
                   "over a 5-letter alphabet, every marker sequence of length <= 4 on 1..4 qubits, random programs).",
        level_note=STD_NOTE + "No axioms. 'Same expectation value' is proved as equality of symbolic wire terms (modelling assumption M1: every "
                   "compositional circuit semantics factors through the wire-history denotation); it is additionally tested, not proved, by an "
                   "independent numpy branch simulator on generated cases. The last sentence of the property (cutting the Moves and "
                   "reconstructing) is C01/C02's business and not covered here.",
        assumptions=[
            "Model/CutWires.v is a hand-written model of _circuit_structure_mapping and _transform_cut_wires with the REPAIRED marker count "
            "(number of markers per qubit, defect F1) and with classical bits of relocated instructions kept (defect F8: the unrepaired code "
            "drops them); tied to the source by the C03 correspondence (vm_compute of the model on the inputs the implementation ran on)",
            "Qubit/Clbit objects are modelled as identity tags (original qubit q = q, k-th fresh Qubit() = n + k); registers are carried "
            "through unchanged in the model and compared with the implementation's output registers",
            "M1 Herbrand adequacy (DESIGN 3.1/5): equal wire terms on observed wires and classical bits imply equal expectation values and "
            "outcome statistics; Move a b is 'b receives a, a becomes |0>', justified only when b is unentangled - which c03_move_targets_fresh "
            "proves for every inserted Move",
            "instructions with conditions / control flow are outside the circuit representation (Common/Circ.v) and are not generated",
            "the factory operation of cut_wires is represented as a Qpd2 placeholder (basis handle of QPDBasis.from_instruction(Move()), "
            "basis_id None, label 'cut_move'); that this basis decomposes Move is C02's statement",
        ],
    )

from props_common import STD_NOTE

PID = "C03"
ENTRY = dict(
        title="Replacing wire-cut markers by Move operations preserves circuit semantics",
        prop_file="Properties/C03.v",
        corr_files=["Corr/C03Corr.v"],
        theorems=["c03_qubits", "c03_registers_model_identity", "c03_instructions", "c03_instructions_kept", "c03_instructions_inserted",
                  "c03_semantics", "c03_cut_wires_as_moves_def", "c03_unwrap", "c03_semantics_cut_wires_cor", "c03_markers_transparent", "c03_move_targets_fresh", "c03_expand", "c03_expand_letters",
                  "c03_observable_reading", "c03_expectation_values", "c03_reconstructed_transport", "c03_cut_and_reconstruct_partial", "c03_cut_and_reconstruct_generated_partial",
                  "c03_facts"],
        allowed_axioms=[],
        facts=["value_error_sites", "move_table_coeffs", "c03_function_sites"],
        harness="c03",
        level_text="Unbounded theorems (any number of qubits, any instruction list, any number and interleaving of markers; induction over the "
                   "instruction list; only hypothesis: qubit indices in range and markers on one qubit) about the executable model of "
                   "_circuit_structure_mapping/_transform_cut_wires: the result has the original qubit objects in order, each preceded by one "
                   "fresh qubit per marker on it (n + #markers qubits); instruction k of the result is instruction k of the input relocated to "
                   "the current positions (markers become the factory op on two adjacent positions, everything else keeps operation and "
                   "classical bits); in the symbolic wire-history (Herbrand) semantics with every inserted operation executed as Move = "
                   "reset-and-swap - for _transform_cuts_to_moves (c03_semantics; for cut_wires' placeholder form only via the near-definitional "
                   "c03_cut_wires_as_moves_def: the operation at the marker positions is overwritten by Move, whatever it was) - the wire of every original qubit ends at the position of the original "
                   "Qubit object, all other positions end in |0>, all classical bits carry the same measurement terms, and each inserted Move "
                   "hits a wire that is still |0>; expand_observables puts qubit q's letter exactly on that final position. Closed under the "
                   "global context. The model is compared with cut_wires and _transform_cuts_to_moves on ~14000 generated cases per quick run. "
                   "'The same expectation value for every expanded observable' is proved as: what the expanded observable reads (its non-identity "
                   "letters with the wire terms under them) equals what the original reads, together with all classical bits and the phase - hence "
                   "every value functional of these (c03_observable_reading, c03_expectation_values). "
                   "The LAST sentence of the property (cutting the Moves and reconstructing with exact weights returns the original values) is "
                   "proved only as a COMPOSITION (c03_cut_and_reconstruct_partial, c03_reconstructed_transport): C01's round-trip theorem "
                   "instantiated with one Move coefficient list per marker (the table of decompositions.py, c03_facts; exact by C02's "
                   "c02_move_exact) and Ev := value of the expanded observables on cut_wires' output, transported to the ORIGINAL observables on "
                   "the ORIGINAL circuit; kappa <> 0 is discharged; the physics postulates P1, P2+P3 and C01's bookkeeping hypotheses (exact "
                   "weights, coefficient list, result shapes, exact results) remain hypotheses; c03_cut_and_reconstruct_generated_partial composes "
                   "instead with C01's whole-chain theorem (coefficient list, projection lists, result layout and the exact-results equation "
                   "produced by the C05 model `core` and an exact sampler), leaving P1, P2+P3, exact_weights and the agreement of the two views of "
                   "the observable groups. NOT proved in either: that table/og/L are what partition_problem returns on cut_wires' output, i.e. "
                   "that C = one Move list per marker is the `bases` of that request. c03_ex_clause_f_full instantiates ALL hypotheses for one "
                   "Move (Bloch vector (2/7,3/7,6/7), observables Z,X,Y; 8 maps of probability 1/8, two partitions, hand-written "
                   "quasi-distributions): P1 holds by computation, P2+P3 by definition of term (:= the product), E is hand-written; the C06 model "
                   "returns [6/7; 2/7; 3/7]. It is additionally "
                   "tested end-to-end on 28 (quick) / 84 (thorough) small circuits per run (cut_wires -> expand_observables -> partition_problem "
                   "-> generate(inf) -> ExactSampler -> reconstruct, judged against an independent simulation of the uncut circuit; chk_e2e "
                   "compares the values in Coq over Q, no model).",
        level_note=STD_NOTE + "No axioms. 'Same expectation value' is proved as equality of symbolic wire terms (modelling assumption M1: every "
                   "compositional circuit semantics factors through the wire-history denotation); M1 is monitored, not proved: the contract "
                   "judge_accepts_clean_case runs an independent numpy branch simulator (all 15 two-qubit Paulis / all weight-1 Paulis / random "
                   "ones with phases, per classical outcome) on every generated case whose recorded output is the modelled one and fails the run "
                   "if it disagrees. c03_registers_model_identity has no proof content (the model returns its own arguments): the 'registers kept' clause of the property "
                   "is covered by the correspondence and the judge only. c03_facts is absence-aware: c03_function_sites lists every function of "
                   "wire_cutting_transforms.py with its ValueError site count (0 included), so a renamed/deleted function breaks the obligation.",
        assumptions=[
            "Model/CutWires.v is a hand-written model of _circuit_structure_mapping and _transform_cut_wires (marker count = number of "
            "markers per qubit; classical bits of relocated instructions kept, in the instruction's own order); tied to the source by the "
            "C03 correspondence (vm_compute of the model on the inputs the implementation ran on)",
            "Qubit/Clbit objects are modelled as identity tags (original qubit q = q, k-th fresh Qubit() = n + k); registers are carried "
            "through unchanged in the model and compared with the implementation's output registers (names, sizes incl. 0, members, order)",
            "M1 Herbrand adequacy (DESIGN 3.1/5): equal wire terms on observed wires and classical bits imply equal expectation values and "
            "outcome statistics; Move a b is 'b receives a, a becomes |0>', justified only when b is unentangled - which c03_move_targets_fresh "
            "proves for every inserted Move",
            "operations are opaque: a condition (c_if on a clbit) is folded into the interned gate id, so a dropped/changed condition is a "
            "model mismatch and a judge violation ('instruction not kept'), but conditional and multi-clbit opaque instructions are not "
            "simulated (structure + wire tracking only); control-flow blocks, symbolic Parameters, gate labels are not generated",
            "the factory operation of cut_wires is represented as a Qpd2 placeholder (basis handle of QPDBasis.from_instruction(Move()), "
            "basis_id None, label 'cut_move'); that this basis decomposes Move is C02's statement",
            "judge treats any exception raised by cut_wires/_transform_cuts_to_moves/expand_observables on a generated circuit as a violation: "
            "every generated circuit is inside the property's quantifier (extended to 0 qubits and up to 5 markers), for which the property "
            "demands a result",
            "observation (outside the property, not checked): the result is built from an empty QuantumCircuit(), so circuit-level attributes "
            "(name, metadata, global_phase) of the input are not carried over. Remark: a global phase multiplies the state vector by a unit "
            "complex number and cancels in every <psi|P|psi>, so no expectation value (and no outcome statistic) depends on it; name and "
            "metadata have no semantics",
            "clause f (c03_cut_and_reconstruct_partial) inherits every hypothesis of c01_roundtrip_partial except kappa <> 0: P1, P2+P3 for "
            "the circuit produced by cut_wires (kind: physics), exact weights (C04), coefficient list (C05), result shapes and the "
            "exact-results equation (C06/C13) (kind: success case, established by code modelled elsewhere; the _generated_ variant derives "
            "all but exact_weights from C05's core); L/W/pds resp. table/og are NOT linked to the partition of cut_wires' output; "
            "M1 enters as 'the value is a functional of (reading, classical bits, phase)'",
            "M1 does not reach conditional gates: a condition is folded into the gate id and the conditioning clbit's term is not an "
            "argument of the wire term, so for circuits with c_if the term equality does not determine the state; such circuits are only "
            "compared structurally (model comparison, wire tracking), never simulated",
            "wf_circ bounds qubit indices only: an instruction on a clbit >= the number of clbits is ignored on both sides of c03_semantics "
            "(equal for the wrong reason); Qiskit cannot build such a circuit, it is outside the quantifier",
        ],
    )

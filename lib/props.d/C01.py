from props_common import STD_NOTE

PID = "C01"
ENTRY = dict(
        title="Cutting gates and reconstructing reproduces the uncut expectation values",
        prop_file="Properties/C01.v",
        corr_files=["Corr/C01Corr.v"],
        theorems=["c01_all_maps", "c01_support_sum", "c01_multilinear", "c01_c05_vocabulary", "c01_roundtrip_partial", "c01_roundtrip_generated_partial", "c01_generated_exact_results", "c01_generated_roundtrip_partial",
                  "c01_generated_layout", "c01_projection_lists", "c01_generated_roundtrip_dict_partial", "c01_generated_roundtrip_single_partial", "c01_generated_roundtrip_c04_partial", "c01_expansion",
                  "c01_listed_samples", "c01_roundtrip_public_partial", "c01_unseparated_partial", "c01_identity_projection", "c01_subcutoff_partial",
                  "c01_weights_from_c04", "c01_idle_refusal", "c01_idle_refused", "c01_idle_rule", "c01_checker_sound", "c01_hyps_satisfiable", "c01_ex_roundtrip", "c01_ex_generated", "c01_ex_chain",
                  "c01_facts"],
        allowed_axioms=[],
        facts=["nonzero_atol", "c05_formulas", "c10_idle_group_removed"],
        harness="c01",
        level="proof",
        level_text="Partial proof: the algebraic core of the round trip, unbounded in the number of cuts, basis sizes, partitions, "
                   "observables, groups and outcomes, closed under the global context, with the physics as explicit hypotheses of the "
                   "theorems (never axioms). GIVEN P1 (the uncut expectation value is the sum over all joint map choices of "
                   "prod_j c_j[m_j] times the value with every cut replaced by the chosen product map: linearity of quantum mechanics "
                   "in each cut slot applied to the exact decompositions proved in C02) and P2+P3 (with product maps in every cut the "
                   "value factorises over the partitions into the exact decoded expectations of the partitions' subexperiments, QPD "
                   "measurement outcomes entering with the sign (-1)^outcome), it is PROVED that the code's bookkeeping as modelled by "
                   "C04/C05/C06/C10 returns exactly the uncut values: the exact infinite-budget weights dictionary (every joint map of "
                   "non-zero probability once) with the C05 coefficient formula gives coefficient = product of the chosen maps' "
                   "coefficients, the sum over the listed samples equals the sum over the whole product space (maps that are not listed "
                   "have coefficient product 0), the per-partition projection tuple(map_ids[j] for j in subcirc_map_ids[label]) and "
                   "the sample-major index z*G+m are used identically by producer and consumer, and the C06 model of "
                   "reconstruct_expectation_values (loops; and the public function with its key-set/phase validation) evaluates to "
                   "map Ev observables. The single-circuit call form is the instance one partition / identity projection. Maps dropped "
                   "below the 1e-14 cut-off (c01_subcutoff_partial; its identity is about the estimator's sum written with the code's "
                   "coefficient formula, not about the output of core/reconstruct_parts, and the final |computed - Ev| bound is only a "
                   "stated consequence): exact identity (value * total weight = uncut value - lost contribution) and the bounds "
                   "total weight >= 1 - D*cutoff, |lost| <= D*cutoff*kappa*max|term| (D = number of dropped maps). The C04 model's "
                   "infinite-budget output satisfies the weights hypothesis when no map has a probability strictly between 0 and the "
                   "cut-off. A request whose observable acts on a qubit that partitioning discards is never answered by the composed "
                   "pipeline (c01_idle_refusal) and the first stage returns Refused unless one of its own earlier stages crashed "
                   "(c01_idle_refused; C10's refusal), otherwise the observables are accepted. The hypotheses are shown satisfiable on a "
                   "concrete problem computed entirely inside Coq (h 0; cx 0 1 cut between A|B with the real six-map cx basis of "
                   "Model/Bases.v; uncut values from the exact PTM of cx, partition values from the one-qubit PTM/instrument algebra; "
                   "in c01_ex_roundtrip the 24 subexperiments are HAND-WRITTEN programs, in c01_ex_chain they are the circuits the C05 "
                   "MODEL GENERATES from the two subcircuits with their placeholders; in both they are simulated by the C13 model over "
                   "the exact state-vector simulator and decoded by the C06 model: <ZZ> = 1, <XX> = 1, <IZ> = 0; c01_ex_chain checks "
                   "P2+P3 over the generated circuits by computation and applies the chain theorem). END TO END on the implementation (about 230 requests per quick run, 64 of them in eight targeted streams: both call "
                   "forms, 1..4 partitions, exotic/automatic labels, idle qubits, 0..3 cuts, every gate family): the structure the "
                   "implementation produced is checked in Coq against the structural hypotheses of the theorem (sample list = support "
                   "above the cut-off, coefficient = product within 1e-12*kappa, #circuits = #samples x #groups, projections "
                   "consistent, lookup shapes), the refusal rule is evaluated by the C10 model, and the returned numbers are compared "
                   "(tolerance 1e-10 * kappa, cap 1e-7) with an independent state-vector simulation of the uncut circuit.",
        level_note=STD_NOTE + "VALUE TOLERANCE of the end-to-end comparison: 1e-10 * kappa (kappa = product over the cuts of sum|c|, >= 1), "
                   "capped at 1e-7. Why: the oracle is exact to ~1e-14 and the pipeline's measured error on correct code is <= 6e-14; joint "
                   "maps legitimately dropped below the 1e-14 cut-off cost at most (#maps) * 1e-14 * kappa <= 2.6e-11 * kappa "
                   "(c01_subcutoff_partial); a defect that drops or mis-weights joint maps of probability up to 1e-8 costs 1e-10..1e-7 and "
                   "is seen (stream weak_cuts: 2-3 cuts with |theta| in [1e-4, 1e-3]). The earlier flat 1e-7 hid such errors. "
                   "Stream gate_before_third_cut (4 requests per quick run): one unseparated circuit with THREE cx-family gates marked "
                   "through cut_gates, a generic one-qubit gate (u / h) directly in front of each cut gate on its second operand, or the "
                   "previous cut gate ending on that qubit; the two halves of a cut must stay where the cut gate stood (216 samples, one group). "
                   "No axioms. THE WHOLE CHAIN generate (C05 model) ; exact sampler `run` ; reconstruct (C06 model) is covered by "
                   "c01_generated_roundtrip_partial / _dict_partial / _single_partial: there the 'exact results' equation, the projection "
                   "lists (label suffixes of the one-qubit placeholders in circuit order, resp. identity), the result counts and the "
                   "coefficient-list shape are THEOREMS about the models (c01_generated_exact_results, c01_projection_lists, C05 core), "
                   "no longer hypotheses; the partition values E are defined from the generated circuits (decode of run(optimise(build1 "
                   ".. pids g))). Still assumed there: P1, P2+P3 (physics of those circuits), exact_weights (C04 under no_subcutoff_map), "
                   "and that reconstruction's and generation's views of each ObservableCollection have the same number of groups with "
                   "well-formed lookups (C11). Not derived: that partition_problem's subcircuits carry each cut id on exactly two "
                   "placeholders (C10's c10_cuts gives existence of the two halves; uniqueness is only checked by the correspondence). "
                   "IMPORTANT reading of P2+P3 in the chain theorems: because E_all is the model's own decode of the model's own circuits, "
                   "the hypothesis term == prod_l E_all is NOT pure physics; it also contains what the code must establish and what other "
                   "properties cover: that build1 puts the chosen map's operations in the right slot (C14), the measurement suffix and the "
                   "observable/QPD bit layout (C11/C05), that reconstruction's rparts (bit masks, number of measured bits) describe the same "
                   "groups as generation's og beyond their COUNT (only the count is a hypothesis), that the circuits dict and the "
                   "observables dict have the same keys (a partition missing from the observables simply drops out of the product), and "
                   "that each cut id sits on exactly two placeholders. c01_ex_chain shows this hypothesis satisfiable on a real instance; "
                   "in general it is tested end to end, not proved. All composition theorems require locs_wf (C06's locs_ok plus: every "
                   "observable has at least one lookup location; np.mean([]) would be nan while the model's 0/0 is 0). The chain "
                   "theorems conclude about reconstruct_parts on results_of .. full (the per-partition table before empty entries are "
                   "dropped; the returned dict is full without its empty entries, c01_generated_layout), not about the label-keyed public "
                   "reconstruct on the returned dict; c01_generated_roundtrip_c04_partial discharges exact_weights from the C04 model. "
                   "P1-P3 are HYPOTHESES of c01_roundtrip_partial / c01_unseparated_partial / c01_subcutoff_partial (n-qubit Hilbert-space "
                   "semantics is not formalised): what is proved is the algebra connecting the modelled bookkeeping to the uncut value "
                   "given those postulates; that the real subexperiments satisfy them is tested numerically on every run, not proved. "
                   "The numeric comparison is made by the harness and enters the Coq case as one boolean; the property-level oracle "
                   "(harness judge) is independent of the package and of the Coq model.",
        assumptions=[
            "P1 (multilinearity of the circuit's expectation value in each cut slot + exactness of every basis, the latter proved in "
            "C02) and P2+P3 (tensor factorisation across partitions for product maps + instrument rule for QPD measurements) are "
            "Section hypotheses; they are instantiated and checked by computation on one concrete 2-qubit problem (c01_hyps_satisfiable, "
            "c01_ex_roundtrip) and tested end to end on the implementation by the harness",
            "the component models are hand-written and tied to the source by their own correspondences: Model/Experiments.v (C05), "
            "Model/Reconstruct.v (C06), Model/Partition.v (C10), Model/Weights.v (C04), Model/Bases.v (C02), Model/Sim.v (C13); "
            "Model/Roundtrip.v adds only vocabulary (product-space enumeration, coefficient product, total projection) and "
            "the executable structural checks",
            "the hypotheses of c01_roundtrip are in the shape of the conclusions of c05_coeffs (coefficient list), c05_exact_coeff / "
            "exact_weights (weights; obtained from the C04 model by c01_weights_from_c04 under no_subcutoff_map), c06_estimator "
            "(counts, lookup shapes, keys) and c05_projection (project = project_ids)",
            "exact rational arithmetic; a joint map whose float probability is within 1e-6 relative of the 1e-14 cut-off may be "
            "listed or not in the structural check (bracket lo/hi)",
            "the joint map ids belonging to each returned coefficient are re-read by the harness from "
            "generate_qpd_weights(bases, inf) sorted as the source sorts them (the implementation does not return them); a wrong "
            "pairing shows up as coefficient != product",
            "end-to-end oracle: own numpy state-vector simulator over Operator(gate).data matrices of the ORIGINAL gates, barriers "
            "ignored; ExactSampler (property C13) evaluates the subexperiments",
            "outside the domain: label None on a used qubit, circuits with classical bits, observables with phases",
            "OBSERVATION (not flagged, outside the quantifier 'circuits built from ... gates'): a circuit without any operation, "
            "e.g. partition_problem(QuantumCircuit(2), None, PauliList(['II'])) -> generate_cutting_experiments -> "
            "reconstruct_expectation_values, raises IndexError (no partition is left; len(list(observables.values())[0])); the "
            "model's public reconstruct returns Crashed there as well (c06 model: empty OMap) and c01_roundtrip_public_partial "
            "requires at least one partition; the harness does not generate such requests and judge treats them as out of domain",
            "the Coq refusal rule is used one-sidedly, as the property text demands: a refusal is accepted only when an observable "
            "acts on a discarded qubit; an ANSWER to such a request is accepted when it is the right number (oracle); automatic "
            "labelling itself (connectivity, barriers) is C10's business: under automatic labels the case literal only distinguishes "
            "discarded (untouched) qubits from kept ones",
            "samples of equal weight are matched to the returned coefficients by value inside the tie (tie order is not part of any "
            "contract); resets in the input circuit are generated (text: 'any circuit without classical bits') and the oracle "
            "handles them by branch splitting",
        ],
    )

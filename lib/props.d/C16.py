from props_common import STD_NOTE

PID = "C16"
ENTRY = dict(
        title="Public functions neither modify their inputs nor share state between results",
        prop_file="Properties/C16.v",
        corr_files=["Corr/C16Corr.v"],
        theorems=["c16_frame", "c16_inplace_only_arg", "c16_fresh",
                  "c16_fresh_between_results", "c16_edits_leave_inputs", "c16_later_calls_partial",
                  "c16_reach_sound", "c16_reach_complete",
                  "c16_refuted_F6", "c16_refuted_F10", "c16_refuted_F11", "c16_facts"],
        allowed_axioms=[],
        facts=["c16_copy_sites"],
        harness="c16",
        level="proof",
        level_text="Partial proof. Unbounded theorems (all heaps, all argument addresses, all circuit / basis / sample-list sizes) about an executable "
                   "object-heap model of the copy discipline of the nine public entry points (allocations, field writes, references stored "
                   "in results): every call that is not in place only appends to the heap (frame, proved for the model of the current tree "
                   "and for the repaired one); an in-place call writes only its circuit argument and, for decompose_qpd_instructions, that "
                   "circuit's own instruction objects; in the property-satisfying model every object reachable from a result is new, so "
                   "results share nothing with arguments or earlier results and arbitrary edits of a result leave all older objects as "
                   "they were. The three sharing classes of the current tree (F6, F10, F11) are refuted on the model of the current "
                   "behaviour. Closed under the global context. Partial: what Qiskit's containers do inside copy/compose/append is an "
                   "oracle (O-copy), observed and monitored, not proved; the model is compared with the real id()-level alias relation "
                   "on ~300 generated cases per quick run.",
        level_note=STD_NOTE + "No axioms.",
        assumptions=[
            "Model/Heap.v is a hand-written model of which objects the public functions allocate, which fields they write and which "
            "references they store; tied to /repo by the C16 correspondence (argument snapshots, real alias relation by id() traversal and "
            "np.shares_memory, destructive edits of results) and by the extracted list of every .copy()/inplace site (c16_facts)",
            "O-copy (oracle, monitored on every generated circuit): QuantumCircuit.copy() makes new instruction objects with equal "
            "attribute values that SHARE a QPD gate's basis; compose(other=<operation>) / append store the operation object itself",
            "only mutable Python objects are represented (circuits, instruction objects with a stable identity, bases, slot lists, "
            "non-singleton gate objects inside bases, PauliLists, result objects); Qubit/Clbit, registers, floats, singleton gates and "
            "instructions held natively by the Rust circuit data are treated as immutable / identity-free",
            "observation (outside the generator unless C16_UNITARY=1): Qiskit's own copy of an instruction shares ndarray parameters, so a "
            "UnitaryGate in an INPUT circuit - or inside an already cached definition of a KAK-path placeholder decomposed with "
            "map_ids=None - has its matrix shared with the result of every copying entry point",
            "observation (ignored by the alias walk): Instruction.__deepcopy__ copies a cached definition only `if self._definition:`; an "
            "EMPTY cached definition circuit (a placeholder half whose selected map is the empty list) is falsy and therefore shared "
            "between a gate and its copies by Qiskit itself",
            "observation (opt-in C16_SEPARATE_QPD=1): separate_circuit on a circuit that contains QPD gates shares their basis with the "
            "subcircuits by the same mechanism as F6 (circuit.copy()); this call site is not in the F6 entry of KNOWN_FINDINGS.json, so "
            "the default separate_circuit stream has no pre-placed gates",
            "c16_later_calls_partial proves that a later call finds the same argument object graph; that `run` depends only on that "
            "graph up to renaming of new addresses is not proved (checked on the implementation: third call + calls on new inputs)",
            "completeness of the computed reachable sets is certified per case (observe_ok, c16_reach_complete), not proved for all fuel",
            "the theorems c16_fresh* / c16_edits_leave_inputs are about the property-satisfying model (mode Repaired); on the unchanged "
            "tree the cases of the known sharing classes F6/F10/F11 are compared with the model of the current behaviour instead "
            "(only while the class is listed as known in KNOWN_FINDINGS.json)",
        ],
    )

from props_common import STD_NOTE

PID = "C16"
ENTRY = dict(
        title="Public functions neither modify their inputs nor share state between results",
        prop_file="Properties/C16.v",
        corr_files=["Corr/C16Corr.v"],
        theorems=["c16_frame", "c16_inplace_only_arg",
                  "c16_fresh_current", "c16_fresh_current_disjoint", "c16_confined", "c16_results_share_only_arguments",
                  "c16_edits_confined",
                  "c16_result_reach_new_repaired", "c16_fresh_repaired", "c16_fresh_between_results_repaired",
                  "c16_edits_leave_inputs_repaired", "c16_later_calls_repaired_partial",
                  "c16_reach_sound", "c16_reach_complete",
                  "c16_refuted_F6", "c16_refuted_F10", "c16_refuted_F11", "c16_refuted_F19", "c16_facts"],
        allowed_axioms=[],
        facts=["c16_copy_sites"],
        harness="c16",
        level="proof",
        level_text="Partial proof. Unbounded theorems (all heaps, argument addresses, circuit / basis / sample-list sizes) about an executable "
                   "object-heap model of the copy discipline of the ten public entry points (allocations, field writes, references stored in "
                   "results). ABOUT THE CODE AS IT IS (every mode of the model, in particular mode Current = the tree's copy discipline): "
                   "a call that is not in place only appends to the heap (c16_frame); an in-place call writes only its circuit argument and, "
                   "for decompose_qpd_instructions, that circuit's instruction objects (c16_inplace_only_arg; those objects may also sit in "
                   "other circuits, e.g. after cut_wires); whatever is reachable from a result is new or was reachable from the arguments "
                   "(c16_confined, c16_results_share_only_arguments), so edits of a result can only hit new or argument-reachable objects "
                   "(c16_edits_confined); on CLEAN inputs (boolean `clean`: no basis-carrying instruction in the argument circuits, "
                   "cut_wires circuits of native instructions and CutWire markers only) everything reachable from a result is new "
                   "(c16_fresh_current) - this does NOT cover decompose/generate on circuits with placeholders. ABOUT THE REPAIRED MODEL ONLY "
                   "(mode Repaired, not the tree: F6/F10/F11/F19 are unrepaired): everything reachable from a result is new for every input, "
                   "results share nothing with arguments or earlier results, edits of a result leave all older objects unchanged "
                   "(the four *_repaired theorems; the later-calls one is partial: same argument graph, not yet same outcome). The sharing "
                   "classes F6, F10, F11, F19 are refuted on the model of the current behaviour. Closed under the global context. What "
                   "Qiskit's containers do inside copy/compose/append is an oracle (O-copy), monitored, not proved; the model is compared "
                   "with the real id()-level alias relation on ~585 generated cases per quick run. A targeted stream hands "
                   "reconstruct_expectation_values SamplerV1 results held in plain mappings whose outcome keys are spelled per outcome as "
                   "int / '0b..' / (blank-separated) bitstring / '0x..'; argument snapshots record result keys as spelled (type and text), "
                   "so re-keying or re-typing a caller's result mapping counts as a modified argument.",
        level_note=STD_NOTE + "No axioms.",
        assumptions=[
            "input preconditions of the model (`run` is total, it has no Refused/Crashed outcome): gate ids are instruction indices in "
            "range and name non-placeholder gates; after the map ids are assigned every basis-carrying instruction of a circuit given to "
            "decompose_qpd_instructions has a selected map (where Python raises ValueError the model silently drops the instruction; "
            "out-of-range ids allocate a basis where Python crashes). The harness only sends accepted calls; refused calls are counted",
            "covered by correspondence only, the model being a single allocation there: reconstruct_expectation_values, "
            "expand_observables, the observables argument of generate_cutting_experiments; find_cuts' OptimizationParameters / "
            "DeviceConstraints objects are not in the model (snapshotted by the harness); instruction PARAMETERS and definition caches are "
            "not in the model (F20 / F21 routed by predicate)",
            "an edit list (theorems about edits) overwrites existing objects at addresses reachable from the result when it was returned: "
            "no allocation, no chain through a reference planted by an earlier edit",
            "Model/Heap.v is a hand-written model of which objects the public functions allocate, which fields they write and which "
            "references they store; tied to /repo by the C16 correspondence (argument snapshots, real alias relation by id() traversal and "
            "np.shares_memory, destructive edits of results) and by the extracted list of every .copy()/inplace site (c16_facts)",
            "O-copy (oracle, monitored on every generated circuit): QuantumCircuit.copy() makes new instruction objects with equal "
            "attribute values that SHARE a QPD gate's basis; compose(other=<operation>) / append store the operation object itself",
            "only mutable Python objects are represented (circuits, instruction objects with a stable identity, bases, slot lists, "
            "non-singleton gate objects inside bases, PauliLists, result objects); Qubit/Clbit, registers, floats, singleton gates and "
            "instructions held natively by the Rust circuit data are treated as immutable / identity-free",
            "known finding F19 (own call site, modelled: CSeparate with fix6 off): separate_circuit shares the basis of a pre-placed QPD "
            "gate with the returned subcircuits, by the same circuit.copy() mechanism as F6",
            "known finding F20 (NOT in the heap model, which has no ndarray parameters): Qiskit's instruction copy shares an ndarray "
            "inside params, so a UnitaryGate of an input circuit - or inside an already cached definition of a KAK-path placeholder with "
            "a selected map - has its matrix shared with the result of every copying entry point (observed: partition_circuit_qubits, "
            "cut_gates, partition_problem, find_cuts, separate_circuit, decompose_qpd_instructions). The harness removes from the compared "
            "observation exactly the alias roots that are an ndarray element of the params of an instruction reachable from the arguments "
            "(and records them in the case); every other root is compared with the model",
            "known finding F21 (NOT in the heap model, which has no definition caches): Instruction.__deepcopy__ copies a cached definition "
            "only `if self._definition:`; an EMPTY cached definition circuit (placeholder half whose selected map is the empty list) is falsy "
            "and is shared between a gate and its copies; non-empty cached definitions are deep-copied. Routed like F20 (roots that are the "
            "cached definition of an instruction reachable from the arguments)",
            "F6/F10/F11/F19/F20/F21 cases go to the current-behaviour checker only while the class is listed with status known in "
            "KNOWN_FINDINGS.json (a case may carry several classes, all must be listed); with an entry unlisted the same cases are compared "
            "with the property-satisfying model, mismatch, and are judged as violations",
            "not generated: decompose_qpd_instructions(map_ids=None) on gates whose definition was already read (the cached definitions are "
            "then used as they are; the model has no definition caches)",
            "c16_later_calls_partial proves that a later call finds the same argument object graph; that `run` depends only on that "
            "graph up to renaming of new addresses is not proved (checked on the implementation: third call + calls on new inputs)",
            "completeness of the computed reachable sets is certified per case (observe_ok, c16_reach_complete), not proved for all fuel",
            "the theorems c16_fresh* / c16_edits_leave_inputs are about the property-satisfying model (mode Repaired); on the unchanged "
            "tree the cases of the known sharing classes F6/F10/F11/F19/F20/F21 are compared with the model of the current behaviour instead "
            "(only while the class is listed as known in KNOWN_FINDINGS.json)",
        ],
    )

from props_common import STD_NOTE

PID = "C18"
_T = """c18_weights_lt1 c18_weights_nan c18_weights_valid c18_gen_budget_lt1 c18_gen_budget_nan
c18_gen_form_circuit c18_gen_form_dict c18_gen_q1_unseparated c18_gen_label c18_gen_phase_dict c18_gen_obs_size c18_gen_valid_circuit c18_gen_valid_dict
c18_pp_label_count c18_pp_obs_size c18_pp_phase c18_pp_clbits c18_pp_wide_gate c18_pp_unsupported c18_pp_none_label c18_pp_valid c18_pp_idle_explicit c18_pp_idle_auto
c18_pcq_label_count c18_pcq_wide_gate c18_pcq_unsupported c18_pcq_frame_def c18_pcq_valid
c18_cg_clbits c18_cg_unsupported c18_cg_unsupported_total c18_cg_frame_def c18_cg_valid
c18_fi_unbound c18_fi_matrix c18_fi_unsupported c18_fi_valid_registered c18_fi_valid_kak c18_theta_unbound
c18_device_width c18_device_valid c18_settings_gamma c18_settings_backjumps c18_settings_valid
c18_fc_gamma c18_fc_backjumps c18_fc_wide_gate c18_fc_unbound c18_fc_valid
c18_rc_form_plist c18_rc_form_dict c18_rc_form_other c18_rc_keys c18_rc_phase_plist c18_rc_phase_dict c18_rc_counts
c18_rc_valid_plist c18_rc_valid_dict
c18_dq_group_size c18_dq_non_qpd c18_dq_bases_differ c18_dq_total c18_dq_map_count c18_dq_map_range c18_dq_map_none c18_dq_unset_no_maps c18_dq_group_size_total c18_dq_non_qpd_total c18_dq_frame_no_maps c18_dq_frame_partial c18_dq_frame c18_dq_validate_covers c18_dq_frame_total c18_dq_two_in_pair c18_dq_repeated_index c18_dq_valid
c18_basis_empty c18_basis_wide c18_basis_ragged c18_basis_coeffs c18_set_coeffs c18_basis_valid
c18_bid_range c18_q1_half c18_q1_bid c18_q1_valid c18_q2_arity c18_q2_bid c18_q2_valid
c18_sep_label_count c18_sep_none_used c18_sep_spans c18_sep_valid c18_exp_count c18_exp_missing c18_exp_valid
c18_sim_conditioned c18_sim_clbits c18_mgo_empty c18_mgo_not_pauli c18_mgo_size c18_cog_phase
c18_facts_decompose_guards
c18_skel_simulate c18_skel_reconstruct c18_skel_partition_problem
c18_skeleton_simulate c18_skeleton_reconstruct c18_skeleton_partition_problem c18_skeleton_pcq c18_skeleton_cut_gates c18_skeleton_decompose
c18_pcq_stores_dominated c18_cg_stores_dominated c18_dq_stores_not_dominated
c18_dq_valid_no_maps c18_bid_valid c18_sim_valid c18_cog_valid""".split()

ENTRY = dict(
        title="Malformed requests are refused with the documented error, never mis-computed",
        prop_file="Properties/C18.v",
        corr_files=["Corr/C18Corr.v"],
        theorems=_T,
        allowed_axioms=[],
        facts=["value_error_sites", "c18_guards", "c18_sim_cond_guard_first", "c18_skeletons"],
        harness="c18",
        level_text="Unbounded theorems about the executable model of the validation blocks of 29 functions (22 entry points): one implication "
                   "per documented error class, each for EVERY position of the offending element and arbitrary other input up to the "
                   "stated in-range / otherwise-valid premises (all list lengths, all rationals incl. NaN/inf budgets); `never Proceeds` "
                   "variants without the in-range premises. 'Arguments not modified' is PROVED only for decompose_qpd_instructions "
                   "(c18_dq_frame_total, unconditional, via c18_dq_validate_covers); for partition_circuit_qubits and cut_gates the "
                   "model is validate-then-mutate BY DEFINITION (c18_pcq_frame_def, c18_cg_frame_def are unfoldings) and the source is "
                   "tied by the correspondence (observed argument state) and by a syntactic position fact on the regenerated control "
                   "skeleton (c18_*_stores_dominated: no raise site reachable after a store into circuit.data); for the other 19 entry "
                   "points it is compared by snapshots only. The `*_valid` theorems (for 19 api functions; none for most_general_observable, the "
                   "coeffs setter and _theta_from_instruction) read the model backwards: no modelled guard fires -> Proceeds; they only show that the model is not constantly Refused. For "
                   "partition_problem, reconstruct_expectation_values and simulate_statevector_outcomes the decision procedure is "
                   "regenerated from the Python AST (c18_skeleton_* tie the decoded tree to the source) and proved equal to the "
                   "hand-written api_* for all inputs (c18_skel_*). Closed under the global context. The ordered guard list of every "
                   "modelled function and its number of raise sites are regenerated facts that must equal what Properties/C18.v "
                   "writes. The model is run against the implementation on >2600 generated calls per run with deep before/after "
                   "snapshots of every argument.",
        level_note=STD_NOTE + "No axioms. Remaining hypotheses are all input preconditions (indices in range, non-empty qubit lists, "
                   "otherwise-valid input); none is a physics/oracle or success-case hypothesis.",
        assumptions=[
            "REGENERATED DECISION PROCEDURES (c18_skel_*): for partition_problem, reconstruct_expectation_values and "
            "simulate_statevector_outcomes the guard-relevant control skeleton (nesting, order, branches, loops, calls of "
            "separately modelled validators) is regenerated from the Python AST on every run and EXECUTED in Coq; the theorems "
            "prove it equal to the hand-written api_* for all inputs. Hand-written there: only the meaning of each atomic test "
            "(keyed by its source text) and of the collections loops range over, in terms of the input abstraction. The other "
            "26 modelled functions are tied by the ordered guard-text lists (and the simulate position fact) only",
            "LIMITS of the regenerated skeletons: (i) the slice has NO DATA FLOW: a statement inserted between two guards that "
            "reassigns a tested variable (`observables = None`) changes neither the skeleton nor the atoms; (ii) only calls of the "
            "functions in the WATCH list are kept: `ObservableCollection(...)` (runs CommutingObservableGroup.__post_init__ and "
            "most_general_observable) is not watched, so its refusals inside reconstruct_expectation_values / "
            "generate_cutting_experiments are invisible to the skeleton (the phase refusal of the dictionary form is in the hand "
            "model only); (iii) in partition_problem the call of partition_circuit_qubits is interpreted as its gate loop only and "
            "separate_circuit as its None-label check only (their label-count and spans-partitions sites are unreachable after the "
            "first guard and after cutting: argued, not proved); (iv) atoms `idle_observables is not None` -> true and "
            "`obs.z.any()` -> false are conventions of the abstraction (an element records only whether the observable acts on a "
            "None-labelled qubit); (v) `dominated` is a syntactic check on the tree (its definition is its meaning; no "
            "execution-level soundness theorem); `continue` statements are ignored by it",
            "Model/Validation.v is a hand-written model of the VALIDATION blocks only (Proceeds = validation passed; what the function "
            "then computes is the business of C01..C17); tied to the source by the extracted ordered guard lists (c18_guards) and by "
            "the C18 correspondence",
            "the input abstraction (lengths, phases, label classes, observable supports, gate_desc = what QPDBasis.from_instruction reads, "
            "result counts) is computed by the harness from the real argument objects; the NUMBER of commuting groups is taken from the "
            "implementation's own ObservableCollection (it is the choice of a colouring heuristic, so no independent value exists); the "
            "harness monitors that these groups are a qubit-wise commuting partition of the distinct observables",
            "'arguments unchanged' is PROVED only for decompose_qpd_instructions (state function dq_final; that the pre-check loop "
            "precedes the assignment loop is pinned by c18_skeleton_decompose); for partition_circuit_qubits / cut_gates the state "
            "functions pcq_final / cg_final are validate-then-mutate by definition (see level_text); for every other "
            "entry point it is only COMPARED: deep canonical snapshots of all arguments before/after each generated call (circuit data, "
            "registers, name, metadata, global phase, QPD bases incl. coefficients, Pauli lists, result contents); a cached "
            "Instruction._definition is not part of the snapshot",
            "OBSERVATION (outside the quantifier, compared but not judged): generate_cutting_experiments(QuantumCircuit, PauliList) "
            "silently drops a phase of an observable (observables_restricted_to_subsystem rebuilds the Paulis from z/x); the phase "
            "restriction is documented for partition_problem and reconstruct_expectation_values, which refuse it, and for the dictionary "
            "form (refused through CommutingObservableGroup), but not for this call form, and the generated experiments do not depend "
            "on the phase",
            "OBSERVATION (undocumented, compared but not judged): generate_cutting_experiments with dictionaries whose key sets differ: "
            "an observables label missing from circuits gives KeyError (Crashed in the model), a circuits label missing from observables "
            "is silently ignored",
            "not modelled: negative Python indices into circuit.data, empty PauliList with a QuantumCircuit, non-numeric budgets "
            "(TypeError), zero-qubit instructions in separate_circuit beyond the assert, map ids that are floats",
            "when KNOWN_FINDINGS.json lists F7/F12/F13 as known, the inplace=True calls of that function are compared with the "
            "model of the historic interleaved loop (dq_run_interleaved, pcq_run_interleaved, cg_run_interleaved) instead; /repo HEAD "
            "carries the repairs, so this route is dormant",
        ],
    )

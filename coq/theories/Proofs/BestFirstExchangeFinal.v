(* Proofs/BestFirstExchangeFinal.v — C08, unbounded pruning soundness, part 5: the wire budget of the real start state
   and the theorem.

   The best-first search starts from init_state nq B with
       B = min (#gate inputs) (max_wire_cuts_gamma gamma)      gamma = the greedy incumbent's gamma_UB,
                                                               or max_gamma when the greedy pass dead-ended.
   For an assignment A that meets the width limit with cost c:
     - wire cuts not permitted, or W < 2:      norm A has no wire cut, every budget is enough;
     - greedy incumbent g0 with c <= gamma_UB g0:   4^(wire cuts of norm A) <= c <= gamma_UB g0, so they fit into B;
     - greedy incumbent g0 with gamma_UB g0 < c:    the greedy path itself (4^(its wire cuts) <= gamma_UB g0) exists
                                                    under the budget B (Proofs/BestFirstExchangeShrink.v);
     - the greedy pass dead-ends with wire cuts permitted only if W < 2.
   pruning_sound: forall well-formed two-qubit gate lists with gammas >= 1, pruning_sound_for holds. *)
From Coq Require Import QArith Lia.
From CKT Require Import Model.CutFinder Proofs.UFP Proofs.ConnP Proofs.CutFinderSpec Proofs.CutFinderInv Proofs.CutFinderPlan
  Proofs.CutFinderSearchP.
From CKT Require Import Proofs.BestFirstP Proofs.BestFirstSpec Proofs.BestFirstExchange Proofs.BestFirstExchangeSim
  Proofs.BestFirstExchangeMain Proofs.BestFirstExchangeShrink.
Close Scope Q_scope.

Lemma mwc_two gs : (forall g, In g gs -> length (g_qubits g) = 2) -> max_wire_cuts_circuit gs = 2 * length gs.
Proof.
  induction gs as [|g r IH]; intros H; [reflexivity|]. cbn [max_wire_cuts_circuit fold_right length].
  fold (max_wire_cuts_circuit r). rewrite (H g (or_introl eq_refl)), IH; [lia|]. intros x Hx; apply H; now right.
Qed.

Lemma wcount_norm_2n F : forall gs A st, wcount (norm F gs A st) <= 2 * length gs.
Proof.
  induction gs as [|[[q1 q2] gam] gs IH]; intros [|k A] st; cbn [norm wcount length]; try lia.
  specialize (IH A (apply_kind st q1 q2 k)).
  assert (kw (norm_kind F st q1 q2 k) <= 2) by (destruct (norm_kind F st q1 q2 k); cbn; lia). lia.
Qed.

Lemma over_split acts s g W : forall l s', next_states_over acts s g W = Val l -> In s' l ->
  exists k lk s1, In k acts /\ next_state_primitive k s g W = Val lk /\ In s1 lk /\ s' = set_level s1 (S (level s)).
Proof.
  induction acts as [|k r IH]; intros l s' H Hin; cbn [next_states_over] in H.
  - injection H as <-. destruct Hin.
  - unfold next_state in H at 1.
    destruct (next_state_primitive k s g W) as [l0| | |] eqn:E0; cbn [obind] in H; try discriminate.
    destruct (next_states_over r s g W) as [l1| | |] eqn:E1; cbn [obind] in H; try discriminate.
    injection H as <-. apply in_app_or in Hin as [Hin|Hin].
    + apply in_map_iff in Hin as (s1 & <- & Hs1). exists k, l0, s1. repeat split; auto. now left.
    + destruct (IH _ _ eq_refl Hin) as (k' & lk & s1 & Hk & Hp & Hs1 & ->). exists k', lk, s1. repeat split; auto. now right.
Qed.

Lemma over_nil acts s g W : next_states_over acts s g W = Val [] ->
  forall k, In k acts -> next_state_primitive k s g W = Val [].
Proof.
  induction acts as [|k0 r IH]; intros H k Hk; [destruct Hk|]. cbn [next_states_over] in H.
  unfold next_state in H at 1.
  destruct (next_state_primitive k0 s g W) as [l0| | |] eqn:E0; cbn [obind] in H; try discriminate.
  destruct (next_states_over r s g W) as [l1| | |] eqn:E1; cbn [obind] in H; try discriminate.
  injection H as H'. apply app_eq_nil in H' as [H0 H1].
  destruct Hk as [<-|Hk].
  - apply map_eq_nil in H0. now subst l0.
  - subst l1. now apply IH.
Qed.

Section Final.
  Variable nq : nat.
  Variable W : nat.
  Hypothesis HW : 1 <= W.
  Variables gl wl : bool.
  Variable gs : list gate_spec.
  Hypothesis Hwf : forall g, In g gs -> gwf nq g.
  Hypothesis Hgam : gammas_ok gs.

  Let names := seq 0 nq.
  Let ND : NoDup names := seq_NoDup nq 0.
  Let fa := mkF gs (search_actions gl wl) W.
  Let acts := search_actions gl wl.

  Notation IU := (IU nq W).
  Notation LI := (LI nq).

  Lemma Hgates : forall g, In g gs -> gate_wf names g.
  Proof. intros g Hg. apply gwf_gate_wf. now apply Hwf. Qed.

  Lemma Inv0 m : CutFinderPlan.Inv names W gs acts (nq + m) (init_state nq m) [].
  Proof.
    pose proof (Inv_init names W HW ND gs Hgates acts m) as I.
    assert (E : length names = nq) by apply seq_length. rewrite E in I. exact I.
  Qed.

  Lemma gwf_gq g : gwf nq g -> gq nq g.
  Proof. intros (GL & _ & Q1 & Q2). repeat split; auto. Qed.

  Lemma IU_LI s : IU s -> LI s.
  Proof. intros (cur & E & I). eapply InvU_LI; eauto. Qed.

  Lemma succ_split s s' : succ fa s s' ->
    exists g k lk s1, nth_error gs (level s) = Some g /\ In k acts /\
      next_state_primitive k s g W = Val lk /\ In s1 lk /\ s' = set_level s1 (S (level s)).
  Proof.
    intros (l & H & Hin). unfold next_states in H. cbn [fa fa_gates fa_actions fa_W] in H.
    destruct (nth_error gs (level s)) as [g|] eqn:Eg; [|discriminate].
    destruct (Nat.eqb (length (g_qubits g)) 2); [|discriminate].
    destruct (over_split _ _ _ _ _ _ H Hin) as (k & lk & s1 & Hk & Hp & Hs1 & ->).
    exists g, k, lk, s1. auto.
  Qed.

  (* the invariant of every path of the guarded search space *)
  Record PI (M : nat) (s : dstate) : Prop := {
    pi_iu : IU s ;
    pi_len : length (uptree s) = M ;
    pi_lo : nq <= num_wires s ;
    pi_hi : num_wires s <= nq + 2 * level s ;
    pi_lvl : level s <= length gs ;
    pi_pos : (0 <= gamma_UB s)%Q ;
    pi_pow : (pow4 (num_wires s - nq) <= gamma_UB s)%Q
  }.

  Lemma PI_init m : PI (nq + m) (init_state nq m).
  Proof.
    constructor; cbn [init_state uptree num_wires level gamma_UB]; try lia; try discriminate.
    - exists cur0, []. pose proof (InvU_init names W HW ND m) as I. unfold names in I at 2. rewrite seq_length in I. exact I.
    - unfold uf_init. now rewrite seq_length.
    - rewrite Nat.sub_diag. cbn. discriminate.
  Qed.

  Lemma PI_succ M s s' : PI M s -> succ fa s s' ->
    PI M s' /\ num_wires s <= num_wires s' /\ level s' = S (level s).
  Proof.
    intros P Sc. destruct (succ_split _ _ Sc) as (g & k & lk & s1 & Eg & Hk & Hp & Hs1 & ->).
    assert (Hg : In g gs) by (eapply nth_error_In; eauto).
    destruct (pi_iu _ _ P) as (cur & E & I).
    destruct (next_state_ok names W HW ND s cur E g k I (Hgates g Hg)) as (l0 & Hl0 & Hall).
    unfold next_state in Hl0. rewrite Hp in Hl0. cbn [obind] in Hl0. injection Hl0 as <-.
    destruct (Hall (set_level s1 (S (level s)))) as (IU' & El & Elen & Hnw1 & Hnw2 & _).
    { apply in_map_iff. exists s1. auto. }
    destruct (prim_wires nq W k s g lk s1 (IU_LI s (pi_iu _ _ P)) (gwf_gq g (Hwf g Hg)) (Hgam g Hg) Hp Hs1)
      as (w & f & Ew & Ef & Lf).
    assert (Hlv : level s < length gs) by (apply nth_error_Some; congruence).
    change (num_wires (set_level s1 (S (level s)))) with (num_wires s1) in *.
    change (gamma_UB (set_level s1 (S (level s)))) with (gamma_UB s1).
    split; [|split; [lia|reflexivity]].
    pose proof (pi_lo _ _ P). pose proof (pi_hi _ _ P).
    cbn [set_level level] in El.
    constructor; cbn [set_level num_wires gamma_UB level uptree]; try lia.
    - eexists; eexists; exact IU'.
    - cbn [set_level uptree] in Elen. rewrite Elen. apply (pi_len _ _ P).
    - cbn [set_level gamma_UB]. rewrite Ef. apply Qmult_le_0_compat; [apply (pi_pos _ _ P)|]. eapply Qle_trans; [|exact Lf].
      unfold Qle, inject_Z. cbn. rewrite Z.mul_1_r. apply Z.pow_nonneg. lia.
    - cbn [set_level gamma_UB num_wires]. rewrite Ew, Ef. replace (num_wires s + w - nq) with ((num_wires s - nq) + w) by lia.
      rewrite pow4_add. apply Qmult_le_compat_nonneg.
      + split; [apply Qlt_le_weak, pow4_pos|apply (pi_pow _ _ P)].
      + split; [apply Qlt_le_weak, pow4_pos|exact Lf].
  Qed.

  Lemma PI_reach M s g : PI M s -> reach fa s g -> PI M g /\ num_wires s <= num_wires g.
  Proof.
    intros P R. induction R as [x|x y z Sc R IH]; [split; [exact P|lia]|].
    destruct (PI_succ M x y P Sc) as (Py & Ly & _). destruct (IH Py) as (Pz & Lz). split; [exact Pz|lia].
  Qed.

  (* ---------------- a path that uses at most m wires exists under the budget m - nq ---------------- *)
  Lemma shrink_over m s g : LI s -> gq nq g -> num_wires s <= m -> m <= length (uptree s) ->
    forall acts', exists l l', next_states_over acts' s g W = Val l /\ next_states_over acts' (shrink m s) g W = Val l' /\
      forall s', In s' l -> num_wires s' <= m -> In (shrink m s') l'.
  Proof.
    intros L Gq Hm Hlen. induction acts' as [|k r IH]; cbn [next_states_over].
    - exists [], []. repeat split; auto.
    - destruct (shrink_prim nq W m k s g L Gq Hm Hlen) as (l0 & l0' & H0 & H0' & Hall0).
      destruct IH as (l1 & l1' & H1 & H1' & Hall1).
      unfold next_state. rewrite H0, H0'. cbn [obind]. fold (next_states_over r s g W) (next_states_over r (shrink m s) g W).
      rewrite H1, H1'. cbn [obind]. eexists; eexists. split; [reflexivity|]. split; [reflexivity|].
      intros s' Hin Hs'. apply in_or_app. apply in_app_or in Hin as [Hin|Hin].
      + left. apply in_map_iff in Hin as (s1 & <- & Hs1). apply in_map_iff. exists (shrink m s1). split; [reflexivity|].
        apply Hall0; auto.
      + right. now apply Hall1.
  Qed.

  Lemma shrink_succ M m s s' : PI M s -> num_wires s <= m -> m <= M -> succ fa s s' -> num_wires s' <= m ->
    succ fa (shrink m s) (shrink m s').
  Proof.
    intros P Hm HM (l & H & Hin) Hs'. unfold succ, next_states in *. cbn [fa fa_gates fa_actions fa_W] in *.
    change (level (shrink m s)) with (level s).
    destruct (nth_error gs (level s)) as [g|] eqn:Eg; [|discriminate].
    assert (Hg : In g gs) by (eapply nth_error_In; eauto).
    destruct (Nat.eqb (length (g_qubits g)) 2); [|discriminate].
    destruct (shrink_over m s g (IU_LI s (pi_iu _ _ P)) (gwf_gq g (Hwf g Hg)) Hm ltac:(rewrite (pi_len _ _ P); exact HM)
                (search_actions gl wl)) as (l0 & l0' & H0 & H0' & Hall).
    rewrite H in H0. injection H0 as <-. exists l0'. split; [exact H0'|]. now apply Hall.
  Qed.

  Lemma shrink_reach M m s g : PI M s -> num_wires s <= m -> m <= M -> reach fa s g -> num_wires g <= m ->
    reach fa (shrink m s) (shrink m g).
  Proof.
    intros P Hm HM R. revert P Hm. induction R as [x|x y z Sc R IH]; intros P Hm Hg; [constructor|].
    destruct (PI_succ M x y P Sc) as (Py & Ly & _). destruct (PI_reach M y z Py R) as (_ & Lz).
    econstructor.
    - eapply shrink_succ; eauto. lia.
    - apply IH; auto. lia.
  Qed.

  Lemma shrink_init m m' : m' <= m -> shrink (nq + m') (init_state nq m) = init_state nq m'.
  Proof.
    intros H. unfold shrink, init_state, uf_init. cbn [wiremap num_wires uptree width no_merge gamma_UB actions level].
    rewrite firstn_seq, firstn_repeat by lia. reflexivity.
  Qed.

  Lemma greedy_reach : forall fuel s g, greedy fuel fa s = Val (Some g) -> reach fa s g /\ goal fa g.
  Proof.
    induction fuel as [|f IH]; intros s g H; cbn [greedy] in H.
    - destruct (goal_state fa s) eqn:Gs; [|discriminate]. injection H as <-. split; [constructor|exact Gs].
    - destruct (goal_state fa s) eqn:Gs; [injection H as <-; split; [constructor|exact Gs]|].
      destruct (next_states fa s) as [l| | |] eqn:En; cbn [obind] in H; try discriminate.
      destruct l as [|s0 r]; [discriminate|]. destruct (IH _ _ H) as (R & Gg). split; [|exact Gg].
      econstructor; [|exact R]. exists (s0 :: r). split; [exact En|]. apply BestFirstP.first_min_in.
  Qed.

  Let mwc := max_wire_cuts_circuit gs.

  Lemma mwc_eq : mwc = 2 * length gs.
  Proof. apply mwc_two. intros g Hg. now destruct (Hwf g Hg). Qed.

  (* the greedy incumbent is a goal of the search space under the budget derived from its own gamma *)
  Lemma greedy_in_budget g0 : greedy_cut_optimization nq fa = Val (Some g0) ->
    exists g, reach fa (init_state nq (Nat.min mwc (max_wire_cuts_gamma (gamma_UB g0)))) g /\ goal fa g /\ cost g = cost g0.
  Proof.
    intros H. unfold greedy_cut_optimization in H. cbn [fa fa_gates] in H. fold mwc in H.
    destruct (greedy_reach _ _ _ H) as (R & Gg).
    destruct (PI_reach (nq + mwc) _ _ (PI_init mwc) R) as (Pg & _).
    set (B2 := Nat.min mwc (max_wire_cuts_gamma (gamma_UB g0))).
    assert (Hnw : num_wires g0 <= nq + B2).
    { pose proof (max_wire_cuts_gamma_ge _ _ (pi_pow _ _ Pg)). pose proof (pi_hi _ _ Pg). pose proof (pi_lvl _ _ Pg).
      pose proof mwc_eq. unfold B2. lia. }
    exists (shrink (nq + B2) g0). split; [|split; [exact Gg|reflexivity]].
    rewrite <- (shrink_init mwc B2) by (unfold B2; lia).
    apply (shrink_reach (nq + mwc)); auto.
    - apply PI_init.
    - cbn. lia.
    - unfold B2. lia.
  Qed.

  (* the greedy pass returns a value; it dead-ends with wire cuts permitted only if W < 2 *)
  Lemma greedy_val : exists r, greedy_cut_optimization nq fa = Val r.
  Proof.
    unfold greedy_cut_optimization. cbn [fa fa_gates]. fold mwc.
    apply (greedy_total names W HW ND gs Hgates fa eq_refl eq_refl acts eq_refl (nq + mwc)).
    - exists []. apply Inv0.
    - cbn. lia.
  Qed.

  Lemma greedy_dead_end : greedy_cut_optimization nq fa = Val None -> wl = true -> W < 2.
  Proof.
    intros H Hwl. unfold greedy_cut_optimization in H. cbn [fa fa_gates] in H. fold mwc in H.
    destruct (greedy_none names W HW ND gs Hgates fa eq_refl eq_refl acts eq_refl (nq + mwc) _ _
                (ex_intro _ [] (Inv0 mwc)) H)
      as (s' & pl & I & Hgoal & Hdead).
    unfold goal_state in Hgoal. cbn [fa fa_gates] in Hgoal. apply Nat.leb_gt in Hgoal.
    unfold next_states in Hdead. cbn [fa fa_gates fa_actions fa_W] in Hdead.
    destruct (nth_error gs (level s')) as [g|] eqn:Eg; [|discriminate].
    assert (Hg : In g gs) by (eapply nth_error_In; eauto).
    destruct (Nat.eqb (length (g_qubits g)) 2); [|discriminate].
    assert (Kb : In KBoth (search_actions gl wl)) by (subst wl; destruct gl; cbv; tauto).
    pose proof (over_nil _ _ _ _ Hdead KBoth Kb) as Hb. cbn [next_state_primitive] in Hb.
    pose proof (inv_u _ _ _ _ _ _ _ I) as IU'.
    rewrite (both_explicit nq W s' g (InvU_LI nq W s' _ _ IU') (gwf_gq g (Hwf g Hg))) in Hb.
    pose proof (inv_nw _ _ _ _ _ _ _ I) as Hnw. pose proof (inv_len_u _ _ _ _ _ _ _ I) as Hlu.
    unfold names in Hnw. rewrite seq_length in Hnw. pose proof mwc_eq.
    destruct (Nat.leb_spec (num_wires s' + 2) (length (uptree s'))) as [_|C]; [|lia]. cbn [negb] in Hb.
    destruct (Nat.ltb_spec W 2) as [L|_]; [exact L|discriminate].
  Qed.

  Variable mg : Q.

  (* the budget of the real start state covers the wire cuts of the normalised assignment,
     or the greedy incumbent is cheaper than the assignment *)
  Theorem pruning_sound_W1 : pruning_sound_for gs gl wl W mg nq.
  Proof.
    unfold pruning_sound_for. cbv zeta. fold fa. intros A c HA.
    unfold assignment_cost in HA. destruct (replay _ _ _ _ _ _) as [[stn c']|] eqn:Hrep; [|discriminate].
    destruct (widths_ok W stn) eqn:Wk; [|discriminate]. injection HA as ->.
    set (F := sg_comp stn).
    assert (HF : forall L, cnt (Fl F) (length F) L <= W) by (intros L; now apply widths_ok_cnt).
    assert (WFs : sgates_wf nq (sgates_of gs)) by (apply (sgates_of_wf nq gs Hwf gs); auto).
    assert (Gs : sgammas_ok (sgates_of gs)) by (now apply sgates_of_ok).
    (* a sufficient condition: the budget covers norm A *)
    assert (ENOUGH : wcount (norm F (sgates_of gs) A (segs_init nq)) <= search_budget fa mg nq ->
                     exists g, reach fa (search_start fa mg nq) g /\ goal fa g /\ (cost g <= c)%Q).
    { intros Hb. unfold search_start. apply (forward nq W HW gl wl gs Hwf Hgam _ A c stn Hrep Wk Hb). }
    assert (ZERO : wcount A = 0 -> exists g, reach fa (search_start fa mg nq) g /\ goal fa g /\ (cost g <= c)%Q).
    { intros Z. apply ENOUGH. pose proof (norm_wcount_le F (sgates_of gs) A (segs_init nq)). lia. }
    destruct (Bool.bool_dec wl true) as [Ewl|Ewl].
    2:{ apply Bool.not_true_is_false in Ewl. apply ZERO. rewrite Ewl in Hrep. eapply replay_no_wires; eauto. }
    destruct greedy_val as (r & Hgr).
    destruct r as [g0|].
    - destruct (Qlt_le_dec (gamma_UB g0) c) as [Lt|Le].
      + (* the incumbent itself *)
        destruct (greedy_in_budget g0 Hgr) as (g & R & Gg & Ec).
        exists g. split; [|split; [exact Gg|]].
        * unfold search_start, search_budget. rewrite Hgr. cbn [fa fa_gates]. exact R.
        * rewrite Ec. apply Qlt_le_weak. exact Lt.
      + apply ENOUGH. unfold search_budget. rewrite Hgr. cbn [fa fa_gates]. fold mwc. rewrite mwc_eq.
        apply Nat.min_glb.
        * pose proof (wcount_norm_2n F (sgates_of gs) A (segs_init nq)) as H2. unfold sgates_of in H2 at 2. rewrite map_length in H2. exact H2.
        * apply max_wire_cuts_gamma_ge. eapply Qle_trans; [|exact Le].
          assert (P01 : (0 <= 1)%Q) by discriminate.
          pose proof (norm_cost gl wl F _ _ _ _ _ _ Gs P01 Hrep) as NC. rewrite Qmult_1_l in NC. exact NC.
    - apply ZERO. eapply (replay_small_W gl wl nq F W HF (greedy_dead_end Hgr Ewl)); eauto using segs_init_ok.
  Qed.
End Final.

(* ---------------- all widths, including the degenerate W = 0 ---------------- *)
Theorem pruning_sound nq W gl wl gs mg :
  gammas_ok gs -> (forall g, In g gs -> gwf nq g) -> pruning_sound_for gs gl wl W mg nq.
Proof.
  intros Hgam Hwf. destruct (Nat.eq_dec W 0) as [->|NW].
  2:{ apply pruning_sound_W1; auto. lia. }
  unfold pruning_sound_for. cbv zeta. intros A c HA.
  unfold assignment_cost in HA. destruct (replay _ _ _ _ _ _) as [[stn c']|] eqn:Hrep; [|discriminate].
  destruct (widths_ok 0 stn) eqn:Wk; [|discriminate]. injection HA as ->.
  assert (WFs : sgates_wf nq (sgates_of gs)) by (apply (sgates_of_wf nq gs Hwf gs); auto).
  destruct (replay_final gl wl nq _ _ _ _ _ _ WFs (segs_init_ok nq) Hrep) as (L & _ & _).
  unfold slen at 1 in L. cbn [segs_init sg_comp] in L. rewrite seq_length in L.
  destruct nq as [|n].
  - (* no qubits: no gates *)
    destruct gs as [|g r]; [|destruct (Hwf g (or_introl eq_refl)) as (_ & _ & Q1 & _); lia].
    destruct A; cbn in Hrep; [|discriminate]. injection Hrep as <- <-.
    eexists. split; [constructor|]. split; [reflexivity|]. cbn. apply Qle_refl.
  - exfalso. pose proof (widths_ok_cnt 0 stn (Fl (sg_comp stn) 0) Wk) as H.
    pose proof (cnt_mono (Fl (sg_comp stn)) 1 (length (sg_comp stn)) (Fl (sg_comp stn) 0) ltac:(unfold slen in L; lia)) as H1.
    rewrite cnt_S, Nat.eqb_refl in H1. lia.
Qed.

(* ---------------- for a request of find_cuts ---------------- *)
From CKT Require Import Proofs.CutFinderCirc.

(* the gate list find_cuts derives from a circuit whose multi-qubit gates act on two distinct qubits is well-formed *)
Lemma fa_gates_wf i : circ_wf (fi_circ i) -> forall g, In g (fa_gates (fa_of i)) -> gwf (nq_of i) g.
Proof.
  intros WFc g Hg. unfold fa_of in Hg. cbn [fa_gates] in Hg. unfold nq_of.
  destruct (iface_init_fields (fi_nq i) (fi_gtab i) (fi_circ i)) as [Ecirc Enq]. rewrite Ecirc in Hg. rewrite Enq.
  exact (gates_wf (fi_nq i) (fi_gtab i) (fi_circ i) WFc g Hg).
Qed.

Lemma pruning_sound_request i : gammas_ok_in i -> circ_wf (fi_circ i) ->
  pruning_sound_for (fa_gates (fa_of i)) (fi_gate_lo i) (fi_wire_lo i) (fi_W i) (fi_max_gamma i) (nq_of i).
Proof. intros G WFc. apply pruning_sound; [exact G|now apply fa_gates_wf]. Qed.

Lemma flag_sound_unbounded fuel i r : gammas_ok_in i -> circ_wf (fi_circ i) ->
  find_cuts_full fuel i = Val r -> md_minimum_reached (fr_meta r) = true ->
  forall A c, assignment_cost (nq_of i) (fi_W i) (fi_gate_lo i) (fi_wire_lo i) (sgates_of (fa_gates (fa_of i))) A = Some c ->
  (md_overhead (fr_meta r) <= c * c)%Q.
Proof. intros G WFc. apply flag_sound_spec; [exact G|now apply pruning_sound_request]. Qed.

Lemma unrestricted_unbounded fuel i r : gammas_ok_in i -> circ_wf (fi_circ i) ->
  find_cuts_full fuel i = Val r -> fi_max_backjumps i = None -> spec_within i ->
  md_minimum_reached (fr_meta r) = true.
Proof. intros G WFc. apply unrestricted_spec; [exact G|now apply pruning_sound_request]. Qed.

Lemma seed_independent_unbounded fuel1 fuel2 i t1 t2 r1 r2 : gammas_ok_in i -> circ_wf (fi_circ i) ->
  fi_max_backjumps i = None -> spec_within i ->
  find_cuts_full fuel1 (with_tape i t1) = Val r1 -> find_cuts_full fuel2 (with_tape i t2) = Val r2 ->
  (md_overhead (fr_meta r1) == md_overhead (fr_meta r2))%Q.
Proof. intros G WFc. apply seed_independent_spec; [exact G|now apply pruning_sound_request]. Qed.

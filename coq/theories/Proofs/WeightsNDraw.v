(* Proofs/WeightsNDraw.v — the n-draw bridge: the expectation, over ALL answer tapes of the oracle weighted by the
   product of the probabilities that _populate_samples passed to it, of the count of a joint map equals ecount.
   O-choice enters only as: a call choice(range(n), k, p) answers the sequence xs with probability prod p[x]. *)
From Coq Require Import QArith Qround Lia ZifyBool Lqa.
From CKT Require Import Common.Base Extracted.Facts Model.Weights.
From CKT Require Import Proofs.WeightsP Proofs.WeightsDfs Proofs.WeightsGen Proofs.WeightsTab Proofs.WeightsSum
                        Proofs.WeightsCount Proofs.WeightsUnb Proofs.WeightsTotal Proofs.WeightsBridge.
Open Scope Q_scope.

(* ---------- all tapes of length n over the index range [0, M) and sums over them ---------- *)
Fixpoint tapes (M n : nat) : list (list nat) :=
  match n with
  | O => [[]]
  | S n' => flat_map (fun x => map (cons x) (tapes M n')) (seq 0 M)
  end.

Definition tsum (M n : nat) (F : list nat -> Q) : Q := qsumf F (tapes M n).

Lemma tapes_length M : forall n t, In t (tapes M n) -> length t = n.
Proof.
  induction n as [|n IH]; intros t H; simpl in H.
  - destruct H as [<-|[]]. reflexivity.
  - apply in_flat_map in H. destruct H as [x [_ H]]. apply in_map_iff in H. destruct H as [t' [<- H]].
    simpl. f_equal. now apply IH.
Qed.

Lemma tsum_ext M n F G : (forall t, length t = n -> F t == G t) -> tsum M n F == tsum M n G.
Proof. intros H. unfold tsum. apply qsumf_ext. intros t I. apply H. eapply tapes_length; eauto. Qed.

Lemma tsum_0 M F : tsum M 0 F == F [].
Proof. unfold tsum, qsumf. simpl. ring. Qed.

Lemma tsum_S M n F : tsum M (S n) F == qsumf (fun x => tsum M n (fun t => F (x :: t))) (seq 0 M).
Proof.
  unfold tsum. simpl. rewrite qsumf_flat_map. apply qsumf_ext. intros x _. now rewrite qsumf_map.
Qed.

Lemma qsumf_plus {A} (f g : A -> Q) l : qsumf (fun x => f x + g x) l == qsumf f l + qsumf g l.
Proof. unfold qsumf. induction l as [|a l IH]; simpl; [ring|rewrite IH; ring]. Qed.

Lemma qsumf_scale_r {A} (f : A -> Q) c l : qsumf (fun x => f x * c) l == qsumf f l * c.
Proof. unfold qsumf. induction l as [|a l IH]; simpl; [ring|rewrite IH; ring]. Qed.

Lemma tsum_plus M n F G : tsum M n (fun t => F t + G t) == tsum M n F + tsum M n G.
Proof. apply qsumf_plus. Qed.
Lemma tsum_scale M n c F : tsum M n (fun t => c * F t) == c * tsum M n F.
Proof. apply qsumf_scale. Qed.
Lemma tsum_scale_r M n c F : tsum M n (fun t => F t * c) == tsum M n F * c.
Proof. apply qsumf_scale_r. Qed.
Lemma tsum_zero M n : tsum M n (fun _ => 0) == 0.
Proof. apply qsumf_zero. Qed.

(* Fubini *)
Lemma tsum_app M a b F : tsum M (a + b) F == tsum M a (fun t1 => tsum M b (fun t2 => F (t1 ++ t2))).
Proof.
  revert F; induction a as [|a IH]; intros F.
  - simpl plus. rewrite tsum_0. reflexivity.
  - simpl plus. rewrite !tsum_S. apply qsumf_ext. intros x _. rewrite IH. reflexivity.
Qed.

Lemma tsum_eq_len M n n' F : n = n' -> tsum M n F == tsum M n' F.
Proof. intros ->. reflexivity. Qed.

(* ---------- one call of the oracle ---------- *)
Fixpoint dprob (p : list Q) (xs : list nat) : Q :=
  match xs with [] => 1 | x :: r => nth x p 0 * dprob p r end.

Definition adm (p : list Q) (xs : list nat) : bool :=
  forallb (fun x => Nat.ltb x (length p) && negb (Qeq_bool (nth x p 0) 0)) xs.

Lemma adm_false_dprob p xs : adm p xs = false -> dprob p xs == 0.
Proof.
  induction xs as [|x r IH]; simpl; [discriminate|].
  destruct (Nat.ltb x (length p)) eqn:L; simpl.
  - destruct (Qeq_bool (nth x p 0) 0) eqn:E; simpl.
    + intros _. apply Qeq_bool_iff in E. rewrite E. ring.
    + intros H. rewrite (IH H). ring.
  - intros _. apply Nat.ltb_ge in L. rewrite nth_overflow by lia. ring.
Qed.

Lemma draw_app p : forall k xs r, length xs = k ->
  draw p k (xs ++ r) = if adm p xs then Some (xs, r) else None.
Proof.
  induction k as [|k IH]; intros xs r L.
  - destruct xs; [reflexivity|discriminate].
  - destruct xs as [|x xs]; [discriminate|]. simpl in L. cbn [app draw adm forallb].
    destruct (Nat.ltb x (length p) && negb (Qeq_bool (nth x p 0) 0)); [|reflexivity].
    rewrite (IH xs r) by lia. fold (adm p xs). destruct (adm p xs); reflexivity.
Qed.

Lemma qsumf_ind (f : nat -> Q) o l : NoDup l ->
  qsumf (fun x => f x * (if Nat.eqb x o then 1 else 0)) l == if in_dec Nat.eq_dec o l then f o else 0.
Proof.
  unfold qsumf. induction 1 as [|a l Na Nl IH]; simpl; [reflexivity|].
  rewrite IH. destruct (Nat.eqb_spec a o) as [->|Ne].
  - destruct (Nat.eq_dec o o); [|contradiction]. destruct (in_dec Nat.eq_dec o l); [contradiction|ring].
  - destruct (Nat.eq_dec a o); [contradiction|]. destruct (in_dec Nat.eq_dec o l); ring.
Qed.

Section Oracle.
Variable M : nat.
Variable p : list Q.
Hypothesis Hs : qsum p == 1.
Hypothesis Hl : (length p <= M)%nat.

Lemma sum_p : qsumf (fun x => nth x p 0) (seq 0 M) == 1.
Proof.
  rewrite <- Hs. replace M with (length p + (M - length p))%nat by lia.
  rewrite seq_app, qsumf_app. simpl plus.
  assert (qsumf (fun x => nth x p 0) (seq (length p) (M - length p)) == 0) as ->.
  { rewrite (qsumf_ext _ (fun _ => 0)); [apply qsumf_zero|]. intros x I. apply in_seq in I. rewrite nth_overflow by lia. reflexivity. }
  rewrite <- (qsumf_seq_nth p 0). rewrite Qplus_0_r. apply qsumf_ext. intros x _. now rewrite Nat.sub_0_r.
Qed.

Lemma dprob_mass : forall k, tsum M k (dprob p) == 1.
Proof.
  induction k as [|k IH]; [rewrite tsum_0; reflexivity|].
  rewrite tsum_S. rewrite (qsumf_ext _ (fun x => nth x p 0 * 1)).
  - rewrite qsumf_scale_r. rewrite sum_p. ring.
  - intros x _. cbn [dprob]. rewrite tsum_scale, IH. reflexivity.
Qed.

(* the answer at position i is o with probability p[o] *)
Lemma dprob_at : forall k i o, (i < k)%nat ->
  tsum M k (fun xs => dprob p xs * (if Nat.eqb (nth i xs 0%nat) o then 1 else 0)) == nth o p 0 * (if Nat.ltb o M then 1 else 0).
Proof.
  induction k as [|k IH]; intros i o Hi; [lia|].
  rewrite tsum_S. destruct i as [|i].
  - rewrite (qsumf_ext _ (fun x => nth x p 0 * (if Nat.eqb x o then 1 else 0))).
    + rewrite (qsumf_ind (fun x => nth x p 0) o (seq 0 M) (seq_NoDup M 0)).
      destruct (in_dec Nat.eq_dec o (seq 0 M)) as [I|I]; rewrite in_seq in I.
      * replace (Nat.ltb o M) with true by (symmetry; apply Nat.ltb_lt; lia). ring.
      * replace (Nat.ltb o M) with false by (symmetry; apply Nat.ltb_ge; lia). ring.
    + intros x _. cbn [nth]. rewrite (tsum_ext M k _ (fun t => (nth x p 0 * (if Nat.eqb x o then 1 else 0)) * dprob p t)).
      * rewrite tsum_scale, dprob_mass. ring.
      * intros t _. cbn [dprob]. ring.
  - rewrite (qsumf_ext _ (fun x => nth x p 0 * (nth o p 0 * (if Nat.ltb o M then 1 else 0)))).
    + rewrite qsumf_scale_r, sum_p. ring.
    + intros x _. cbn [nth]. rewrite <- (IH i o) by lia. rewrite <- tsum_scale. apply tsum_ext. intros t _. cbn [dprob]. ring.
Qed.
End Oracle.

(* ---------- counting ---------- *)
Lemma qsumf_swap {A B} (h : A -> B -> Q) la lb :
  qsumf (fun a => qsumf (fun b => h a b) lb) la == qsumf (fun b => qsumf (fun a => h a b) la) lb.
Proof.
  induction la as [|a la IH].
  - unfold qsumf at 1. simpl. symmetry. apply (qsumf_zero lb).
  - unfold qsumf at 1. simpl. fold (qsumf (fun a0 => qsumf (fun b => h a0 b) lb) la). rewrite IH.
    rewrite <- qsumf_plus. apply qsumf_ext. intros b _. unfold qsumf. simpl. reflexivity.
Qed.

Lemma tsum_qsumf_swap {B} M n (h : list nat -> B -> Q) lb :
  tsum M n (fun t => qsumf (fun b => h t b) lb) == qsumf (fun b => tsum M n (fun t => h t b)) lb.
Proof. apply qsumf_swap. Qed.

Definition occ {A} (eqb : A -> A -> bool) (k : A) (l : list A) : nat := length (filter (eqb k) l).
Definition cntk {A} (eqb : A -> A -> bool) (k : A) (s : list (A * nat)) : nat :=
  fold_right (fun e a => ((if eqb k (fst e) then snd e else 0) + a)%nat) 0%nat s.

Lemma cntk_app {A} (eqb : A -> A -> bool) k (a b : list (A * nat)) : cntk eqb k (a ++ b) = (cntk eqb k a + cntk eqb k b)%nat.
Proof. induction a as [|x a IH]; simpl; lia. Qed.

Lemma cnt_add_cntk {A} (eqb : A -> A -> bool) (Hs : forall a b, eqb a b = true <-> a = b) k : forall c x,
  cntk eqb k (cnt_add eqb c x) = (cntk eqb k c + (if eqb k x then 1 else 0))%nat.
Proof.
  induction c as [|[y n] c IH]; intros x; simpl; [lia|].
  destruct (eqb x y) eqn:E; simpl.
  - apply Hs in E. subst y. destruct (eqb k x); lia.
  - rewrite IH. lia.
Qed.

Lemma counter_cntk {A} (eqb : A -> A -> bool) (Hs : forall a b, eqb a b = true <-> a = b) k l :
  cntk eqb k (counter eqb l) = occ eqb k l.
Proof.
  unfold counter, occ.
  assert (forall l c, cntk eqb k (fold_left (cnt_add eqb) l c) = (cntk eqb k c + length (filter (eqb k) l))%nat) as G.
  { clear l. induction l as [|x l IH]; intros c; simpl; [lia|]. rewrite IH, cnt_add_cntk by exact Hs.
    destruct (eqb k x); simpl; lia. }
  rewrite G. simpl. lia.
Qed.

Lemma qsumf_seq_shift (f : nat -> Q) a n : qsumf f (seq (S a) n) == qsumf (fun i => f (S i)) (seq a n).
Proof. rewrite <- seq_shift. now rewrite qsumf_map. Qed.

Lemma occ_nth (xs : list nat) o : nq (occ Nat.eqb o xs) == qsumf (fun i => if Nat.eqb (nth i xs 0%nat) o then 1 else 0) (seq 0 (length xs)).
Proof.
  induction xs as [|x xs IH]; [reflexivity|].
  cbn [length seq]. unfold qsumf at 1. cbn [map qsum fold_right]. fold (qsum (map (fun i => if Nat.eqb (nth i (x :: xs) 0%nat) o then 1 else 0) (seq 1 (length xs)))).
  fold (qsumf (fun i => if Nat.eqb (nth i (x :: xs) 0%nat) o then 1 else 0) (seq 1 (length xs))).
  rewrite qsumf_seq_shift. cbn [nth]. rewrite <- IH. unfold occ. cbn [filter].
  rewrite (Nat.eqb_sym x o). destruct (Nat.eqb o x); cbn [length]; [rewrite nq_S; ring|ring].
Qed.

Section Oracle2.
Variable M : nat.
Variable p : list Q.
Hypothesis Hs : qsum p == 1.
Hypothesis Hl : (length p <= M)%nat.

Lemma p_in_range o : nth o p 0 * (if Nat.ltb o M then 1 else 0) == nth o p 0.
Proof.
  destruct (Nat.ltb_spec o M); [ring|]. rewrite nth_overflow by lia. ring.
Qed.

(* E[count of o among k draws] = k * p[o] *)
Lemma dprob_count k o : tsum M k (fun xs => dprob p xs * nq (occ Nat.eqb o xs)) == nq k * nth o p 0.
Proof.
  rewrite (tsum_ext M k _ (fun xs => qsumf (fun i => dprob p xs * (if Nat.eqb (nth i xs 0%nat) o then 1 else 0)) (seq 0 k))).
  - rewrite tsum_qsumf_swap.
    rewrite (qsumf_ext _ (fun _ => nth o p 0)).
    + clear. unfold qsumf. assert (forall a, qsum (map (fun _ : nat => nth o p 0) (seq a k)) == nq k * nth o p 0) as G.
      { induction k as [|k IH]; intros a; simpl; [unfold nq; simpl; ring|]. rewrite IH, nq_S. ring. }
      apply G.
    + intros i I. apply in_seq in I. rewrite (dprob_at M p Hs Hl k i o) by lia. apply p_in_range.
  - intros xs L. rewrite occ_nth, L. rewrite <- qsumf_scale. reflexivity.
Qed.
End Oracle2.

(* ---------- the probability of a tape, read off the call log ---------- *)
Fixpoint lgw (lg : calllog) (tape : list nat) : Q :=
  match lg with
  | [] => 1
  | (k, p) :: lg' => dprob p (firstn k tape) * lgw lg' (skipn k tape)
  end.
Definition lgsize (lg : calllog) : nat := fold_right (fun e a => (fst e + a)%nat) 0%nat lg.

Lemma lgsize_app a b : lgsize (a ++ b) = (lgsize a + lgsize b)%nat.
Proof. induction a as [|x a IH]; simpl; lia. Qed.

Lemma lgw_app : forall lg1 lg2 t1 t2, lgsize lg1 = length t1 -> lgw (lg1 ++ lg2) (t1 ++ t2) == lgw lg1 t1 * lgw lg2 t2.
Proof.
  induction lg1 as [|[k p] lg1 IH]; intros lg2 t1 t2 L; simpl in L.
  - destruct t1; [|discriminate]. simpl. ring.
  - cbn [app lgw].
    rewrite firstn_app, skipn_app. replace (k - length t1)%nat with 0%nat by lia. cbn [firstn skipn]. rewrite app_nil_r.
    rewrite IH; [ring|]. rewrite skipn_length. lia.
Qed.

(* ---------- exact tape consumption ---------- *)
Definition ext_res {A} (r : option (A * list nat * calllog)) (t2 : list nat) : option (A * list nat * calllog) :=
  match r with Some (s, t, lg) => Some (s, t ++ t2, lg) | None => None end.
Definition exact_res {A} (r : option (A * list nat * calllog)) (n : nat) : Prop :=
  forall s t lg, r = Some (s, t, lg) -> t = [] /\ lgsize lg = n.

Lemma split_at {A} (l : list A) k : (k <= length l)%nat -> exists a b, l = a ++ b /\ length a = k.
Proof. intros H. exists (firstn k l), (skipn k l). split; [now rewrite firstn_skipn|]. rewrite firstn_length. lia. Qed.

Lemma take_cols_app : forall ps k t1 t2, length t1 = (k * length ps)%nat ->
  take_cols ps k (t1 ++ t2) = ext_res (take_cols ps k t1) t2 /\ exact_res (take_cols ps k t1) (length t1).
Proof.
  induction ps as [|p ps IH]; intros k t1 t2 L; cbn [take_cols].
  - simpl in L. rewrite Nat.mul_0_r in L. destruct t1; [|discriminate]. split; [reflexivity|].
    intros s t lg [= <- <- <-]. auto.
  - cbn [length] in L. destruct (split_at t1 k) as [xs [t1' [-> Lx]]]; [nia|].
    rewrite app_length in L. assert (length t1' = (k * length ps)%nat) as L' by nia.
    rewrite <- app_assoc. rewrite !draw_app by exact Lx.
    destruct (adm p xs); [|split; [reflexivity|intros s t lg H; discriminate]].
    destruct (IH k t1' t2 L') as [E X]. rewrite E.
    destruct (take_cols ps k t1') as [[[cs t] lg]|] eqn:T; cbn [ext_res]; [|split; [reflexivity|intros s t lg H; discriminate]].
    split; [reflexivity|]. intros s t0 lg0 [= <- <- <-]. destruct (X cs t lg eq_refl) as [-> Sz].
    split; auto. simpl. rewrite app_length. lia.
Qed.

Section Consume.
Variable cond : list (key * list Q).

Lemma pop_loop_app rec full rs m' :
  (full = true -> m' = 0%nat) ->
  (full = false -> forall rs' c t1 t2, length t1 = (c * m')%nat ->
      rec rs' c (t1 ++ t2) = ext_res (rec rs' c t1) t2 /\ exact_res (rec rs' c t1) (length t1)) ->
  forall ocs t1 t2, length t1 = (csum ocs * m')%nat ->
    pop_loop rec full rs ocs (t1 ++ t2) = ext_res (pop_loop rec full rs ocs t1) t2 /\
    exact_res (pop_loop rec full rs ocs t1) (length t1).
Proof.
  intros Hf Hrec. induction ocs as [|[o c] more IH]; intros t1 t2 L; cbn [pop_loop].
  - simpl in L. destruct t1; [|discriminate]. split; [reflexivity|]. intros s t lg [= <- <- <-]. auto.
  - cbn [csum fold_right snd] in L. fold (csum more) in L. destruct full.
    + specialize (Hf eq_refl). subst m'. rewrite Nat.mul_0_r in L. destruct t1; [|discriminate].
      destruct (IH [] t2) as [E X]; [simpl; lia|]. rewrite E.
      destruct (pop_loop rec true rs more []) as [[[acc t] lg]|]; cbn [ext_res]; [|split; [reflexivity|intros s t lg H; discriminate]].
      split; [reflexivity|]. intros s t0 lg0 [= <- <- <-]. apply (X acc t lg eq_refl).
    + destruct (split_at t1 (c * m')) as [a [b [-> La]]]; [nia|].
      rewrite app_length in L. assert (length b = (csum more * m')%nat) as Lb by nia.
      rewrite <- app_assoc. destruct (Hrec eq_refl (rs ++ [o]) c a (b ++ t2) La) as [E1 X1].
      destruct (Hrec eq_refl (rs ++ [o]) c a b La) as [E1' _]. rewrite E1, E1'.
      destruct (rec (rs ++ [o]) c a) as [[[s1 t] lg1]|] eqn:R; cbn [ext_res]; [|split; [reflexivity|intros s t lg H; discriminate]].
      destruct (X1 s1 t lg1 eq_refl) as [-> Sz1]. cbn [app].
      destruct (IH b t2 Lb) as [E2 X2]. rewrite E2.
      destruct (pop_loop rec false rs more b) as [[[s2 t3] lg2]|]; cbn [ext_res]; [|split; [reflexivity|intros s t lg H; discriminate]].
      split; [reflexivity|]. intros s t0 lg0 [= <- <- <-]. destruct (X2 s2 t3 lg2 eq_refl) as [-> Sz2].
      split; auto. rewrite lgsize_app, app_length. lia.
Qed.

Lemma populate_app : forall rest rs nd t1 t2, length t1 = (nd * length rest)%nat ->
  populate rest cond rs nd (t1 ++ t2) = ext_res (populate rest cond rs nd t1) t2 /\
  exact_res (populate rest cond rs nd t1) (length t1).
Proof.
  induction rest as [|indep rest' IH]; intros rs nd t1 t2 L; cbn [populate].
  - simpl in L. rewrite Nat.mul_0_r in L. destruct t1; [|discriminate].
    destruct (dget cond rs); [split; [reflexivity|intros s t lg H; discriminate]|].
    cbn [take_cols ext_res]. split; [reflexivity|]. intros s t lg [= <- <- <-]. auto.
  - destruct (dget cond rs) as [v|].
    + cbn [length] in L. destruct (split_at t1 nd) as [xs [b [-> Lx]]]; [nia|].
      rewrite app_length in L. rewrite <- app_assoc, !draw_app by exact Lx.
      destruct (adm v xs); [|split; [reflexivity|intros s t lg H; discriminate]].
      destruct (counter_csum Nat.eqb xs) as [Cs _].
      assert (length b = (csum (counter Nat.eqb xs) * length rest')%nat) as Lb by (rewrite Cs; nia).
      destruct (pop_loop_app (fun rs' c t => populate rest' cond rs' c t)
                  (match rest' with [] => true | _ :: _ => false end) rs (length rest')
                  ltac:(destruct rest'; [reflexivity|discriminate])
                  ltac:(intros _ rs' c a a2 La; now apply IH)
                  (counter Nat.eqb xs) b t2 Lb) as [E X].
      rewrite E.
      destruct (pop_loop _ _ rs (counter Nat.eqb xs) b) as [[[s t] lg]|]; cbn [ext_res]; [|split; [reflexivity|intros s t lg H; discriminate]].
      split; [reflexivity|]. intros s0 t0 lg0 [= <- <- <-]. destruct (X s t lg eq_refl) as [-> Sz].
      split; auto. simpl. rewrite app_length. lia.
    + destruct (take_cols_app (indep :: rest') nd t1 t2 L) as [E X]. rewrite E.
      destruct (take_cols (indep :: rest') nd t1) as [[[cols t] lg]|]; cbn [ext_res]; [|split; [reflexivity|intros s t lg H; discriminate]].
      split; [reflexivity|]. intros s0 t0 lg0 [= <- <- <-]. apply (X cols t lg eq_refl).
Qed.
End Consume.

(* ---------- expectation over all tapes ---------- *)
Definition integrand (cond : list (key * list Q)) (rest : list (list Q)) (rs : key) (nd : nat)
                     (f : list (key * nat) -> Q) (tape : list nat) : Q :=
  match populate rest cond rs nd tape with Some (s, _, lg) => lgw lg tape * f s | None => 0 end.

(* E_tape [ f (samples) ] where the tape has the law given by the probabilities passed to the oracle *)
Definition expect (M : nat) (cond : list (key * list Q)) (rest : list (list Q)) (rs : key) (nd : nat)
                  (f : list (key * nat) -> Q) : Q :=
  tsum M (nd * length rest) (integrand cond rest rs nd f).

Definition Jint (ps : list (list Q)) (nd : nat) (F : list (list nat) -> Q) (tape : list nat) : Q :=
  match take_cols ps nd tape with Some (cols, _, lg) => lgw lg tape * F cols | None => 0 end.

Lemma take_cols_len : forall ps k tape cols t lg, take_cols ps k tape = Some (cols, t, lg) -> length cols = length ps.
Proof.
  induction ps as [|p ps IH]; intros k tape cols t lg H; cbn [take_cols] in H.
  - now inversion H.
  - destruct (draw p k tape) as [[c t1]|]; [|discriminate].
    destruct (take_cols ps k t1) as [[[cs t2] lg2]|] eqn:T; [|discriminate]. inversion H; subst. simpl. f_equal. eauto.
Qed.

Lemma Jint_ext ps nd F F' tape : (forall cols, length cols = length ps -> F cols == F' cols) ->
  Jint ps nd F tape == Jint ps nd F' tape.
Proof.
  intros H. unfold Jint. destruct (take_cols ps nd tape) as [[[cols t] lg]|] eqn:T; [|reflexivity].
  rewrite (H cols); [reflexivity|]. eapply take_cols_len; eauto.
Qed.

Definition vec_good (M : nat) (p : list Q) : Prop := qsum p == 1 /\ (length p <= M)%nat.

Section Indep.
Variable M : nat.

Lemma J_cons p ps nd F :
  tsum M (nd * S (length ps)) (Jint (p :: ps) nd F) ==
  tsum M nd (fun col => dprob p col * tsum M (nd * length ps) (Jint ps nd (fun cols => F (col :: cols)))).
Proof.
  rewrite (tsum_eq_len M (nd * S (length ps)) (nd + nd * length ps)) by lia.
  rewrite tsum_app. apply tsum_ext. intros col Lc. rewrite <- tsum_scale. apply tsum_ext. intros t2 L2.
  unfold Jint. cbn [take_cols]. rewrite draw_app by exact Lc.
  destruct (adm p col) eqn:A.
  - destruct (take_cols ps nd t2) as [[[cs t] lg]|]; [|ring].
    cbn [lgw]. rewrite firstn_app, skipn_app. replace (nd - length col)%nat with 0%nat by lia.
    cbn [firstn skipn]. rewrite app_nil_r, <- Lc, firstn_all, skipn_all. cbn [app]. ring.
  - rewrite (adm_false_dprob p col A). ring.
Qed.

Lemma J_mass nd : forall ps, Forall (vec_good M) ps -> tsum M (nd * length ps) (Jint ps nd (fun _ => 1)) == 1.
Proof.
  induction ps as [|p ps IH]; intros G.
  - rewrite (tsum_eq_len M _ 0) by (simpl; lia). rewrite tsum_0. unfold Jint. simpl. ring.
  - inversion G as [|? ? [Hs Hl] Gp]; subst. cbn [length]. rewrite J_cons.
    rewrite (tsum_ext M nd _ (fun col => dprob p col * 1)).
    + rewrite tsum_scale_r, (dprob_mass M p Hs Hl). ring.
    + intros col _. rewrite (IH Gp). reflexivity.
Qed.

Definition indq (b : bool) : Q := if b then 1 else 0.

Lemma indq_and a b : indq (a && b) == indq a * indq b.
Proof. destruct a, b; simpl; ring. Qed.

Lemma J_row nd i : (i < nd)%nat -> forall ps ids, Forall (vec_good M) ps -> length ids = length ps ->
  tsum M (nd * length ps) (Jint ps nd (fun cols => indq (key_eqb ids (map (fun c => nth i c 0%nat) cols)))) == jointp ps ids.
Proof.
  intros Hi. induction ps as [|p ps IH]; intros ids G L.
  - destruct ids; [|discriminate]. rewrite (tsum_eq_len M _ 0) by (simpl; lia). rewrite tsum_0. unfold Jint. simpl. ring.
  - destruct ids as [|i0 ids']; [discriminate|]. simpl in L.
    inversion G as [|? ? [Hs Hl] Gp]; subst. cbn [length]. rewrite J_cons.
    rewrite (tsum_ext M nd _ (fun col => dprob p col * indq (Nat.eqb (nth i col 0%nat) i0) * jointp ps ids')).
    + rewrite tsum_scale_r.
      rewrite (tsum_ext M nd _ (fun xs => dprob p xs * (if Nat.eqb (nth i xs 0%nat) i0 then 1 else 0))) by (intros; reflexivity).
      rewrite (dprob_at M p Hs Hl nd i i0 Hi), (p_in_range M p Hl). rewrite jointp_cons. ring.
    + intros col _. rewrite <- (IH ids' Gp) by lia.
      rewrite <- Qmult_assoc. apply Qmult_comp; [reflexivity|]. rewrite <- tsum_scale.
      apply tsum_ext. intros t _. unfold Jint. destruct (take_cols ps nd t) as [[[cs t'] lg]|]; [|ring].
      cbn [map key_eqb list_beq]. fold (key_eqb ids' (map (fun c => nth i c 0%nat) cs)).
      rewrite (Nat.eqb_sym i0). rewrite indq_and. ring.
Qed.

Lemma Jint_sum {B} ps nd (G : B -> list (list nat) -> Q) l tape :
  Jint ps nd (fun cols => qsumf (fun j => G j cols) l) tape == qsumf (fun j => Jint ps nd (G j) tape) l.
Proof.
  unfold Jint. destruct (take_cols ps nd tape) as [[[cols t] lg]|].
  - rewrite <- qsumf_scale. reflexivity.
  - symmetry. apply qsumf_zero.
Qed.
End Indep.

Lemma key_eqb_app_l (rs a b : key) : key_eqb (rs ++ a) (rs ++ b) = key_eqb a b.
Proof. induction rs as [|x rs IH]; [reflexivity|]. cbn [app key_eqb list_beq]. rewrite Nat.eqb_refl. exact IH. Qed.

Lemma cntk_prefix rs ids (c : list (key * nat)) :
  cntk key_eqb (rs ++ ids) (map (fun oc => (rs ++ fst oc, snd oc)) c) = cntk key_eqb ids c.
Proof. induction c as [|[k n] c IH]; simpl; [reflexivity|]. now rewrite key_eqb_app_l, IH. Qed.

Lemma occ_map_sum {B} (g : B -> key) ids l : nq (occ key_eqb ids (map g l)) == qsumf (fun j => indq (key_eqb ids (g j))) l.
Proof.
  induction l as [|j l IH]; [reflexivity|].
  assert (qsumf (fun j0 => indq (key_eqb ids (g j0))) (j :: l) == indq (key_eqb ids (g j)) + qsumf (fun j0 => indq (key_eqb ids (g j0))) l) as ->
    by (unfold qsumf; simpl; reflexivity).
  rewrite <- IH. unfold occ. cbn [map filter].
  destruct (key_eqb ids (g j)); cbn [length indq]; [rewrite nq_S; ring|ring].
Qed.

Section Main.
Variable M : nat.
Variable cond : list (key * list Q).
Variable D : nat.
Hypothesis Hcond : forall st v, dget cond st = Some v -> qsum v == 1 /\ (length v <= M)%nat /\ (length st < D)%nat.

(* no table: nd independent draws from every remaining vector *)
Lemma indep_branch rest rs nd : rest <> [] -> Forall (vec_good M) rest -> dget cond rs = None ->
  expect M cond rest rs nd (fun _ => 1) == 1 /\
  forall ids, length ids = length rest ->
    expect M cond rest rs nd (fun s => nq (cntk key_eqb (rs ++ ids) s)) == nq nd * jointp rest ids.
Proof.
  intros Ne G Hn. unfold expect.
  assert (forall f tape, integrand cond rest rs nd f tape ==
            Jint rest nd (fun cols => f (map (fun oc => (rs ++ fst oc, snd oc)) (counter key_eqb (rows nd cols)))) tape) as Ei.
  { intros f tape. unfold integrand, Jint. destruct rest as [|indep rest']; [contradiction|].
    cbn [populate]. rewrite Hn. destruct (take_cols (indep :: rest') nd tape) as [[[cols t] lg]|]; reflexivity. }
  split.
  - rewrite (tsum_ext M _ _ (Jint rest nd (fun _ => 1))) by (intros; apply Ei). now apply J_mass.
  - intros ids L.
    rewrite (tsum_ext M _ _ (Jint rest nd (fun cols => qsumf (fun j => indq (key_eqb ids (map (fun c => nth j c 0%nat) cols))) (seq 0 nd)))).
    + rewrite (tsum_ext M _ _ (fun tape => qsumf (fun j => Jint rest nd (fun cols => indq (key_eqb ids (map (fun c => nth j c 0%nat) cols))) tape) (seq 0 nd)))
        by (intros; apply Jint_sum).
      rewrite tsum_qsumf_swap.
      rewrite (qsumf_ext _ (fun _ => jointp rest ids)).
      * clear. unfold qsumf. assert (forall a, qsum (map (fun _ : nat => jointp rest ids) (seq a nd)) == nq nd * jointp rest ids) as X.
        { induction nd as [|k IH]; intros a; simpl; [unfold nq; simpl; ring|]. rewrite IH, nq_S. ring. }
        apply X.
      * intros j I. apply in_seq in I. apply J_row; auto. lia.
    + intros tape _. rewrite Ei. apply Jint_ext. intros cols Lc.
      rewrite cntk_prefix, (counter_cntk key_eqb key_eqb_eq).
      unfold rows. destruct cols as [|c0 cols']; [destruct rest; [contradiction|discriminate]|].
      apply occ_map_sum.
Qed.

(* the loop over the distinct outcomes *)
Definition Kint (rec : key -> nat -> list nat -> option (list (key * nat) * list nat * calllog)) (full : bool) (rs : key)
                (ocs : list (nat * nat)) (f : list (key * nat) -> Q) (tape : list nat) : Q :=
  match pop_loop rec full rs ocs tape with Some (s, _, lg) => lgw lg tape * f s | None => 0 end.

Lemma cntk_other rest' rs o i0 ids' c a s t lg : o <> i0 -> rest' <> [] ->
  populate rest' cond (rs ++ [o]) c a = Some (s, t, lg) -> cntk key_eqb (rs ++ i0 :: ids') s = 0%nat.
Proof.
  intros No Ne H. destruct (populate_nodup cond rest' (rs ++ [o]) c a s t lg Ne H) as [_ Sh].
  assert (forall k n, In (k, n) s -> key_eqb (rs ++ i0 :: ids') k = false) as F.
  { intros k n I. destruct (Sh k n I) as [c' [-> _]]. rewrite <- app_assoc, key_eqb_app_l.
    cbn [app key_eqb list_beq]. destruct (Nat.eqb_spec i0 o); [congruence|reflexivity]. }
  clear H Sh. induction s as [|[k n] s IH]; simpl; [reflexivity|].
  rewrite (F k n) by now left. simpl. apply IH. intros k' n' I. apply (F k' n'). now right.
Qed.

Section Loop.
Variable rest' : list (list Q).
Variable rs : key.
Hypothesis Ne' : rest' <> [].
Hypothesis IHmass : forall o c, expect M cond rest' (rs ++ [o]) c (fun _ => 1) == 1.
Variable i0 : nat.
Variable ids' : key.
Variable e1 : Q.
Hypothesis IHexp : forall c, expect M cond rest' (rs ++ [i0]) c (fun s => nq (cntk key_eqb ((rs ++ [i0]) ++ ids') s)) == nq c * e1.

Let rec := fun rs' c t => populate rest' cond rs' c t.
Let m' := length rest'.

Lemma K_cons o c more f (a b : list nat) : length a = (c * m')%nat ->
  Kint rec false rs ((o, c) :: more) f (a ++ b) ==
  match populate rest' cond (rs ++ [o]) c a with
  | Some (s1, _, lg1) =>
      match pop_loop rec false rs more b with
      | Some (s2, _, lg2) => lgw lg1 a * lgw lg2 b * f (s1 ++ s2)
      | None => 0
      end
  | None => 0
  end.
Proof.
  intros La. unfold Kint. cbn [pop_loop]. unfold rec at 1.
  destruct (populate_app cond rest' (rs ++ [o]) c a b La) as [E X]. rewrite E.
  destruct (populate rest' cond (rs ++ [o]) c a) as [[[s1 t] lg1]|]; cbn [ext_res]; [|reflexivity].
  destruct (X s1 t lg1 eq_refl) as [-> Sz]. cbn [app].
  destruct (pop_loop rec false rs more b) as [[[s2 t3] lg2]|]; [|reflexivity].
  rewrite lgw_app by exact Sz. reflexivity.
Qed.

Lemma K_mass : forall ocs, tsum M (csum ocs * m') (Kint rec false rs ocs (fun _ => 1)) == 1.
Proof.
  induction ocs as [|[o c] more IH].
  - rewrite (tsum_eq_len M _ 0) by (simpl; lia). rewrite tsum_0. unfold Kint. simpl. ring.
  - rewrite (tsum_eq_len M _ (c * m' + csum more * m')) by (cbn [csum fold_right snd]; fold (csum more); lia).
    rewrite tsum_app.
    rewrite (tsum_ext M _ _ (fun a => integrand cond rest' (rs ++ [o]) c (fun _ => 1) a * 1)).
    + rewrite tsum_scale_r.
      assert (tsum M (c * m') (integrand cond rest' (rs ++ [o]) c (fun _ => 1)) == 1) as -> by apply IHmass. ring.
    + intros a La. rewrite <- IH, <- tsum_scale. apply tsum_ext. intros b _.
      rewrite K_cons by exact La. unfold integrand, Kint.
      destruct (populate rest' cond (rs ++ [o]) c a) as [[[s1 t] lg1]|]; [|ring].
      destruct (pop_loop rec false rs more b) as [[[s2 t3] lg2]|]; ring.
Qed.

Lemma K_exp : forall ocs,
  tsum M (csum ocs * m') (Kint rec false rs ocs (fun s => nq (cntk key_eqb (rs ++ i0 :: ids') s)))
  == nq (cntk Nat.eqb i0 ocs) * e1.
Proof.
  induction ocs as [|[o c] more IH].
  - rewrite (tsum_eq_len M _ 0) by (simpl; lia). rewrite tsum_0. unfold Kint. simpl. unfold nq. simpl. ring.
  - rewrite (tsum_eq_len M _ (c * m' + csum more * m')) by (cbn [csum fold_right snd]; fold (csum more); lia).
    rewrite tsum_app.
    rewrite (tsum_ext M _ _ (fun a =>
       integrand cond rest' (rs ++ [o]) c (fun s => nq (cntk key_eqb (rs ++ i0 :: ids') s)) a * 1 +
       integrand cond rest' (rs ++ [o]) c (fun _ => 1) a * (nq (cntk Nat.eqb i0 more) * e1))).
    + rewrite tsum_plus, !tsum_scale_r.
      assert (tsum M (c * m') (integrand cond rest' (rs ++ [o]) c (fun _ => 1)) == 1) as -> by apply IHmass.
      cbn [cntk fold_right fst snd]. fold (cntk Nat.eqb i0 more).
      destruct (Nat.eqb_spec i0 o) as [<-|No].
      * assert (tsum M (c * m') (integrand cond rest' (rs ++ [i0]) c (fun s => nq (cntk key_eqb (rs ++ i0 :: ids') s))) == nq c * e1) as ->.
        { rewrite <- IHexp. unfold expect. apply tsum_ext. intros t _. unfold integrand.
          destruct (populate rest' cond (rs ++ [i0]) c t) as [[[s t'] lg]|]; [|reflexivity].
          now rewrite <- app_assoc. }
        unfold nq. rewrite Nat2Z.inj_add, inject_Z_plus. ring.
      * rewrite (tsum_ext M _ _ (fun _ => 0)).
        -- rewrite tsum_zero. simpl. ring.
        -- intros a _. unfold integrand.
           destruct (populate rest' cond (rs ++ [o]) c a) as [[[s1 t] lg1]|] eqn:P; [|reflexivity].
           rewrite (cntk_other rest' rs o i0 ids' c a s1 t lg1); auto. unfold nq. simpl. ring.
    + intros a La.
      rewrite (tsum_ext M _ _ (fun b =>
         integrand cond rest' (rs ++ [o]) c (fun s => nq (cntk key_eqb (rs ++ i0 :: ids') s)) a * Kint rec false rs more (fun _ => 1) b +
         integrand cond rest' (rs ++ [o]) c (fun _ => 1) a * Kint rec false rs more (fun s => nq (cntk key_eqb (rs ++ i0 :: ids') s)) b)).
      * rewrite tsum_plus, !tsum_scale, K_mass, IH. reflexivity.
      * intros b _. rewrite K_cons by exact La. unfold integrand, Kint.
        destruct (populate rest' cond (rs ++ [o]) c a) as [[[s1 t] lg1]|]; [|ring].
        destruct (pop_loop rec false rs more b) as [[[s2 t3] lg2]|]; [|ring].
        rewrite cntk_app. unfold nq. rewrite Nat2Z.inj_add, inject_Z_plus. ring.
Qed.
End Loop.
End Main.

Lemma pop_loop_full rec rs : forall ocs t,
  pop_loop rec true rs ocs t = Some (map (fun oc => (rs ++ [fst oc], snd oc)) ocs, t, []).
Proof. induction ocs as [|[o c] more IH]; intros t; cbn [pop_loop]; [reflexivity|]. now rewrite IH. Qed.

Lemma cntk_last rs i0 (ocs : list (nat * nat)) :
  cntk key_eqb (rs ++ [i0]) (map (fun oc => (rs ++ [fst oc], snd oc)) ocs) = cntk Nat.eqb i0 ocs.
Proof.
  induction ocs as [|[o c] more IH]; [reflexivity|].
  cbn [map cntk fold_right fst snd]. fold (cntk key_eqb (rs ++ [i0]) (map (fun oc : nat * nat => (rs ++ [fst oc], snd oc)) more)).
  fold (cntk Nat.eqb i0 more). rewrite key_eqb_app_l, IH. cbn [key_eqb list_beq]. now rewrite andb_true_r.
Qed.

Section Main2.
Variable M : nat.
Variable cond : list (key * list Q).
Variable D : nat.
Hypothesis Hcond : forall st v, dget cond st = Some v -> qsum v == 1 /\ (length v <= M)%nat /\ (length st < D)%nat.

Lemma cond_integrand indep rest' rs nd v f outs b : dget cond rs = Some v -> length outs = nd ->
  integrand cond (indep :: rest') rs nd f (outs ++ b) ==
  dprob v outs * Kint (fun rs' c t => populate rest' cond rs' c t) (match rest' with [] => true | _ :: _ => false end)
                      rs (counter Nat.eqb outs) f b.
Proof.
  intros G L. unfold integrand, Kint. cbn [populate]. rewrite G, draw_app by exact L.
  destruct (adm v outs) eqn:A.
  - destruct (pop_loop _ _ rs (counter Nat.eqb outs) b) as [[[s t] lg]|]; [|ring].
    cbn [lgw]. rewrite firstn_app, skipn_app. replace (nd - length outs)%nat with 0%nat by lia.
    cbn [firstn skipn]. rewrite app_nil_r, <- L, firstn_all, skipn_all. cbn [app]. ring.
  - rewrite (adm_false_dprob v outs A). ring.
Qed.

Theorem n_draw : forall rest, rest <> [] -> Forall (vec_good M) rest ->
  forall rs nd, (length rs + length rest = D)%nat ->
    expect M cond rest rs nd (fun _ => 1) == 1 /\
    forall ids, length ids = length rest ->
      expect M cond rest rs nd (fun s => nq (cntk key_eqb (rs ++ ids) s)) == nq nd * ecount rest cond rs 1 ids.
Proof.
  induction rest as [|indep rest' IH]; intros Ne G rs nd LD; [contradiction|].
  destruct (dget cond rs) as [v|] eqn:Gv.
  2:{ destruct (indep_branch M cond (indep :: rest') rs nd Ne G Gv) as [A B]. split; auto.
      intros ids L. rewrite (B ids L), (ecount_none cond _ rs 1 ids Gv). ring. }
  destruct (Hcond rs v Gv) as [Hs [Hl Hd]]. inversion G as [|? ? _ G']; subst.
  assert (forall f, expect M cond (indep :: rest') rs nd f ==
            tsum M nd (fun outs => dprob v outs *
              tsum M (nd * length rest') (Kint (fun rs' c t => populate rest' cond rs' c t)
                                               (match rest' with [] => true | _ :: _ => false end)
                                               rs (counter Nat.eqb outs) f))) as Ex.
  { intros f. unfold expect. cbn [length].
    rewrite (tsum_eq_len M (nd * S (length rest')) (nd + nd * length rest')) by lia.
    rewrite tsum_app. apply tsum_ext. intros outs Lo. rewrite <- tsum_scale. apply tsum_ext. intros b _.
    now apply cond_integrand. }
  destruct rest' as [|i2 rest''] eqn:Er.
  - (* the next level is the last one: every outcome is a full state *)
    assert (forall f outs, tsum M (nd * 0) (Kint (fun rs' c t => populate [] cond rs' c t) true rs (counter Nat.eqb outs) f)
                           == f (map (fun oc => (rs ++ [fst oc], snd oc)) (counter Nat.eqb outs))) as Kf.
    { intros f outs. rewrite (tsum_eq_len M _ 0) by lia. rewrite tsum_0. unfold Kint. rewrite pop_loop_full. simpl. ring. }
    split.
    + rewrite Ex. rewrite (tsum_ext M nd _ (fun outs => dprob v outs * 1)) by (intros; cbn [length]; now rewrite Kf).
      rewrite tsum_scale_r, (dprob_mass M v Hs Hl). ring.
    + intros ids L. destruct ids as [|i0 [|? ?]]; try discriminate.
      rewrite Ex.
      rewrite (tsum_ext M nd _ (fun outs => dprob v outs * nq (occ Nat.eqb i0 outs))).
      * rewrite (dprob_count M v Hs Hl).
        rewrite (ecount_cons_some cond indep [] rs 1 i0 [] v Gv).
        destruct (dget cond (rs ++ [i0])) as [u|] eqn:Gu.
        { destruct (Hcond _ _ Gu) as [_ [_ X]]. rewrite app_length in X. simpl in *. lia. }
        rewrite (ecount_none cond [] (rs ++ [i0]) _ [] Gu). simpl. ring.
      * intros outs _. cbn [length]. rewrite Kf, cntk_last, (counter_cntk Nat.eqb Nat.eqb_eq). reflexivity.
  - (* recursion one level down *)
    rewrite <- Er in *. assert (rest' <> []) as Ne' by (rewrite Er; discriminate).
    assert (forall o c, expect M cond rest' (rs ++ [o]) c (fun _ => 1) == 1) as IHm.
    { intros o c. apply IH; auto. rewrite app_length. simpl in *. lia. }
    assert (forall outs, length outs = nd -> (nd * length rest' = csum (counter Nat.eqb outs) * length rest')%nat) as Lc.
    { intros outs Lo. destruct (counter_csum Nat.eqb outs) as [-> _]. now rewrite Lo. }
    assert ((match rest' with [] => true | _ :: _ => false end) = false) as Ef by (rewrite Er; reflexivity).
    try rewrite Ef in Ex. split.
    + rewrite Ex. rewrite (tsum_ext M nd _ (fun outs => dprob v outs * 1)).
      * rewrite tsum_scale_r, (dprob_mass M v Hs Hl). ring.
      * intros outs Lo. rewrite (tsum_eq_len M _ _ _ (Lc outs Lo)).
        rewrite (K_mass M cond rest' rs IHm). reflexivity.
    + intros ids L. destruct ids as [|i0 ids']; [discriminate|]. cbn [length] in L.
      set (e1 := ecount rest' cond (rs ++ [i0]) 1 ids').
      assert (forall c, expect M cond rest' (rs ++ [i0]) c (fun s => nq (cntk key_eqb ((rs ++ [i0]) ++ ids') s)) == nq c * e1) as IHe.
      { intros c. apply IH; auto; try lia. rewrite app_length. simpl in *. lia. }
      rewrite Ex. rewrite (tsum_ext M nd _ (fun outs => dprob v outs * nq (occ Nat.eqb i0 outs) * e1)).
      * rewrite tsum_scale_r, (dprob_count M v Hs Hl).
        rewrite (ecount_cons_some cond indep rest' rs 1 i0 ids' v Gv).
        rewrite (ecount_lin cond rest' (rs ++ [i0]) (1 * nth i0 v 0)). fold e1. ring.
      * intros outs Lo. rewrite (tsum_eq_len M _ _ _ (Lc outs Lo)).
        rewrite (K_exp M cond rest' rs Ne' IHm i0 ids' e1 IHe).
        rewrite (counter_cntk Nat.eqb Nat.eqb_eq). ring.
Qed.
End Main2.

(* ---------- the sampler of _generate_qpd_weights ---------- *)
Definition maxlen (probs : list (list Q)) : nat := fold_right (fun v a => Nat.max (length v) a) 0%nat probs.

Lemma maxlen_nth probs k : (length (nth k probs []) <= maxlen probs)%nat.
Proof.
  revert k; induction probs as [|v r IH]; intros k; simpl; [destruct k; simpl; lia|].
  destruct k as [|k]; [lia|]. specialize (IH k). lia.
Qed.

Lemma maxlen_in probs v : In v probs -> (length v <= maxlen probs)%nat.
Proof. induction probs as [|u r IH]; simpl; [tauto|]. intros [->|I]; [lia|]. specialize (IH I). lia. Qed.

Lemma gen_unsorted_cond_len probs perms thr st v :
  Forall nonneg probs -> sorting_perms_b probs perms = true ->
  In (YCond st v) (gen_unsorted probs perms thr) -> length v = length (nth (length st) probs []).
Proof.
  intros N S H. unfold gen_unsorted in H. apply in_map_iff in H. destruct H as [y [E I]].
  destruct y as [|c v']; simpl in E; [discriminate|]. inversion E; subst. clear E.
  pose proof (sorted_probs_length probs perms S) as Ls.
  pose proof (sorting_perms_length probs perms S) as Lp.
  assert (Forall nonneg (sorted_probs probs perms)) as Ns.
  { clear I. revert perms S Ls Lp. induction probs as [|b rb IHb]; intros [|p rp] S Ls Lp; simpl in *; try discriminate; constructor.
    - inversion N; subst. unfold nonneg, apply_perm. rewrite Forall_forall. intros x Hx.
      apply in_map_iff in Hx. destruct Hx as [j [<- _]]. now apply nth_nonneg.
    - inversion N; subst. apply andb_prop in S as [_ S]. apply IHb; auto. }
  unfold dfs_spec in I.
  pose proof (node_under thr _ [] 1 _ I) as [c0 [Ec [Oc Lc]]]. simpl in Ec, Lc. subst c0.
  assert (length c < length probs)%nat as Hc by lia.
  rewrite unperm_state_length by lia. rewrite unperm_vec_length.
  destruct (nth_sorted_probs probs perms (length c) S Hc) as [_ Sp].
  now destruct (sorting_perm_facts _ _ Sp) as [Lpk _].
Qed.

Lemma sampler_tables probs perms q mins ret cond wts0 :
  valid probs -> sorting_perms_b probs perms = true -> 1 <= q ->
  all_some (map min_filter_nonzero probs) = Some mins -> ~ 1 / q <= qprod mins ->
  dfs_acc probs perms q = (ret, cond, wts0) -> (1 <= Qceiling (wts0 * q))%Z ->
  forall st v, dget cond st = Some v ->
    qsum v == 1 /\ (length v <= maxlen probs)%nat /\ (length st < length probs)%nat.
Proof.
  intros V S Hq Em Na Eacc Hs st v G.
  destruct (fin_context probs perms q mins ret cond wts0 V S Hq Em Na Eacc Hs) as [_ [_ [Ec [Ew [Hn [Hl Wp]]]]]].
  rewrite Ec in G. destruct (find_cond (acc_yields probs perms q) st) as [u|] eqn:F; [|discriminate].
  inversion G; subst v. clear G.
  assert (length u = length (nth (length st) probs [])) as Lu.
  { unfold acc_yields in F. destruct (Qle_bool (1 / q) (qprod (map qmax probs))); [|simpl in F; discriminate].
    apply find_cond_In in F. eapply gen_unsorted_cond_len; eauto. now apply valid_nonneg. }
  split; [|split; [|eapply Hl; eauto]].
  - destruct st as [|a st']; [|apply (Hn (a :: st') u); [discriminate|exact F]].
    simpl. apply qsum_div_self. rewrite F in Ew. intros Z. rewrite Ew, Z in Wp. lra.
  - assert (length (norm_top st u) = length u) as -> by (destruct st; simpl; [apply map_length|reflexivity]).
    rewrite Lu. apply maxlen_nth.
Qed.

Lemma valid_vec_good probs : valid probs -> Forall (vec_good (maxlen probs)) probs.
Proof.
  intros V. rewrite Forall_forall. intros v I. unfold valid in V. rewrite Forall_forall in V.
  destruct (V v I) as [_ Sv]. split; auto. now apply maxlen_in.
Qed.

(* The tape law of the sampler is a probability law, and the expectation of the sampled weight of every joint map that
   was not evaluated exactly is N * p.  O-choice enters through `expect` only: a call answers xs with probability
   prod p[x], independently of the other calls. *)
Theorem sampler_unbiased probs perms q ret cond nd ssw ids :
  valid probs -> sorting_perms_b probs perms = true -> nonzero_atol * q <= 1 ->
  no_entry_in_cutoff probs perms (1 / q) ->
  gen_core probs perms (Fin q) = Ok (CSample ret cond nd ssw) ->
  in_range probs ids -> dget ret ids = None ->
  expect (maxlen probs) cond probs [] nd (fun _ => 1) == 1 /\
  expect (maxlen probs) cond probs [] nd (fun s => ssw * nq (cntk key_eqb ids s)) == q * jointp probs ids.
Proof.
  intros V S A NC G R Dn.
  pose proof (unbiased probs perms q ids _ V S A NC G R) as U.
  unfold expected_weight in U. rewrite G, Dn in U.
  destruct (gen_core_fin_inv _ _ _ _ G) as [Hq F].
  destruct F as [mins Em Ae Ec0|mins ret0 cond0 wts0 Em Na Eacc Hs Ec0|mins ret0 cond0 wts0 rs Em Na Eacc Hs Lw Dn0 Ec0
                |mins ret0 cond0 wts0 Em Na Eacc Hs Ec0]; try discriminate.
  inversion Ec0; subst ret cond nd ssw. clear Ec0.
  pose proof (sampler_tables probs perms q mins ret0 cond0 wts0 V S Hq Em Na Eacc Hs) as Tb.
  assert (probs <> []) as Ne.
  { intros ->. simpl in Em. inversion Em; subst. simpl in Na. destruct (thr_facts q Hq). lra. }
  apply in_range_idx_ok in R. destruct R as [_ L].
  destruct (n_draw (maxlen probs) cond0 (length probs) Tb probs Ne (valid_vec_good probs V) [] (Z.to_nat (Qceiling (wts0 * q))) eq_refl)
    as [Ms Ex].
  split; [exact Ms|].
  specialize (Ex ids L). simpl app in Ex.
  unfold expect in *. rewrite (tsum_ext _ _ _ (fun t => (wts0 * q / inject_Z (Qceiling (wts0 * q))) *
        integrand cond0 probs [] (Z.to_nat (Qceiling (wts0 * q))) (fun s => nq (cntk key_eqb ids s)) t)).
  - rewrite tsum_scale, Ex, <- U. rewrite (ecount_lin cond0 probs [] (inject_Z (Z.of_nat (Z.to_nat (Qceiling (wts0 * q)))))).
    unfold nq. ring.
  - intros t _. unfold integrand. destruct (populate probs cond0 [] _ t) as [[[s t'] lg]|]; ring.
Qed.

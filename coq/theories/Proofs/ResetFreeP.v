(* Proofs/ResetFreeP.v — lemmas for Properties/C19.v.
   A  reset-flag lists (dropT / trimT / LFb / TFb / Wb)
   B  instruction-level counterparts
   C  wire normal forms of the three list passes (early exits included)
   D  post-conditions of the three passes (every workflow)
   E  the sufficient pattern => no Reset left
   F  no re-use => pattern (splice of Move-like bases), the finish pipeline
   G  values (Herbrand terms of the classical bits) *)
From Coq Require Import Lia ZifyBool.
From CKT Require Import Common.Base Common.Circ Common.Herbrand
  Model.ResetPasses Model.Decompose Model.Measurement Model.ResetFree
  Proofs.ResetPassesP Proofs.ResetPassesSem Proofs.DecomposeP.

(* ====================================================================== *)
(* A. flag lists                                                           *)
(* ====================================================================== *)

Lemma allfalse_app a b : allfalse (a ++ b) = allfalse a && allfalse b.
Proof. apply forallb_app. Qed.

Lemma allfalse_dropT l : allfalse l = true -> allfalse (dropT l) = true.
Proof. unfold allfalse. induction l as [|[|] r IH]; simpl; auto; discriminate. Qed.

Lemma allfalse_trimT l : allfalse l = true -> allfalse (trimT l) = true.
Proof.
  unfold allfalse. induction l as [|[|] r IH]; simpl; auto; try discriminate.
  intros H. specialize (IH H). destruct (trimT r); simpl in *; auto.
Qed.

Lemma dropT_trimT l : dropT (trimT l) = trimT (dropT l).
Proof.
  induction l as [|[|] r IH]; simpl; auto.
  - rewrite <- IH. destruct (trimT r); reflexivity.
  - destruct (trimT r); reflexivity.
Qed.

Lemma allfalse_LFb l : allfalse l = true -> LFb l = true.
Proof. apply allfalse_dropT. Qed.
Lemma allfalse_TFb l : allfalse l = true -> TFb l = true.
Proof. apply allfalse_trimT. Qed.

Lemma LFb_app a b : LFb a = true -> allfalse b = true -> LFb (a ++ b) = true.
Proof.
  unfold LFb. induction a as [|[|] r IH]; simpl; intros Ha Hb.
  - now apply allfalse_dropT.
  - now apply IH.
  - change (allfalse (r ++ b) = true). rewrite allfalse_app. simpl in Ha. now rewrite Ha, Hb.
Qed.

Lemma TFb_app a b : allfalse a = true -> TFb b = true -> TFb (a ++ b) = true.
Proof.
  unfold TFb. induction a as [|[|] r IH]; simpl; intros Ha Hb; auto; try discriminate.
  specialize (IH Ha Hb). destruct (trimT (r ++ b)); simpl in *; auto.
Qed.

Lemma TFb_Wb l : TFb l = true -> Wb l = true.
Proof. unfold TFb, Wb. intros H. rewrite <- dropT_trimT. now apply allfalse_dropT. Qed.

Lemma LFb_Wb l : LFb l = true -> Wb l = true.
Proof. unfold LFb, Wb. apply allfalse_trimT. Qed.

Lemma Wb_app a b : LFb a = true -> TFb b = true -> Wb (a ++ b) = true.
Proof.
  induction a as [|[|] r IH]; simpl; intros Ha Hb.
  - now apply TFb_Wb.
  - apply IH; assumption.
  - unfold Wb. simpl dropT. change (TFb ((false :: r) ++ b) = true). apply TFb_app; assumption.
Qed.

Lemma trimT_snoc l x : trimT (l ++ [x]) = if x then trimT l else l ++ [x].
Proof.
  induction l as [|b r IH]; simpl.
  - destruct x; reflexivity.
  - rewrite IH. destruct x; [reflexivity|]. destruct (r ++ [false]) eqn:E; [|reflexivity].
    destruct r; discriminate.
Qed.

Lemma trimT_rev l : rev (dropT (rev l)) = trimT l.
Proof.
  induction l as [|x r IH] using rev_ind; [reflexivity|].
  rewrite rev_app_distr, trimT_snoc. simpl. destruct x; [exact IH|].
  simpl. now rewrite rev_involutive.
Qed.

Lemma trimT_all_true l : forallb (fun b : bool => b) l = true -> trimT l = [].
Proof. induction l as [|[|] r IH]; simpl; intros H; try discriminate; auto. now rewrite IH. Qed.

Lemma dropT_all_true l : forallb (fun b : bool => b) l = true -> dropT l = [].
Proof. induction l as [|[|] r IH]; simpl; intros H; try discriminate; auto. Qed.

(* the pointwise reading of "resets only at the beginning and at the end" *)
Lemma tail_pointwise r :
  (forall l1 l2, r = l1 ++ true :: l2 -> forallb (fun b : bool => b) l2 = true) -> allfalse (trimT r) = true.
Proof.
  induction r as [|b r IH]; intros H; [reflexivity|].
  assert (IH' : allfalse (trimT r) = true).
  { apply IH. intros l1 l2 E. apply (H (b :: l1) l2). now rewrite E. }
  simpl. destruct b.
  - rewrite (trimT_all_true r); [reflexivity|]. apply (H [] r). reflexivity.
  - destruct (trimT r); simpl in *; auto.
Qed.

Lemma Wb_pointwise l :
  (forall l1 l2, l = l1 ++ true :: l2 ->
     forallb (fun b : bool => b) l1 = true \/ forallb (fun b : bool => b) l2 = true) -> Wb l = true.
Proof.
  induction l as [|b r IH]; intros H; [reflexivity|]. destruct b.
  - unfold Wb. simpl. apply IH. intros l1 l2 E. destruct (H (true :: l1) l2) as [A|A]; [now rewrite E| |now right].
    simpl in A. now left.
  - unfold Wb. simpl dropT. apply tail_pointwise. intros l1 l2 E. destruct l1 as [|b1 l1]; [discriminate|].
    simpl in E. injection E as E1 E. subst b1. destruct (H (false :: l1) l2) as [A|A]; [now rewrite E|discriminate|assumption].
Qed.

(* ====================================================================== *)
(* B. instruction lists                                                    *)
(* ====================================================================== *)

Lemma flags_drop_resets l : map is_reset (drop_resets l) = dropT (map is_reset l).
Proof. induction l as [|x r IH]; simpl; [reflexivity|]. destruct (is_reset x) eqn:E; simpl; [exact IH|now rewrite E]. Qed.

Lemma flags_trim_resets l : map is_reset (trim_resets l) = trimT (map is_reset l).
Proof. unfold trim_resets. now rewrite map_rev, flags_drop_resets, map_rev, trimT_rev. Qed.

Lemma proj_q_app q a b : proj_q q (a ++ b) = proj_q q a ++ proj_q q b.
Proof. apply filter_app. Qed.

Lemma proj_q_rev q a : proj_q q (rev a) = rev (proj_q q a).
Proof.
  induction a as [|x r IH]; [reflexivity|]. simpl. rewrite proj_q_app, IH. unfold proj_q at 2. simpl.
  destruct (on_wire q x); simpl; [reflexivity|now rewrite app_nil_r].
Qed.

Lemma wflags_app q a b : wflags q (a ++ b) = wflags q a ++ wflags q b.
Proof. unfold wflags. now rewrite proj_q_app, map_app. Qed.

Lemma reset_wf_spec nq x : reset_wf nq x = true -> is_reset x = true -> iqs x = [rq x] /\ rq x < nq.
Proof.
  unfold reset_wf, rq. intros H R. rewrite R in H. destruct (iqs x) as [|a [|b r]]; try discriminate.
  simpl. split; [reflexivity|]. now apply Nat.ltb_lt.
Qed.

Lemma reset_on_wire nq x q : reset_wf nq x = true -> is_reset x = true -> on_wire q x = Nat.eqb q (rq x).
Proof. intros H R. destruct (reset_wf_spec nq x H R) as [E _]. unfold on_wire. rewrite E. simpl. apply orb_false_r. Qed.

Lemma resets_wf_cons nq x c : resets_wf nq (x :: c) = true -> reset_wf nq x = true /\ resets_wf nq c = true.
Proof. unfold resets_wf. simpl. intros H. now apply andb_prop in H. Qed.

Lemma wf_resets_wf nq nc c : wf nq nc c = true -> resets_wf nq c = true.
Proof.
  unfold wf, resets_wf. rewrite !forallb_forall. intros H x I. specialize (H x I).
  unfold reset_wf. destruct (is_reset x) eqn:R; [|reflexivity].
  destruct (wf_reset nq nc x H R) as (E & _ & L). rewrite E. now apply Nat.ltb_lt.
Qed.

Lemma del_resets_resets_wf nq a b : del_resets a b -> resets_wf nq a = true -> resets_wf nq b = true.
Proof. unfold resets_wf. rewrite !forallb_forall. intros H W x I. apply W. eapply del_resets_In; eauto. Qed.

Lemma del_resets_count a b : del_resets a b -> count_resets b <= count_resets a.
Proof.
  unfold count_resets. intros H; induction H as [|x a b H IH|x a b R H IH]; simpl; auto.
  - destruct (is_reset x); simpl; lia.
  - rewrite R. simpl. lia.
Qed.

(* ====================================================================== *)
(* C. wire normal forms of the three passes                                *)
(* ====================================================================== *)

Lemma proj_q_cons q x r : proj_q q (x :: r) = if on_wire q x then x :: proj_q q r else proj_q q r.
Proof. reflexivity. Qed.

Lemma count_true_le f : count_true f <= length f.
Proof. unfold count_true. induction f as [|[|] f IH]; simpl; lia. Qed.

Lemma count_true_full f q : count_true f = length f -> q < length f -> nth q f false = true.
Proof.
  revert q; induction f as [|b f IH]; intros q H L; simpl in *; [lia|].
  pose proof (count_true_le f) as B. unfold count_true in *. destruct b; simpl in *.
  - destruct q; [reflexivity|]. apply IH; lia.
  - lia.
Qed.

Lemma nth_rep_true n q : q < n -> nth q (repeat true n) false = true.
Proof. revert q; induction n as [|n IH]; intros [|q] H; simpl; try lia; auto. apply IH; lia. Qed.

Lemma resets_wf_rev nq c : resets_wf nq (rev c) = resets_wf nq c.
Proof.
  unfold resets_wf. destruct (forallb (reset_wf nq) c) eqn:E.
  - rewrite forallb_forall in *. intros x I. apply E. now apply in_rev.
  - destruct (forallb (reset_wf nq) (rev c)) eqn:E'; [|reflexivity].
    rewrite <- E. symmetry. rewrite forallb_forall in *. intros x I. apply E'. now apply in_rev in I.
Qed.

(* _remove_resets_in_zero_state, one wire; [f] = active flags.  The early exit (all flags raised) is harmless. *)
Lemma zmask_proj nq q c : resets_wf nq c = true -> q < nq -> forall f, length f = nq ->
  proj_q q (drop_mask (zmask f nq c) c) = if nth q f false then proj_q q c else drop_resets (proj_q q c).
Proof.
  intros W Q. induction c as [|x r IH]; intros f L.
  - simpl. destruct (nth q f false); reflexivity.
  - apply resets_wf_cons in W as [Wx Wr]. specialize (IH Wr).
    cbn [zmask]. destruct (is_reset x) eqn:R.
    + pose proof (reset_on_wire nq x q Wx R) as OW.
      destruct (nth (rq x) f false) eqn:A; cbn [drop_mask]; rewrite !proj_q_cons, OW, (IH f L).
      * destruct (Nat.eqb_spec q (rq x)) as [->|N]; [now rewrite A|]. destruct (nth q f false); reflexivity.
      * destruct (Nat.eqb_spec q (rq x)) as [->|N]; [|reflexivity]. rewrite A. simpl. now rewrite R.
    + set (f' := set_flags f (iqs x) true).
      assert (L' : length f' = nq) by (unfold f'; now rewrite set_flags_length).
      assert (N' : nth q f' false = if on_wire q x then true else nth q f false).
      { unfold f'. rewrite set_flags_nth. unfold on_wire. replace (Nat.ltb q (length f)) with true by (symmetry; apply Nat.ltb_lt; lia).
        now rewrite andb_true_r. }
      destruct (Nat.eqb (count_true f') nq) eqn:CE.
      * cbn [drop_mask]. destruct (nth q f false) eqn:A; [reflexivity|].
        rewrite proj_q_cons. destruct (on_wire q x) eqn:OW; [simpl; now rewrite R|].
        exfalso. apply Nat.eqb_eq in CE. rewrite <- L' in CE. pose proof (count_true_full f' q CE ltac:(lia)) as T.
        rewrite N' in T. simpl in T. congruence.
      * cbn [drop_mask]. rewrite !proj_q_cons, (IH f' L'), N'.
        destruct (on_wire q x) eqn:OW; [|reflexivity].
        destruct (nth q f false); [reflexivity|]. simpl. now rewrite R.
Qed.

(* _remove_final_resets, one wire of the REVERSED data; [f] = ended flags *)
Lemma fmask_proj nq q rc : resets_wf nq rc = true -> q < nq -> forall f, length f = nq ->
  proj_q q (drop_mask (fmask f rc) rc) = if nth q f false then drop_resets (proj_q q rc) else proj_q q rc.
Proof.
  intros W Q. induction rc as [|x r IH]; intros f L.
  - simpl. destruct (nth q f false); reflexivity.
  - apply resets_wf_cons in W as [Wx Wr]. specialize (IH Wr).
    cbn [fmask]. destruct (is_reset x) eqn:R.
    + pose proof (reset_on_wire nq x q Wx R) as OW.
      destruct (nth (rq x) f false) eqn:A; cbn [drop_mask]; rewrite !proj_q_cons, OW, (IH f L).
      * destruct (Nat.eqb_spec q (rq x)) as [->|N]; [|reflexivity]. rewrite A. simpl. now rewrite R.
      * destruct (Nat.eqb_spec q (rq x)) as [->|N]; [now rewrite A|]. destruct (nth q f false); reflexivity.
    + set (f' := set_flags f (iqs x) false).
      assert (L' : length f' = nq) by (unfold f'; now rewrite set_flags_length).
      assert (N' : nth q f' false = if on_wire q x then false else nth q f false).
      { unfold f'. rewrite set_flags_nth. unfold on_wire. replace (Nat.ltb q (length f)) with true by (symmetry; apply Nat.ltb_lt; lia).
        now rewrite andb_true_r. }
      destruct (Nat.eqb (count_true f') 0) eqn:CE.
      * cbn [drop_mask]. rewrite drop_mask_repeat_false. destruct (nth q f false) eqn:A; [|reflexivity].
        rewrite proj_q_cons. destruct (on_wire q x) eqn:OW; [simpl; now rewrite R|].
        exfalso. apply Nat.eqb_eq in CE. pose proof (count_true_0 f' q CE) as T. rewrite N' in T. simpl in T. congruence.
      * cbn [drop_mask]. rewrite !proj_q_cons, (IH f' L'), N'.
        destruct (on_wire q x) eqn:OW; [|reflexivity].
        destruct (nth q f false); [|reflexivity]. simpl. now rewrite R.
Qed.

(* _consolidate_resets, one wire; [f] = "previous instruction on the qubit was a reset" *)
Lemma cmask_wire nq q c : resets_wf nq c = true -> q < nq -> forall f, length f = nq ->
  proj_q q (drop_mask (cmask f c) c) = squash (nth q f false) (proj_q q c).
Proof.
  intros W Q. induction c as [|x r IH]; intros f L; [reflexivity|].
  apply resets_wf_cons in W as [Wx Wr]. specialize (IH Wr).
  cbn [cmask]. destruct (is_reset x) eqn:R.
  - pose proof (reset_on_wire nq x q Wx R) as OW.
    destruct (reset_wf_spec nq x Wx R) as [_ Lq].
    destruct (nth (rq x) f false) eqn:A; cbn [drop_mask]; rewrite !proj_q_cons, OW.
    + rewrite (IH f L). destruct (Nat.eqb_spec q (rq x)) as [->|N]; [|reflexivity]. rewrite A. simpl. now rewrite R.
    + rewrite (IH (upd f (rq x) true)) by now rewrite upd_length.
      destruct (Nat.eqb_spec q (rq x)) as [->|N].
      * rewrite A. simpl. rewrite R. now rewrite nth_upd_same by lia.
      * rewrite nth_upd_other by congruence. reflexivity.
  - set (f' := set_flags f (iqs x) false).
    assert (L' : length f' = nq) by (unfold f'; now rewrite set_flags_length).
    assert (N' : nth q f' false = if on_wire q x then false else nth q f false).
    { unfold f'. rewrite set_flags_nth. unfold on_wire. replace (Nat.ltb q (length f)) with true by (symmetry; apply Nat.ltb_lt; lia).
      now rewrite andb_true_r. }
    cbn [drop_mask]. rewrite !proj_q_cons, (IH f' L'), N'.
    destruct (on_wire q x) eqn:OW; [|reflexivity]. simpl. now rewrite R.
Qed.

Theorem zero_wire nq c q : resets_wf nq c = true -> q < nq ->
  proj_q q (remove_resets_in_zero_state nq c) = drop_resets (proj_q q c).
Proof.
  intros W Q. rewrite zero_as_mask, (zmask_proj nq q c W Q) by apply repeat_length.
  now rewrite nth_repeat_false.
Qed.

Theorem final_wire nq c q : resets_wf nq c = true -> q < nq ->
  proj_q q (remove_final_resets nq c) = trim_resets (proj_q q c).
Proof.
  intros W Q. rewrite final_as_mask, proj_q_rev.
  rewrite (fmask_proj nq q (rev c)) by (try apply repeat_length; try assumption; now rewrite resets_wf_rev).
  rewrite nth_rep_true by assumption. unfold trim_resets. now rewrite proj_q_rev.
Qed.

Theorem consolidate_wire nq c q : resets_wf nq c = true -> q < nq ->
  proj_q q (consolidate_resets nq c) = squash false (proj_q q c).
Proof.
  intros W Q. rewrite consolidate_as_mask, (cmask_wire nq q c W Q) by apply repeat_length.
  now rewrite nth_repeat_false.
Qed.

Lemma zero_resets_wf nq c : resets_wf nq c = true -> resets_wf nq (remove_resets_in_zero_state nq c) = true.
Proof. apply del_resets_resets_wf, zero_only_resets. Qed.
Lemma final_resets_wf nq c : resets_wf nq c = true -> resets_wf nq (remove_final_resets nq c) = true.
Proof. apply del_resets_resets_wf, final_only_resets. Qed.
Lemma pipeline_resets_wf nq c : resets_wf nq c = true -> resets_wf nq (three_passes nq c) = true.
Proof. apply del_resets_resets_wf, pipeline_only_resets. Qed.

(* every wire of every subexperiment: leading resets dropped, then trailing resets dropped, then runs squashed *)
Theorem pipeline_wire nq c q : resets_wf nq c = true -> q < nq ->
  proj_q q (three_passes nq c) = squash false (trim_resets (drop_resets (proj_q q c))).
Proof.
  intros W Q. unfold three_passes, optimise_resets.
  rewrite consolidate_wire by (try assumption; now apply final_resets_wf, zero_resets_wf).
  rewrite final_wire by (try assumption; now apply zero_resets_wf).
  now rewrite zero_wire.
Qed.

(* ====================================================================== *)
(* D. post-conditions of the three passes, every workflow                  *)
(* ====================================================================== *)

Definition head_ok (l : circ) : Prop := match l with y :: _ => is_reset y = false | [] => True end.

Lemma drop_resets_head_ok l : head_ok (drop_resets l).
Proof. induction l as [|x r IH]; simpl; [exact I|]. destruct (is_reset x) eqn:R; [exact IH|exact R]. Qed.

(* deleting resets cannot expose a new first instruction when the first instruction is not a reset *)
Lemma head_kept a b : del_resets a b -> head_ok a -> head_ok b.
Proof.
  intros H; induction H as [|x a b H IH|x a b R H IH]; simpl; intros K; auto. congruence.
Qed.

(* a Reset seen on wire q lives on a qubit of the circuit *)
Lemma reset_on_wire_lt nq c q x : resets_wf nq c = true -> In x (proj_q q c) -> is_reset x = true -> q < nq /\ rq x = q.
Proof.
  intros W I R. apply filter_In in I as [I O]. unfold resets_wf in W. rewrite forallb_forall in W.
  specialize (W x I). rewrite (reset_on_wire nq x q W R) in O. apply Nat.eqb_eq in O. subst q.
  split; [apply (reset_wf_spec nq x W R)|reflexivity].
Qed.

Theorem passes_no_leading nq c : resets_wf nq c = true -> no_leading_reset (three_passes nq c).
Proof.
  intros W q x rest E. destruct (is_reset x) eqn:R; [|reflexivity]. exfalso.
  assert (Q : q < nq).
  { eapply (reset_on_wire_lt nq (three_passes nq c) q x); [now apply pipeline_resets_wf| rewrite E; now left | exact R]. }
  assert (D : del_resets (proj_q q (remove_resets_in_zero_state nq c)) (proj_q q (three_passes nq c))).
  { apply del_resets_proj_q. unfold three_passes, optimise_resets.
    eapply del_resets_trans; [apply final_only_resets|apply consolidate_only_resets]. }
  rewrite zero_wire in D by assumption. apply head_kept in D; [|apply drop_resets_head_ok].
  rewrite E in D. simpl in D. congruence.
Qed.

Theorem passes_no_trailing nq c : resets_wf nq c = true -> no_trailing_reset (three_passes nq c).
Proof.
  intros W q pre x E. destruct (is_reset x) eqn:R; [|reflexivity]. exfalso.
  assert (Q : q < nq).
  { eapply (reset_on_wire_lt nq (three_passes nq c) q x); [now apply pipeline_resets_wf| rewrite E; apply in_or_app; right; now left | exact R]. }
  set (z := remove_resets_in_zero_state nq c).
  assert (D : del_resets (proj_q q (remove_final_resets nq z)) (proj_q q (three_passes nq c))).
  { apply del_resets_proj_q. unfold three_passes, optimise_resets. apply consolidate_only_resets. }
  rewrite final_wire in D by (try assumption; now apply zero_resets_wf).
  apply del_resets_rev in D. unfold trim_resets in D. rewrite rev_involutive in D.
  apply head_kept in D; [|apply drop_resets_head_ok].
  rewrite E, rev_app_distr in D. simpl in D. congruence.
Qed.

Fixpoint ndb (b : bool) (l : circ) : bool :=
  match l with [] => true | x :: r => negb (b && is_reset x) && ndb (is_reset x) r end.

Lemma squash_ndb b l : ndb b (squash b l) = true.
Proof.
  revert b; induction l as [|x r IH]; intros b; [reflexivity|]. simpl.
  destruct (is_reset x) eqn:R.
  - destruct b; [apply IH|]. simpl. rewrite R. apply IH.
  - simpl. rewrite R, andb_false_r. apply IH.
Qed.

Lemma ndb_split b l pre x y post : ndb b l = true -> l = pre ++ x :: y :: post -> is_reset x = true -> is_reset y = false.
Proof.
  revert b l; induction pre as [|p pre IH]; intros b l H E R; subst l; simpl in H.
  - rewrite R in H. simpl in H. apply andb_prop in H as [_ H]. apply andb_prop in H as [H _].
    destruct (is_reset y); [discriminate|reflexivity].
  - apply andb_prop in H as [_ H]. eapply IH; eauto.
Qed.

Theorem passes_no_double nq c : resets_wf nq c = true -> no_double_reset (three_passes nq c).
Proof.
  intros W q pre x y post E R.
  assert (Q : q < nq).
  { eapply (reset_on_wire_lt nq (three_passes nq c) q x); [now apply pipeline_resets_wf| rewrite E; apply in_or_app; right; now left | exact R]. }
  rewrite pipeline_wire in E by assumption.
  eapply ndb_split; [apply (squash_ndb false)|exact E|exact R].
Qed.

(* ====================================================================== *)
(* E. the sufficient pattern                                               *)
(* ====================================================================== *)

Lemma allfalse_no_true l : allfalse l = true -> ~ In true l.
Proof. unfold allfalse. rewrite forallb_forall. intros H I. specialize (H true I). discriminate. Qed.

Lemma final_zero_reset_free nq c : resets_wf nq c = true -> reset_pattern_ok nq c ->
  count_resets (remove_final_resets nq (remove_resets_in_zero_state nq c)) = 0.
Proof.
  intros W P. unfold count_resets.
  set (z := remove_resets_in_zero_state nq c). set (f := remove_final_resets nq z).
  destruct (filter is_reset f) as [|x r] eqn:E; [reflexivity|]. exfalso.
  assert (I : In x (filter is_reset f)) by (rewrite E; now left).
  apply filter_In in I as [I R].
  assert (Wf : resets_wf nq f = true) by (apply final_resets_wf, zero_resets_wf, W).
  pose proof Wf as Wx. unfold resets_wf in Wx. rewrite forallb_forall in Wx. specialize (Wx x I).
  destruct (reset_wf_spec nq x Wx R) as [_ Q].
  assert (Ip : In x (proj_q (rq x) f)).
  { apply filter_In. split; [assumption|]. rewrite (reset_on_wire nq x _ Wx R). apply Nat.eqb_refl. }
  unfold f in Ip. rewrite final_wire in Ip by (try assumption; now apply zero_resets_wf).
  unfold z in Ip. rewrite zero_wire in Ip by assumption.
  apply (in_map is_reset) in Ip. rewrite flags_trim_resets, flags_drop_resets, R in Ip.
  revert Ip. apply allfalse_no_true. exact (P (rq x) Q).
Qed.

Theorem pattern_reset_free nq c : resets_wf nq c = true -> reset_pattern_ok nq c ->
  count_resets (three_passes nq c) = 0.
Proof.
  intros W P. pose proof (final_zero_reset_free nq c W P) as Z.
  pose proof (del_resets_count _ _ (consolidate_only_resets nq (remove_final_resets nq (remove_resets_in_zero_state nq c)))) as L.
  unfold three_passes, optimise_resets. lia.
Qed.

(* the pointwise reading implies the per-wire one *)
Lemma map_filter_split {A B} (f : A -> B) (p : A -> bool) c : forall l1 v l2,
  map f (filter p c) = l1 ++ v :: l2 ->
  exists pre x post, c = pre ++ x :: post /\ p x = true /\ f x = v /\
    map f (filter p pre) = l1 /\ map f (filter p post) = l2.
Proof.
  induction c as [|y c IH]; intros l1 v l2 E; simpl in E.
  - destruct l1; discriminate.
  - destruct (p y) eqn:Py.
    + destruct l1 as [|b l1]; simpl in E.
      * injection E as E1 E2. exists [], y, c. simpl. auto.
      * injection E as E1 E2. destruct (IH _ _ _ E2) as (pre & x & post & -> & Px & Fx & M1 & M2).
        exists (y :: pre), x, post. simpl. rewrite Py. simpl. repeat split; auto. now rewrite M1, E1.
    + destruct (IH _ _ _ E) as (pre & x & post & -> & Px & Fx & M1 & M2).
      exists (y :: pre), x, post. simpl. rewrite Py. auto.
Qed.

Lemma forallb_id_map {A} (f : A -> bool) l : forallb (fun b : bool => b) (map f l) = forallb f l.
Proof. induction l as [|x r IH]; simpl; [reflexivity|]. now rewrite IH. Qed.

Theorem pattern_of_pointwise nq c : resets_wf nq c = true -> reset_pattern_pointwise c -> reset_pattern_ok nq c.
Proof.
  intros W P q Q. apply Wb_pointwise. intros l1 l2 E. unfold wflags, proj_q in E.
  destruct (map_filter_split is_reset (on_wire q) c l1 true l2 E) as (pre & x & post & -> & O & R & M1 & M2).
  assert (Wx : reset_wf nq x = true).
  { unfold resets_wf in W. rewrite forallb_forall in W. apply W, in_or_app. right. now left. }
  rewrite (reset_on_wire nq x q Wx R) in O. apply Nat.eqb_eq in O. subst q.
  destruct (P pre x post eq_refl R) as [A|A]; [left; rewrite <- M1|right; rewrite <- M2];
    rewrite forallb_id_map; exact A.
Qed.

(* ====================================================================== *)
(* F. no re-use => pattern                                                 *)
(* ====================================================================== *)

Lemma wflags_flat_map q (f : instr -> circ) l : wflags q (flat_map f l) = flat_map (fun x => wflags q (f x)) l.
Proof. induction l as [|x r IH]; [reflexivity|]. simpl. now rewrite wflags_app, IH. Qed.

Lemma is_reset_of_bop o a : is_reset (mkI (of_bop o) [a] []) = is_breset o.
Proof. destruct o; reflexivity. Qed.

Lemma wflags_ops_on q a s : wflags q (ops_on a s) = if Nat.eqb q a then bflags s else [].
Proof.
  unfold wflags, ops_on, bflags. induction s as [|o s IH]; simpl; [now destruct (Nat.eqb q a)|].
  unfold on_wire at 1. simpl. rewrite orb_false_r. destruct (Nat.eqb q a) eqn:E; simpl.
  - rewrite IH. now rewrite is_reset_of_bop.
  - exact IH.
Qed.

Lemma wflags_single q x : wflags q [x] = if on_wire q x then [is_reset x] else [].
Proof. unfold wflags. simpl. destruct (on_wire q x); reflexivity. Qed.

Lemma nth_forallb {A} (p : A -> bool) l d m : forallb p l = true -> p d = true -> p (nth m l d) = true.
Proof.
  intros H D. destruct (Nat.lt_ge_cases m (length l)) as [L|L].
  - rewrite forallb_forall in H. apply H, nth_In, L.
  - now rewrite nth_overflow.
Qed.

Lemma mp_reset_free (env : benv) b m : basis_reset_free (nth b env []) = true ->
  let mp := nth m (nth b env []) ([], []) in
  allfalse (bflags (fst mp)) = true /\ allfalse (bflags (snd mp)) = true.
Proof.
  intros H mp. unfold basis_reset_free in H.
  pose proof (nth_forallb _ _ ([], []) m H eq_refl) as K. simpl in K. now apply andb_prop in K.
Qed.

Lemma mp_move_like (env : benv) b m : move_like (nth b env []) = true ->
  let mp := nth m (nth b env []) ([], []) in
  TFb (bflags (fst mp)) = true /\ LFb (bflags (snd mp)) = true.
Proof.
  intros H mp. unfold move_like in H.
  pose proof (nth_forallb _ _ ([], []) m H eq_refl) as K. simpl in K. now apply andb_prop in K.
Qed.

Lemma class_cases (env : benv) b : Nat.eqb (basis_class env b) 2 = false ->
  (basis_class env b = 0 /\ basis_reset_free (nth b env []) = true) \/
  (basis_class env b = 1 /\ move_like (nth b env []) = true).
Proof.
  unfold basis_class. destruct (basis_reset_free (nth b env [])); [now left|].
  destruct (move_like (nth b env [])); [now right|discriminate].
Qed.

Definition fl (env : benv) (q : nat) (x : instr) : list bool := wflags q (splice env x).

(* what one instruction of an admissible subcircuit contributes to wire q after the decomposition *)
Lemma fl_cases (env : benv) nq q x : allowed env nq x = true ->
  (on_wire q x = false -> fl env q x = []) /\
  (src_qubit env x = Some q -> TFb (fl env q x) = true) /\
  (dst_qubit env x = Some q -> LFb (fl env q x) = true) /\
  (src_qubit env x <> Some q -> dst_qubit env x <> Some q -> allfalse (fl env q x) = true).
Proof.
  unfold allowed, fl, splice, src_qubit, dst_qubit, on_wire. intros A.
  destruct (iop x) as [g0|lb| | | | |b bid l|b h bid l|] eqn:OP; try discriminate;
    try (rewrite wflags_single; unfold on_wire, is_reset; rewrite OP;
         destruct (existsb (Nat.eqb q) (iqs x)); repeat split; intros; try discriminate; reflexivity).
  - (* Qpd2 *)
    apply andb_prop in A as [C A]. apply negb_true_iff in C.
    destruct (iqs x) as [|a [|a' [|? ?]]] eqn:QS; try discriminate.
    apply andb_prop in A as [A N]. apply negb_true_iff, Nat.eqb_neq in N. simpl.
    rewrite !orb_false_r.
    destruct bid as [m|].
    + rewrite wflags_app, !wflags_ops_on.
      destruct (class_cases env b C) as [[K RF]|[K ML]]; rewrite K; simpl.
      * destruct (mp_reset_free env b m RF) as [F1 F2].
        assert (AF : allfalse ((if Nat.eqb q a then bflags (fst (nth m (nth b env []) ([], []))) else []) ++
                               (if Nat.eqb q a' then bflags (snd (nth m (nth b env []) ([], []))) else [])) = true).
        { rewrite allfalse_app. destruct (Nat.eqb q a), (Nat.eqb q a'); rewrite ?F1, ?F2; reflexivity. }
        repeat split; intros; try discriminate; auto.
        destruct (Nat.eqb_spec q a), (Nat.eqb_spec q a'); try discriminate; reflexivity.
      * destruct (mp_move_like env b m ML) as [F1 F2].
        repeat split.
        -- intros O. destruct (Nat.eqb q a), (Nat.eqb q a'); try discriminate; reflexivity.
        -- intros E. injection E as <-. rewrite Nat.eqb_refl.
           replace (Nat.eqb a a') with false by (symmetry; now apply Nat.eqb_neq). now rewrite app_nil_r.
        -- intros E. injection E as <-. rewrite Nat.eqb_refl.
           replace (Nat.eqb a' a) with false by (symmetry; apply Nat.eqb_neq; congruence). exact F2.
        -- intros S D. destruct (Nat.eqb_spec q a) as [->|]; [congruence|].
           destruct (Nat.eqb_spec q a') as [->|]; [congruence|]. reflexivity.
    + rewrite wflags_single. unfold on_wire, is_reset. rewrite OP, QS. simpl. rewrite !orb_false_r.
      destruct (Nat.eqb q a || Nat.eqb q a'); repeat split; intros; try discriminate; reflexivity.
  - (* Qpd1 *)
    apply andb_prop in A as [C A]. apply negb_true_iff in C.
    destruct (iqs x) as [|a [|? ?]] eqn:QS; try discriminate. simpl. rewrite !orb_false_r.
    destruct bid as [m|].
    + rewrite wflags_ops_on.
      destruct (class_cases env b C) as [[K RF]|[K ML]]; rewrite K; simpl.
      * destruct (mp_reset_free env b m RF) as [F1 F2].
        assert (AF : allfalse (if Nat.eqb q a then bflags (half_seq h (nth m (nth b env []) ([], []))) else []) = true).
        { destruct (Nat.eqb q a); [|reflexivity]. destruct h; simpl; assumption. }
        destruct h; repeat split; intros; try discriminate; auto;
          destruct (Nat.eqb q a); try discriminate; reflexivity.
      * destruct (mp_move_like env b m ML) as [F1 F2].
        destruct h as [|h]; simpl; repeat split; intros; try discriminate.
        -- destruct (Nat.eqb q a); try discriminate; reflexivity.
        -- match goal with E : Some _ = Some _ |- _ => injection E as <- end. now rewrite Nat.eqb_refl.
        -- destruct (Nat.eqb_spec q a) as [->|]; [congruence|reflexivity].
        -- destruct (Nat.eqb q a); try discriminate; reflexivity.
        -- match goal with E : Some _ = Some _ |- _ => injection E as <- end. now rewrite Nat.eqb_refl.
        -- destruct (Nat.eqb_spec q a) as [->|]; [congruence|reflexivity].
    + rewrite wflags_single. unfold on_wire, is_reset. rewrite OP, QS. simpl. rewrite !orb_false_r.
      destruct (Nat.eqb q a); repeat split; intros; try discriminate; reflexivity.
Qed.

Lemma option_eq_dec_nat (a b : option nat) : {a = b} + {a <> b}.
Proof. decide equality. apply Nat.eq_dec. Qed.

(* ---- one wire of the decomposed subcircuit ---- *)
Section Wire.
Variables (env : benv) (nq q : nat).

Definition F (l : circ) : list bool := flat_map (fl env q) l.

(* the hypothesis of the wire lemmas, for one wire: what no_reuse says about qubit q *)
Definition wire_hyp (sub : circ) : Prop :=
  forall pre x post, sub = pre ++ x :: post ->
    allowed env nq x = true /\
    (src_qubit env x = Some q -> untouched q post = true) /\
    (dst_qubit env x = Some q -> untouched q pre = true).

Lemma wire_hyp_tail x r : wire_hyp (x :: r) -> on_wire q x = false -> wire_hyp r.
Proof.
  intros H O pre y post E. destruct (H (x :: pre) y post) as (A & S & D); [now rewrite E|].
  repeat split; auto. intros Dy. specialize (D Dy). simpl in D. now apply andb_prop in D.
Qed.

Lemma F_untouched l : (forall x, In x l -> allowed env nq x = true) -> untouched q l = true -> F l = [].
Proof.
  induction l as [|x r IH]; intros A U; [reflexivity|]. simpl in U. apply andb_prop in U as [Ux Ur].
  apply negb_true_iff in Ux. unfold F. simpl.
  destruct (fl_cases env nq q x (A x (or_introl eq_refl))) as (Z & _). rewrite (Z Ux). simpl.
  apply IH; [|assumption]. intros y I. apply A. now right.
Qed.

Lemma wire_hyp_allowed sub : wire_hyp sub -> forall x, In x sub -> allowed env nq x = true.
Proof. intros H x I. apply in_split in I as (pre & post & ->). now destruct (H pre x post eq_refl). Qed.

(* no destination on q in r: sources may still end the wire *)
Lemma src_tail r t :
  (forall pre x post, r = pre ++ x :: post ->
     allowed env nq x = true /\ (src_qubit env x = Some q -> untouched q post = true) /\ dst_qubit env x <> Some q) ->
  allfalse t = true ->
  ((exists x, In x r /\ src_qubit env x = Some q) -> t = []) ->
  TFb (F r ++ t) = true.
Proof.
  induction r as [|x r IH]; intros H T S.
  - simpl. now apply allfalse_TFb.
  - destruct (H [] x r eq_refl) as (A & Sx & Dx).
    destruct (fl_cases env nq q x A) as (_ & CS & _ & CN).
    unfold F. simpl. rewrite <- app_assoc. fold (F r).
    destruct (option_eq_dec_nat (src_qubit env x) (Some q)) as [E|E].
    + rewrite (F_untouched r); [| |now apply Sx].
      * rewrite S by (exists x; split; [now left|assumption]). simpl. rewrite app_nil_r. now apply CS.
      * intros y I. apply in_split in I as (pre & post & ->). now destruct (H (x :: pre) y post eq_refl).
    + apply TFb_app; [now apply CN|]. apply IH; [|assumption|].
      * intros pre y post Er. apply (H (x :: pre) y post). now rewrite Er.
      * intros (y & I & Sy). apply S. exists y. split; [now right|assumption].
Qed.

Lemma wire_pattern sub t : wire_hyp sub -> allfalse t = true ->
  ((exists x, In x sub /\ src_qubit env x = Some q) -> t = []) ->
  Wb (F sub ++ t) = true.
Proof.
  induction sub as [|x r IH]; intros H T S.
  - simpl. apply LFb_Wb, allfalse_LFb, T.
  - destruct (H [] x r eq_refl) as (A & Sx & Dx).
    destruct (fl_cases env nq q x A) as (CZ & CS & CD & CN).
    unfold F. simpl. rewrite <- app_assoc. fold (F r).
    destruct (on_wire q x) eqn:O.
    + destruct (option_eq_dec_nat (src_qubit env x) (Some q)) as [E|E].
      * rewrite (F_untouched r); [| |now apply Sx].
        -- rewrite S by (exists x; split; [now left|assumption]). simpl. rewrite app_nil_r. now apply TFb_Wb, CS.
        -- intros y I. apply (wire_hyp_allowed _ H). now right.
      * apply Wb_app.
        -- destruct (option_eq_dec_nat (dst_qubit env x) (Some q)) as [E'|E']; [now apply CD|now apply allfalse_LFb, CN].
        -- apply src_tail; [|assumption|].
           ++ intros pre y post Er. destruct (H (x :: pre) y post) as (Ay & Sy & Dy); [now rewrite Er|].
              repeat split; auto. intros Dq. specialize (Dy Dq). simpl in Dy. rewrite O in Dy. discriminate.
           ++ intros (y & I & Sy). apply S. exists y. split; [now right|assumption].
    + rewrite (CZ eq_refl). simpl. apply IH; [now apply (wire_hyp_tail x)|assumption|].
      intros (y & I & Sy). apply S. exists y. split; [now right|assumption].
Qed.
End Wire.

(* ---- the map choice does not matter: assigning basis_ids keeps everything no_reuse looks at ---- *)
Definition same_kind (env : benv) (nq : nat) (x x' : instr) : Prop :=
  iqs x' = iqs x /\ allowed env nq x' = allowed env nq x /\
  src_qubit env x' = src_qubit env x /\ dst_qubit env x' = dst_qubit env x.

Lemma same_kind_refl env nq x : same_kind env nq x x.
Proof. repeat split. Qed.

Lemma same_kind_set_bid env nq m x : same_kind env nq x (set_bid m x).
Proof.
  unfold same_kind, set_bid, allowed, src_qubit, dst_qubit. simpl.
  destruct (iop x); simpl; repeat split.
Qed.

Lemma mapi_rel {A} (R : A -> A -> Prop) (f : nat -> A -> A) l : (forall j x, R x (f j x)) ->
  forall k, Forall2 R l (mapi_from k f l).
Proof. intros H. induction l as [|x r IH]; intros k; simpl; constructor; auto. Qed.

Lemma assign_same_kind env nq c ids ms : Forall2 (same_kind env nq) c (assign c ids (Some ms)).
Proof.
  unfold assign, assign_gm. apply mapi_rel. intros j x.
  destruct (chosen (combine ids ms) j); [apply same_kind_set_bid|apply same_kind_refl].
Qed.

Lemma untouched_rel env nq q l l' : Forall2 (same_kind env nq) l l' -> untouched q l' = untouched q l.
Proof.
  intros H; induction H as [|x x' l l' K H IH]; [reflexivity|]. simpl. rewrite IH.
  destruct K as (E & _). unfold on_wire. now rewrite E.
Qed.

Lemma no_reuse_rel env nq sub sub' : Forall2 (same_kind env nq) sub sub' -> no_reuse env nq sub -> no_reuse env nq sub'.
Proof.
  intros R H pre' x' post' E. subst sub'.
  apply Forall2_app_inv_r in R as (pre & rest & Rp & Rr & ->).
  inversion Rr as [|x ? post ? K Rpost]; subst.
  destruct (H pre x post eq_refl) as (A & S & D). destruct K as (Ei & Ea & Es & Ed).
  rewrite Ea, Es, Ed. repeat split; [assumption| |].
  - intros q Sq. rewrite (untouched_rel env nq q post post' Rpost). now apply S.
  - intros q Dq. rewrite (untouched_rel env nq q pre pre' Rp). now apply D.
Qed.

Lemma Forall2_In_r {A} (R : A -> A -> Prop) l l' y : Forall2 R l l' -> In y l' -> exists x, In x l /\ R x y.
Proof.
  intros H; induction H as [|a b l l' K H IH]; intros I; [destruct I|].
  destruct I as [<-|I]; [exists a; split; [now left|assumption]|].
  destruct (IH I) as (x & Ix & Rx). exists x. split; [now right|assumption].
Qed.

(* ---- the decomposition's marker numbering changes neither wires nor reset flags ---- *)
Lemma wflags_measures q l : forall k, wflags q (measures_from k l) = wflags q l.
Proof.
  unfold wflags. induction l as [|x r IH]; intros k; [reflexivity|]. simpl.
  destruct (is_marker x) eqn:M; rewrite !proj_q_cons.
  - replace (on_wire q (mkI Measure (iqs x) [k])) with (on_wire q x) by reflexivity.
    destruct (on_wire q x); [|apply IH]. simpl. rewrite IH. f_equal.
    unfold Decompose.is_marker in M. unfold is_reset. simpl. destruct (iop x); try discriminate; reflexivity.
  - destruct (on_wire q x); [|apply IH]. simpl. now rewrite IH.
Qed.

Lemma resets_wf_app nq a b : resets_wf nq (a ++ b) = resets_wf nq a && resets_wf nq b.
Proof. apply forallb_app. Qed.

Lemma resets_wf_measures nq l : resets_wf nq l = true -> forall k, resets_wf nq (measures_from k l) = true.
Proof.
  induction l as [|x r IH]; intros W k; [reflexivity|]. apply resets_wf_cons in W as [Wx Wr]. simpl.
  destruct (is_marker x); unfold resets_wf in *; simpl; rewrite IH by assumption; [reflexivity|now rewrite Wx].
Qed.

Lemma resets_wf_ops_on nq a s : a < nq -> resets_wf nq (ops_on a s) = true.
Proof.
  intros L. unfold resets_wf, ops_on. rewrite forallb_forall. intros y I. apply in_map_iff in I as (o & <- & _).
  unfold reset_wf. destruct (is_reset _); [|reflexivity]. simpl. now apply Nat.ltb_lt.
Qed.

Lemma resets_wf_splice env nq x : allowed env nq x = true -> resets_wf nq (splice env x) = true.
Proof.
  unfold allowed, splice. intros A.
  destruct (iop x) as [g0|lb| | | | |b bid l|b h bid l|] eqn:OP; try discriminate;
    try (unfold resets_wf, reset_wf, is_reset; simpl; rewrite OP; reflexivity).
  - apply andb_prop in A as [_ A]. destruct (iqs x) as [|a [|a' [|? ?]]]; try discriminate.
    apply andb_prop in A as [A _]. apply andb_prop in A as [A1 A2]. apply Nat.ltb_lt in A1, A2.
    destruct bid as [m|]; [|unfold resets_wf, reset_wf, is_reset; simpl; rewrite OP; reflexivity].
    simpl. rewrite resets_wf_app, !resets_wf_ops_on by assumption. reflexivity.
  - apply andb_prop in A as [_ A]. destruct (iqs x) as [|a [|? ?]]; try discriminate. apply Nat.ltb_lt in A.
    destruct bid as [m|]; [|unfold resets_wf, reset_wf, is_reset; simpl; rewrite OP; reflexivity].
    simpl. now apply resets_wf_ops_on.
Qed.

Lemma resets_wf_flat_splice env nq l : (forall x, In x l -> allowed env nq x = true) ->
  resets_wf nq (flat_map (splice env) l) = true.
Proof.
  induction l as [|x r IH]; intros A; [reflexivity|]. simpl. rewrite resets_wf_app, resets_wf_splice by (apply A; now left).
  apply IH. intros y I. apply A. now right.
Qed.

(* ---- the measurement suffix ---- *)
Lemma suffix_no_reset gh gsx g locs bits : forall idx clbit y,
  In y (suffix_from gh gsx g locs bits clbit idx) -> is_reset y = false.
Proof.
  induction idx as [|s r IH]; intros clbit y I; [destruct I|]. simpl in I.
  destruct (nth s g 0) as [|[|[|?]]]; simpl in I;
    repeat (destruct I as [<-|I]; [reflexivity|]); eapply IH; eauto.
Qed.

Lemma suffix_qubits gh gsx g locs bits : forall idx clbit y,
  In y (suffix_from gh gsx g locs bits clbit idx) -> exists s, In s idx /\ iqs y = [nth s locs 0].
Proof.
  induction idx as [|s r IH]; intros clbit y I; [destruct I|]. simpl in I.
  assert (K : (exists s', In s' (s :: r) /\ iqs y = [nth s' locs 0]) \/
              In y (suffix_from gh gsx g locs bits (S clbit) r)).
  { destruct (nth s g 0) as [|[|[|?]]]; simpl in I;
      repeat (destruct I as [<-|I]; [left; exists s; split; [now left|reflexivity]|]); now right. }
  destruct K as [K|K]; [exact K|]. destruct (IH _ _ K) as (s' & Is & E). exists s'. split; [now right|assumption].
Qed.

Lemma no_reset_resets_wf nq l : (forall y, In y l -> is_reset y = false) -> resets_wf nq l = true.
Proof. intros H. unfold resets_wf. rewrite forallb_forall. intros y I. unfold reset_wf. now rewrite (H y I). Qed.

Lemma no_reset_allfalse q l : (forall y, In y l -> is_reset y = false) -> allfalse (wflags q l) = true.
Proof.
  intros H. unfold allfalse, wflags. rewrite forallb_forall. intros b I. apply in_map_iff in I as (y & <- & I).
  apply filter_In in I as [I _]. now rewrite (H y I).
Qed.

Lemma untouched_wflags q l : (forall y, In y l -> ~ In q (iqs y)) -> wflags q l = [].
Proof.
  intros H. unfold wflags, proj_q. induction l as [|y r IH]; [reflexivity|]. simpl.
  destruct (on_wire q y) eqn:O.
  - exfalso. apply on_wire_In in O. apply (H y); [now left|assumption].
  - apply IH. intros z I. apply H. now right.
Qed.

(* ---- the circuit handed to the three passes ---- *)
Lemma no_reuse_wire_hyp env nq sub q : no_reuse env nq sub -> wire_hyp env nq q sub.
Proof. intros H pre x post E. destruct (H pre x post E) as (A & S & D). repeat split; auto. Qed.

Lemma no_reuse_allowed env nq sub : no_reuse env nq sub -> forall x, In x sub -> allowed env nq x = true.
Proof. intros H x I. apply in_split in I as (pre & post & ->). now destruct (H pre x post eq_refl). Qed.

Lemma pre_pass_pattern (env : benv) nq sub' K idx sfx :
  no_reuse env nq sub' ->
  (forall y, In y sfx -> is_reset y = false) ->
  (idx <> [] -> forall x q, In x sub' -> src_qubit env x = Some q -> forall y, In y sfx -> ~ In q (iqs y)) ->
  let c := maybe_remove_final nq idx (measures_from K (flat_map (splice env) sub')) ++ sfx in
  resets_wf nq c = true /\ reset_pattern_ok nq c.
Proof.
  intros H NR AV c.
  pose proof (no_reuse_allowed env nq sub' H) as A.
  assert (W0 : resets_wf nq (measures_from K (flat_map (splice env) sub')) = true)
    by (apply resets_wf_measures, resets_wf_flat_splice, A).
  assert (FL : forall q, wflags q (measures_from K (flat_map (splice env) sub')) = F env q sub').
  { intros q. now rewrite wflags_measures, wflags_flat_map. }
  split.
  - unfold c. rewrite resets_wf_app, (no_reset_resets_wf nq sfx NR), andb_true_r.
    destruct idx; cbn [maybe_remove_final]; [now apply final_resets_wf|assumption].
  - intros q Q. unfold c. rewrite wflags_app.
    pose proof (no_reuse_wire_hyp env nq sub' q H) as WH.
    destruct idx as [|i idx'].
    + cbn [maybe_remove_final]. unfold wflags at 1. rewrite (final_wire nq _ q W0 Q). rewrite flags_trim_resets.
      fold (wflags q (measures_from K (flat_map (splice env) sub'))). rewrite FL.
      pose proof (wire_pattern env nq q sub' [] WH eq_refl (fun _ => eq_refl)) as P. rewrite app_nil_r in P.
      apply LFb_Wb, LFb_app; [|now apply no_reset_allfalse]. unfold LFb. rewrite dropT_trimT. exact P.
    + simpl maybe_remove_final. rewrite FL. apply (wire_pattern env nq); [assumption|now apply no_reset_allfalse|].
      intros (x & I & S). apply untouched_wflags. intros y Iy. apply (AV ltac:(discriminate) x q I S y Iy).
Qed.

Lemma amc_ok gh gsx qc g idx qc' : append_measurement_circuit gh gsx qc g idx None = Ok qc' ->
  exists bits, mnq qc' = mnq qc /\
    mdata qc' = mdata qc ++ measurement_suffix gh gsx g idx (seq 0 (length g)) bits /\
    mnq qc = length g /\
    forallb (fun sub => Nat.ltb (nth sub (seq 0 (length g)) (mnq qc)) (mnq qc)) (pauli_indices_or_dummy idx) = true.
Proof.
  unfold append_measurement_circuit. destruct (negb (Nat.eqb (mnq qc) (length g))) eqn:G; [discriminate|].
  destruct (find_obs_creg (mcregs qc)) as [bits|]; [|discriminate].
  destruct (negb (Nat.eqb (length bits) (length (pauli_indices_or_dummy idx)))); [discriminate|].
  destruct (negb (forallb _ (pauli_indices_or_dummy idx))) eqn:FB; [discriminate|].
  intros E. injection E as <-. exists bits. simpl. apply negb_false_iff in G, FB. apply Nat.eqb_eq in G.
  repeat split; assumption.
Qed.

Lemma suffix_qubits_idx gh gsx g idx bits n y :
  forallb (fun sub => Nat.ltb (nth sub (seq 0 n) n) n) (pauli_indices_or_dummy idx) = true ->
  In y (measurement_suffix gh gsx g idx (seq 0 n) bits) ->
  is_reset y = false /\ exists s, In s (pauli_indices_or_dummy idx) /\ iqs y = [s].
Proof.
  unfold measurement_suffix. intros FB I. split; [eapply suffix_no_reset; eauto|].
  destruct (suffix_qubits _ _ _ _ _ _ _ _ I) as (s & Is & E). exists s. split; [assumption|].
  rewrite forallb_forall in FB. specialize (FB s Is). apply Nat.ltb_lt in FB.
  destruct (Nat.lt_ge_cases s n) as [L|L].
  - rewrite E. f_equal. rewrite (nth_indep _ 0 n) by (now rewrite seq_length). now rewrite seq_nth.
  - rewrite nth_overflow in FB by (now rewrite seq_length). lia.
Qed.

Theorem finish_no_reset gh gsx (env : benv) qc ids ms g idx out :
  valid env (mdata qc) ids ms -> no_reuse env (mnq qc) (mdata qc) -> suffix_avoids_sources env (mdata qc) idx ->
  finish gh gsx env qc ids ms g idx = Ok out -> count_resets out = 0.
Proof.
  intros Hv Hn Hs. unfold finish, pre_pass, append_measurement_register.
  destruct (existsb fst (mcregs qc)); [discriminate|]. cbn [res_bind mdata mnc mnq mcregs].
  rewrite (decompose_splice env (mdata qc) _ ids ms Hv). cbn [res_bind fst snd].
  match goal with |- res_map _ ?R = _ -> _ => destruct R as [qc3| |] eqn:E3; try discriminate end.
  simpl. intros E. injection E as <-.
  apply amc_ok in E3 as (bits & Enq & Ed & Eg & FB). cbn [mnq mdata] in *. rewrite Enq, Ed.
  set (sub' := assign (mdata qc) ids (Some ms)).
  assert (R : Forall2 (same_kind env (mnq qc)) (mdata qc) sub') by apply assign_same_kind.
  rewrite Eg in FB.
  destruct (pre_pass_pattern env (mnq qc) sub' (mnc qc + length (pauli_indices_or_dummy idx)) idx
              (measurement_suffix gh gsx g idx (seq 0 (length g)) bits)) as [W P].
  - now apply (no_reuse_rel env (mnq qc) (mdata qc)).
  - intros y I. now destruct (suffix_qubits_idx _ _ _ _ _ _ _ FB I).
  - intros NE x' q I' S' y Iy Q.
    destruct (suffix_qubits_idx _ _ _ _ _ _ _ FB Iy) as (_ & s & Is & Ey).
    rewrite Ey in Q. destruct Q as [->|[]].
    destruct (Forall2_In_r _ _ _ _ R I') as (x & Ix & (_ & _ & Es & _)).
    apply (Hs x q Ix); [congruence|]. destruct idx; [congruence|exact Is].
  - now apply pattern_reset_free.
Qed.

(* boolean forms, for computing the hypotheses on concrete inputs *)
Lemma no_reuse_from_sound env nq : forall c p, no_reuse_from env nq p c = true ->
  forall pre x post, c = pre ++ x :: post ->
    allowed env nq x = true /\
    (forall q, src_qubit env x = Some q -> untouched q post = true) /\
    (forall q, dst_qubit env x = Some q -> untouched q (p ++ pre) = true).
Proof.
  induction c as [|y c IH]; intros p H pre x post E; [destruct pre; discriminate|].
  simpl in H. apply andb_prop in H as [H H4]. apply andb_prop in H as [H H3]. apply andb_prop in H as [H1 H2].
  destruct pre as [|y' pre]; simpl in E; injection E as -> ->.
  - rewrite app_nil_r. repeat split; [assumption| |].
    + intros q S. rewrite S in H2. exact H2.
    + intros q D. rewrite D in H3. exact H3.
  - destruct (IH _ H4 pre x post eq_refl) as (A & S & D). repeat split; [assumption|assumption|].
    intros q Dq. specialize (D q Dq). now rewrite <- app_assoc in D.
Qed.

Theorem no_reuseb_sound env nq sub : no_reuseb env nq sub = true -> no_reuse env nq sub.
Proof. intros H pre x post E. exact (no_reuse_from_sound env nq sub [] H pre x post E). Qed.

Theorem suffix_avoids_sourcesb_sound env sub idx :
  suffix_avoids_sourcesb env sub idx = true -> suffix_avoids_sources env sub idx.
Proof.
  unfold suffix_avoids_sourcesb. rewrite forallb_forall. intros H x q I S Q. specialize (H x I).
  rewrite S in H. simpl in H. apply negb_true_iff in H. apply existsb_eqb_In in Q. congruence.
Qed.

(* ====================================================================== *)
(* G. values                                                               *)
(* ====================================================================== *)

Lemma hstep_hc_other s ti k : ~ In k (ics (snd ti)) -> nth k (hc (hstep s ti)) None = nth k (hc s) None.
Proof.
  destruct ti as [tag i]. simpl. intros H. unfold hstep.
  destruct (iop i); simpl; try reflexivity.
  - destruct (iqs i) as [|q r]; [reflexivity|]. destruct (ics i) as [|c r']; simpl; [reflexivity|].
    apply nth_upd_other. intros E. apply H. now left.
  - destruct (iqs i); reflexivity.
  - destruct (iqs i) as [|a [|b r]]; reflexivity.
  - destruct (iqs i); reflexivity.
Qed.

Lemma hrun_hc_other k c : forall s, (forall ti, In ti c -> ~ In k (ics (snd ti))) ->
  nth k (hc (hrun s c)) None = nth k (hc s) None.
Proof.
  induction c as [|ti c IH]; intros s H; [reflexivity|]. rewrite hrun_cons, IH.
  - apply hstep_hc_other. apply H. now left.
  - intros t I. apply H. now right.
Qed.

Lemma tag_from_snd c : forall n ti, In ti (tag_from n c) -> In (snd ti) c.
Proof.
  induction c as [|x c IH]; intros n ti I; [destruct I|]. simpl in I.
  destruct (creates_term x); destruct I as [<-|I]; simpl; auto; right; eapply IH; eauto.
Qed.

(* the three passes: every classical bit keeps its Herbrand term (C12) *)
Theorem passes_values nq nc c : wf nq nc c = true ->
  hc (denote nq nc (three_passes nq c)) = hc (denote nq nc c).
Proof. intros W. exact (proj1 (pipeline_semantics nq nc c W)). Qed.

(* the repair: removing the final resets of d BEFORE a suffix is appended leaves the term of every classical
   bit that the suffix does not write unchanged (the only bit the dummy suffix writes is the dummy bit) *)
Theorem repair_values nq nc d sfx k : wf nq nc d = true -> (forall y, In y sfx -> ~ In k (ics y)) ->
  nth k (hc (denote nq nc (remove_final_resets nq d ++ sfx))) None = nth k (hc (denote nq nc (d ++ sfx))) None.
Proof.
  intros W H. unfold denote, tagc. rewrite !tag_from_app, !hrun_app.
  rewrite (hrun_hc_other k (tag_from (0 + ntags (remove_final_resets nq d)) sfx))
    by (intros ti I; apply H; eapply tag_from_snd; eauto).
  rewrite (hrun_hc_other k (tag_from (0 + ntags d) sfx)) by (intros ti I; apply H; eapply tag_from_snd; eauto).
  pose proof (proj1 (final_semantics nq nc d W)) as E. unfold denote, tagc in E. now rewrite E.
Qed.

(* ====================================================================== *)
(* H. post-conditions and values on [finish] itself, every workflow        *)
(* ====================================================================== *)

Lemma resets_wf_single nq x : resets_wf nq [x] = reset_wf nq x.
Proof. unfold resets_wf. simpl. apply andb_true_r. Qed.

Lemma resets_wf_splice_gen (env : benv) nq x : reset_wf nq x = true -> ph_wf nq x = true ->
  resets_wf nq (splice env x) = true.
Proof.
  unfold ph_wf, splice. intros R P.
  destruct (iop x) as [g0|lb| | | | |b bid l|b h bid l|] eqn:OP; try (now rewrite resets_wf_single).
  - apply andb_prop in P as [P1 P2]. apply Nat.ltb_lt in P1, P2.
    destruct bid as [m|]; [|now rewrite resets_wf_single].
    rewrite resets_wf_app, !resets_wf_ops_on by assumption. reflexivity.
  - apply Nat.ltb_lt in P. destruct bid as [m|]; [|now rewrite resets_wf_single]. now apply resets_wf_ops_on.
Qed.

Lemma sub_wf_flat_splice (env : benv) nq l : sub_wf nq l = true -> resets_wf nq (flat_map (splice env) l) = true.
Proof.
  unfold sub_wf. intros H. apply andb_prop in H as [R P].
  induction l as [|x r IH]; [reflexivity|]. simpl in *. apply resets_wf_cons in R as [Rx Rr].
  apply andb_prop in P as [Px Pr]. rewrite resets_wf_app, resets_wf_splice_gen by assumption. now apply IH.
Qed.

Lemma set_bid_wf nq m x : reset_wf nq (set_bid m x) = reset_wf nq x /\ ph_wf nq (set_bid m x) = ph_wf nq x.
Proof. unfold reset_wf, ph_wf, is_reset, set_bid. simpl. destruct (iop x); simpl; split; reflexivity. Qed.

Lemma sub_wf_assign nq c ids ms : sub_wf nq c = true -> sub_wf nq (assign c ids (Some ms)) = true.
Proof.
  intros H.
  assert (R : Forall2 (fun x x' => reset_wf nq x' = reset_wf nq x /\ ph_wf nq x' = ph_wf nq x) c (assign c ids (Some ms))).
  { unfold assign, assign_gm. apply mapi_rel. intros j x. destruct (chosen (combine ids ms) j); [apply set_bid_wf|split; reflexivity]. }
  unfold sub_wf, resets_wf in *. induction R as [|x x' l l' [E1 E2] R IH]; [reflexivity|].
  simpl in *. apply andb_prop in H as [H1 H2]. apply andb_prop in H1 as [A1 A2]. apply andb_prop in H2 as [B1 B2].
  rewrite E1, E2, A1, B1. simpl. apply IH. now rewrite A2, B2.
Qed.

Lemma find_obs_creg_app l b r : existsb fst l = false -> find_obs_creg (l ++ (true, b) :: r) = Some b.
Proof.
  induction l as [|[[|] bits] l IH]; simpl; intros H; try discriminate; [reflexivity|]. now apply IH.
Qed.

Lemma amc_data gh gsx qc g idx qc' : append_measurement_circuit gh gsx qc g idx None = Ok qc' ->
  exists bits, find_obs_creg (mcregs qc) = Some bits /\ mnq qc' = mnq qc /\
    mdata qc' = mdata qc ++ measurement_suffix gh gsx g idx (seq 0 (length g)) bits.
Proof.
  unfold append_measurement_circuit. destruct (negb (Nat.eqb (mnq qc) (length g))); [discriminate|].
  destruct (find_obs_creg (mcregs qc)) as [bits|]; [|discriminate].
  destruct (negb (Nat.eqb (length bits) (length (pauli_indices_or_dummy idx)))); [discriminate|].
  destruct (negb (forallb _ (pauli_indices_or_dummy idx))); [discriminate|].
  intros E. injection E as <-. exists bits. repeat split.
Qed.

(* the shape of a returned subexperiment and of the reference, for a valid request *)
Lemma finish_shape gh gsx (env : benv) qc ids ms g idx out :
  valid env (mdata qc) ids ms -> ResetFree.finish gh gsx env qc ids ms g idx = Ok out ->
  let K := mnc qc + length (pauli_indices_or_dummy idx) in
  let S := measures_from K (flat_map (splice env) (assign (mdata qc) ids (Some ms))) in
  let sfx := measurement_suffix gh gsx g idx (seq 0 (length g)) (seq (mnc qc) (length (pauli_indices_or_dummy idx))) in
  out = three_passes (mnq qc) (maybe_remove_final (mnq qc) idx S ++ sfx).
Proof.
  intros Hv. unfold ResetFree.finish, pre_pass, append_measurement_register.
  destruct (existsb fst (mcregs qc)) eqn:EF; [discriminate|]. cbn [res_bind mdata mnc mnq mcregs].
  rewrite (decompose_splice env (mdata qc) _ ids ms Hv). cbn [res_bind fst snd].
  match goal with |- res_map _ ?R = _ -> _ => destruct R as [qc3| |] eqn:E3; try discriminate end.
  simpl. intros E. injection E as <-.
  apply amc_data in E3 as (bits & Fb & Enq & Ed). cbn [mnq mdata mcregs] in *.
  rewrite <- app_assoc in Fb. simpl in Fb. rewrite (find_obs_creg_app _ _ _ EF) in Fb. injection Fb as <-.
  rewrite Enq, Ed. reflexivity.
Qed.

Lemma reference_shape gh gsx (env : benv) qc ids ms g idx r :
  valid env (mdata qc) ids ms -> reference gh gsx env qc ids ms g idx = Ok r ->
  let K := mnc qc + length (pauli_indices_or_dummy idx) in
  let S := measures_from K (flat_map (splice env) (assign (mdata qc) ids (Some ms))) in
  let sfx := measurement_suffix gh gsx g idx (seq 0 (length g)) (seq (mnc qc) (length (pauli_indices_or_dummy idx))) in
  mdata r = S ++ sfx.
Proof.
  intros Hv. unfold reference, append_measurement_register.
  destruct (existsb fst (mcregs qc)) eqn:EF; [discriminate|]. cbn [res_bind mdata mnc mnq mcregs].
  rewrite (decompose_splice env (mdata qc) _ ids ms Hv). cbn [res_bind fst snd].
  intros E3. apply amc_data in E3 as (bits & Fb & Enq & Ed). cbn [mnq mdata mcregs] in *.
  rewrite <- app_assoc in Fb. simpl in Fb. rewrite (find_obs_creg_app _ _ _ EF) in Fb. injection Fb as <-.
  exact Ed.
Qed.

(* post-conditions of every returned subexperiment: re-used qubits, user resets, any observables *)
Theorem finish_postconditions gh gsx (env : benv) qc ids ms g idx out :
  valid env (mdata qc) ids ms -> sub_wf (mnq qc) (mdata qc) = true ->
  ResetFree.finish gh gsx env qc ids ms g idx = Ok out ->
  no_leading_reset out /\ no_trailing_reset out /\ no_double_reset out.
Proof.
  intros Hv Hw E. rewrite (finish_shape _ _ _ _ _ _ _ _ _ Hv E).
  assert (W : resets_wf (mnq qc)
                (maybe_remove_final (mnq qc) idx
                   (measures_from (mnc qc + length (pauli_indices_or_dummy idx))
                      (flat_map (splice env) (assign (mdata qc) ids (Some ms)))) ++
                 measurement_suffix gh gsx g idx (seq 0 (length g)) (seq (mnc qc) (length (pauli_indices_or_dummy idx)))) = true).
  { rewrite resets_wf_app. apply andb_true_intro. split.
    - assert (W0 : resets_wf (mnq qc) (measures_from (mnc qc + length (pauli_indices_or_dummy idx))
                      (flat_map (splice env) (assign (mdata qc) ids (Some ms)))) = true)
        by (apply resets_wf_measures, sub_wf_flat_splice, sub_wf_assign, Hw).
      destruct idx; cbn [maybe_remove_final]; [now apply final_resets_wf|assumption].
    - apply no_reset_resets_wf. intros y I. unfold measurement_suffix in I. eapply suffix_no_reset; eauto. }
  split; [|split].
  - now apply passes_no_leading.
  - now apply passes_no_trailing.
  - now apply passes_no_double.
Qed.

Lemma dummy_suffix_bits gh gsx g locs b y :
  In y (measurement_suffix gh gsx g [] locs [b]) -> ics y = [] \/ ics y = [b].
Proof.
  unfold measurement_suffix. simpl. destruct (nth 0 g 0) as [|[|[|?]]]; simpl; intros I;
    repeat (destruct I as [<-|I]; [simpl; auto|]); destruct I.
Qed.

(* values: every classical bit of the returned subexperiment carries the Herbrand term it has in the subexperiment with
   no reset removed — except, for an identity group, the placeholder bit (bit mnc qc, the only bit of
   "observable_measurements") *)
Theorem finish_values gh gsx (env : benv) qc ids ms g idx out r ncl :
  valid env (mdata qc) ids ms ->
  ResetFree.finish gh gsx env qc ids ms g idx = Ok out -> reference gh gsx env qc ids ms g idx = Ok r ->
  wf (mnq qc) ncl (mdata r) = true ->
  forall k, (idx = [] -> k <> mnc qc) ->
  nth k (hc (denote (mnq qc) ncl out)) None = nth k (hc (denote (mnq qc) ncl (mdata r))) None.
Proof.
  intros Hv E Er W k Hk.
  rewrite (finish_shape _ _ _ _ _ _ _ _ _ Hv E). rewrite (reference_shape _ _ _ _ _ _ _ _ _ Hv Er) in *.
  set (S := measures_from _ _) in *. set (sfx := measurement_suffix _ _ _ _ _ _) in *.
  assert (WS : wf (mnq qc) ncl S = true /\ wf (mnq qc) ncl sfx = true).
  { unfold wf in *. rewrite forallb_app in W. now apply andb_prop in W. }
  destruct WS as [WS Wsfx].
  assert (D : del_resets (S ++ sfx) (maybe_remove_final (mnq qc) idx S ++ sfx)).
  { apply del_resets_app; [|apply del_resets_refl]. destruct idx; cbn [maybe_remove_final]; [apply final_only_resets|apply del_resets_refl]. }
  rewrite (passes_values (mnq qc) ncl _ (del_resets_wf _ _ _ _ D W)).
  destruct idx as [|i idx']; cbn [maybe_remove_final]; [|reflexivity].
  apply repair_values; [assumption|]. intros y I Q. unfold sfx in I. simpl length in I. simpl seq in I.
  destruct (dummy_suffix_bits _ _ _ _ _ _ I) as [Ey|Ey]; rewrite Ey in Q; [destruct Q|].
  destruct Q as [Q|[]]. apply (Hk eq_refl). congruence.
Qed.

(* ====================================================================== *)
(* I. the reference exists and is well-formed: c19_finish_values without its wf hypothesis *)
(* ====================================================================== *)

Lemma wf_instr_mono nq nc nc' x : nc <= nc' -> wf_instr nq nc x = true -> wf_instr nq nc' x = true.
Proof.
  unfold wf_instr. intros L H. apply andb_prop in H as [H H3]. apply andb_prop in H as [H1 H2].
  rewrite H1, H3. simpl. rewrite andb_true_r. rewrite forallb_forall in *. intros k I. specialize (H2 k I).
  apply Nat.ltb_lt in H2. apply Nat.ltb_lt. lia.
Qed.

Lemma wf_app nq nc a b : wf nq nc (a ++ b) = wf nq nc a && wf nq nc b.
Proof. apply forallb_app. Qed.

Lemma wf_ops_on nq nc a s : a < nq -> forall y, In y (ops_on a s) -> wf_instr nq nc y = true \/ (is_marker y = true /\ iqs y = [a]).
Proof.
  intros L y I. unfold ops_on in I. apply in_map_iff in I as (o & <- & _).
  destruct o; [left|right; split; reflexivity|left]; unfold wf_instr; simpl;
    replace (Nat.ltb a nq) with true by (symmetry; now apply Nat.ltb_lt); reflexivity.
Qed.

(* every instruction of the spliced stream is well-formed or a one-qubit marker inside the circuit *)
Definition pre_ok (nq nc : nat) (y : instr) : Prop :=
  (is_marker y = false /\ wf_instr nq nc y = true) \/ (is_marker y = true /\ exists a, iqs y = [a] /\ a < nq).

Lemma sub_instr_splice (env : benv) nq nc x : sub_instr_ok nq nc x = true ->
  forall y, In y (splice env x) -> pre_ok nq nc y.
Proof.
  unfold sub_instr_ok. intros H y I. apply andb_prop in H as [W A].
  assert (Q : forall a, In a (iqs x) -> a < nq).
  { intros a Ia. unfold wf_instr in W. apply andb_prop in W as [W _]. apply andb_prop in W as [W _].
    rewrite forallb_forall in W. apply Nat.ltb_lt. now apply W. }
  assert (OPS : forall a s, a < nq -> In y (ops_on a s) -> pre_ok nq nc y).
  { intros a s L Iy. destruct (wf_ops_on nq nc a s L y Iy) as [Wy|[My Ey]].
    - unfold ops_on in Iy. apply in_map_iff in Iy as (o & <- & _). destruct o; [left|right|left]; try (split; [reflexivity|assumption]).
      split; [reflexivity|]. exists a. split; [reflexivity|assumption].
    - right. split; [assumption|]. exists a. split; assumption. }
  unfold splice in I.
  destruct (iop x) as [g0|lb| | | | |b bid l|b h bid l|] eqn:OP;
    try (destruct I as [<-|[]]; left; split; [unfold Decompose.is_marker; now rewrite OP|assumption]).
  - apply andb_prop in A as [A _]. apply Nat.eqb_eq in A. destruct (iqs x) as [|a [|a' [|? ?]]] eqn:QS; try discriminate.
    destruct bid as [m|].
    + simpl in I. apply in_app_or in I as [I|I]; eapply OPS; eauto; apply Q; simpl; auto.
    + destruct I as [<-|[]]. left. split; [unfold Decompose.is_marker; now rewrite OP|assumption].
  - apply andb_prop in A as [A _]. apply Nat.eqb_eq in A. destruct (iqs x) as [|a [|? ?]] eqn:QS; try discriminate.
    destruct bid as [m|].
    + simpl in I. eapply OPS; eauto. apply Q. simpl; auto.
    + destruct I as [<-|[]]. left. split; [unfold Decompose.is_marker; now rewrite OP|assumption].
  - destruct I as [<-|[]]. right. split; [unfold Decompose.is_marker; now rewrite OP|].
    apply andb_prop in A as [A _]. apply Nat.eqb_eq in A. destruct (iqs x) as [|a [|? ?]] eqn:QS; try discriminate.
    exists a. split; [reflexivity|]. apply Q. simpl; auto.
Qed.

Lemma set_bid_sub_ok nq nc m x : sub_instr_ok nq nc (set_bid m x) = sub_instr_ok nq nc x.
Proof. unfold sub_instr_ok, wf_instr, set_bid. simpl. destruct (iop x); reflexivity. Qed.

Lemma sub_ok_assign nq nc c ids ms : sub_ok nq nc c = true -> sub_ok nq nc (assign c ids (Some ms)) = true.
Proof.
  intros H.
  assert (R : Forall2 (fun x x' => sub_instr_ok nq nc x' = sub_instr_ok nq nc x) c (assign c ids (Some ms))).
  { unfold assign, assign_gm. apply mapi_rel. intros j x. destruct (chosen (combine ids ms) j); [apply set_bid_sub_ok|reflexivity]. }
  unfold sub_ok in *. induction R as [|x x' l l' E R IH]; [reflexivity|].
  simpl in *. apply andb_prop in H as [H1 H2]. rewrite E, H1. simpl. now apply IH.
Qed.

Lemma flat_splice_pre_ok (env : benv) nq nc l : sub_ok nq nc l = true ->
  forall y, In y (flat_map (splice env) l) -> pre_ok nq nc y.
Proof.
  unfold sub_ok. rewrite forallb_forall. intros H y I. apply in_flat_map in I as (x & Ix & Iy).
  eapply sub_instr_splice; eauto.
Qed.

(* numbering the markers K, K+1, ...: everything lands below K + N when there are at most N markers *)
Lemma measures_wf nq nc l : forall K N, count_markers l <= N -> nc <= K ->
  (forall y, In y l -> pre_ok nq nc y) -> wf nq (K + N) (measures_from K l) = true.
Proof.
  induction l as [|x r IH]; intros K N C L P; [reflexivity|].
  unfold count_markers in C. simpl in C. simpl.
  destruct (P x (or_introl eq_refl)) as [[M W]|[M (a & E & La)]]; rewrite M in *; simpl in *.
  - unfold wf. simpl. rewrite (wf_instr_mono nq nc (K + N) x) by (try assumption; lia). simpl.
    apply IH; auto.
  - unfold wf. simpl. assert (wf_instr nq (K + N) (mkI Measure (iqs x) [K]) = true) as ->.
    { unfold wf_instr. simpl. rewrite E. simpl.
      replace (Nat.ltb a nq) with true by (symmetry; now apply Nat.ltb_lt).
      replace (Nat.ltb K (K + N)) with true by (symmetry; apply Nat.ltb_lt; lia). reflexivity. }
    simpl. replace (K + N) with (S K + (N - 1)) by lia. apply IH; [unfold count_markers; lia|lia|auto].
Qed.

Lemma suffix_wf gh gsx g locs bits nq ncl : forall idx clbit,
  (forall s, In s idx -> nth s locs 0 < nq) -> (forall i, i < clbit + length idx -> nth i bits 0 < ncl) ->
  wf nq ncl (suffix_from gh gsx g locs bits clbit idx) = true.
Proof.
  induction idx as [|s r IH]; intros clbit Q B; [reflexivity|]. simpl.
  assert (Lq : Nat.ltb (nth s locs 0) nq = true) by (apply Nat.ltb_lt, Q; now left).
  assert (Lb : Nat.ltb (nth clbit bits 0) ncl = true) by (apply Nat.ltb_lt, B; simpl; lia).
  assert (R : wf nq ncl (suffix_from gh gsx g locs bits (S clbit) r) = true).
  { apply IH; [intros; apply Q; now right|]. intros i Li. apply B. simpl. lia. }
  destruct (nth s g 0) as [|[|[|?]]]; unfold wf in *; simpl; unfold wf_instr; simpl; rewrite Lq, Lb; simpl; exact R.
Qed.

Lemma amc_indep gh gsx n c regs d1 d2 g idx q1 :
  append_measurement_circuit gh gsx (mkMC n c regs d1) g idx None = Ok q1 ->
  exists q2, append_measurement_circuit gh gsx (mkMC n c regs d2) g idx None = Ok q2 /\ mnc q2 = c /\ mnq q2 = n.
Proof.
  unfold append_measurement_circuit. cbn [mnq mnc mcregs mdata].
  destruct (negb (Nat.eqb n (length g))); [discriminate|].
  destruct (find_obs_creg regs) as [bits|]; [|discriminate].
  destruct (negb (Nat.eqb (length bits) (length (pauli_indices_or_dummy idx)))); [discriminate|].
  destruct (negb (forallb _ (pauli_indices_or_dummy idx))); [discriminate|].
  intros _. eexists. split; [reflexivity|]. split; reflexivity.
Qed.

(* the reference exists whenever the subexperiment does, and is a well-formed circuit *)
Theorem reference_total gh gsx (env : benv) qc ids ms g idx out :
  valid env (mdata qc) ids ms -> sub_ok (mnq qc) (mnc qc) (mdata qc) = true ->
  ResetFree.finish gh gsx env qc ids ms g idx = Ok out ->
  exists r, reference gh gsx env qc ids ms g idx = Ok r /\ mnq r = mnq qc /\ wf (mnq qc) (mnc r) (mdata r) = true.
Proof.
  intros Hv Hs E. pose proof E as E0. revert E.
  unfold ResetFree.finish, pre_pass, reference, append_measurement_register.
  destruct (existsb fst (mcregs qc)) eqn:EF; [discriminate|]. cbn [res_bind mdata mnc mnq mcregs].
  rewrite (decompose_splice env (mdata qc) _ ids ms Hv). cbn [res_bind fst snd spec].
  match goal with |- res_map _ ?R = _ -> _ => destruct R as [qc3| |] eqn:E3; try discriminate end.
  intros _. pose proof E3 as E3'. apply amc_ok in E3' as (bits0 & _ & _ & Eg & FB). cbn [mnq] in Eg, FB.
  eapply amc_indep in E3 as (r & Er & Enc & Enq). exists r. split; [exact Er|]. split; [exact Enq|].
  pose proof Er as Ed. apply amc_data in Ed as (bits & Fb & _ & Ed). cbn [mnq mdata mcregs] in *.
  rewrite <- app_assoc in Fb. simpl in Fb. rewrite (find_obs_creg_app _ _ _ EF) in Fb. injection Fb as <-.
  rewrite Ed, Enc, wf_app. apply andb_true_intro. split.
  - unfold measures_numbered. apply (measures_wf (mnq qc) (mnc qc)).
    + apply Nat.le_max_r.
    + lia.
    + intros y I. eapply flat_splice_pre_ok; [|exact I]. apply sub_ok_assign. exact Hs.
  - unfold measurement_suffix. apply suffix_wf.
    + intros s Is. rewrite forallb_forall in FB. specialize (FB s Is). apply Nat.ltb_lt in FB. rewrite Eg in *.
      destruct (Nat.lt_ge_cases s (length g)) as [L|L].
      * rewrite (nth_indep _ 0 (length g)) by (now rewrite seq_length). rewrite seq_nth by assumption. simpl. lia.
      * rewrite nth_overflow in FB by (now rewrite seq_length). lia.
    + intros i Li. simpl in Li. rewrite seq_nth by assumption. lia.
Qed.

Theorem finish_values_total gh gsx (env : benv) qc ids ms g idx out :
  valid env (mdata qc) ids ms -> sub_ok (mnq qc) (mnc qc) (mdata qc) = true ->
  ResetFree.finish gh gsx env qc ids ms g idx = Ok out ->
  exists r, reference gh gsx env qc ids ms g idx = Ok r /\
    wf (mnq qc) (mnc r) (mdata r) = true /\
    forall k, (idx = [] -> k <> mnc qc) ->
      nth k (hc (denote (mnq qc) (mnc r) out)) None = nth k (hc (denote (mnq qc) (mnc r) (mdata r))) None.
Proof.
  intros Hv Hs E. destruct (reference_total _ _ _ _ _ _ _ _ _ Hv Hs E) as (r & Er & _ & W).
  exists r. split; [assumption|]. split; [assumption|]. intros k Hk.
  exact (finish_values gh gsx env qc ids ms g idx out r (mnc r) Hv E Er W k Hk).
Qed.

Lemma sub_ok_sub_wf nq nc sub : sub_ok nq nc sub = true -> sub_wf nq sub = true.
Proof.
  unfold sub_ok, sub_wf. intros H. apply andb_true_intro. split.
  - apply (wf_resets_wf nq nc). unfold wf. rewrite forallb_forall in *. intros x I. specialize (H x I).
    unfold sub_instr_ok in H. now apply andb_prop in H.
  - rewrite forallb_forall in *. intros x I. specialize (H x I). unfold sub_instr_ok in H. apply andb_prop in H as [W A].
    unfold wf_instr in W. apply andb_prop in W as [W _]. apply andb_prop in W as [W _]. rewrite forallb_forall in W.
    unfold ph_wf. destruct (iop x); try reflexivity.
    + apply andb_prop in A as [A _]. apply Nat.eqb_eq in A. destruct (iqs x) as [|a [|a' [|? ?]]]; try discriminate.
      simpl. rewrite (W a), (W a') by (simpl; auto). reflexivity.
    + apply andb_prop in A as [A _]. apply Nat.eqb_eq in A. destruct (iqs x) as [|a [|? ?]]; try discriminate.
      simpl. apply W. simpl; auto.
Qed.

(* the second clause of the property on the model, in one statement *)
Theorem second_clause gh gsx (env : benv) qc ids ms g idx out :
  valid env (mdata qc) ids ms -> sub_ok (mnq qc) (mnc qc) (mdata qc) = true ->
  ResetFree.finish gh gsx env qc ids ms g idx = Ok out ->
  (no_leading_reset out /\ no_trailing_reset out /\ no_double_reset out) /\
  exists r, reference gh gsx env qc ids ms g idx = Ok r /\
    wf (mnq qc) (mnc r) (mdata r) = true /\
    forall k, (idx = [] -> k <> mnc qc) ->
      nth k (hc (denote (mnq qc) (mnc r) out)) None = nth k (hc (denote (mnq qc) (mnc r) (mdata r))) None.
Proof.
  intros Hv Hs E. split.
  - exact (finish_postconditions gh gsx env qc ids ms g idx out Hv (sub_ok_sub_wf _ _ _ Hs) E).
  - exact (finish_values_total gh gsx env qc ids ms g idx out Hv Hs E).
Qed.

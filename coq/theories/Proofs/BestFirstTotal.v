(* Proofs/BestFirstTotal.v — C08 correction round: the unrestricted clause as a TOTAL statement.

   "When the search is not restricted it ALWAYS reports the minimum as reached": inside the domain (multi-qubit gates are
   two-qubit gates known to the gate table, no classical bits, valid settings, at least one cut kind) an unrestricted request
   for which some assignment of the SPECIFICATION of C08 (assignment_cost) meets the width limit within max_gamma returns a
   value, and the flag is set.  The model returns
     - not Crash   (C07: find_cuts_never_crashes),
     - not NoFuel  (enough_fuel),
     - not Ref: a ValueError comes from a dead-ended greedy pass (C07: find_cuts_ref_greedy, greedy_none, dead_end), which with
       all gammas known happens only without gate cuts and with W = 1; but then the first gate of a feasible assignment of the
       C08 specification would have to be a gate cut (every other kind puts two wire segments into one component).
   No bridge to C07's plan/feasible specification is needed. *)
From Coq Require Import QArith Lia.
From CKT Require Import Model.CutFinder Model.CutFinderTable Proofs.CutFinderSpec Proofs.CutFinderInv Proofs.CutFinderPlan
  Proofs.CutFinderSearchP Proofs.CutFinderCirc Proofs.CutFinderFail Proofs.CutFinderTotal.
From CKT Require Import Proofs.BestFirstP Proofs.BestFirstSpec Proofs.BestFirstFuel Proofs.BestFirstExchange
  Proofs.BestFirstExchangeSim Proofs.BestFirstExchangeMain Proofs.BestFirstExchangeFinal Proofs.BestFirstRefuse.
Close Scope Q_scope.

(* the first decision of an assignment that meets the width limit is a gate cut, or W >= 2 *)
Lemma feasible_first_gate gl wl nq W q1 q2 gam gs k A c stn cn :
  sgates_wf nq ((q1, q2, gam) :: gs) ->
  replay gl wl ((q1, q2, gam) :: gs) (k :: A) (segs_init nq) c = Some (stn, cn) -> widths_ok W stn = true ->
  k = CutGate \/ 2 <= W.
Proof.
  intros WF H Wk. destruct (replay_step_facts gl wl nq _ _ _ _ _ _ _ _ _ _ WF (segs_init_ok nq) H) as (_ & _ & [SL SE]).
  destruct (WF q1 q2 gam (or_introl eq_refl)) as (Q1 & Q2 & NQ).
  assert (D : k = CutGate \/ k <> CutGate) by (destruct k; auto; right; discriminate).
  destruct D as [->|N]; [now left|right]. specialize (SE N).
  pose proof (apply_kind_ok nq (segs_init nq) q1 q2 k (segs_init_ok nq)) as [_ B].
  pose proof (B q1 Q1) as B1. pose proof (B q2 Q2) as B2.
  destruct (curq_apply_kind_12 nq (segs_init nq) q1 q2 k (segs_init_ok nq) Q1 Q2 NQ) as [C1 C2].
  assert (I1 : curq (segs_init nq) q1 = q1) by (unfold curq; cbn; now rewrite seq_nth).
  assert (I2 : curq (segs_init nq) q2 = q2) by (unfold curq; cbn; now rewrite seq_nth).
  assert (IL : slen (segs_init nq) = nq) by (unfold slen; cbn; apply seq_length).
  rewrite I1, I2, IL in *. set (F := sg_comp stn) in *.
  assert (HF : forall L, cnt (Fl F) (length F) L <= W) by (intros L; now apply widths_ok_cnt).
  set (x1 := curq (apply_kind (segs_init nq) q1 q2 k) q1) in *. set (x2 := curq (apply_kind (segs_init nq) q1 q2 k) q2) in *.
  assert (NX : x1 <> x2) by (destruct k; lia).
  destruct (Nat.lt_total x1 x2) as [L|[E|L]]; [|contradiction|].
  - apply (two_same_label F W x1 x2); auto. lia.
  - apply (two_same_label F W x2 x1); auto. lia.
Qed.

Section Total.
  Variable fuel : nat.
  Variable i : fc_input.
  Hypothesis Htab : gtab_ge1 (fi_gtab i) = true.
  Hypothesis WFc : circ_wf (fi_circ i).
  Hypothesis Hsup : forall x, In x (fi_circ i) -> is_multi x = true -> kappa_of (fi_gtab i) x <> None.
  Hypothesis Hncl : fi_ncl i = 0.
  Hypothesis HW : 1 <= fi_W i.
  Hypothesis Hset : settings_ok i = true.
  Hypothesis Hkinds : fi_gate_lo i = true \/ fi_wire_lo i = true.

  (* a request that admits an assignment of the C08 specification is never refused *)
  Lemma spec_feasible_not_refused A c :
    assignment_cost (nq_of i) (fi_W i) (fi_gate_lo i) (fi_wire_lo i) (sgates_of (fa_gates (fa_of i))) A = Some c ->
    find_cuts_full fuel i <> Ref.
  Proof.
    intros HA H.
    pose proof (find_cuts_ref_greedy fuel i H WFc HW Hset Hncl) as Hgr. cbv zeta in Hgr.
    set (t := fi_gtab i) in *. set (cc := fi_circ i) in *.
    set (names := names_of (fi_nq i) t cc) in *. set (gates := gates_of (fi_nq i) t cc) in *.
    set (acts := search_actions (fi_gate_lo i) (fi_wire_lo i)) in *.
    set (fa := {| fa_gates := gates; fa_actions := acts; fa_W := fi_W i |}) in *.
    destruct (gates_of_circ (fi_nq i) t cc) as (NDn & _ & Hgspec & _). fold names gates in NDn, Hgspec.
    pose proof (gates_wf (fi_nq i) t cc WFc) as Hgwf. fold names gates in Hgwf.
    assert (Hgam : forall g, In g gates -> g_gamma g <> None).
    { intros g Hg. destruct (Hgspec g Hg) as (x & Hx & Hm & _ & Eg & _). rewrite Eg.
      apply (Hsup x); [eapply nth_error_In; exact Hx|exact Hm]. }
    unfold greedy_cut_optimization in Hgr. cbn [fa_gates fa] in Hgr. fold fa in Hgr.
    destruct (greedy_none names (fi_W i) HW NDn gates Hgwf fa eq_refl eq_refl acts eq_refl
                (length names + max_wire_cuts_circuit gates) _ _
                (ex_intro _ [] (Inv_init names (fi_W i) HW NDn gates Hgwf acts (max_wire_cuts_circuit gates))) Hgr)
      as (s' & pl & I & Hgoal & Hdead).
    rewrite (max_wire_cuts_two names gates Hgwf) in I.
    destruct (dead_end names (fi_W i) HW NDn gates Hgwf Hgam (fi_gate_lo i) (fi_wire_lo i) _ s' pl I eq_refl Hgoal Hdead) as [Hgl Hwl].
    destruct Hkinds as [Hk|Hk]; [congruence|]. specialize (Hwl Hk).
    (* the gate list is not empty, and the first decision of A would have to be a gate cut *)
    unfold goal_state in Hgoal. cbn [fa fa_gates] in Hgoal. apply Nat.leb_gt in Hgoal.
    destruct (fa_gates_eq i) as [Eg En]. fold t cc gates in Eg. fold t cc names in En.
    unfold assignment_cost in HA. rewrite Eg, En in HA.
    destruct (replay _ _ _ _ _ _) as [[stn c']|] eqn:Hrep; [|discriminate].
    destruct (widths_ok (fi_W i) stn) eqn:Wk; [|discriminate].
    destruct gates as [|g rest] eqn:EG; [cbn in Hgoal; lia|].
    assert (WFs : sgates_wf (length names) (sgates_of (g :: rest))).
    { intros a b gm Hin. unfold sgates_of in Hin. apply in_map_iff in Hin as (g0 & E0 & I0). injection E0 as <- <- <-.
      destruct (Hgwf g0 I0) as (_ & N & A1 & A2). auto. }
    destruct A as [|k A]; [cbn in Hrep; discriminate|].
    cbn [sgates_of map] in Hrep, WFs. fold (sgates_of rest) in Hrep, WFs.
    destruct (feasible_first_gate _ _ _ _ _ _ _ _ _ _ _ _ _ WFs Hrep Wk) as [->|L2]; [|lia].
    cbn [replay permitted] in Hrep. rewrite Hgl in Hrep. cbn [andb] in Hrep. discriminate.
  Qed.

  Hypothesis Hmb : fi_max_backjumps i = None.
  Hypothesis Hspec : spec_within i.
  Hypothesis Hfuel : tree_size 5 (length (fa_gates (fa_of i))) + 3 <= fuel.

  Theorem unrestricted_total : exists r, find_cuts_full fuel i = Val r /\ md_minimum_reached (fr_meta r) = true.
  Proof.
    destruct (find_cuts_full fuel i) as [r| | |] eqn:E.
    - exists r. split; [reflexivity|].
      exact (unrestricted_table fuel i r Htab (circ_wf_nodup _ WFc) E Hmb Hspec).
    - exfalso. destruct Hspec as (A & c & HA & _). exact (spec_feasible_not_refused A c HA E).
    - exfalso. exact (find_cuts_never_crashes fuel i WFc E).
    - exfalso. exact (enough_fuel fuel i Hfuel E).
  Qed.
End Total.

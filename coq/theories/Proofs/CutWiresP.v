(* Proofs/CutWiresP.v — lemmas about Model/CutWires.v (property C03). *)
From Coq Require Import Lia FinFun.
From CKT Require Import Common.Base Common.Circ Common.Herbrand Model.Observables Model.CutWires
  Proofs.ObservablesP.

(* ------------------------------------------------------------------ *)
(* blocks                                                               *)
(* ------------------------------------------------------------------ *)

Lemma sum_below_mono f a b : a <= b -> sum_below f a <= sum_below f b.
Proof. induction 1 as [|b Hab IH]; simpl; lia. Qed.

Lemma block_start_S f q : block_start f (S q) = block_end f q + 1.
Proof. unfold block_end, block_start; simpl; lia. Qed.

Lemma block_lt f a b : a < b -> block_end f a < block_start f b.
Proof.
  intros H. assert (M := sum_below_mono f (S a) b H). unfold block_end, block_start. simpl in M. lia.
Qed.

Lemma block_end_bound f nq q : q < nq -> block_end f q < nq + sum_below f nq.
Proof.
  intros H. assert (M := sum_below_mono f (S q) nq H). unfold block_end, block_start. simpl in M. lia.
Qed.

(* ------------------------------------------------------------------ *)
(* _circuit_structure_mapping in closed form                            *)
(* ------------------------------------------------------------------ *)

Lemma bump_after_length i m : length (bump_after i m) = length m.
Proof.
  revert i; induction m as [|x r IH]; intros [|i]; simpl; auto. now rewrite map_length.
Qed.

Lemma nth_bump_after i m q : q < length m ->
  nth q (bump_after i m) 0 = nth q m 0 + (if i <? q then 1 else 0).
Proof.
  revert i q; induction m as [|x r IH]; intros i q H; simpl in H; [lia|].
  destruct i as [|i]; destruct q as [|q]; simpl.
  - lia.
  - rewrite (map_nth_lt S r q 0 0) by lia. lia.
  - lia.
  - rewrite IH by lia. change (S i <? S q) with (i <? q). reflexivity.
Qed.

Lemma iter_bump_length k i m : length (Nat.iter k (bump_after i) m) = length m.
Proof. induction k as [|k IH]; simpl; [reflexivity|]. now rewrite bump_after_length. Qed.

Lemma nth_iter_bump k i m q : q < length m ->
  nth q (Nat.iter k (bump_after i) m) 0 = nth q m 0 + (if i <? q then k else 0).
Proof.
  intros H. induction k as [|k IH]; simpl.
  - destruct (i <? q); lia.
  - rewrite nth_bump_after by (now rewrite iter_bump_length). rewrite IH. destruct (i <? q); lia.
Qed.

Definition blocks (F : nat) (f : nat -> nat) (qs : list nat) : list nat :=
  flat_map (fun q => seq (F + sum_below f q) (f q) ++ [q]) qs.

Lemma sm_loop_spec f nq F : forall k i fresh mapping bits,
  i + k = nq -> length mapping = nq -> fresh = F + sum_below f i ->
  (forall q, q < nq -> nth q mapping 0 = q + sum_below f (Nat.min q i)) ->
  sm_loop f (seq i k) fresh mapping bits =
  (map (block_start f) (seq 0 nq), bits ++ blocks F f (seq i k)).
Proof.
  induction k as [|k IH]; intros i fresh mapping bits Hik Hlen Hfresh Hm; simpl.
  - rewrite app_nil_r. f_equal.
    apply (nth_ext _ _ 0 0); [now rewrite map_length, seq_length|].
    intros q Hq. rewrite Hlen in Hq.
    rewrite (map_nth_lt (block_start f) (seq 0 nq) q 0 0) by (now rewrite seq_length).
    rewrite seq_nth by assumption. rewrite Hm by assumption.
    unfold block_start. rewrite Nat.min_l by lia. reflexivity.
  - rewrite IH with (i := S i); try lia.
    + f_equal. unfold blocks. simpl. rewrite Hfresh. now rewrite <- !app_assoc.
    + now rewrite iter_bump_length.
    + simpl. lia.
    + intros q Hq. rewrite nth_iter_bump by lia. rewrite Hm by assumption.
      destruct (Nat.ltb_spec i q) as [L|L].
      * rewrite (Nat.min_r q i) by lia. rewrite (Nat.min_r q (S i)) by lia. simpl. lia.
      * rewrite (Nat.min_l q i) by lia. rewrite (Nat.min_l q (S i)) by lia. lia.
Qed.

Lemma structure_mapping_spec nq c :
  structure_mapping nq c =
  (map (block_start (cut_freq c)) (seq 0 nq), blocks nq (cut_freq c) (seq 0 nq)).
Proof.
  unfold structure_mapping.
  rewrite (sm_loop_spec (cut_freq c) nq nq nq 0 nq (seq 0 nq) []); simpl; auto.
  - now rewrite seq_length.
  - intros q Hq. rewrite seq_nth by assumption. rewrite Nat.min_0_r. simpl. lia.
Qed.

Lemma blocks_length F f : forall k i,
  length (blocks F f (seq i k)) + sum_below f i = k + sum_below f (i + k).
Proof.
  induction k as [|k IH]; intros i; simpl.
  - now rewrite Nat.add_0_r.
  - unfold blocks in *. simpl. rewrite !app_length, seq_length. simpl.
    specialize (IH (S i)). simpl in IH. replace (i + S k) with (S (i + k)) by lia. simpl. lia.
Qed.

(* number of markers = sum of the per-qubit counts *)
Lemma filter_lt_S (l : list nat) n :
  length (filter (fun x => x <? S n) l) = length (filter (fun x => x <? n) l) + count_occ Nat.eq_dec l n.
Proof.
  induction l as [|x r IH]; simpl; [reflexivity|].
  destruct (Nat.eq_dec x n) as [->|N].
  - replace (n <? S n) with true by (symmetry; apply Nat.ltb_lt; lia).
    replace (n <? n) with false by (symmetry; apply Nat.ltb_ge; lia). simpl. lia.
  - destruct (Nat.ltb_spec x n) as [L|L].
    + replace (x <? S n) with true by (symmetry; apply Nat.ltb_lt; lia). simpl. lia.
    + replace (x <? S n) with false by (symmetry; apply Nat.ltb_ge; lia). simpl. lia.
Qed.

Lemma sum_below_count (l : list nat) n :
  sum_below (count_occ Nat.eq_dec l) n = length (filter (fun x => x <? n) l).
Proof.
  induction n as [|n IH]; simpl.
  - induction l as [|x r IHl]; simpl; auto.
  - rewrite filter_lt_S. lia.
Qed.

Lemma filter_all {A} (p : A -> bool) l : (forall x, In x l -> p x = true) -> filter p l = l.
Proof.
  induction l as [|x r IH]; simpl; intros H; [reflexivity|].
  rewrite H by now left. f_equal. apply IH. intros y Hy. apply H. now right.
Qed.

(* well-formedness, unpacked *)
Lemma wf_instr_spec nq i : wf_instr nq i = true ->
  (forall q, In q (iqs i) -> q < nq) /\ (is_marker i = true -> iqs i = [marker_qubit i] /\ marker_qubit i < nq).
Proof.
  unfold wf_instr. intros H. apply andb_prop in H as [H1 H2].
  assert (R : forall q, In q (iqs i) -> q < nq).
  { intros q Hq. rewrite forallb_forall in H1. apply Nat.ltb_lt. now apply H1. }
  split; [exact R|]. intros M. rewrite M in H2. simpl in H2. apply Nat.eqb_eq in H2.
  unfold marker_qubit. destruct (iqs i) as [|a [|b r]] eqn:E; simpl in *; try discriminate.
  split; [reflexivity|]. apply R. now left.
Qed.

Lemma wf_circ_cons nq i c : wf_circ nq (i :: c) = true -> wf_instr nq i = true /\ wf_circ nq c = true.
Proof. unfold wf_circ; simpl. intros H. now apply andb_prop in H. Qed.

Lemma wf_circ_app nq c1 c2 : wf_circ nq (c1 ++ c2) = true -> wf_circ nq c1 = true /\ wf_circ nq c2 = true.
Proof. unfold wf_circ. rewrite forallb_app. intros H. now apply andb_prop in H. Qed.

Lemma marker_qubits_lt nq c : wf_circ nq c = true -> forall q, In q (marker_qubits c) -> q < nq.
Proof.
  induction c as [|i r IH]; intros W q Hq; [destruct Hq|].
  apply wf_circ_cons in W as [Wi Wr]. unfold marker_qubits in Hq. simpl in Hq.
  destruct (is_marker i) eqn:M.
  - destruct Hq as [<-|Hq]; [|now apply IH]. now apply (wf_instr_spec nq i Wi).
  - now apply IH.
Qed.

Lemma sum_cut_freq nq c : wf_circ nq c = true -> sum_below (cut_freq c) nq = count_markers c.
Proof.
  intros W. unfold cut_freq, count_markers.
  change (fun q => count_occ Nat.eq_dec (marker_qubits c) q) with (count_occ Nat.eq_dec (marker_qubits c)).
  rewrite sum_below_count. rewrite filter_all; [reflexivity|].
  intros x Hx. apply Nat.ltb_lt. now apply (marker_qubits_lt nq c W).
Qed.

Lemma new_qubits_spec nq c : new_qubits nq c = blocks nq (cut_freq c) (seq 0 nq).
Proof. unfold new_qubits. now rewrite structure_mapping_spec. Qed.

Lemma new_qubits_length nq c : wf_circ nq c = true -> length (new_qubits nq c) = nq + count_markers c.
Proof.
  intros W. rewrite new_qubits_spec. assert (L := blocks_length nq (cut_freq c) nq 0).
  simpl in L. rewrite (sum_cut_freq nq c W) in L. lia.
Qed.

(* the original qubit objects appear in their original order *)
Lemma blocks_originals F f nq : forall k i, i + k <= nq -> nq <= F ->
  filter (fun t => t <? nq) (blocks F f (seq i k)) = seq i k.
Proof.
  induction k as [|k IH]; intros i H HF; simpl; [reflexivity|].
  unfold blocks in *. simpl. rewrite !filter_app. simpl.
  rewrite filter_nil.
  - replace (i <? nq) with true by (symmetry; apply Nat.ltb_lt; lia). simpl. f_equal. apply IH; lia.
  - intros x Hx. apply in_seq in Hx. apply Nat.ltb_ge. lia.
Qed.

(* ------------------------------------------------------------------ *)
(* where find_bit finds the original qubit objects                      *)
(* ------------------------------------------------------------------ *)

Lemma index_of_app_l x l1 l2 i : index_of x l1 = Some i -> index_of x (l1 ++ l2) = Some i.
Proof.
  revert i; induction l1 as [|y r IH]; intros i H; simpl in *; [discriminate|].
  destruct (Nat.eqb x y); [assumption|].
  destruct (index_of x r) as [j|]; simpl in *; [|discriminate].
  now rewrite (IH j eq_refl).
Qed.

Lemma index_of_app_r x l1 l2 : ~ In x l1 ->
  index_of x (l1 ++ l2) = option_map (fun i => length l1 + i) (index_of x l2).
Proof.
  induction l1 as [|y r IH]; intros H; simpl.
  - destruct (index_of x l2); reflexivity.
  - destruct (Nat.eqb_spec x y) as [E|N]; [exfalso; apply H; now left|].
    rewrite IH by (intros X; apply H; now right).
    destruct (index_of x l2); reflexivity.
Qed.

Lemma index_of_blocks F f q : q < F -> forall k i, i <= q < i + k ->
  exists r, index_of q (blocks F f (seq i k)) = Some r /\ r + block_start f i = block_end f q.
Proof.
  intros HF. induction k as [|k IH]; intros i H; [lia|].
  unfold blocks in *. simpl.
  destruct (Nat.eq_dec q i) as [->|N].
  - exists (f i). split; [|unfold block_end; lia].
    apply index_of_app_l. rewrite index_of_app_r.
    + simpl. rewrite Nat.eqb_refl. simpl. rewrite seq_length. f_equal. lia.
    + intros X. apply in_seq in X. lia.
  - destruct (IH (S i)) as [r [E1 E2]]; [lia|].
    exists (f i + 1 + r). split.
    + rewrite index_of_app_r.
      * rewrite E1. simpl. rewrite app_length, seq_length. reflexivity.
      * intros X. apply in_app_or in X as [X|[X|[]]]; [apply in_seq in X; lia|congruence].
    + rewrite block_start_S in E2. unfold block_end in *. lia.
Qed.

Lemma index_of_new_qubits nq c q : q < nq -> index_of q (new_qubits nq c) = Some (final_position c q).
Proof.
  intros H. rewrite new_qubits_spec.
  destruct (index_of_blocks nq (cut_freq c) q H nq 0) as [r [E1 E2]]; [lia|].
  rewrite E1. f_equal. unfold final_position. unfold block_start in E2 at 1. simpl in E2. lia.
Qed.

Lemma find_all_new_qubits nq c : forall l, (forall q, In q l -> q < nq) ->
  find_all l (new_qubits nq c) = Some (map (final_position c) l).
Proof.
  induction l as [|q r IH]; intros H; simpl; [reflexivity|].
  rewrite index_of_new_qubits by (apply H; now left).
  rewrite IH by (intros x Hx; apply H; now right). reflexivity.
Qed.

Lemma expand_new_qubits nq c ps : wf_circ nq c = true ->
  expand nq (seq 0 nq) (new_qubits nq c) ps =
  Ok (map (expand1 (map (final_position c) (seq 0 nq)) (nq + count_markers c)) ps).
Proof.
  intros W. unfold expand. rewrite seq_length, Nat.eqb_refl. simpl.
  rewrite find_all_new_qubits by (intros q Hq; apply in_seq in Hq; lia).
  now rewrite new_qubits_length.
Qed.

Lemma final_position_inj c a b : final_position c a = final_position c b -> a = b.
Proof.
  unfold final_position. intros E.
  destruct (Nat.lt_trichotomy a b) as [L|[L|L]]; [|assumption|].
  - assert (X := block_lt (cut_freq c) a b L). unfold block_end in *. lia.
  - assert (X := block_lt (cut_freq c) b a L). unfold block_end in *. lia.
Qed.

Lemma final_position_bound nq c q : wf_circ nq c = true -> q < nq -> final_position c q < nq + count_markers c.
Proof.
  intros W H. rewrite <- (sum_cut_freq nq c W). now apply block_end_bound.
Qed.

(* letter-level reading of the expanded observable *)
Lemma expand1_letters nq c p : wf_circ nq c = true -> length (plets p) = nq ->
  let r := expand1 (map (final_position c) (seq 0 nq)) (nq + count_markers c) p in
  pphase r = pphase p /\ length (plets r) = nq + count_markers c /\
  (forall q, q < nq -> nth (final_position c q) (plets r) 0 = nth q (plets p) 0) /\
  (forall j, (forall q, q < nq -> j <> final_position c q) -> nth j (plets r) 0 = 0).
Proof.
  intros W L. cbn zeta. unfold expand1. cbn [pphase plets].
  split; [reflexivity|]. split; [now rewrite scatter_length, repeat_length|]. split.
  - intros q Hq.
    assert (E : final_position c q = nth q (map (final_position c) (seq 0 nq)) 0).
    { rewrite (map_nth_lt (final_position c) (seq 0 nq) q 0 0) by (now rewrite seq_length).
      now rewrite seq_nth. }
    rewrite E. apply scatter_nth.
    + apply FinFun.Injective_map_NoDup; [intros a b; apply final_position_inj|apply seq_NoDup].
    + now rewrite map_length, seq_length.
    + intros i Hi. apply in_map_iff in Hi as [x [<- Hx]]. apply in_seq in Hx.
      rewrite repeat_length. apply final_position_bound; [assumption|lia].
    + now rewrite map_length, seq_length.
  - intros j Hj. rewrite scatter_notin.
    + clear. generalize (nq + count_markers c). intros n. revert j. induction n as [|n IH]; intros [|j]; simpl; auto.
    + intros X. apply in_map_iff in X as [x [E Hx]]. apply in_seq in Hx. apply (Hj x); [lia|congruence].
Qed.

(* ------------------------------------------------------------------ *)
(* the running mapping of _transform_cut_wires                          *)
(* ------------------------------------------------------------------ *)

Lemma marker_qubits_cons i r :
  marker_qubits (i :: r) = if is_marker i then marker_qubit i :: marker_qubits r else marker_qubits r.
Proof. unfold marker_qubits. simpl. now destruct (is_marker i). Qed.

Lemma cut_freq_cons i r q :
  cut_freq (i :: r) q =
  (if is_marker i then (if Nat.eq_dec (marker_qubit i) q then 1 else 0) else 0) + cut_freq r q.
Proof.
  unfold cut_freq. rewrite marker_qubits_cons. destruct (is_marker i); [|reflexivity].
  simpl. destruct (Nat.eq_dec (marker_qubit i) q); reflexivity.
Qed.

Lemma cut_freq_app c1 c2 q : cut_freq (c1 ++ c2) q = cut_freq c1 q + cut_freq c2 q.
Proof.
  induction c1 as [|i r IH]; [reflexivity|]. simpl app. rewrite !cut_freq_cons, IH. lia.
Qed.

(* mapping after a prefix has been processed *)
Fixpoint run_map (m : list nat) (c : circ) : list nat :=
  match c with
  | [] => m
  | i :: r => if is_marker i then run_map (upd m (marker_qubit i) (nth (marker_qubit i) m 0 + 1)) r
              else run_map m r
  end.

Lemma tcw_app fac c1 : forall m c2, tcw fac m (c1 ++ c2) = tcw fac m c1 ++ tcw fac (run_map m c1) c2.
Proof.
  induction c1 as [|i r IH]; intros m c2; simpl; [reflexivity|].
  destruct (is_marker i); simpl; now rewrite IH.
Qed.

Lemma tcw_length fac c : forall m, length (tcw fac m c) = length c.
Proof. induction c as [|i r IH]; intros m; simpl; [reflexivity|]. destruct (is_marker i); simpl; now rewrite IH. Qed.

Lemma nth_upd_eq (m : list nat) g v q : g < length m ->
  nth q (upd m g v) 0 = if Nat.eq_dec q g then v else nth q m 0.
Proof.
  intros H. destruct (Nat.eq_dec q g) as [->|N]; [now apply nth_upd_same|apply nth_upd_other; congruence].
Qed.

Lemma run_map_spec nq c : forall m, wf_circ nq c = true -> length m = nq ->
  length (run_map m c) = nq /\ forall q, nth q (run_map m c) 0 = nth q m 0 + cut_freq c q.
Proof.
  induction c as [|i r IH]; intros m W L; simpl.
  - split; [assumption|]. intros q. unfold cut_freq. simpl. lia.
  - apply wf_circ_cons in W as [Wi Wr].
    destruct (is_marker i) eqn:M.
    + destruct (proj2 (wf_instr_spec nq i Wi) M) as [_ Hg].
      destruct (IH (upd m (marker_qubit i) (nth (marker_qubit i) m 0 + 1)) Wr) as [L' N'];
        [now rewrite upd_length|].
      split; [assumption|]. intros q. rewrite N', cut_freq_cons, M.
      rewrite nth_upd_eq by lia.
      destruct (Nat.eq_dec q (marker_qubit i)) as [->|N]; destruct (Nat.eq_dec (marker_qubit i) _); try congruence; lia.
    + destruct (IH m Wr L) as [L' N']. split; [assumption|]. intros q.
      rewrite N', cut_freq_cons, M. lia.
Qed.

Lemma initial_mapping nq c q : q < nq ->
  nth q (fst (structure_mapping nq c)) 0 = block_start (cut_freq c) q.
Proof.
  intros H. rewrite structure_mapping_spec. cbn [fst].
  rewrite (map_nth_lt (block_start (cut_freq c)) (seq 0 nq) q 0 0) by (now rewrite seq_length).
  now rewrite seq_nth.
Qed.

Lemma initial_mapping_length nq c : length (fst (structure_mapping nq c)) = nq.
Proof. rewrite structure_mapping_spec. cbn [fst]. now rewrite map_length, seq_length. Qed.

(* position of qubit q after the prefix c1 *)
Lemma run_map_position nq c c1 q : wf_circ nq c1 = true -> q < nq ->
  nth q (run_map (fst (structure_mapping nq c)) c1) 0 = position_after c c1 q.
Proof.
  intros W H. destruct (run_map_spec nq c1 (fst (structure_mapping nq c)) W (initial_mapping_length nq c)) as [_ N].
  rewrite N, initial_mapping by assumption. reflexivity.
Qed.

Lemma tcw_split fac nq c c1 i c2 : wf_circ nq c = true -> c = c1 ++ i :: c2 ->
  exists pre rest,
    cut_wires_gen fac nq c = pre ++ relocate fac (position_after c c1) i :: rest
    /\ length pre = length c1 /\ length rest = length c2.
Proof.
  intros W ->. apply wf_circ_app in W as [W1 W2]. apply wf_circ_cons in W2 as [Wi W2].
  unfold cut_wires_gen.
  set (m0 := fst (structure_mapping nq (c1 ++ i :: c2))).
  exists (tcw fac m0 c1).
  destruct (is_marker i) eqn:M.
  - exists (tcw fac (upd (run_map m0 c1) (marker_qubit i) (nth (marker_qubit i) (run_map m0 c1) 0 + 1)) c2).
    rewrite tcw_app. simpl. rewrite M. unfold relocate. rewrite M.
    destruct (proj2 (wf_instr_spec nq i Wi) M) as [_ Hg].
    unfold m0. rewrite run_map_position by assumption.
    split; [reflexivity|]. split; apply tcw_length.
  - exists (tcw fac (run_map m0 c1) c2).
    rewrite tcw_app. simpl. rewrite M. unfold relocate. rewrite M.
    split; [|split; apply tcw_length].
    do 2 f_equal. f_equal. apply map_ext_in. intros q Hq.
    unfold m0. apply run_map_position; [assumption|]. now apply (wf_instr_spec nq i Wi).
Qed.

Lemma split_at {A} (l : list A) d : forall k, k < length l ->
  l = firstn k l ++ nth k l d :: skipn (S k) l.
Proof.
  induction l as [|x r IH]; intros k H; simpl in H; [lia|].
  destruct k as [|k]; [reflexivity|]. cbn [firstn nth app]. f_equal.
  change (skipn (S (S k)) (x :: r)) with (skipn (S k) r). apply IH. lia.
Qed.

Lemma cut_wires_nth fac nq c d : wf_circ nq c = true ->
  length (cut_wires_gen fac nq c) = length c /\
  forall k, k < length c ->
    nth k (cut_wires_gen fac nq c) d = relocate fac (position_after c (firstn k c)) (nth k c d).
Proof.
  intros W. split; [apply tcw_length|]. intros k Hk.
  destruct (tcw_split fac nq c (firstn k c) (nth k c d) (skipn (S k) c) W (split_at c d k Hk))
    as (pre & rest & E & L1 & _).
  rewrite E. rewrite firstn_length_le in L1 by lia.
  rewrite app_nth2 by lia. rewrite L1, Nat.sub_diag. reflexivity.
Qed.

(* mask form: the non-marker instructions keep op and clbits, in order; inserted ones are factory ops *)
Lemma tcw_select_kept fac c : forall m,
  map (fun i => (iop i, ics i)) (select (map (fun i => negb (is_marker i)) c) (tcw fac m c)) =
  map (fun i => (iop i, ics i)) (erase_markers c).
Proof.
  induction c as [|i r IH]; intros m; simpl; [reflexivity|].
  destruct (is_marker i); simpl; now rewrite IH.
Qed.

Lemma tcw_select_inserted fac c : forall m,
  Forall (fun i => iop i = fac /\ ics i = [] /\ exists p, iqs i = [p; p + 1])
         (select (map is_marker c) (tcw fac m c)).
Proof.
  induction c as [|i r IH]; intros m; simpl; [constructor|].
  destruct (is_marker i); simpl; [constructor|]; auto.
  simpl. repeat split; eauto.
Qed.

(* ------------------------------------------------------------------ *)
(* Herbrand simulation                                                  *)
(* ------------------------------------------------------------------ *)

Lemma nth_repeat_Zero n j : nth j (repeat Zero n) Zero = Zero.
Proof. revert j; induction n as [|n IH]; intros [|j]; simpl; auto. Qed.

Section Sim.
  Variable f : nat -> nat.       (* markers per qubit in the WHOLE circuit *)
  Variables nq nq' : nat.
  Hypothesis Hnq' : nq' = nq + sum_below f nq.

  (* mapping m is consistent with the blocks when [c] is what remains to be processed *)
  Definition MapOK (m : list nat) (c : circ) : Prop :=
    length m = nq /\
    forall q, q < nq -> block_start f q <= nth q m 0 /\ nth q m 0 + cut_freq c q = block_end f q.

  Lemma MapOK_bound m c q : MapOK m c -> q < nq -> nth q m 0 < nq'.
  Proof.
    intros [_ H] Hq. destruct (H q Hq) as [_ E]. assert (B := block_end_bound f nq q Hq). lia.
  Qed.

  Lemma MapOK_inj m c a b : MapOK m c -> a < nq -> b < nq -> nth a m 0 = nth b m 0 -> a = b.
  Proof.
    intros [_ H] Ha Hb E. destruct (H a Ha) as [A1 A2]. destruct (H b Hb) as [B1 B2].
    destruct (Nat.lt_trichotomy a b) as [L|[L|L]]; [|assumption|].
    - assert (X := block_lt f a b L). lia.
    - assert (X := block_lt f b a L). lia.
  Qed.

  (* the destination of the next Move is inside the block and is nobody's current position *)
  Lemma MapOK_marker m i r : MapOK m (i :: r) -> is_marker i = true -> marker_qubit i < nq ->
    let g := marker_qubit i in let p := nth g m 0 in
    p + 1 < nq' /\ (forall q, q < nq -> p + 1 <> nth q m 0) /\ MapOK (upd m g (p + 1)) r.
  Proof.
    intros OK M Hg g p. destruct OK as [L H].
    destruct (H g Hg) as [G1 G2]. rewrite cut_freq_cons, M in G2. fold g in G2.
    destruct (Nat.eq_dec g g) as [_|]; [|congruence].
    assert (B := block_end_bound f nq g Hg). fold p in G1, G2.
    split; [lia|]. split.
    - intros q Hq E. destruct (H q Hq) as [Q1 Q2].
      destruct (Nat.lt_trichotomy q g) as [Lt|[->|Lt]].
      + assert (X := block_lt f q g Lt). lia.
      + fold p in E. lia.
      + assert (X := block_lt f g q Lt). lia.
    - split; [now rewrite upd_length|]. intros q Hq. rewrite nth_upd_eq by lia.
      destruct (H q Hq) as [Q1 Q2]. rewrite cut_freq_cons, M in Q2. fold g in Q2.
      destruct (Nat.eq_dec q g) as [->|N].
      + fold p. lia.
      + destruct (Nat.eq_dec g q); [congruence|]. lia.
  Qed.

  Lemma MapOK_other m i r : MapOK m (i :: r) -> is_marker i = false -> MapOK m r.
  Proof.
    intros [L H] M. split; [assumption|]. intros q Hq. destruct (H q Hq) as [Q1 Q2].
    rewrite cut_freq_cons, M in Q2. split; lia.
  Qed.

  (* what we need of a mapping for relocation to be faithful *)
  Definition Good (mf : nat -> nat) : Prop :=
    (forall q, q < nq -> mf q < nq') /\ (forall a b, a < nq -> b < nq -> mf a = mf b -> a = b).

  Lemma MapOK_Good m c : MapOK m c -> Good (fun q => nth q m 0).
  Proof. intros OK. split; [intros q; now apply (MapOK_bound m c)|intros a b; now apply (MapOK_inj m c)]. Qed.

  (* wire lists related through a mapping: original qubit q lives at position mf q,
     every position that is nobody's current position is |0> *)
  Definition Rel (mf : nat -> nat) (w w' : list wt) : Prop :=
    length w = nq /\ length w' = nq' /\
    (forall q, q < nq -> nth (mf q) w' Zero = nth q w Zero) /\
    (forall j, (forall q, q < nq -> j <> mf q) -> nth j w' Zero = Zero).

  Lemma Rel_ext mf mf' w w' : (forall q, q < nq -> mf q = mf' q) -> Rel mf w w' -> Rel mf' w w'.
  Proof.
    intros E (L1 & L2 & R1 & R2). repeat split; try assumption.
    - intros q Hq. rewrite <- E by assumption. now apply R1.
    - intros j Hj. apply R2. intros q Hq. rewrite E by assumption. now apply Hj.
  Qed.

  Lemma Rel_upd mf w w' a v : Good mf -> Rel mf w w' -> a < nq -> Rel mf (upd w a v) (upd w' (mf a) v).
  Proof.
    intros [GB GI] (L1 & L2 & R1 & R2) Ha. repeat split.
    - now rewrite upd_length.
    - now rewrite upd_length.
    - intros q Hq. destruct (Nat.eq_dec q a) as [->|N].
      + rewrite nth_upd_same by (rewrite L2; now apply GB). rewrite nth_upd_same by lia. reflexivity.
      + rewrite nth_upd_other by (intros X; apply N; symmetry; now apply GI).
        rewrite nth_upd_other by congruence. now apply R1.
    - intros j Hj. rewrite nth_upd_other; [now apply R2|]. intros X. apply (Hj a Ha). now symmetry.
  Qed.

  Lemma Rel_set_outputs mf tag g args : Good mf -> forall qs k w w',
    (forall q, In q qs -> q < nq) -> Rel mf w w' ->
    Rel mf (set_outputs tag g args qs k w) (set_outputs tag g args (map mf qs) k w').
  Proof.
    intros G. induction qs as [|q r IH]; intros k w w' B R; simpl; [assumption|].
    apply IH; [intros x Hx; apply B; now right|]. apply Rel_upd; auto. apply B; now left.
  Qed.

  Lemma Rel_args mf w w' qs : (forall q, In q qs -> q < nq) -> Rel mf w w' ->
    map (fun q => nth q w' Zero) (map mf qs) = map (fun q => nth q w Zero) qs.
  Proof.
    intros B (_ & _ & R1 & _). rewrite map_map. apply map_ext_in. intros q Hq. apply R1. now apply B.
  Qed.

  (* one relocated non-marker instruction *)
  Lemma hstep_sim mf tag i s s' :
    Good mf -> is_marker i = false -> (forall q, In q (iqs i) -> q < nq) ->
    Rel mf (hw s) (hw s') -> hc s = hc s' ->
    let t := hstep s (tag, i) in
    let t' := hstep s' (tag, mkI (iop i) (map mf (iqs i)) (ics i)) in
    Rel mf (hw t) (hw t') /\ hc t = hc t'.
  Proof.
    intros G M B R C. cbn zeta. unfold hstep. cbn [iop iqs ics].
    assert (A : map (wire s') (map mf (iqs i)) = map (wire s) (iqs i)) by (apply (Rel_args mf); assumption).
    assert (R1 : forall q, q < nq -> wire s' (mf q) = wire s q) by (intros q Hq; apply R; assumption).
    unfold is_marker in M.
    destruct (iop i) eqn:E; try discriminate; cbn [hw hc].
    - (* Gate *) rewrite A. split; [|assumption]. apply Rel_set_outputs; assumption.
    - (* Barrier *) split; assumption.
    - (* Measure *)
      destruct (iqs i) as [|q r]; cbn [map]; [split; assumption|].
      destruct (ics i) as [|c cr]; cbn [hw hc]; [split; assumption|].
      rewrite R1 by (apply B; now left). split; [|now rewrite C].
      apply Rel_upd; auto. apply B; now left.
    - (* Reset *)
      destruct (iqs i) as [|q r]; cbn [map hw hc]; [split; assumption|].
      split; [|assumption]. apply Rel_upd; auto. apply B; now left.
    - (* Move placed by the user: relocated like any instruction *)
      destruct (iqs i) as [|a [|b r]]; cbn [map hw hc]; try (split; assumption).
      rewrite R1 by (apply B; now left). split; [|assumption].
      apply Rel_upd; auto; [|apply B; now left]. apply Rel_upd; auto. apply B; right; now left.
    - (* Qpd2 *) rewrite A. split; [|assumption]. apply Rel_set_outputs; assumption.
    - (* Qpd1 *) rewrite A. split; [|assumption]. apply Rel_set_outputs; assumption.
    - (* QpdMeasure *)
      destruct (iqs i) as [|q r]; cbn [map hw hc]; [split; assumption|].
      rewrite R1 by (apply B; now left). split; [|assumption]. apply Rel_upd; auto. apply B; now left.
  Qed.

  (* one marker: Move p (p+1), mapping advanced *)
  Lemma move_sim m g w w' :
    length m = nq -> Good (fun q => nth q m 0) -> Rel (fun q => nth q m 0) w w' -> g < nq ->
    let p := nth g m 0 in
    p + 1 < nq' -> (forall q, q < nq -> p + 1 <> nth q m 0) ->
    Rel (fun q => nth q (upd m g (p + 1)) 0) w (upd (upd w' (p + 1) (nth p w' Zero)) p Zero).
  Proof.
    intros Lm [GB GI] (L1 & L2 & R1 & R2) Hg p Hp Hfree.
    assert (Pb : p < nq') by (apply (GB g Hg)).
    repeat split; try assumption.
    - now rewrite !upd_length.
    - intros q Hq. rewrite nth_upd_eq by lia. destruct (Nat.eq_dec q g) as [->|N].
      + rewrite nth_upd_other by lia. rewrite nth_upd_same by lia. now apply R1.
      + assert (nth q m 0 <> p) by (intros X; apply N; now apply GI).
        assert (nth q m 0 <> p + 1) by (intros X; apply (Hfree q Hq); now symmetry).
        rewrite !nth_upd_other by congruence. now apply R1.
    - intros j Hj.
      assert (J1 : j <> p + 1).
      { intros X. apply (Hj g Hg). rewrite nth_upd_eq by lia. destruct (Nat.eq_dec g g); congruence. }
      destruct (Nat.eq_dec j p) as [->|N].
      + apply nth_upd_same. now rewrite upd_length, L2.
      + rewrite !nth_upd_other by congruence. apply R2. intros q Hq X.
        destruct (Nat.eq_dec q g) as [->|Nq]; [now apply N|].
        apply (Hj q Hq). rewrite nth_upd_eq by lia. destruct (Nat.eq_dec q g); congruence.
  Qed.

  (* master lemma: process a prefix c1 of c1 ++ c2 *)
  Lemma tcw_sim c1 : forall c2 n m s s',
    wf_circ nq c1 = true -> MapOK m (c1 ++ c2) ->
    Rel (fun q => nth q m 0) (hw s) (hw s') -> hc s = hc s' ->
    let t := hrun s (tag_from n (erase_markers c1)) in
    let t' := hrun s' (tag_from n (tcw Move m c1)) in
    Rel (fun q => nth q (run_map m c1) 0) (hw t) (hw t') /\ hc t = hc t' /\ MapOK (run_map m c1) c2.
  Proof.
    induction c1 as [|i r IH]; intros c2 n m s s' W OK R C; cbn zeta.
    - simpl. auto.
    - apply wf_circ_cons in W as [Wi Wr]. destruct (wf_instr_spec nq i Wi) as [Bq Bm].
      simpl app in OK. cbn [tcw run_map erase_markers filter]. fold (erase_markers r).
      destruct (is_marker i) eqn:M; cbn [negb].
      + destruct (Bm eq_refl) as [_ Hg].
        destruct (MapOK_marker m i (r ++ c2) OK M Hg) as (Hp & Hfree & OK').
        cbn [tag_from creates_term iop]. unfold hrun at 2. cbn [fold_left]. fold (hrun (hstep s' (n, mkI Move [nth (marker_qubit i) m 0; nth (marker_qubit i) m 0 + 1] [])) (tag_from n (tcw Move (upd m (marker_qubit i) (nth (marker_qubit i) m 0 + 1)) r))).
        apply IH; try assumption.
        unfold hstep. cbn [iop iqs hw]. apply move_sim; try assumption; [apply OK|apply (MapOK_Good m _ OK)].
      + assert (OK' := MapOK_other m i (r ++ c2) OK M).
        assert (G := MapOK_Good m _ OK).
        destruct (hstep_sim (fun q => nth q m 0) n i s s' G M Bq R C) as [R' C'].
        cbn [tag_from]. change (creates_term (mkI (iop i) (map (fun q => nth q m 0) (iqs i)) (ics i))) with (creates_term i).
        destruct (creates_term i); unfold hrun; cbn [fold_left];
          [fold (hrun (hstep s (n, i)) (tag_from (S n) (erase_markers r)));
           fold (hrun (hstep s' (n, mkI (iop i) (map (fun q => nth q m 0) (iqs i)) (ics i))) (tag_from (S n) (tcw Move m r)))
          |fold (hrun (hstep s (n, i)) (tag_from n (erase_markers r)));
           fold (hrun (hstep s' (n, mkI (iop i) (map (fun q => nth q m 0) (iqs i)) (ics i))) (tag_from n (tcw Move m r)))];
          apply IH; assumption.
  Qed.
End Sim.

(* markers are identities of the Herbrand semantics *)
Lemma hrun_erase c : forall n s, hrun s (tag_from n c) = hrun s (tag_from n (erase_markers c)).
Proof.
  induction c as [|i r IH]; intros n s; [reflexivity|].
  cbn [erase_markers filter]. fold (erase_markers r).
  destruct (is_marker i) eqn:M; cbn [negb tag_from].
  - unfold is_marker in M. unfold creates_term. destruct (iop i) eqn:E; try discriminate.
    unfold hrun. cbn [fold_left]. unfold hstep at 2. rewrite E. apply IH.
  - destruct (creates_term i); unfold hrun; cbn [fold_left]; apply IH.
Qed.

Lemma denote_erase nq nc c : denote nq nc c = denote nq nc (erase_markers c).
Proof. unfold denote, tagc. apply hrun_erase. Qed.

(* initial relation *)
Lemma initial_ok nq c : wf_circ nq c = true ->
  MapOK (cut_freq c) nq (fst (structure_mapping nq c)) c.
Proof.
  intros W. split; [apply initial_mapping_length|]. intros q Hq.
  rewrite initial_mapping by assumption. unfold block_end. lia.
Qed.

Lemma initial_rel nq nq' mf : Rel nq nq' mf (repeat Zero nq) (repeat Zero nq').
Proof. repeat split; try apply repeat_length; intros; now rewrite !nth_repeat_Zero. Qed.

(* the state after any prefix *)
Lemma prefix_sim nq nc c c1 c2 : wf_circ nq c = true -> c = c1 ++ c2 ->
  let nq' := nq + count_markers c in
  let m0 := fst (structure_mapping nq c) in
  let t := denote nq nc (erase_markers c1) in
  let t' := denote nq' nc (tcw Move m0 c1) in
  (forall q, q < nq -> wire t' (position_after c c1 q) = wire t q) /\
  (forall j, (forall q, q < nq -> j <> position_after c c1 q) -> wire t' j = Zero) /\
  hc t' = hc t /\
  MapOK (cut_freq c) nq (run_map m0 c1) c2.
Proof.
  intros W E. cbn zeta. destruct (wf_circ_app nq c1 c2) as [W1 W2]; [now rewrite <- E|].
  assert (OK := initial_ok nq c W). rewrite E in OK at 3.
  assert (Hn : nq + count_markers c = nq + sum_below (cut_freq c) nq) by (now rewrite (sum_cut_freq nq c W)).
  destruct (tcw_sim (cut_freq c) nq (nq + count_markers c) Hn c1 c2 0 (fst (structure_mapping nq c))
              (hinit nq nc) (hinit (nq + count_markers c) nc) W1 OK) as ((_ & _ & R1 & R2) & C & OK').
  - apply initial_rel.
  - reflexivity.
  - unfold denote, tagc, wire. split; [|split; [|split]].
    + intros q Hq. rewrite <- (run_map_position nq c c1 q W1 Hq). now apply R1.
    + intros j Hj. apply R2. intros q Hq. rewrite (run_map_position nq c c1 q W1 Hq). now apply Hj.
    + now symmetry.
    + assumption.
Qed.

Lemma position_after_all c q : position_after c c q = final_position c q.
Proof. reflexivity. Qed.

Lemma semantics_full nq nc c : wf_circ nq c = true ->
  let t := denote nq nc (erase_markers c) in
  let t' := denote (nq + count_markers c) nc (cut_wires_moves nq c) in
  (forall q, q < nq -> wire t' (final_position c q) = wire t q) /\
  (forall j, (forall q, q < nq -> j <> final_position c q) -> wire t' j = Zero) /\
  hc t' = hc t.
Proof.
  intros W. destruct (prefix_sim nq nc c c [] W (eq_sym (app_nil_r c))) as (A & B & C & _).
  cbn zeta. unfold cut_wires_moves, cut_wires_gen. auto.
Qed.

(* every inserted Move lands on a wire that is still |0> *)
Lemma move_target_zero nq nc c c1 i c2 : wf_circ nq c = true -> c = c1 ++ i :: c2 -> is_marker i = true ->
  let p := position_after c c1 (marker_qubit i) in
  wire (denote (nq + count_markers c) nc (tcw Move (fst (structure_mapping nq c)) c1)) (p + 1) = Zero.
Proof.
  intros W E M p.
  destruct (prefix_sim nq nc c c1 (i :: c2) W E) as (_ & B & _ & OK).
  destruct (wf_circ_app nq c1 (i :: c2)) as [W1 W2]; [now rewrite <- E|].
  apply wf_circ_cons in W2 as [Wi _]. destruct (proj2 (wf_instr_spec nq i Wi) M) as [_ Hg].
  assert (Hn : nq + count_markers c = nq + sum_below (cut_freq c) nq) by (now rewrite (sum_cut_freq nq c W)).
  destruct (MapOK_marker (cut_freq c) nq _ Hn _ i c2 OK M Hg) as (_ & Hfree & _).
  apply B. intros q Hq X. apply (Hfree q Hq).
  rewrite !(run_map_position nq c c1) by assumption. exact X.
Qed.

(* packaged statements used by Properties/C03.v *)
Lemma new_qubits_full nq c : wf_circ nq c = true ->
  new_qubits nq c =
    flat_map (fun q => seq (nq + sum_below (cut_freq c) q) (cut_freq c q) ++ [q]) (seq 0 nq)
  /\ length (new_qubits nq c) = nq + count_markers c
  /\ filter (fun t => t <? nq) (new_qubits nq c) = seq 0 nq
  /\ forall q, q < nq -> index_of q (new_qubits nq c) = Some (final_position c q).
Proof.
  intros W. split; [exact (new_qubits_spec nq c)|]. split; [exact (new_qubits_length nq c W)|].
  split; [|exact (fun q => index_of_new_qubits nq c q)].
  rewrite new_qubits_spec. apply blocks_originals; lia.
Qed.

Lemma transform_fields fac nq nc qregs cregs c :
  let r := transform_cut_wires fac nq nc qregs cregs c in
  cr_qubits r = new_qubits nq c /\ cr_qregs r = qregs /\ cr_nclbits r = nc /\ cr_cregs r = cregs /\
  cr_data r = cut_wires_gen fac nq c.
Proof.
  cbn zeta. unfold transform_cut_wires, new_qubits, cut_wires_gen.
  destruct (structure_mapping nq c). cbn. repeat split.
Qed.

(* the cut_wires form (any factory) executed with its inserted operations as Moves IS the Move form *)
Lemma exec_inserted_tcw fac c : forall m, exec_inserted_as_moves c (tcw fac m c) = tcw Move m c.
Proof.
  induction c as [|i r IH]; intros m; simpl; [reflexivity|].
  destruct (is_marker i); simpl; now rewrite IH.
Qed.

Lemma exec_inserted_cut_wires fac nq c :
  exec_inserted_as_moves c (cut_wires_gen fac nq c) = cut_wires_moves nq c.
Proof. apply exec_inserted_tcw. Qed.

Lemma semantics_full_gen fac nq nc c : wf_circ nq c = true ->
  let t := denote nq nc (erase_markers c) in
  let t' := denote (nq + count_markers c) nc (exec_inserted_as_moves c (cut_wires_gen fac nq c)) in
  (forall q, q < nq -> wire t' (final_position c q) = wire t q) /\
  (forall j, (forall q, q < nq -> j <> final_position c q) -> wire t' j = Zero) /\
  hc t' = hc t.
Proof. intros W. rewrite exec_inserted_cut_wires. now apply semantics_full. Qed.

Lemma op_beq_refl o : op_beq o o = true.
Proof.
  assert (Q : forall l : qlabel, qlabel_beq l l = true).
  { intros [[a [b|]]|]; unfold qlabel_beq, option_beq, pair_beq; simpl; rewrite ?Nat.eqb_refl; reflexivity. }
  assert (O : forall x : option nat, option_beq Nat.eqb x x = true) by (intros [x|]; simpl; [apply Nat.eqb_refl|reflexivity]).
  destruct o; simpl; rewrite ?Nat.eqb_refl, ?O, ?Q; reflexivity.
Qed.

(* by operation: valid when the factory op does not already occur in the input *)
Lemma unwrap_tcw fac c : (forall i, In i c -> op_beq (iop i) fac = false) ->
  forall m, map (unwrap fac) (tcw fac m c) = tcw Move m c.
Proof.
  induction c as [|i r IH]; intros H m; simpl; [reflexivity|].
  assert (Hr : forall j, In j r -> op_beq (iop j) fac = false) by (intros j Hj; apply H; now right).
  destruct (is_marker i); simpl.
  - unfold unwrap at 1. simpl. rewrite op_beq_refl. now rewrite IH.
  - unfold unwrap at 1. simpl. rewrite (H i) by now left. now rewrite IH.
Qed.

Lemma unwrap_cut_wires fac nq c : (forall i, In i c -> op_beq (iop i) fac = false) ->
  map (unwrap fac) (cut_wires_gen fac nq c) = cut_wires_moves nq c.
Proof. intros H. now apply unwrap_tcw. Qed.

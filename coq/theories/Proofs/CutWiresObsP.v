(* Proofs/CutWiresObsP.v — every expanded observable reads the same wires (C03), and the composition of C03 with the
   round-trip theorem of C01 (clause f of the property). *)
From Coq Require Import Lia QArith.
From CKT Require Import Common.Base Common.Circ Common.Herbrand Model.Observables Model.CutWires Model.CutWiresObs
  Proofs.ObservablesP Proofs.CutWiresP.
Close Scope Q_scope.

(* ---------- the positions of the result, block by block ---------- *)
Lemma seq_blocks f : forall n,
  seq 0 (n + sum_below f n) = flat_map (fun q => seq (block_start f q) (f q) ++ [block_end f q]) (seq 0 n).
Proof.
  induction n as [|n IH]; [reflexivity|].
  rewrite seq_S, flat_map_app. cbn [flat_map]. rewrite app_nil_r, <- IH. cbn [sum_below].
  replace (S n + (sum_below f n + f n)) with ((n + sum_below f n) + (f n + 1)) by lia.
  rewrite seq_app. f_equal. cbn [plus]. rewrite seq_app. unfold block_end, block_start. reflexivity.
Qed.

Lemma flat_map_flat_map {A B C} (g : B -> list C) (h : A -> list B) l :
  flat_map g (flat_map h l) = flat_map (fun a => flat_map g (h a)) l.
Proof. induction l as [|a r IH]; [reflexivity|]. cbn [flat_map]. now rewrite flat_map_app, IH. Qed.

Lemma flat_map_ext_in {A B} (g h : A -> list B) l : (forall a, In a l -> g a = h a) -> flat_map g l = flat_map h l.
Proof.
  induction l as [|a r IH]; intros H; [reflexivity|]. cbn [flat_map].
  rewrite (H a) by now left. f_equal. apply IH. intros x Hx. apply H. now right.
Qed.

Lemma flat_map_nil {A B} (g : A -> list B) l : (forall a, In a l -> g a = []) -> flat_map g l = [].
Proof. induction l as [|a r IH]; intros H; [reflexivity|]. cbn [flat_map]. rewrite (H a) by now left. apply IH. intros x Hx. apply H. now right. Qed.

(* a position strictly inside block q (one of q's fresh qubits) is nobody's final position *)
Lemma inside_block_not_final f nq q j : q < nq -> block_start f q <= j < block_end f q ->
  forall q', q' < nq -> j <> block_end f q'.
Proof.
  intros Hq Hj q' Hq' E.
  destruct (Nat.lt_trichotomy q' q) as [L|[->|L]].
  - assert (X := block_lt f q' q L). lia.
  - lia.
  - assert (X := block_lt f q q' L). unfold block_end in *. lia.
Qed.

(* generic form: a state/letter assignment on nq + sum f positions that agrees with (s, lets) on the final positions
   and is trivial elsewhere has the same reading *)
Lemma reading_blocks f nq (s s' : hstate) (lets lets' : list letter) :
  length lets = nq -> length lets' = nq + sum_below f nq ->
  (forall q, q < nq -> wire s' (block_end f q) = wire s q) ->
  (forall q, q < nq -> nth (block_end f q) lets' 0 = nth q lets 0) ->
  (forall j, (forall q, q < nq -> j <> block_end f q) -> nth j lets' 0 = 0) ->
  reading s' lets' = reading s lets.
Proof.
  intros L L' Hw Hl Hz. unfold reading. rewrite L', L, seq_blocks, flat_map_flat_map.
  apply flat_map_ext_in. intros q Hq. apply in_seq in Hq.
  rewrite flat_map_app. cbn [flat_map]. rewrite app_nil_r.
  rewrite flat_map_nil.
  - cbn [app]. rewrite Hl, Hw by lia. reflexivity.
  - intros j Hj. apply in_seq in Hj.
    rewrite Hz; [reflexivity|]. apply (inside_block_not_final f nq q); unfold block_end; lia.
Qed.

Lemma reading_expand nq nc c p : wf_circ nq c = true -> length (plets p) = nq ->
  let r := expand1 (map (final_position c) (seq 0 nq)) (nq + count_markers c) p in
  reading (denote (nq + count_markers c) nc (cut_wires_moves nq c)) (plets r)
  = reading (denote nq nc (erase_markers c)) (plets p).
Proof.
  intros W L r.
  destruct (semantics_full nq nc c W) as (S1 & _ & _).
  destruct (expand1_letters nq c p W L) as (_ & R2 & R3 & R4). fold r in R2, R3, R4.
  apply (reading_blocks (cut_freq c) nq); auto.
  now rewrite (sum_cut_freq nq c W).
Qed.

Lemma expect_expand {A} (ev : list (letter * wt) -> list ct -> nat -> A) nq nc c p :
  wf_circ nq c = true -> length (plets p) = nq ->
  expect ev (denote (nq + count_markers c) nc (cut_wires_moves nq c))
            (expand1 (map (final_position c) (seq 0 nq)) (nq + count_markers c) p)
  = expect ev (denote nq nc (erase_markers c)) p.
Proof.
  intros W L. unfold expect. rewrite (reading_expand nq nc c p W L).
  destruct (semantics_full nq nc c W) as (_ & _ & S3). rewrite S3.
  destruct (expand1_letters nq c p W L) as (R1 & _). now rewrite R1.
Qed.

(* for the whole list, as expand_observables returns it *)
Lemma expect_expanded {A} (ev : list (letter * wt) -> list ct -> nat -> A) nq nc c ps :
  wf_circ nq c = true -> (forall p, In p ps -> length (plets p) = nq) ->
  map (expect ev (denote (nq + count_markers c) nc (cut_wires_moves nq c))) (expanded nq c ps)
  = map (expect ev (denote nq nc (erase_markers c))) ps.
Proof.
  intros W H. unfold expanded. rewrite map_map. apply map_ext_in. intros p Hp. apply expect_expand; auto.
Qed.

(* ---------- range statements (so that the Zero conclusions are not true by the default of [wire]) ---------- *)
Lemma move_target_in_range nq c c1 i c2 : wf_circ nq c = true -> c = c1 ++ i :: c2 -> is_marker i = true ->
  let p := position_after c c1 (marker_qubit i) in
  block_start (cut_freq c) (marker_qubit i) <= p /\
  p + 1 <= final_position c (marker_qubit i) /\
  final_position c (marker_qubit i) < nq + count_markers c.
Proof.
  intros W E M p.
  destruct (wf_circ_app nq c1 (i :: c2)) as [W1 W2]; [now rewrite <- E|].
  apply wf_circ_cons in W2 as [Wi _]. destruct (proj2 (wf_instr_spec nq i Wi) M) as [_ Hg].
  split; [unfold p, position_after; lia|]. split; [|now apply final_position_bound].
  assert (F : cut_freq c (marker_qubit i) = cut_freq c1 (marker_qubit i) + (1 + cut_freq c2 (marker_qubit i))).
  { rewrite E, cut_freq_app, cut_freq_cons, M.
    destruct (Nat.eq_dec (marker_qubit i) (marker_qubit i)); [reflexivity|congruence]. }
  unfold p, position_after, final_position, block_end. lia.
Qed.

Lemma move_target_full nq nc c c1 i c2 : wf_circ nq c = true -> c = c1 ++ i :: c2 -> is_marker i = true ->
  let p := position_after c c1 (marker_qubit i) in
  wire (denote (nq + count_markers c) nc (tcw Move (fst (structure_mapping nq c)) c1)) (p + 1) = Zero /\
  p + 1 <= final_position c (marker_qubit i) /\
  final_position c (marker_qubit i) < nq + count_markers c /\
  length (hw (denote (nq + count_markers c) nc (tcw Move (fst (structure_mapping nq c)) c1))) = nq + count_markers c.
Proof.
  intros W E M p.
  destruct (move_target_in_range nq c c1 i c2 W E M) as (_ & R1 & R2).
  split; [exact (move_target_zero nq nc c c1 i c2 W E M)|]. split; [exact R1|]. split; [exact R2|].
  unfold denote, hrun. generalize (tagc (tcw Move (fst (structure_mapping nq c)) c1)).
  assert (G : forall l s, length (hw (fold_left hstep l s)) = length (hw s)).
  { induction l as [|x r IH]; intros s; [reflexivity|]. cbn [fold_left]. rewrite IH. apply hstep_wlen. }
  intros l. rewrite G. cbn. apply repeat_length.
Qed.

Lemma semantics_full_bounded nq nc c : wf_circ nq c = true ->
  let t := denote nq nc (erase_markers c) in
  let t' := denote (nq + count_markers c) nc (cut_wires_moves nq c) in
  (forall q, q < nq -> final_position c q < nq + count_markers c /\ wire t' (final_position c q) = wire t q) /\
  (forall j, (forall q, q < nq -> j <> final_position c q) -> wire t' j = Zero) /\
  hc t' = hc t.
Proof.
  intros W. destruct (semantics_full nq nc c W) as (A & B & C). cbn zeta.
  split; [|split; assumption]. intros q Hq. split; [now apply final_position_bound|now apply A].
Qed.

Lemma expand_new_qubits_wf nq c ps : wf_circ nq c = true -> (forall p, In p ps -> length (plets p) = nq) ->
  expand nq (seq 0 nq) (new_qubits nq c) ps =
  Ok (map (expand1 (map (final_position c) (seq 0 nq)) (nq + count_markers c)) ps).
Proof. intros W _. now apply expand_new_qubits. Qed.

(* Proofs/BestFirstRefuse.v — C08 extension: hypotheses of the unbounded theorems derived from the model.

   (1) A value returned by find_cuts_full proves that every multi-qubit gate of the circuit acts on exactly two qubits:
       the returned state is a goal reached by a path of the guarded search space from level 0, a path visits every
       level, and cut_optimization_next_state_func raises ValueError ("must contain only single and two-qubit gates")
       at the level of a wider gate.  Hence circ_wf (two DISTINCT qubits) can be weakened to circ_nodup (no qubit
       twice in one instruction: Qiskit's own CircuitError "duplicate qubit arguments"), and a circuit with a wider
       gate never yields a result.
   (2) gammas_ok_in follows from the executable check gtab_ge1 of the gate table (Model/CutFinderTable.v). *)
From Coq Require Import QArith Lia.
From CKT Require Import Model.CutFinder Model.CutFinderTable Proofs.CutFinderSpec Proofs.CutFinderInv Proofs.CutFinderCirc.
From CKT Require Import Proofs.BestFirstP Proofs.BestFirstSpec Proofs.BestFirstExchangeSim Proofs.BestFirstExchangeFinal.
Close Scope Q_scope.

(* a path to a goal visits every level, and a visited non-goal level has successors *)
Lemma path_levels fa s g : reach fa s g -> goal fa g ->
  forall j, level s <= j -> j < length (fa_gates fa) -> exists s' l, level s' = j /\ next_states fa s' = Val l.
Proof.
  intros R Gg. induction R as [x|x y z Sc R IH]; intros j Lo Hi.
  - unfold goal, goal_state in Gg. apply Nat.leb_le in Gg. lia.
  - destruct Sc as (l & Hl & Hin). destruct (next_states_spec _ _ _ Hl) as (g0 & _ & _ & Hall).
    destruct (Hall _ Hin) as (k & _ & _ & Ely).
    destruct (Nat.eq_dec (level x) j) as [E|N]; [exists x, l; auto|].
    apply IH; auto. lia.
Qed.

Lemma expanded_level_two fa s l g : next_states fa s = Val l -> nth_error (fa_gates fa) (level s) = Some g ->
  length (g_qubits g) = 2.
Proof.
  unfold next_states. intros H E. rewrite E in H. destruct (Nat.eqb_spec (length (g_qubits g)) 2); [assumption|discriminate].
Qed.

Lemma goal_path_two fa s g : reach fa s g -> goal fa g -> level s = 0 ->
  forall x, In x (fa_gates fa) -> length (g_qubits x) = 2.
Proof.
  intros R Gg L0 x Hx. destruct (In_nth_error _ _ Hx) as (j & Ej).
  assert (Hj : j < length (fa_gates fa)) by (apply nth_error_Some; congruence).
  destruct (path_levels fa s g R Gg j ltac:(lia) Hj) as (s' & l & <- & Hl).
  eapply expanded_level_two; eauto.
Qed.

(* (1) a result implies two-qubit gates *)
Lemma result_two_qubit fuel i r : gammas_ok_in i -> find_cuts_full fuel i = Val r ->
  forall g, In g (fa_gates (fa_of i)) -> length (g_qubits g) = 2.
Proof.
  intros G H. destruct (result_attained fuel i r G H) as ([Eg|(R & Gg)] & _).
  - unfold greedy_of in Eg. destruct (greedy_cut_optimization (nq_of i) (fa_of i)) as [o| | |] eqn:E; try discriminate. subst o.
    unfold greedy_cut_optimization in E.
    destruct (greedy_reach (fi_W i) (fi_gate_lo i) (fi_wire_lo i) (fa_gates (fa_of i)) _ _ _ E) as (R & Gg).
    exact (goal_path_two _ _ _ R Gg eq_refl).
  - exact (goal_path_two _ _ _ R Gg eq_refl).
Qed.

(* no instruction uses a qubit twice *)
Definition circ_nodup (c : circ) : Prop := forall x, In x c -> is_multi x = true -> NoDup (iqs x).

Lemma circ_wf_nodup c : circ_wf c -> circ_nodup c.
Proof. intros H x Hx Hm. exact (proj2 (H x Hx Hm)). Qed.

Lemma fa_gates_eq i : fa_gates (fa_of i) = gates_of (fi_nq i) (fi_gtab i) (fi_circ i) /\
  nq_of i = length (names_of (fi_nq i) (fi_gtab i) (fi_circ i)).
Proof.
  unfold fa_of, nq_of. cbn [fa_gates].
  destruct (iface_init_fields (fi_nq i) (fi_gtab i) (fi_circ i)) as [Ecirc Enq]. rewrite Ecirc, Enq. split; reflexivity.
Qed.

Lemma fa_gates_wf_nodup i : circ_nodup (fi_circ i) ->
  (forall g, In g (fa_gates (fa_of i)) -> length (g_qubits g) = 2) ->
  forall g, In g (fa_gates (fa_of i)) -> gwf (nq_of i) g.
Proof.
  intros ND L2 g Hg. destruct (fa_gates_eq i) as [Eg En]. rewrite En. pose proof (L2 g Hg) as GL. rewrite Eg in Hg.
  destruct (gates_of_circ (fi_nq i) (fi_gtab i) (fi_circ i)) as (_ & _ & Hspec & _).
  destruct (Hspec g Hg) as (x & Hx & Hm & Hq & _ & Hlt).
  pose proof (ND x (nth_error_In _ _ Hx) Hm) as NDq. rewrite Hq in NDq.
  destruct (g_qubits g) as [|a [|b [|? ?]]] eqn:Eq; cbn in GL; try lia.
  unfold gwf, q1_of, q2_of. rewrite Eq. cbn [nth length]. repeat split; auto.
  - intros ->. cbn in NDq. inversion NDq as [|? ? Hn _]. apply Hn. now left.
  - apply Hlt. now left.
  - apply Hlt. right; now left.
Qed.

Lemma pruning_sound_result fuel i r : gammas_ok_in i -> circ_nodup (fi_circ i) -> find_cuts_full fuel i = Val r ->
  pruning_sound_for (fa_gates (fa_of i)) (fi_gate_lo i) (fi_wire_lo i) (fi_W i) (fi_max_gamma i) (nq_of i).
Proof.
  intros G ND H. apply pruning_sound; [exact G|]. apply fa_gates_wf_nodup; [exact ND|]. exact (result_two_qubit fuel i r G H).
Qed.

Lemma flag_sound_nodup fuel i r : gammas_ok_in i -> circ_nodup (fi_circ i) ->
  find_cuts_full fuel i = Val r -> md_minimum_reached (fr_meta r) = true ->
  forall A c, assignment_cost (nq_of i) (fi_W i) (fi_gate_lo i) (fi_wire_lo i) (sgates_of (fa_gates (fa_of i))) A = Some c ->
  (md_overhead (fr_meta r) <= c * c)%Q.
Proof. intros G ND H. apply (flag_sound_spec fuel i r G (pruning_sound_result fuel i r G ND H) H). Qed.

Lemma unrestricted_nodup fuel i r : gammas_ok_in i -> circ_nodup (fi_circ i) ->
  find_cuts_full fuel i = Val r -> fi_max_backjumps i = None -> spec_within i ->
  md_minimum_reached (fr_meta r) = true.
Proof. intros G ND H. apply (unrestricted_spec fuel i r G (pruning_sound_result fuel i r G ND H) H). Qed.

Lemma seed_independent_nodup fuel1 fuel2 i t1 t2 r1 r2 : gammas_ok_in i -> circ_nodup (fi_circ i) ->
  fi_max_backjumps i = None -> spec_within i ->
  find_cuts_full fuel1 (with_tape i t1) = Val r1 -> find_cuts_full fuel2 (with_tape i t2) = Val r2 ->
  (md_overhead (fr_meta r1) == md_overhead (fr_meta r2))%Q.
Proof.
  intros G ND MB SW H1 H2. apply (seed_independent_spec fuel1 fuel2 i t1 t2 r1 r2 G); auto.
  exact (pruning_sound_result fuel1 (with_tape i t1) r1 G ND H1).
Qed.

(* a circuit with a multi-qubit gate on other than two qubits never yields a result *)
Lemma wide_gate_no_result fuel i : gammas_ok_in i ->
  (exists x, In x (fi_circ i) /\ is_multi x = true /\ length (iqs x) <> 2) ->
  forall r, find_cuts_full fuel i <> Val r.
Proof.
  intros G (x & Hx & Hm & Hl) r H. apply Hl.
  destruct (In_nth_error _ _ Hx) as (k & Ek).
  destruct (gates_of_circ (fi_nq i) (fi_gtab i) (fi_circ i)) as (_ & _ & Hspec & Hall).
  destruct (Hall k x Ek Hm) as (g & Hg & Ei).
  destruct (Hspec g Hg) as (x' & Hx' & _ & Hq & _). rewrite Ei, Ek in Hx'. injection Hx' as <-.
  rewrite Hq, map_length. destruct (fa_gates_eq i) as [Eg _]. rewrite <- Eg in Hg.
  exact (result_two_qubit fuel i r G H g Hg).
Qed.

(* (2) the gammas of the request come from the gate table *)
Lemma glookup_in g t v : glookup g t = Some v -> In (g, v) t.
Proof.
  induction t as [|[h w] t IH]; cbn [glookup]; [discriminate|].
  destruct (Nat.eqb_spec g h) as [->|N]; intros H; [injection H as ->; now left|right; auto].
Qed.

Lemma gtab_gammas_ok i : gtab_ge1 (fi_gtab i) = true -> gammas_ok_in i.
Proof.
  intros T g Hg q Eq. destruct (fa_gates_eq i) as [Eg _]. rewrite Eg in Hg.
  destruct (gates_of_circ (fi_nq i) (fi_gtab i) (fi_circ i)) as (_ & _ & Hspec & _).
  destruct (Hspec g Hg) as (x & _ & _ & _ & Egam & _). rewrite Egam in Eq.
  unfold op_gamma in Eq. destruct (iop x); try discriminate. destruct (Nat.eqb _ 2); [|discriminate].
  destruct (glookup _ (fi_gtab i)) as [[k o]|] eqn:El; [|discriminate]. cbn in Eq. injection Eq as <-.
  apply glookup_in in El. unfold gtab_ge1 in T. rewrite forallb_forall in T. specialize (T _ El). cbn in T.
  now apply Qleb_true.
Qed.

(* the request-level theorems under the two checkable hypotheses *)
Lemma flag_sound_table fuel i r : gtab_ge1 (fi_gtab i) = true -> circ_nodup (fi_circ i) ->
  find_cuts_full fuel i = Val r -> md_minimum_reached (fr_meta r) = true ->
  forall A c, assignment_cost (nq_of i) (fi_W i) (fi_gate_lo i) (fi_wire_lo i) (sgates_of (fa_gates (fa_of i))) A = Some c ->
  (md_overhead (fr_meta r) <= c * c)%Q.
Proof. intros T. exact (flag_sound_nodup fuel i r (gtab_gammas_ok i T)). Qed.

Lemma unrestricted_table fuel i r : gtab_ge1 (fi_gtab i) = true -> circ_nodup (fi_circ i) ->
  find_cuts_full fuel i = Val r -> fi_max_backjumps i = None -> spec_within i ->
  md_minimum_reached (fr_meta r) = true.
Proof. intros T. exact (unrestricted_nodup fuel i r (gtab_gammas_ok i T)). Qed.

Lemma seed_independent_table fuel1 fuel2 i t1 t2 r1 r2 : gtab_ge1 (fi_gtab i) = true -> circ_nodup (fi_circ i) ->
  fi_max_backjumps i = None -> spec_within i ->
  find_cuts_full fuel1 (with_tape i t1) = Val r1 -> find_cuts_full fuel2 (with_tape i t2) = Val r2 ->
  (md_overhead (fr_meta r1) == md_overhead (fr_meta r2))%Q.
Proof. intros T. exact (seed_independent_nodup fuel1 fuel2 i t1 t2 r1 r2 (gtab_gammas_ok i T)). Qed.

Lemma wide_gate_no_result_table fuel i : gtab_ge1 (fi_gtab i) = true ->
  (exists x, In x (fi_circ i) /\ is_multi x = true /\ length (iqs x) <> 2) ->
  forall r, find_cuts_full fuel i <> Val r.
Proof. intros T. exact (wide_gate_no_result fuel i (gtab_gammas_ok i T)). Qed.

(* Proofs/WeightsP.v — lemmas about Model/Weights.v (basic layer). *)
From Coq Require Import QArith Qabs Qround Lia ZifyBool.
From CKT Require Import Common.Base Extracted.Facts Model.Weights.
Open Scope Q_scope.

Lemma Qltb_lt x y : Qltb x y = true <-> x < y.
Proof.
  unfold Qltb. rewrite negb_true_iff. split; intros H.
  - apply Qnot_le_lt. intros L. apply Qle_bool_iff in L. congruence.
  - destruct (Qle_bool y x) eqn:E; [|reflexivity]. apply Qle_bool_iff in E. exfalso. eapply Qlt_not_le; eauto.
Qed.

Lemma Qltb_ge x y : Qltb x y = false <-> y <= x.
Proof.
  unfold Qltb. rewrite negb_false_iff. apply Qle_bool_iff.
Qed.

(* refusal: NaN, -inf and every finite budget below 1, whatever the bases/permutations/tape *)
Lemma gen_refuses probs perms tape N :
  (N = NaN \/ N = NInf \/ exists q, N = Fin q /\ q < 1) -> gen_weights probs perms N tape = Some Refused.
Proof.
  intros [->|[->|[q [-> H]]]]; unfold gen_weights, gen_core; try reflexivity.
  apply Qltb_lt in H. now rewrite H.
Qed.

(* Proofs/WeightsP.v — lemmas about Model/Weights.v (basic layer). *)
From Coq Require Import QArith Qabs Qround Lia ZifyBool.
From CKT Require Import Common.Base Extracted.Facts Model.Weights.
Open Scope Q_scope.

Lemma Qltb_lt x y : Qltb x y = true <-> x < y.
Proof.
  unfold Qltb. rewrite negb_true_iff. split; intros H.
  - apply Qnot_le_lt. intros L. apply Qle_bool_iff in L. congruence.
  - destruct (Qle_bool y x) eqn:E; [|reflexivity]. apply Qle_bool_iff in E. exfalso. eapply Qlt_not_le; eauto.
Qed.

Lemma Qltb_ge x y : Qltb x y = false <-> y <= x.
Proof.
  unfold Qltb. rewrite negb_false_iff. apply Qle_bool_iff.
Qed.

(* refusal: NaN, -inf and every finite budget below 1, whatever the bases/permutations/tape *)
Lemma gen_refuses probs perms tape N :
  (N = NaN \/ N = NInf \/ exists q, N = Fin q /\ q < 1) -> gen_weights probs perms N tape = Some Refused.
Proof.
  intros [->|[->|[q [-> H]]]]; unfold gen_weights, gen_core; try reflexivity.
  apply Qltb_lt in H. now rewrite H.
Qed.

Lemma Qeqb_true x y : Qeq_bool x y = true <-> x == y.
Proof. apply Qeq_bool_iff. Qed.
Lemma Qeqb_false x y : Qeq_bool x y = false <-> ~ x == y.
Proof.
  split; intros H.
  - intros E. apply Qeq_bool_iff in E. congruence.
  - destruct (Qeq_bool x y) eqn:E; [|reflexivity]. apply Qeq_bool_iff in E. contradiction.
Qed.

(* ---------- keys ---------- *)
Lemma key_eqb_refl k : key_eqb k k = true.
Proof. apply list_beq_refl. apply Nat.eqb_refl. Qed.

Lemma key_eqb_eq a b : key_eqb a b = true <-> a = b.
Proof.
  split; [|intros ->; apply key_eqb_refl].
  apply list_beq_eq. intros x y H. now apply Nat.eqb_eq.
Qed.

Lemma key_eqb_neq a b : key_eqb a b = false <-> a <> b.
Proof.
  split; intros H.
  - intros E. apply key_eqb_eq in E. congruence.
  - destruct (key_eqb a b) eqn:E; [|reflexivity]. apply key_eqb_eq in E. contradiction.
Qed.

Lemma NoDup_remove_inv_end {A} (l : list A) x : NoDup l -> ~ In x l -> NoDup (l ++ [x]).
Proof.
  induction l as [|y r IH]; simpl; intros ND NI.
  - constructor; [tauto|constructor].
  - inversion ND; subst. constructor.
    + rewrite in_app_iff. simpl. intros [H|[H|[]]]; [tauto|]. apply NI. now left.
    + apply IH; auto.
Qed.

(* ---------- dicts ---------- *)
Section Dict.
Context {V : Type}.
Implicit Types d : list (key * V).

Lemma dget_dset_same d k v : dget (dset d k v) k = Some v.
Proof.
  induction d as [|[k' v'] r IH]; simpl.
  - now rewrite key_eqb_refl.
  - destruct (key_eqb k k') eqn:E; simpl; rewrite E; auto.
Qed.

Lemma dget_dset_other d k k' v : k <> k' -> dget (dset d k v) k' = dget d k'.
Proof.
  intros N. induction d as [|[k2 v2] r IH]; simpl.
  - assert (key_eqb k' k = false) as -> by (apply key_eqb_neq; congruence). reflexivity.
  - destruct (key_eqb k k2) eqn:E; simpl.
    + apply key_eqb_eq in E; subst k2.
      assert (key_eqb k' k = false) as -> by (apply key_eqb_neq; congruence). reflexivity.
    + destruct (key_eqb k' k2); auto.
Qed.

Lemma dget_dset d k k' v : dget (dset d k v) k' = if key_eqb k k' then Some v else dget d k'.
Proof.
  destruct (key_eqb k k') eqn:E.
  - apply key_eqb_eq in E; subst. apply dget_dset_same.
  - apply key_eqb_neq in E. now apply dget_dset_other.
Qed.

Lemma dget_In d k v : dget d k = Some v -> In (k, v) d.
Proof.
  induction d as [|[k' v'] r IH]; simpl; [discriminate|].
  destruct (key_eqb k k') eqn:E.
  - apply key_eqb_eq in E; subst. intros [= ->]. now left.
  - intros H. right. auto.
Qed.

Lemma dget_None_notin d k : dget d k = None -> ~ In k (map fst d).
Proof.
  induction d as [|[k' v'] r IH]; simpl; [tauto|].
  destruct (key_eqb k k') eqn:E; [discriminate|].
  apply key_eqb_neq in E. intros H [F|F]; [congruence|]. now apply IH.
Qed.

Lemma In_dget_NoDup d k v : NoDup (map fst d) -> In (k, v) d -> dget d k = Some v.
Proof.
  induction d as [|[k' v'] r IH]; simpl; [tauto|].
  intros ND [E|I].
  - inversion E; subst. now rewrite key_eqb_refl.
  - inversion ND as [|? ? Hn ND']; subst.
    destruct (key_eqb k k') eqn:E.
    + apply key_eqb_eq in E; subst. exfalso. apply Hn. now apply (in_map fst) in I.
    + auto.
Qed.

Lemma dset_fresh d k v : dget d k = None -> dset d k v = d ++ [(k, v)].
Proof.
  induction d as [|[k' v'] r IH]; simpl; [reflexivity|].
  destruct (key_eqb k k'); [discriminate|]. intros H. now rewrite IH.
Qed.

Lemma dset_keys_present d k v v0 : dget d k = Some v0 -> map fst (dset d k v) = map fst d.
Proof.
  induction d as [|[k' v'] r IH]; simpl; [discriminate|].
  destruct (key_eqb k k') eqn:E; simpl; [reflexivity|]. intros H. now rewrite IH.
Qed.

Lemma dset_NoDup d k v : NoDup (map fst d) -> NoDup (map fst (dset d k v)).
Proof.
  intros ND. destruct (dget d k) as [v0|] eqn:E.
  - now rewrite (dset_keys_present _ _ _ _ E).
  - rewrite (dset_fresh _ _ _ E), map_app. simpl.
    apply NoDup_remove_inv_end; auto. now apply dget_None_notin.
Qed.
End Dict.

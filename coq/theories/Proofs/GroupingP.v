(* Proofs/GroupingP.v — lemmas about Model/Grouping.v (C11). *)
From Coq Require Import Sorted.
From CKT Require Import Common.Base Model.Observables Model.Grouping.

(* ---------- equality on Paulis ---------- *)
Lemma nat_list_beq_eq (a b : list nat) : list_beq Nat.eqb a b = true <-> a = b.
Proof.
  split.
  - apply list_beq_eq. intros x y H; now apply Nat.eqb_eq.
  - intros ->. apply list_beq_refl. apply Nat.eqb_refl.
Qed.

Lemma pauli_beq_eq (a b : pauli) : pauli_beq a b = true <-> a = b.
Proof.
  unfold pauli_beq. rewrite andb_true_iff, Nat.eqb_eq, nat_list_beq_eq.
  destruct a as [pa la], b as [pb lb]; simpl. split.
  - intros [-> ->]; reflexivity.
  - intros E; inversion E; auto.
Qed.

Lemma pauli_beq_refl a : pauli_beq a a = true.
Proof. now apply pauli_beq_eq. Qed.

Lemma pauli_beq_neq a b : pauli_beq a b = false <-> a <> b.
Proof.
  split.
  - intros H E. apply pauli_beq_eq in E. congruence.
  - intros H. destruct (pauli_beq a b) eqn:E; [|reflexivity]. apply pauli_beq_eq in E. contradiction.
Qed.

Lemma mem_pauli_In p l : mem_pauli p l = true <-> In p l.
Proof.
  unfold mem_pauli. rewrite existsb_exists. split.
  - intros [x [Hx E]]. apply pauli_beq_eq in E. now subst.
  - intros H. exists p. split; [assumption|apply pauli_beq_refl].
Qed.

Lemma count_pauli_pos p l : count_pauli p l <> 0 <-> In p l.
Proof.
  unfold count_pauli. induction l as [|x r IH]; simpl; [tauto|].
  destruct (pauli_beq p x) eqn:E; simpl.
  - apply pauli_beq_eq in E. subst. split; [now left|lia].
  - apply pauli_beq_neq in E. rewrite IH. split; [now right|]. intros [H|H]; [congruence|assumption].
Qed.

(* ---------- letters ---------- *)
Definition compat_at (a b : list letter) (i : nat) : Prop :=
  nth i a 0 = 0 \/ nth i b 0 = 0 \/ nth i a 0 = nth i b 0.

Lemma letters_compat_spec a b : letters_compat a b = true -> forall i, compat_at a b i.
Proof.
  revert b; induction a as [|x xs IH]; intros [|y ys] H i; unfold compat_at;
    try (destruct i; simpl; auto; fail).
  simpl in H. apply andb_prop in H as [H1 H2].
  destruct i as [|i]; simpl.
  - apply orb_prop in H1 as [H1|H1]; [apply orb_prop in H1 as [H1|H1]|]; apply Nat.eqb_eq in H1; auto.
  - apply (IH ys H2 i).
Qed.

Lemma letters_compat_complete a b : (forall i, compat_at a b i) -> letters_compat a b = true.
Proof.
  revert b; induction a as [|x xs IH]; intros [|y ys] H; simpl; auto.
  apply andb_true_intro; split.
  - destruct (H 0) as [E|[E|E]]; simpl in E; subst.
    + reflexivity.
    + rewrite Nat.eqb_refl. now rewrite orb_true_r.
    + rewrite Nat.eqb_refl. now rewrite orb_true_r.
  - apply IH. intros i. apply (H (S i)).
Qed.

(* ---------- merge_letters ---------- *)
Lemma merge_letters_length rv obs rv' :
  merge_letters rv obs = Some rv' -> length rv' = length rv.
Proof.
  revert obs rv'; induction rv as [|r rs IH]; intros [|o os] rv' H; simpl in H;
    try (inversion H; reflexivity).
  destruct (Nat.eqb o 0); [|destruct (Nat.eqb r o); [|destruct (negb (Nat.eqb r 0)); [discriminate|]]];
    (destruct (merge_letters rs os) as [t|] eqn:E; simpl in H; [|discriminate];
     inversion H; subst; simpl; f_equal; eapply IH; eassumption).
Qed.

(* pointwise description of a successful merge *)
Lemma merge_letters_spec rv obs rv' :
  merge_letters rv obs = Some rv' -> length rv = length obs ->
  forall i, (nth i obs 0 = 0 -> nth i rv' 0 = nth i rv 0) /\
            (nth i obs 0 <> 0 -> nth i rv' 0 = nth i obs 0 /\ (nth i rv 0 = 0 \/ nth i rv 0 = nth i obs 0)).
Proof.
  revert obs rv'; induction rv as [|r rs IH]; intros [|o os] rv' H L i; simpl in H, L; try discriminate.
  - inversion H; subst. destruct i; simpl; split; intros; try reflexivity; congruence.
  - destruct (Nat.eqb_spec o 0) as [Eo|No].
    + destruct (merge_letters rs os) as [t|] eqn:E; simpl in H; [|discriminate]. inversion H; subst.
      destruct i as [|i]; simpl.
      * split; [reflexivity|congruence].
      * apply (IH os t E); lia.
    + destruct (Nat.eqb_spec r o) as [Er|Nr].
      * destruct (merge_letters rs os) as [t|] eqn:E; simpl in H; [|discriminate]. inversion H; subst.
        destruct i as [|i]; simpl.
        -- split; [congruence|]. intros _. split; [reflexivity|now right].
        -- apply (IH os t E); lia.
      * destruct (Nat.eqb_spec r 0) as [Er0|Nr0]; simpl in H; [|discriminate].
        destruct (merge_letters rs os) as [t|] eqn:E; simpl in H; [|discriminate]. inversion H; subst.
        destruct i as [|i]; simpl.
        -- split; [congruence|]. intros _. split; [reflexivity|now left].
        -- apply (IH os t E); lia.
Qed.

(* a merge fails only on an incompatible position *)
Lemma merge_letters_total rv obs :
  (forall i, compat_at rv obs i) -> exists rv', merge_letters rv obs = Some rv'.
Proof.
  revert obs; induction rv as [|r rs IH]; intros [|o os] H; simpl; try (eexists; reflexivity).
  destruct (IH os) as [t Et]. { intros i. apply (H (S i)). }
  rewrite Et; simpl.
  destruct (Nat.eqb_spec o 0) as [Eo|No]; [eexists; reflexivity|].
  destruct (Nat.eqb_spec r o) as [Er|Nr]; [eexists; reflexivity|].
  destruct (Nat.eqb_spec r 0) as [Er0|Nr0]; simpl; [eexists; reflexivity|].
  exfalso. destruct (H 0) as [E|[E|E]]; simpl in E; congruence.
Qed.

(* ---------- mgo_loop ---------- *)
Lemma mgo_loop_spec n : forall group rv g,
  mgo_loop n rv group = Ok g -> length rv = n ->
  length g = n /\
  (forall m, In m group -> length (plets m) = n) /\
  (forall i, nth i rv 0 <> 0 -> nth i g 0 = nth i rv 0) /\
  (forall m i, In m group -> nth i (plets m) 0 <> 0 -> nth i g 0 = nth i (plets m) 0) /\
  (forall i, nth i g 0 <> 0 -> nth i rv 0 <> 0 \/ exists m, In m group /\ nth i (plets m) 0 <> 0).
Proof.
  induction group as [|obs rest IH]; intros rv g H L; simpl in H.
  - inversion H; subst. repeat split; auto; try (intros; contradiction).
  - destruct (Nat.eqb_spec (length (plets obs)) n) as [Ln|Ln]; simpl in H; [|discriminate].
    destruct (merge_letters rv (plets obs)) as [rv'|] eqn:EM; [|discriminate].
    pose proof (merge_letters_length _ _ _ EM) as L'.
    assert (Lrv : length rv = length (plets obs)) by lia.
    pose proof (merge_letters_spec _ _ _ EM Lrv) as MS.
    destruct (IH rv' g H ltac:(lia)) as (G1 & G2 & G3 & G4 & G5).
    split; [assumption|]. split; [|split; [|split]].
    + intros m [<-|Hm]; auto.
    + intros i Hi. destruct (MS i) as [M0 M1].
      destruct (Nat.eq_dec (nth i (plets obs) 0) 0) as [E|N].
      * rewrite <- (M0 E). apply G3. rewrite (M0 E). assumption.
      * destruct (M1 N) as [E1 [E2|E2]]; [contradiction|].
        rewrite E2, <- E1. apply G3. rewrite E1. assumption.
    + intros m i [<-|Hm] Hi.
      * destruct (MS i) as [_ M1]. destruct (M1 Hi) as [E1 _]. rewrite <- E1. apply G3. rewrite E1. assumption.
      * apply G4; assumption.
    + intros i Hi. destruct (G5 i Hi) as [Hr|[m [Hm Hn]]].
      * destruct (MS i) as [M0 M1].
        destruct (Nat.eq_dec (nth i (plets obs) 0) 0) as [E|N].
        -- left. rewrite <- (M0 E). assumption.
        -- right. exists obs. split; [now left|assumption].
      * right. exists m. split; [now right|assumption].
Qed.

Lemma nth_repeat0 i n : nth i (repeat 0 n) 0 = 0.
Proof. revert i; induction n as [|n IH]; intros [|i]; simpl; auto. Qed.

Definition mgo_width (group : list pauli) (nq : option nat) : nat :=
  match nq with Some k => k | None => match group with [] => 0 | f :: _ => length (plets f) end end.

(* soundness of a successful call: everything c11_compatible / c11_general_minimal say *)
Lemma mgo_sound group nq g :
  most_general_observable group nq = Ok g ->
  group <> [] /\ pphase g = 0 /\ length (plets g) = mgo_width group nq /\
  (forall m, In m group -> length (plets m) = mgo_width group nq) /\
  (forall m i, In m group -> nth i (plets m) 0 = 0 \/ nth i (plets m) 0 = nth i (plets g) 0) /\
  (forall i, nth i (plets g) 0 <> 0 <-> exists m, In m group /\ nth i (plets m) 0 <> 0).
Proof.
  unfold most_general_observable. destruct group as [|f rest]; [discriminate|].
  set (n := match nq with Some k => k | None => length (plets f) end).
  assert (En : mgo_width (f :: rest) nq = n) by (unfold mgo_width, n; destruct nq; reflexivity).
  destruct (mgo_loop n (repeat 0 n) (f :: rest)) as [lets| |] eqn:E; simpl; try discriminate.
  intros H; inversion H; subst g; clear H. simpl.
  destruct (mgo_loop_spec n _ _ _ E (repeat_length 0 n)) as (G1 & G2 & G3 & G4 & G5).
  rewrite En. split; [discriminate|]. split; [reflexivity|]. split; [assumption|]. split; [assumption|]. split.
  - intros m i Hm. destruct (Nat.eq_dec (nth i (plets m) 0) 0) as [E0|N0]; [now left|right].
    symmetry. apply G4; assumption.
  - intros i; split.
    + intros Hi. destruct (G5 i Hi) as [Hr|Hex]; [|assumption]. rewrite nth_repeat0 in Hr. congruence.
    + intros [m [Hm Hn]]. rewrite (G4 m i Hm Hn). assumption.
Qed.

(* completeness: a non-empty, equally wide, pairwise compatible group is accepted *)
Definition pairwise_compatible (group : list pauli) : Prop :=
  forall a b i, In a group -> In b group -> compat_at (plets a) (plets b) i.

Lemma mgo_loop_total n : forall group rv,
  length rv = n ->
  (forall m, In m group -> length (plets m) = n) ->
  (forall m i, In m group -> compat_at rv (plets m) i) ->
  pairwise_compatible group ->
  exists g, mgo_loop n rv group = Ok g.
Proof.
  induction group as [|obs rest IH]; intros rv L W C PW; simpl; [eexists; reflexivity|].
  rewrite (W obs (or_introl eq_refl)), Nat.eqb_refl; simpl.
  destruct (merge_letters_total rv (plets obs)) as [rv' EM]. { intros i. apply C. now left. }
  rewrite EM.
  pose proof (merge_letters_length _ _ _ EM) as L'.
  assert (Lrv : length rv = length (plets obs)) by (rewrite (W obs (or_introl eq_refl)); assumption).
  pose proof (merge_letters_spec _ _ _ EM Lrv) as MS.
  apply IH.
  - lia.
  - intros m Hm. apply W. now right.
  - intros m i Hm. unfold compat_at. destruct (MS i) as [M0 M1].
    destruct (Nat.eq_dec (nth i (plets obs) 0) 0) as [E|N].
    + rewrite (M0 E). apply C. now right.
    + destruct (M1 N) as [E1 _]. rewrite E1. apply PW; [now left|now right].
  - intros a b i Ha Hb. apply PW; now right.
Qed.

Lemma mgo_total group nq :
  group <> [] ->
  (forall m, In m group -> length (plets m) = mgo_width group nq) ->
  pairwise_compatible group ->
  exists g, most_general_observable group nq = Ok g.
Proof.
  intros NE W PW. unfold most_general_observable. destruct group as [|f rest]; [congruence|].
  set (n := match nq with Some k => k | None => length (plets f) end).
  assert (En : mgo_width (f :: rest) nq = n) by (unfold mgo_width, n; destruct nq; reflexivity).
  rewrite En in W.
  destruct (mgo_loop_total n (f :: rest) (repeat 0 n)) as [g Eg]; auto.
  - apply repeat_length.
  - intros m i _. left. apply nth_repeat0.
  - rewrite Eg. simpl. eexists; reflexivity.
Qed.

Lemma mgo_loop_no_crash n : forall group rv, mgo_loop n rv group <> Crashed.
Proof.
  induction group as [|obs rest IH]; intros rv; simpl; [discriminate|].
  destruct (negb _); [discriminate|]. destruct (merge_letters _ _); [apply IH|discriminate].
Qed.

Lemma mgo_no_crash group nq : most_general_observable group nq <> Crashed.
Proof.
  unfold most_general_observable. destruct group as [|f rest]; [discriminate|].
  match goal with |- res_map _ ?x <> _ => pose proof (mgo_loop_no_crash _ (f :: rest) (repeat 0 (match nq with Some k => k | None => length (plets f) end))) as H; destruct x end;
    simpl; congruence.
Qed.

(* acceptance criterion *)
Lemma mgo_ok_iff group nq :
  (exists g, most_general_observable group nq = Ok g) <->
  group <> [] /\ (forall m, In m group -> length (plets m) = mgo_width group nq) /\ pairwise_compatible group.
Proof.
  split.
  - intros [g H]. destruct (mgo_sound _ _ _ H) as (NE & _ & _ & W & C & _).
    split; [assumption|]. split; [assumption|].
    intros a b i Ha Hb. unfold compat_at.
    destruct (C a i Ha) as [Ea|Ea]; [now left|].
    destruct (C b i Hb) as [Eb|Eb]; [right; now left|]. right; right. congruence.
  - intros (NE & W & PW). now apply mgo_total.
Qed.

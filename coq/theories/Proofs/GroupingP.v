(* Proofs/GroupingP.v — lemmas about Model/Grouping.v (C11). *)
From Coq Require Import Sorted.
From CKT Require Import Common.Base Model.Observables Model.Grouping.

(* ---------- equality on Paulis ---------- *)
Lemma nat_list_beq_eq (a b : list nat) : list_beq Nat.eqb a b = true <-> a = b.
Proof.
  split.
  - apply list_beq_eq. intros x y H; now apply Nat.eqb_eq.
  - intros ->. apply list_beq_refl. apply Nat.eqb_refl.
Qed.

Lemma pauli_beq_eq (a b : pauli) : pauli_beq a b = true <-> a = b.
Proof.
  unfold pauli_beq. rewrite andb_true_iff, Nat.eqb_eq, nat_list_beq_eq.
  destruct a as [pa la], b as [pb lb]; simpl. split.
  - intros [-> ->]; reflexivity.
  - intros E; inversion E; auto.
Qed.

Lemma pauli_beq_refl a : pauli_beq a a = true.
Proof. now apply pauli_beq_eq. Qed.

Lemma pauli_beq_neq a b : pauli_beq a b = false <-> a <> b.
Proof.
  split.
  - intros H E. apply pauli_beq_eq in E. congruence.
  - intros H. destruct (pauli_beq a b) eqn:E; [|reflexivity]. apply pauli_beq_eq in E. contradiction.
Qed.

Lemma mem_pauli_In p l : mem_pauli p l = true <-> In p l.
Proof.
  unfold mem_pauli. rewrite existsb_exists. split.
  - intros [x [Hx E]]. apply pauli_beq_eq in E. now subst.
  - intros H. exists p. split; [assumption|apply pauli_beq_refl].
Qed.

Lemma count_pauli_pos p l : count_pauli p l <> 0 <-> In p l.
Proof.
  unfold count_pauli. induction l as [|x r IH]; simpl; [tauto|].
  destruct (pauli_beq p x) eqn:E; simpl.
  - apply pauli_beq_eq in E. subst. split; [now left|lia].
  - apply pauli_beq_neq in E. rewrite IH. split; [now right|]. intros [H|H]; [congruence|assumption].
Qed.

(* ---------- letters ---------- *)
Definition compat_at (a b : list letter) (i : nat) : Prop :=
  nth i a 0 = 0 \/ nth i b 0 = 0 \/ nth i a 0 = nth i b 0.

Lemma letters_compat_spec a b : letters_compat a b = true -> forall i, compat_at a b i.
Proof.
  revert b; induction a as [|x xs IH]; intros [|y ys] H i; unfold compat_at;
    try (destruct i; simpl; auto; fail).
  simpl in H. apply andb_prop in H as [H1 H2].
  destruct i as [|i]; simpl.
  - apply orb_prop in H1 as [H1|H1]; [apply orb_prop in H1 as [H1|H1]|]; apply Nat.eqb_eq in H1; auto.
  - apply (IH ys H2 i).
Qed.

Lemma letters_compat_complete a b : (forall i, compat_at a b i) -> letters_compat a b = true.
Proof.
  revert b; induction a as [|x xs IH]; intros [|y ys] H; simpl; auto.
  apply andb_true_intro; split.
  - destruct (H 0) as [E|[E|E]]; simpl in E; subst.
    + reflexivity.
    + rewrite Nat.eqb_refl. now rewrite orb_true_r.
    + rewrite Nat.eqb_refl. now rewrite orb_true_r.
  - apply IH. intros i. apply (H (S i)).
Qed.

(* ---------- merge_letters ---------- *)
Lemma merge_letters_length rv obs rv' :
  merge_letters rv obs = Some rv' -> length rv' = length rv.
Proof.
  revert obs rv'; induction rv as [|r rs IH]; intros [|o os] rv' H; simpl in H;
    try (inversion H; reflexivity).
  destruct (Nat.eqb o 0); [|destruct (Nat.eqb r o); [|destruct (negb (Nat.eqb r 0)); [discriminate|]]];
    (destruct (merge_letters rs os) as [t|] eqn:E; simpl in H; [|discriminate];
     inversion H; subst; simpl; f_equal; eapply IH; eassumption).
Qed.

(* pointwise description of a successful merge *)
Lemma merge_letters_spec rv obs rv' :
  merge_letters rv obs = Some rv' -> length rv = length obs ->
  forall i, (nth i obs 0 = 0 -> nth i rv' 0 = nth i rv 0) /\
            (nth i obs 0 <> 0 -> nth i rv' 0 = nth i obs 0 /\ (nth i rv 0 = 0 \/ nth i rv 0 = nth i obs 0)).
Proof.
  revert obs rv'; induction rv as [|r rs IH]; intros [|o os] rv' H L i; simpl in H, L; try discriminate.
  - inversion H; subst. destruct i; simpl; split; intros; try reflexivity; congruence.
  - destruct (Nat.eqb_spec o 0) as [Eo|No].
    + destruct (merge_letters rs os) as [t|] eqn:E; simpl in H; [|discriminate]. inversion H; subst.
      destruct i as [|i]; simpl.
      * split; [reflexivity|congruence].
      * apply (IH os t E); lia.
    + destruct (Nat.eqb_spec r o) as [Er|Nr].
      * destruct (merge_letters rs os) as [t|] eqn:E; simpl in H; [|discriminate]. inversion H; subst.
        destruct i as [|i]; simpl.
        -- split; [congruence|]. intros _. split; [reflexivity|now right].
        -- apply (IH os t E); lia.
      * destruct (Nat.eqb_spec r 0) as [Er0|Nr0]; simpl in H; [|discriminate].
        destruct (merge_letters rs os) as [t|] eqn:E; simpl in H; [|discriminate]. inversion H; subst.
        destruct i as [|i]; simpl.
        -- split; [congruence|]. intros _. split; [reflexivity|now left].
        -- apply (IH os t E); lia.
Qed.

(* a merge fails only on an incompatible position *)
Lemma merge_letters_total rv obs :
  (forall i, compat_at rv obs i) -> exists rv', merge_letters rv obs = Some rv'.
Proof.
  revert obs; induction rv as [|r rs IH]; intros [|o os] H; simpl; try (eexists; reflexivity).
  destruct (IH os) as [t Et]. { intros i. apply (H (S i)). }
  rewrite Et; simpl.
  destruct (Nat.eqb_spec o 0) as [Eo|No]; [eexists; reflexivity|].
  destruct (Nat.eqb_spec r o) as [Er|Nr]; [eexists; reflexivity|].
  destruct (Nat.eqb_spec r 0) as [Er0|Nr0]; simpl; [eexists; reflexivity|].
  exfalso. destruct (H 0) as [E|[E|E]]; simpl in E; congruence.
Qed.

(* ---------- mgo_loop ---------- *)
Lemma mgo_loop_spec n : forall group rv g,
  mgo_loop n rv group = Ok g -> length rv = n ->
  length g = n /\
  (forall m, In m group -> length (plets m) = n) /\
  (forall i, nth i rv 0 <> 0 -> nth i g 0 = nth i rv 0) /\
  (forall m i, In m group -> nth i (plets m) 0 <> 0 -> nth i g 0 = nth i (plets m) 0) /\
  (forall i, nth i g 0 <> 0 -> nth i rv 0 <> 0 \/ exists m, In m group /\ nth i (plets m) 0 <> 0).
Proof.
  induction group as [|obs rest IH]; intros rv g H L; simpl in H.
  - inversion H; subst. repeat split; auto; try (intros; contradiction).
  - destruct (Nat.eqb_spec (length (plets obs)) n) as [Ln|Ln]; simpl in H; [|discriminate].
    destruct (merge_letters rv (plets obs)) as [rv'|] eqn:EM; [|discriminate].
    pose proof (merge_letters_length _ _ _ EM) as L'.
    assert (Lrv : length rv = length (plets obs)) by lia.
    pose proof (merge_letters_spec _ _ _ EM Lrv) as MS.
    destruct (IH rv' g H ltac:(lia)) as (G1 & G2 & G3 & G4 & G5).
    split; [assumption|]. split; [|split; [|split]].
    + intros m [<-|Hm]; auto.
    + intros i Hi. destruct (MS i) as [M0 M1].
      destruct (Nat.eq_dec (nth i (plets obs) 0) 0) as [E|N].
      * rewrite <- (M0 E). apply G3. rewrite (M0 E). assumption.
      * destruct (M1 N) as [E1 [E2|E2]]; [contradiction|].
        rewrite E2, <- E1. apply G3. rewrite E1. assumption.
    + intros m i [<-|Hm] Hi.
      * destruct (MS i) as [_ M1]. destruct (M1 Hi) as [E1 _]. rewrite <- E1. apply G3. rewrite E1. assumption.
      * apply G4; assumption.
    + intros i Hi. destruct (G5 i Hi) as [Hr|[m [Hm Hn]]].
      * destruct (MS i) as [M0 M1].
        destruct (Nat.eq_dec (nth i (plets obs) 0) 0) as [E|N].
        -- left. rewrite <- (M0 E). assumption.
        -- right. exists obs. split; [now left|assumption].
      * right. exists m. split; [now right|assumption].
Qed.

Lemma nth_repeat0 i n : nth i (repeat 0 n) 0 = 0.
Proof. revert i; induction n as [|n IH]; intros [|i]; simpl; auto. Qed.

Definition mgo_width (group : list pauli) (nq : option nat) : nat :=
  match nq with Some k => k | None => match group with [] => 0 | f :: _ => length (plets f) end end.

(* soundness of a successful call: everything c11_compatible / c11_general_minimal say *)
Lemma mgo_sound group nq g :
  most_general_observable group nq = Ok g ->
  group <> [] /\ pphase g = 0 /\ length (plets g) = mgo_width group nq /\
  (forall m, In m group -> length (plets m) = mgo_width group nq) /\
  (forall m i, In m group -> nth i (plets m) 0 = 0 \/ nth i (plets m) 0 = nth i (plets g) 0) /\
  (forall i, nth i (plets g) 0 <> 0 <-> exists m, In m group /\ nth i (plets m) 0 <> 0).
Proof.
  unfold most_general_observable. destruct group as [|f rest]; [discriminate|].
  set (n := match nq with Some k => k | None => length (plets f) end).
  assert (En : mgo_width (f :: rest) nq = n) by (unfold mgo_width, n; destruct nq; reflexivity).
  destruct (mgo_loop n (repeat 0 n) (f :: rest)) as [lets| |] eqn:E; simpl; try discriminate.
  intros H; inversion H; subst g; clear H. simpl.
  destruct (mgo_loop_spec n _ _ _ E (repeat_length 0 n)) as (G1 & G2 & G3 & G4 & G5).
  rewrite En. split; [discriminate|]. split; [reflexivity|]. split; [assumption|]. split; [assumption|]. split.
  - intros m i Hm. destruct (Nat.eq_dec (nth i (plets m) 0) 0) as [E0|N0]; [now left|right].
    symmetry. apply G4; assumption.
  - intros i; split.
    + intros Hi. destruct (G5 i Hi) as [Hr|Hex]; [|assumption]. rewrite nth_repeat0 in Hr. congruence.
    + intros [m [Hm Hn]]. rewrite (G4 m i Hm Hn). assumption.
Qed.

(* completeness: a non-empty, equally wide, pairwise compatible group is accepted *)
Definition pairwise_compatible (group : list pauli) : Prop :=
  forall a b i, In a group -> In b group -> compat_at (plets a) (plets b) i.

Lemma mgo_loop_total n : forall group rv,
  length rv = n ->
  (forall m, In m group -> length (plets m) = n) ->
  (forall m i, In m group -> compat_at rv (plets m) i) ->
  pairwise_compatible group ->
  exists g, mgo_loop n rv group = Ok g.
Proof.
  induction group as [|obs rest IH]; intros rv L W C PW; simpl; [eexists; reflexivity|].
  rewrite (W obs (or_introl eq_refl)), Nat.eqb_refl; simpl.
  destruct (merge_letters_total rv (plets obs)) as [rv' EM]. { intros i. apply C. now left. }
  rewrite EM.
  pose proof (merge_letters_length _ _ _ EM) as L'.
  assert (Lrv : length rv = length (plets obs)) by (rewrite (W obs (or_introl eq_refl)); assumption).
  pose proof (merge_letters_spec _ _ _ EM Lrv) as MS.
  apply IH.
  - lia.
  - intros m Hm. apply W. now right.
  - intros m i Hm. unfold compat_at. destruct (MS i) as [M0 M1].
    destruct (Nat.eq_dec (nth i (plets obs) 0) 0) as [E|N].
    + rewrite (M0 E). apply C. now right.
    + destruct (M1 N) as [E1 _]. rewrite E1. apply PW; [now left|now right].
  - intros a b i Ha Hb. apply PW; now right.
Qed.

Lemma mgo_total group nq :
  group <> [] ->
  (forall m, In m group -> length (plets m) = mgo_width group nq) ->
  pairwise_compatible group ->
  exists g, most_general_observable group nq = Ok g.
Proof.
  intros NE W PW. unfold most_general_observable. destruct group as [|f rest]; [congruence|].
  set (n := match nq with Some k => k | None => length (plets f) end).
  assert (En : mgo_width (f :: rest) nq = n) by (unfold mgo_width, n; destruct nq; reflexivity).
  rewrite En in W.
  destruct (mgo_loop_total n (f :: rest) (repeat 0 n)) as [g Eg]; auto.
  - apply repeat_length.
  - intros m i _. left. apply nth_repeat0.
  - rewrite Eg. simpl. eexists; reflexivity.
Qed.

Lemma mgo_loop_no_crash n : forall group rv, mgo_loop n rv group <> Crashed.
Proof.
  induction group as [|obs rest IH]; intros rv; simpl; [discriminate|].
  destruct (negb _); [discriminate|]. destruct (merge_letters _ _); [apply IH|discriminate].
Qed.

Lemma mgo_no_crash group nq : most_general_observable group nq <> Crashed.
Proof.
  unfold most_general_observable. destruct group as [|f rest]; [discriminate|].
  set (n := match nq with Some k => k | None => length (plets f) end).
  pose proof (mgo_loop_no_crash n (f :: rest) (repeat 0 n)) as H.
  destruct (mgo_loop n (repeat 0 n) (f :: rest)); simpl; congruence.
Qed.

(* acceptance criterion *)
Lemma mgo_ok_iff group nq :
  (exists g, most_general_observable group nq = Ok g) <->
  group <> [] /\ (forall m, In m group -> length (plets m) = mgo_width group nq) /\ pairwise_compatible group.
Proof.
  split.
  - intros [g H]. destruct (mgo_sound _ _ _ H) as (NE & _ & _ & W & C & _).
    split; [assumption|]. split; [assumption|].
    intros a b i Ha Hb. unfold compat_at.
    destruct (C a i Ha) as [Ea|Ea]; [now left|].
    destruct (C b i Hb) as [Eb|Eb]; [right; now left|]. right; right. congruence.
  - intros (NE & W & PW). now apply mgo_total.
Qed.

(* ---------- nonid_positions ---------- *)
Definition nonid (lets : list letter) (q : nat) : bool := negb (Nat.eqb (nth q lets 0) 0).

Lemma nonid_true lets q : nonid lets q = true <-> nth q lets 0 <> 0.
Proof. unfold nonid. rewrite negb_true_iff, Nat.eqb_neq. tauto. Qed.

Lemma filter_nonid_shift l r s :
  filter (nonid (l :: r)) (map S s) = map S (filter (nonid r) s).
Proof.
  induction s as [|x s IHs]; [reflexivity|].
  cbn [map filter]. rewrite IHs.
  replace (nonid (l :: r) (S x)) with (nonid r x) by reflexivity.
  destruct (nonid r x); reflexivity.
Qed.

Lemma nonid_from_filter : forall lets i,
  nonid_from i lets = map (fun k => i + k) (filter (nonid lets) (seq 0 (length lets))).
Proof.
  induction lets as [|l r IH]; intros i; [reflexivity|].
  cbn [nonid_from length seq filter]. rewrite <- seq_shift, filter_nonid_shift, IH.
  assert (E2 : map (fun k => S i + k) (filter (nonid r) (seq 0 (length r)))
             = map (fun k => i + k) (map S (filter (nonid r) (seq 0 (length r))))).
  { rewrite map_map. apply map_ext. intros; lia. }
  replace (nonid (l :: r) 0) with (negb (Nat.eqb l 0)) by reflexivity.
  destruct (Nat.eqb l 0); cbn [negb map]; [|rewrite Nat.add_0_r; f_equal]; exact E2.
Qed.

(* pauli_indices = the ascending non-identity positions *)
Lemma nonid_positions_filter lets :
  nonid_positions lets = filter (nonid lets) (seq 0 (length lets)).
Proof. unfold nonid_positions. rewrite nonid_from_filter. rewrite <- map_id. apply map_ext. intros; lia. Qed.

Lemma nonid_positions_In lets q :
  In q (nonid_positions lets) <-> q < length lets /\ nth q lets 0 <> 0.
Proof.
  rewrite nonid_positions_filter, filter_In, in_seq, nonid_true. split; intros [H1 H2]; split; auto; lia.
Qed.

Lemma filter_seq_sorted f a n : StronglySorted lt (filter f (seq a n)).
Proof.
  revert a; induction n as [|n IH]; intros a; simpl; [constructor|].
  destruct (f a); [|apply IH]. constructor; [apply IH|].
  apply Forall_forall. intros x Hx. apply filter_In in Hx as [Hx _]. apply in_seq in Hx. lia.
Qed.

Lemma nonid_positions_sorted lets : StronglySorted lt (nonid_positions lets).
Proof. rewrite nonid_positions_filter. apply filter_seq_sorted. Qed.

Lemma sorted_lt_NoDup l : StronglySorted lt l -> NoDup l.
Proof.
  induction 1 as [|x l S IH F]; constructor; auto.
  intros Hin. rewrite Forall_forall in F. specialize (F x Hin). lia.
Qed.

Lemma nonid_positions_NoDup lets : NoDup (nonid_positions lets).
Proof. apply sorted_lt_NoDup, nonid_positions_sorted. Qed.

(* ---------- masks ---------- *)
Lemma testbit_pow2 i k : N.testbit (N.shiftl 1 (N.of_nat i)) (N.of_nat k) = Nat.eqb i k.
Proof.
  rewrite N.shiftl_1_l, N.pow2_bits_eqb.
  destruct (Nat.eqb_spec i k) as [->|Hn]; [apply N.eqb_refl|].
  apply N.eqb_neq. intros E. apply Nat2N.inj in E. contradiction.
Qed.

Lemma mask_from_spec lets : forall idx i v,
  mask_from i lets idx = Some v ->
  (forall t, t < length idx -> nth t idx 0 < length lets) /\
  forall k, N.testbit v (N.of_nat k) = true <->
            exists t, k = i + t /\ t < length idx /\ nth (nth t idx 0) lets 0 <> 0.
Proof.
  induction idx as [|j r IH]; intros i v H; cbn [mask_from] in H.
  - inversion H; subst. split; [intros t Ht; simpl in Ht; lia|].
    intros k. rewrite N.bits_0. split; [discriminate|]. intros [t [_ [Ht _]]]. simpl in Ht; lia.
  - destruct (Nat.ltb_spec j (length lets)) as [Hj|Hj]; [|discriminate].
    destruct (mask_from (S i) lets r) as [v'|] eqn:E; cbn [option_map] in H; [|discriminate].
    destruct (IH (S i) v' E) as [B IHk]. split.
    { intros [|t] Ht; simpl in *; [assumption|apply B; lia]. }
    intros k.
    assert (REST : N.testbit v' (N.of_nat k) = true <->
                   exists t, k = i + S t /\ t < length r /\ nth (nth t r 0) lets 0 <> 0).
    { rewrite IHk. split; intros [t [E1 E2]]; exists t; split; auto; lia. }
    assert (Hv : v = if Nat.eqb (nth j lets 0) 0 then v' else N.lor (N.shiftl 1 (N.of_nat i)) v') by congruence.
    clear H. subst v.
    destruct (Nat.eqb_spec (nth j lets 0) 0) as [Ez|Nz].
    + rewrite REST. split.
      * intros [t [E1 [E2 E3]]]. exists (S t). simpl. repeat split; auto; lia.
      * intros [[|t] [E1 [E2 E3]]]; simpl in *; [congruence|]. exists t. repeat split; auto; lia.
    + rewrite N.lor_spec, orb_true_iff, testbit_pow2, Nat.eqb_eq, REST. split.
      * intros [Ek|[t [E1 [E2 E3]]]].
        -- exists 0. simpl. repeat split; auto; lia.
        -- exists (S t). simpl. repeat split; auto; lia.
      * intros [[|t] [E1 [E2 E3]]]; simpl in *.
        -- left; lia.
        -- right. exists t. repeat split; auto; lia.
Qed.

Lemma mask_of_spec lets idx v :
  mask_of lets idx = Some v ->
  forall k, N.testbit v (N.of_nat k) = true <-> k < length idx /\ nth (nth k idx 0) lets 0 <> 0.
Proof.
  intros H k. destruct (mask_from_spec lets idx 0 v H) as [_ S]. rewrite S. split.
  - intros [t [-> [H1 H2]]]. simpl. auto.
  - intros [H1 H2]. exists k. auto.
Qed.

Lemma mask_from_total lets : forall idx i,
  (forall j, In j idx -> j < length lets) -> exists v, mask_from i lets idx = Some v.
Proof.
  induction idx as [|j r IH]; intros i B; simpl; [eexists; reflexivity|].
  destruct (Nat.ltb_spec j (length lets)) as [Hj|Hj].
  - destruct (IH (S i)) as [v' E]. { intros x Hx; apply B; now right. }
    rewrite E; simpl. eexists; reflexivity.
  - specialize (B j (or_introl eq_refl)). lia.
Qed.

Lemma masks_loop_spec idx : forall members masks,
  masks_loop idx members = Ok masks ->
  length masks = length members /\
  forall j m, nth_error members j = Some m ->
    pphase m = 0 /\ exists v, nth_error masks j = Some v /\ mask_of (plets m) idx = Some v.
Proof.
  induction members as [|m r IH]; intros masks H; simpl in H.
  - inversion H; subst. split; [reflexivity|]. intros [|j] x Hx; discriminate.
  - destruct (Nat.eqb_spec (pphase m) 0) as [Ep|Np]; simpl in H; [|discriminate].
    destruct (mask_of (plets m) idx) as [v|] eqn:Ev; [|discriminate].
    destruct (masks_loop idx r) as [vs| |] eqn:Er; simpl in H; try discriminate.
    inversion H; subst masks; clear H.
    destruct (IH vs eq_refl) as [L S]. split; [simpl; now rewrite L|].
    intros [|j] x Hx; simpl in Hx.
    + inversion Hx; subst x. split; [assumption|]. exists v. split; [reflexivity|assumption].
    + apply (S j x Hx).
Qed.

Lemma masks_loop_total idx : forall members,
  (forall m, In m members -> pphase m = 0) ->
  (forall m j, In m members -> In j idx -> j < length (plets m)) ->
  exists masks, masks_loop idx members = Ok masks.
Proof.
  induction members as [|m r IH]; intros Ph B; simpl; [eexists; reflexivity|].
  rewrite (Ph m (or_introl eq_refl)); simpl.
  destruct (mask_from_total (plets m) idx 0) as [v Ev]. { intros j Hj. apply (B m j); [now left|assumption]. }
  unfold mask_of. rewrite Ev.
  destruct IH as [vs Evs]. { intros x Hx; apply Ph; now right. } { intros x j Hx Hj; apply (B x j); [now right|assumption]. }
  rewrite Evs; simpl. eexists; reflexivity.
Qed.

(* a member with a phase is refused (when no earlier member crashes: all members at least as wide as needed) *)
Lemma masks_loop_refuses idx : forall members,
  (forall m j, In m members -> In j idx -> j < length (plets m)) ->
  (exists m, In m members /\ pphase m <> 0) ->
  masks_loop idx members = Refused.
Proof.
  induction members as [|m r IH]; intros B [x [Hx Px]]; simpl; [contradiction|].
  destruct (Nat.eqb_spec (pphase m) 0) as [Ep|Np]; simpl; [|reflexivity].
  destruct (mask_from_total (plets m) idx 0) as [v Ev]. { intros j Hj. apply (B m j); [now left|assumption]. }
  unfold mask_of. rewrite Ev.
  rewrite IH; [reflexivity| |].
  - intros y j Hy Hj; apply (B y j); [now right|assumption].
  - destruct Hx as [<-|Hx]; [congruence|]. exists x; split; assumption.
Qed.

(* ---------- cog_post_init ---------- *)
Lemma cog_post_init_spec g members idx masks :
  cog_post_init g members = Ok (idx, masks) ->
  idx = filter (nonid (plets g)) (seq 0 (length (plets g))) /\
  StronglySorted lt idx /\
  (forall q, In q idx <-> q < length (plets g) /\ nth q (plets g) 0 <> 0) /\
  length masks = length members /\
  forall j m, nth_error members j = Some m ->
    pphase m = 0 /\
    exists v, nth_error masks j = Some v /\ mask_of (plets m) idx = Some v /\
    forall i, N.testbit v (N.of_nat i) = true <-> i < length idx /\ nth (nth i idx 0) (plets m) 0 <> 0.
Proof.
  unfold cog_post_init. destruct (masks_loop _ members) as [ms| |] eqn:E; simpl; try discriminate.
  intros H; inversion H; subst idx masks; clear H.
  split; [apply nonid_positions_filter|]. split; [apply nonid_positions_sorted|].
  split; [apply nonid_positions_In|].
  destruct (masks_loop_spec _ _ _ E) as [L S]. split; [assumption|].
  intros j m Hm. destruct (S j m Hm) as [Ph [v [Hv Mv]]]. split; [assumption|].
  exists v. split; [assumption|]. split; [assumption|]. apply mask_of_spec; assumption.
Qed.

Lemma cog_post_init_total g members :
  (forall m, In m members -> pphase m = 0 /\ length (plets m) = length (plets g)) ->
  exists idx masks, cog_post_init g members = Ok (idx, masks).
Proof.
  intros H. unfold cog_post_init.
  destruct (masks_loop_total (nonid_positions (plets g)) members) as [ms E].
  - intros m Hm. apply H; assumption.
  - intros m j Hm Hj. apply nonid_positions_In in Hj as [Hj _]. destruct (H m Hm) as [_ L]. lia.
  - rewrite E. simpl. eexists; eexists; reflexivity.
Qed.

Lemma cog_post_init_refuses g members :
  (forall m, In m members -> length (plets m) = length (plets g)) ->
  (exists m, In m members /\ pphase m <> 0) ->
  cog_post_init g members = Refused.
Proof.
  intros W Ex. unfold cog_post_init. rewrite masks_loop_refuses; [reflexivity| |assumption].
  intros m j Hm Hj. apply nonid_positions_In in Hj as [Hj _]. rewrite (W m Hm). assumption.
Qed.

(* ---------- generals / cogs ---------- *)
Lemma generals_loop_spec : forall groups gens,
  generals_loop groups = Ok gens ->
  length gens = length groups /\
  forall i g, nth_error groups i = Some g ->
    exists p, nth_error gens i = Some p /\ most_general_observable g None = Ok p.
Proof.
  induction groups as [|g r IH]; intros gens H; simpl in H.
  - inversion H; subst. split; [reflexivity|]. intros [|i] x Hx; discriminate.
  - destruct (most_general_observable g None) as [p| |] eqn:Ep; simpl in H; try discriminate.
    destruct (generals_loop r) as [ps| |] eqn:Er; simpl in H; try discriminate.
    inversion H; subst gens; clear H. destruct (IH ps eq_refl) as [L S].
    split; [simpl; now rewrite L|].
    intros [|i] x Hx; simpl in Hx.
    + inversion Hx; subst x. exists p. split; [reflexivity|assumption].
    + apply (S i x Hx).
Qed.

Lemma cogs_loop_spec : forall gens groups cogs,
  cogs_loop gens groups = Ok cogs -> length gens = length groups ->
  map cg_members cogs = groups /\ map cg_general cogs = gens /\
  forall c, In c cogs -> cog_post_init (cg_general c) (cg_members c) = Ok (cg_indices c, cg_masks c).
Proof.
  induction gens as [|p pr IH]; intros [|g gr] cogs H L; simpl in H, L; try discriminate.
  - inversion H; subst. repeat split; auto. intros c [].
  - unfold make_cog in H.
    destruct (cog_post_init p g) as [[ix mk]| |] eqn:Ec; simpl in H; try discriminate.
    destruct (cogs_loop pr gr) as [cs| |] eqn:Er; simpl in H; try discriminate.
    inversion H; subst cogs; clear H.
    destruct (IH gr cs Er ltac:(lia)) as (M1 & M2 & M3).
    simpl. rewrite M1, M2. repeat split; auto.
    intros c [<-|Hc]; [simpl; assumption|apply M3; assumption].
Qed.

(* ---------- lookup ---------- *)
Definition located (l : lookup_t) (p : pauli) (ij : nat * nat) : Prop :=
  exists locs, In (p, locs) l /\ In ij locs.

Lemma lookup_add_keys p ij : forall l q, In q (map fst (lookup_add p ij l)) <-> In q (map fst l) \/ q = p.
Proof.
  induction l as [|[p' locs] r IH]; intros q; simpl.
  - intuition.
  - destruct (pauli_beq p p') eqn:E; simpl.
    + apply pauli_beq_eq in E. subst p'. intuition.
    + rewrite IH. intuition.
Qed.

Lemma lookup_add_NoDup p ij : forall l, NoDup (map fst l) -> NoDup (map fst (lookup_add p ij l)).
Proof.
  induction l as [|[p' locs] r IH]; intros ND; simpl.
  - constructor; [intros []|constructor].
  - inversion ND as [|? ? Hn ND']; subst.
    destruct (pauli_beq p p') eqn:E; simpl.
    + constructor; assumption.
    + constructor; [|apply IH; assumption].
      rewrite lookup_add_keys. intros [H|H]; [contradiction|].
      apply pauli_beq_neq in E. congruence.
Qed.

Lemma lookup_add_located p ij : forall l q ij',
  located (lookup_add p ij l) q ij' <-> located l q ij' \/ (q = p /\ ij' = ij).
Proof.
  unfold located. induction l as [|[p' locs] r IH]; intros q ij'; simpl.
  - split.
    + intros [ls [[H|[]] Hin]]. inversion H; subst. destruct Hin as [<-|[]]. right; auto.
    + intros [[ls [[] _]]|[-> ->]]. exists [ij]. split; [now left|now left].
  - destruct (pauli_beq p p') eqn:E.
    + apply pauli_beq_eq in E. subst p'. split.
      * intros [ls [[H|H] Hin]].
        -- inversion H; subst. apply in_app_or in Hin as [Hin|[<-|[]]].
           ++ left. exists locs. split; [now left|assumption].
           ++ right; auto.
        -- left. exists ls. split; [now right|assumption].
      * intros [[ls [[H|H] Hin]]|[-> ->]].
        -- inversion H; subst. exists (ls ++ [ij]). split; [now left|apply in_or_app; now left].
        -- exists ls. split; [now right|assumption].
        -- exists (locs ++ [ij]). split; [now left|apply in_or_app; right; now left].
    + split.
      * intros [ls [[H|H] Hin]].
        -- left. exists ls. split; [now left|assumption].
        -- destruct (proj1 (IH q ij')) as [[ls' [H1 H2]]|H3].
           { exists ls. split; assumption. }
           ++ left. exists ls'. split; [now right|assumption].
           ++ right; assumption.
      * intros [[ls [[H|H] Hin]]|H3].
        -- exists ls. split; [now left|assumption].
        -- destruct (proj2 (IH q ij')) as [ls' [H1 H2]].
           { left. exists ls. split; assumption. }
           exists ls'. split; [now right|assumption].
        -- destruct (proj2 (IH q ij')) as [ls' [H1 H2]]; [right; assumption|].
           exists ls'. split; [now right|assumption].
Qed.

Lemma lookup_add_nonempty p ij : forall l,
  (forall q ls, In (q, ls) l -> ls <> []) -> forall q ls, In (q, ls) (lookup_add p ij l) -> ls <> [].
Proof.
  induction l as [|[p' locs] r IH]; intros NE q ls; simpl.
  - intros [H|[]]. inversion H. discriminate.
  - destruct (pauli_beq p p'); intros [H|H].
    + inversion H; subst. intros E. apply app_eq_nil in E as [_ E]. discriminate.
    + apply (NE q ls). now right.
    + apply (NE q ls). now left.
    + apply (IH (fun a b Hab => NE a b (or_intror Hab)) q ls H).
Qed.

Lemma lookup_group_spec i : forall members j l,
  NoDup (map fst l) -> (forall q ls, In (q, ls) l -> ls <> []) ->
  let l' := lookup_group i j members l in
  NoDup (map fst l') /\ (forall q ls, In (q, ls) l' -> ls <> []) /\
  forall q ij', located l' q ij' <->
     located l q ij' \/ exists t, ij' = (i, j + t) /\ nth_error members t = Some q.
Proof.
  induction members as [|m r IH]; intros j l ND NE; simpl.
  - split; [assumption|]. split; [assumption|]. intros q ij'. split; [now left|].
    intros [H|[t [_ Ht]]]; [assumption|]. destruct t; discriminate.
  - destruct (IH (S j) (lookup_add m (i, j) l)) as (ND' & NE' & S').
    { apply lookup_add_NoDup; assumption. } { apply lookup_add_nonempty; assumption. }
    split; [assumption|]. split; [assumption|].
    intros q ij'. rewrite S', lookup_add_located. split.
    + intros [[H|[-> ->]]|[t [-> Ht]]].
      * now left.
      * right. exists 0. split; [f_equal; lia|reflexivity].
      * right. exists (S t). split; [f_equal; lia|assumption].
    + intros [H|[[|t] [-> Ht]]].
      * left; now left.
      * simpl in Ht. inversion Ht; subst. left; right. split; [reflexivity|f_equal; lia].
      * right. exists t. split; [f_equal; lia|assumption].
Qed.

Lemma lookup_groups_spec : forall cogs i l,
  NoDup (map fst l) -> (forall q ls, In (q, ls) l -> ls <> []) ->
  let l' := lookup_groups i cogs l in
  NoDup (map fst l') /\ (forall q ls, In (q, ls) l' -> ls <> []) /\
  forall q ij', located l' q ij' <->
     located l q ij' \/
     exists s c, fst ij' = i + s /\ nth_error cogs s = Some c /\ nth_error (cg_members c) (snd ij') = Some q.
Proof.
  induction cogs as [|c r IH]; intros i l ND NE; simpl.
  - split; [assumption|]. split; [assumption|]. intros q ij'. split; [now left|].
    intros [H|[s [c [_ [Hs _]]]]]; [assumption|]. destruct s; discriminate.
  - destruct (lookup_group_spec i (cg_members c) 0 l ND NE) as (ND1 & NE1 & S1).
    destruct (IH (S i) _ ND1 NE1) as (ND2 & NE2 & S2).
    split; [assumption|]. split; [assumption|].
    intros q ij'. rewrite S2, S1. split.
    + intros [[H|[t [-> Ht]]]|[s [c' [E1 [E2 E3]]]]].
      * now left.
      * right. exists 0, c. simpl. repeat split; auto.
      * right. exists (S s), c'. simpl. repeat split; auto; lia.
    + intros [H|[[|s] [c' [E1 [E2 E3]]]]].
      * left; now left.
      * simpl in E2. inversion E2; subst c'. left; right. exists (snd ij').
        split; [destruct ij' as [a b]; simpl in *; f_equal; lia|assumption].
      * right. exists s, c'. simpl in E2. repeat split; auto; lia.
Qed.

Lemma lookup_find_In p : forall l locs,
  NoDup (map fst l) -> (lookup_find p l = Some locs <-> In (p, locs) l).
Proof.
  induction l as [|[p' ls] r IH]; intros locs ND; simpl.
  - split; [discriminate|intros []].
  - inversion ND as [|? ? Hn ND']; subst.
    destruct (pauli_beq p p') eqn:E.
    + apply pauli_beq_eq in E. subst p'. split.
      * intros H; inversion H; now left.
      * intros [H|H]; [inversion H; reflexivity|].
        exfalso. apply Hn. change p with (fst (p, locs)). now apply in_map.
    + apply pauli_beq_neq in E. rewrite (IH locs ND'). split; [now right|].
      intros [H|H]; [inversion H; congruence|assumption].
Qed.

(* ---------- the collection ---------- *)
Lemma collection_spec obs o cogs lk :
  collection obs o = Ok (cogs, lk) ->
  obs <> [] /\
  map cg_members cogs = o_groups o /\
  (forall i c, nth_error cogs i = Some c ->
     most_general_observable (cg_members c) None = Ok (cg_general c) /\
     cog_post_init (cg_general c) (cg_members c) = Ok (cg_indices c, cg_masks c)) /\
  NoDup (map fst lk) /\
  (forall p locs, lookup_find p lk = Some locs -> locs <> []) /\
  (forall p i j, (exists locs, lookup_find p lk = Some locs /\ In (i, j) locs) <->
                 (exists c, nth_error cogs i = Some c /\ nth_error (cg_members c) j = Some p)).
Proof.
  unfold collection. destruct obs as [|o1 orest]; [discriminate|].
  destruct (generals_loop (o_groups o)) as [gens| |] eqn:Eg; simpl; try discriminate.
  destruct (cogs_loop gens (o_groups o)) as [cs| |] eqn:Ec; simpl; try discriminate.
  intros H; inversion H; subst cogs lk; clear H.
  destruct (generals_loop_spec _ _ Eg) as [Lg Sg].
  destruct (cogs_loop_spec _ _ _ Ec Lg) as (M1 & M2 & M3).
  destruct (lookup_groups_spec cs 0 []) as (ND & NE & SL); [constructor|intros ? ? []|].
  split; [discriminate|]. split; [assumption|]. split; [|split; [assumption|split]].
  - intros i c Hc. split; [|apply M3; eapply nth_error_In; eassumption].
    assert (Hg : nth_error (o_groups o) i = Some (cg_members c)).
    { rewrite <- M1. rewrite nth_error_map, Hc. reflexivity. }
    destruct (Sg i _ Hg) as [p [Hp Hm]].
    assert (Hp' : nth_error gens i = Some (cg_general c)).
    { rewrite <- M2. rewrite nth_error_map, Hc. reflexivity. }
    congruence.
  - intros p locs Hf. apply (NE p locs). apply lookup_find_In; assumption.
  - intros p i j. split.
    + intros [locs [Hf Hin]].
      assert (HL : located (lookup_groups 0 cs []) p (i, j)).
      { exists locs. split; [apply lookup_find_In; assumption|assumption]. }
      apply SL in HL as [[ls [[] _]]|[s [c [E1 [E2 E3]]]]]. simpl in E1, E3. subst i. exists c. auto.
    + intros [c [Hc Hm]].
      assert (HL : located (lookup_groups 0 cs []) p (i, j)).
      { apply SL. right. exists i, c. simpl. auto. }
      destruct HL as [locs [H1 H2]]. exists locs. split; [apply lookup_find_In; assumption|assumption].
Qed.

(* what the oracle contract gives *)
Lemma forallb_In {A} (f : A -> bool) l : forallb f l = true -> forall x, In x l -> f x = true.
Proof. intros H x Hx. rewrite forallb_forall in H. auto. Qed.

Lemma contract_facts obs o :
  grouping_contract obs o = true ->
  (forall p, In p obs -> In p (concat (o_groups o))) /\
  (forall p, In p (concat (o_groups o)) -> In p obs) /\
  (forall g, In g (o_groups o) -> g <> [] /\ pairwise_compatible g) /\
  (forall p, In p (o_unique o) -> count_pauli p (concat (o_groups o)) = 1) /\
  (exists n, forall p, In p obs -> length (plets p) = n).
Proof.
  unfold grouping_contract. repeat rewrite andb_true_iff.
  intros [[[[[[[[[W1 W2] C1] C2] C3] C4] C5] C6] C7] C8].
  assert (F1 : forall p, In p obs -> In p (o_unique o)).
  { intros p Hp. apply mem_pauli_In. apply (forallb_In _ _ C1 p Hp). }
  assert (F2 : forall p, In p (o_unique o) -> In p obs).
  { intros p Hp. apply mem_pauli_In. apply (forallb_In _ _ C2 p Hp). }
  assert (F3 : forall p, In p (o_unique o) -> count_pauli p (concat (o_groups o)) = 1).
  { intros p Hp. apply Nat.eqb_eq. apply (forallb_In _ _ C5 p Hp). }
  split; [|split; [|split; [|split]]].
  - intros p Hp. apply count_pauli_pos. rewrite (F3 p (F1 p Hp)). discriminate.
  - intros p Hp. apply F2. apply mem_pauli_In. apply (forallb_In _ _ C6 p Hp).
  - intros g Hg. split.
    + pose proof (forallb_In _ _ C7 g Hg) as H. intros E. subst g. discriminate.
    + pose proof (forallb_In _ _ C8 g Hg) as H. clear - H.
      induction g as [|p r IH]; intros a b i Ha Hb; [contradiction|].
      simpl in H. apply andb_prop in H as [H1 H2].
      assert (PR : forall q, In q r -> compat_at (plets p) (plets q) i).
      { intros q Hq. apply letters_compat_spec. apply (forallb_In _ _ H1 q Hq). }
      destruct Ha as [<-|Ha], Hb as [<-|Hb].
      * unfold compat_at. right; right; reflexivity.
      * apply PR; assumption.
      * specialize (PR a Ha). unfold compat_at in *. intuition.
      * apply IH; assumption.
  - assumption.
  - eexists. intros p Hp. apply Nat.eqb_eq. apply (forallb_In _ _ W1 p Hp).
Qed.

Lemma In_concat_nth {A} (p : A) : forall gs, In p (concat gs) ->
  exists i g j, nth_error gs i = Some g /\ nth_error g j = Some p.
Proof.
  induction gs as [|g r IH]; simpl; [intros []|].
  intros H. apply in_app_or in H as [H|H].
  - apply In_nth_error in H as [j Hj]. exists 0, g, j. auto.
  - destruct (IH H) as [i [g' [j [H1 H2]]]]. exists (S i), g', j. auto.
Qed.

(* cover *)
Lemma collection_cover obs o cogs lk :
  collection obs o = Ok (cogs, lk) -> grouping_contract obs o = true ->
  forall p, In p obs ->
    exists locs, lookup_find p lk = Some locs /\ locs <> [] /\
      forall i j, In (i, j) locs ->
        exists c, nth_error cogs i = Some c /\ nth_error (cg_members c) j = Some p.
Proof.
  intros HC HK p Hp.
  destruct (collection_spec _ _ _ _ HC) as (_ & M1 & _ & ND & NE & LOC).
  destruct (contract_facts _ _ HK) as (F1 & _).
  destruct (In_concat_nth p _ (F1 p Hp)) as [i [g [j [Hi Hj]]]].
  rewrite <- M1, nth_error_map in Hi.
  destruct (nth_error cogs i) as [c|] eqn:Ec; simpl in Hi; [|discriminate]. inversion Hi; subst g.
  destruct (proj2 (LOC p i j)) as [locs [Hf Hin]]; [exists c; auto|].
  exists locs. split; [assumption|]. split; [apply (NE p locs Hf)|].
  intros i' j' Hin'. apply LOC. exists locs. auto.
Qed.

(* totality: phase-free input + oracle contract => the collection is built *)
Lemma generals_loop_total : forall groups,
  (forall g, In g groups -> exists p, most_general_observable g None = Ok p) ->
  exists gens, generals_loop groups = Ok gens.
Proof.
  induction groups as [|g r IH]; intros H; simpl; [eexists; reflexivity|].
  destruct (H g (or_introl eq_refl)) as [p Ep]. rewrite Ep; simpl.
  destruct IH as [ps Eps]. { intros x Hx; apply H; now right. }
  rewrite Eps; simpl. eexists; reflexivity.
Qed.

Lemma cogs_loop_total : forall gens groups,
  length gens = length groups ->
  (forall i p g, nth_error gens i = Some p -> nth_error groups i = Some g ->
     exists im, cog_post_init p g = Ok im) ->
  exists cogs, cogs_loop gens groups = Ok cogs.
Proof.
  induction gens as [|p pr IH]; intros [|g gr] L H; simpl in *; try discriminate; try (eexists; reflexivity).
  destruct (H 0 p g eq_refl eq_refl) as [im Eim]. unfold make_cog. rewrite Eim; simpl.
  destruct (IH gr) as [cs Ecs]; [lia| |].
  - intros i p' g' H1 H2. apply (H (S i) p' g' H1 H2).
  - rewrite Ecs; simpl. eexists; reflexivity.
Qed.

Lemma collection_total obs o :
  obs <> [] -> (forall p, In p obs -> pphase p = 0) -> grouping_contract obs o = true ->
  exists cogs lk, collection obs o = Ok (cogs, lk).
Proof.
  intros NE PH HK.
  destruct (contract_facts _ _ HK) as (_ & F2 & F3 & _ & [n W]).
  assert (MG : forall g, In g (o_groups o) -> exists p, most_general_observable g None = Ok p).
  { intros g Hg. destruct (F3 g Hg) as [Gne Gpw]. apply mgo_total; auto.
    intros m Hm. unfold mgo_width. destruct g as [|f r]; [congruence|].
    assert (Hf : In f obs) by (apply F2; apply in_concat; exists (f :: r); split; [assumption|now left]).
    assert (Hm' : In m obs) by (apply F2; apply in_concat; exists (f :: r); split; assumption).
    rewrite (W f Hf), (W m Hm'). reflexivity. }
  destruct (generals_loop_total _ MG) as [gens Eg].
  destruct (generals_loop_spec _ _ Eg) as [Lg Sg].
  destruct (cogs_loop_total gens (o_groups o) Lg) as [cs Ec].
  { intros i p g Hp Hg. destruct (Sg i g Hg) as [p' [Hp' Hm]].
    assert (p' = p) by congruence. subst p'.
    destruct (mgo_sound _ _ _ Hm) as (_ & _ & Lp & Wm & _).
    destruct (cog_post_init_total p g) as [ix [mk E]].
    - intros m Hm'. split.
      + apply PH. apply F2. apply in_concat. exists g. split; [eapply nth_error_In; eassumption|assumption].
      + rewrite Lp. apply Wm; assumption.
    - eexists; eassumption. }
  unfold collection. destruct obs as [|o1 orest]; [congruence|].
  rewrite Eg; simpl. rewrite Ec; simpl. eexists; eexists; reflexivity.
Qed.

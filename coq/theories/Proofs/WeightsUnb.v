(* Proofs/WeightsUnb.v — unbiasedness: the product of the (renormalised) conditional tables along a joint map
   that was not evaluated exactly telescopes to its probability. *)
From Coq Require Import QArith Qabs Qround Lia ZifyBool Lqa Permutation.
From CKT Require Import Common.Base Extracted.Facts Model.Weights.
From CKT Require Import Proofs.WeightsP Proofs.WeightsDfs Proofs.WeightsGen Proofs.WeightsTab Proofs.WeightsSum
                        Proofs.WeightsCount.
Open Scope Q_scope.

(* the table the sampler would find for a prefix: the LAST conditional yield with that state (dict semantics) *)
Fixpoint find_cond (ys : list yield) (st : key) : option (list Q) :=
  match ys with
  | [] => None
  | y :: r =>
      match find_cond r st with
      | Some v => Some v
      | None => match y with
                | YCond s v => if key_eqb s st then Some v else None
                | YFull _ _ => None
                end
      end
  end.

(* product of the table entries along c.  b = true: exactly as _populate_samples walks (cf. Model ecount): after the
   first prefix without a table the remaining coefficient vectors are used.  b = false: the tables are consulted at
   every level, as the single-leftover walk does. *)
Fixpoint gpath (b : bool) (ys : list yield) (bases : list (list Q)) (pf : key) (c : key) : Q :=
  match find_cond ys pf with
  | None =>
      match b, bases, c with
      | false, v :: rest, i :: c' => nth i v 0 * gpath b ys rest (pf ++ [i]) c'
      | _, _, _ => jointp bases c
      end
  | Some tbl =>
      match bases, c with
      | _ :: rest, i :: c' => nth i tbl 0 * gpath b ys rest (pf ++ [i]) c'
      | _, _ => 0
      end
  end.
Definition tpath := gpath true.

Lemma find_cond_app a b st :
  find_cond (a ++ b) st = match find_cond b st with Some v => Some v | None => find_cond a st end.
Proof.
  induction a as [|y a IH]; simpl; [destruct (find_cond b st); reflexivity|].
  rewrite IH. destruct (find_cond b st); [reflexivity|]. reflexivity.
Qed.

Lemma find_cond_none ys st : (forall y, In y ys -> ystate y <> st) -> find_cond ys st = None.
Proof.
  induction ys as [|y ys IH]; intros H; simpl; [reflexivity|].
  rewrite IH by (intros; apply H; now right).
  destruct y as [s p|s v]; [reflexivity|].
  destruct (key_eqb s st) eqn:E; [|reflexivity]. apply key_eqb_eq in E. exfalso. apply (H (YCond s v)); [now left|exact E].
Qed.

Lemma tpath_local b ys ys' : forall bases pf c,
  (forall c0, find_cond ys (pf ++ c0) = find_cond ys' (pf ++ c0)) ->
  gpath b ys bases pf c = gpath b ys' bases pf c.
Proof.
  induction bases as [|v rest IH]; intros pf c H; simpl.
  - pose proof (H []) as H0. rewrite app_nil_r in H0. now rewrite H0.
  - pose proof (H []) as H0. rewrite app_nil_r in H0. rewrite H0.
    assert (forall i c', gpath b ys rest (pf ++ [i]) c' = gpath b ys' rest (pf ++ [i]) c') as R.
    { intros i c'. apply IH. intros c0. rewrite <- !app_assoc. apply H. }
    destruct (find_cond ys' pf).
    + destruct c as [|i c']; [reflexivity|]. now rewrite R.
    + destruct b; [reflexivity|]. destruct c as [|i c']; [reflexivity|]. now rewrite R.
Qed.

Lemma tpath_nil b bases : forall pf c, gpath b [] bases pf c = jointp bases c.
Proof.
  induction bases as [|v rest IH]; intros pf c; simpl; [destruct b; reflexivity|].
  destruct b; [reflexivity|]. destruct c as [|i c']; [reflexivity|]. now rewrite IH.
Qed.

Lemma not_full_app a b k : ~ has_full (a ++ b) k -> ~ has_full a k /\ ~ has_full b k.
Proof.
  intros H. split; intros [p I]; apply H; exists p; apply in_app_iff; [now left|now right].
Qed.

Lemma resid_entry p s : match s with SubNone => p | SubLeaf => 0 | SubNorm n => p * n end == p * resid s.
Proof. destruct s; simpl; ring. Qed.

(* ---------- the children loop ---------- *)
Section Kids.
Variable b : bool.
Variable thr : Q.
Variable node : key -> Q -> list yield * sub.
Variable nraw : key -> Q -> list (key * list Q).
Variable rest : list (list Q).
Hypothesis Hu : forall pf r y, In y (fst (node pf r)) -> under pf rest y.
Hypothesis Ht : forall pf r c, 0 <= r -> pf <> [] -> clr (nraw pf r) -> idx_ok rest c -> length c = length rest ->
  ~ has_full (fst (node pf r)) (pf ++ c) ->
  resid (snd (node pf r)) * gpath b (fst (node pf r)) rest pf c == jointp rest c.

Lemma kids_tpath prefix rp : 0 <= rp -> forall l i j c, nonneg l ->
  (i <= j < i + length l)%nat -> clr (kids_raw thr nraw prefix rp i l) ->
  idx_ok rest c -> length c = length rest ->
  ~ has_full (fst (fst (kids thr node prefix rp i l))) (prefix ++ j :: c) ->
  nth (j - i) (snd (fst (kids thr node prefix rp i l))) 0 *
    gpath b (fst (fst (kids thr node prefix rp i l))) rest (prefix ++ [j]) c
  == nth (j - i) l 0 * jointp rest c.
Proof.
  intros Hrp. induction l as [|p l' IH]; intros i j c Nl R C O L NF; [simpl in R; lia|].
  inversion Nl as [|? ? Np Nl']; subst.
  rewrite kids_cons in *. cbn [kids_raw] in C.
  destruct (Qltb (rp * p) thr).
  { (* pruned: nothing was yielded, the entries are untouched *)
    cbn [fst snd]. rewrite tpath_nil. reflexivity. }
  pose proof (Hu (prefix ++ [i]) (rp * p)) as U1.
  pose proof (Ht (prefix ++ [i]) (rp * p)) as T1.
  destruct (node (prefix ++ [i]) (rp * p)) as [ys s] eqn:En. cbn [fst snd] in U1, T1.
  pose proof (kids_under thr node prefix rp rest Hu l' (S i)) as U2.
  specialize (IH (S i) j c Nl').
  destruct (kids thr node prefix rp (S i) l') as [[ys' tab] fnd] eqn:Ek. cbn [fst snd] in U2, IH.
  apply clr_app in C. destruct C as [C1 C2].
  assert (~ has_full (ys ++ ys') (prefix ++ j :: c)) as NF'.
  { destruct s; exact NF. }
  destruct (not_full_app _ _ _ NF') as [NF1 NF2].
  assert (nth (j - i) (match s with SubNone => p | SubLeaf => 0 | SubNorm n => p * n end :: tab) 0 *
            gpath b (ys ++ ys') rest (prefix ++ [j]) c == nth (j - i) (p :: l') 0 * jointp rest c) as G.
  { destruct (Nat.eq_dec j i) as [->|Nji].
    - replace (i - i)%nat with 0%nat by lia. cbn [nth].
      assert (gpath b (ys ++ ys') rest (prefix ++ [i]) c = gpath b ys rest (prefix ++ [i]) c) as ->.
      { apply tpath_local. intros c0. rewrite find_cond_app.
        rewrite (find_cond_none ys'); [reflexivity|].
        intros y I E. destruct (U2 y I) as [j' [c1 [Rj [Ej _]]]]. rewrite Ej, <- app_assoc in E.
        apply app_inv_head in E. simpl in E. inversion E. lia. }
      rewrite resid_entry, <- Qmult_assoc.
      rewrite T1; auto; [reflexivity|nra|destruct prefix; discriminate|].
      rewrite <- app_assoc. exact NF1.
    - replace (j - i)%nat with (S (j - S i)) by lia. cbn [nth].
      assert (gpath b (ys ++ ys') rest (prefix ++ [j]) c = gpath b ys' rest (prefix ++ [j]) c) as ->.
      { apply tpath_local. intros c0. rewrite find_cond_app.
        destruct (find_cond ys' ((prefix ++ [j]) ++ c0)); [reflexivity|].
        apply find_cond_none. intros y I E. destruct (U1 y I) as [c1 [E1 _]]. rewrite E1, <- !app_assoc in E.
        apply app_inv_head in E. simpl in E. inversion E. lia. }
      apply IH; auto. simpl in R. lia. }
  destruct s; cbn [fst snd]; exact G.
Qed.
End Kids.

(* ---------- a node ---------- *)
Lemma qsum_zero_all v : nonneg v -> qsum v == 0 -> forall i, nth i v 0 == 0.
Proof.
  induction 1 as [|x r Hx Hr IH]; intros S i; simpl in *; [destruct i; reflexivity|].
  pose proof (qsum_nonneg r Hr) as Q0. destruct i as [|i]; [lra|]. apply IH. lra.
Qed.

Lemma nth_zero_small_free tab j : Forall band_free tab -> nth j (map zero_small tab) 0 == nth j tab 0.
Proof.
  intros F. rewrite nth_map0 by reflexivity.
  destruct (Nat.lt_ge_cases j (length tab)) as [L|L].
  - apply zero_small_free. rewrite Forall_forall in F. apply F. now apply nth_In.
  - rewrite nth_overflow by lia. reflexivity.
Qed.

Lemma find_cond_last ys pf v : find_cond (ys ++ [YCond pf v]) pf = Some v.
Proof. rewrite find_cond_app. simpl. now rewrite key_eqb_refl. Qed.

Lemma find_cond_last_other ys pf v st : st <> pf -> find_cond (ys ++ [YCond pf v]) st = find_cond ys st.
Proof.
  intros N. rewrite find_cond_app. simpl.
  assert (key_eqb pf st = false) as -> by (apply key_eqb_neq; congruence). reflexivity.
Qed.

Lemma ext_neq (pf : key) j c0 : (pf ++ [j]) ++ c0 <> pf.
Proof.
  rewrite <- app_assoc. intros E. rewrite <- (app_nil_r pf) in E at 2. apply app_inv_head in E. discriminate.
Qed.

Lemma node_tpath b thr bases : Forall vec_ok bases ->
  forall pf r c, 0 <= r -> clr (node_raw thr bases pf r) -> idx_ok bases c -> length c = length bases ->
    ~ has_full (fst (dfs_node thr bases pf r)) (pf ++ c) ->
    (match pf with [] => 1 | _ :: _ => resid (snd (dfs_node thr bases pf r)) end)
      * gpath b (fst (dfs_node thr bases pf r)) bases pf c == jointp bases c.
Proof.
  pose proof atol_pos as Ap.
  induction bases as [|cur rest IH]; intros V pf r c Hr C O L NF.
  - destruct c; [|discriminate]. exfalso. apply NF. exists r. simpl. left. now rewrite app_nil_r.
  - inversion V as [|? ? [Nc Sc] Vr]; subst. specialize (IH Vr).
    destruct c as [|j c']; [discriminate|]. simpl in O, L. destruct O as [Hj O].
    rewrite node_raw_cons in C. apply clr_app in C. destruct C as [Ck Ct].
    assert (forall pf0 r0 c0, 0 <= r0 -> pf0 <> [] -> clr (node_raw thr rest pf0 r0) -> idx_ok rest c0 ->
              length c0 = length rest -> ~ has_full (fst (dfs_node thr rest pf0 r0)) (pf0 ++ c0) ->
              resid (snd (dfs_node thr rest pf0 r0)) * gpath b (fst (dfs_node thr rest pf0 r0)) rest pf0 c0
              == jointp rest c0) as Ht.
    { intros pf0 r0 c0 H0 Hp Hc Ho Hl Hn. specialize (IH pf0 r0 c0 H0 Hc Ho Hl Hn).
      destruct pf0; [contradiction|exact IH]. }
    pose proof (kids_tpath b thr (dfs_node thr rest) (node_raw thr rest) rest (node_under thr rest) Ht pf r Hr
                  cur 0%nat j c' Nc) as Kt.
    assert (0 <= nonzero_atol * nq (tree_size rest)) as HB by (pose proof (nq_nonneg (tree_size rest)); nra).
    destruct (kids_mass thr (dfs_node thr rest) (node_raw thr rest) _ pf r Hr HB (node_mass_all thr rest Vr) cur 0%nat
                (vec_ok_unit cur (conj Nc Sc))) as [_ [_ [_ [_ [Ntab [Ftab _]]]]]].
    pose proof (kids_under thr (dfs_node thr rest) pf r rest (node_under thr rest) cur 0%nat) as Uk.
    rewrite dfs_node_cons in *.
    destruct (kids thr (dfs_node thr rest) pf r 0%nat cur) as [[ysk tab] fnd] eqn:Ek. cbn [fst snd] in *.
    rewrite Nat.sub_0_r in Kt.
    assert (~ has_full ysk (pf ++ j :: c')) as NFk.
    { intros H. apply NF. now apply finish_keeps. }
    specialize (Kt ltac:(lia) Ck O ltac:(lia) NFk).
    assert (find_cond ysk pf = None) as Fp.
    { apply find_cond_none. intros y I E. destruct (Uk y I) as [j' [c1 [_ [E1 _]]]]. rewrite E1 in E.
      rewrite <- (app_nil_r pf) in E at 2. apply app_inv_head in E. discriminate. }
    rewrite jointp_cons. unfold finish. destruct fnd.
    + inversion Ct as [|? ? Ftop _]; subst. simpl in Ftop.
      pose proof (nth_zero_small_free tab j Ftop) as Ej.
      destruct (qsum_zero_small tab Ntab) as [N0 _].
      destruct pf as [|a pf'].
      * cbn [fst snd]. cbn [gpath]. rewrite find_cond_last.
        assert (gpath b (ysk ++ [YCond [] (map zero_small tab)]) rest ([] ++ [j]) c' = gpath b ysk rest ([] ++ [j]) c') as ->.
        { apply tpath_local. intros c0. apply find_cond_last_other. apply (ext_neq [] j c0). }
        rewrite Ej. rewrite <- Kt. ring.
      * cbn [fst snd resid].
        destruct (Qeq_bool (qsum (map zero_small tab)) 0) eqn:En.
        -- apply Qeqb_true in En. rewrite app_nil_r. rewrite En.
           pose proof (qsum_zero_all _ N0 En j) as Z. rewrite Ej in Z. rewrite Z in Kt. rewrite <- Kt. ring.
        -- apply Qeqb_false in En. cbn [gpath]. rewrite find_cond_last.
           assert (gpath b (ysk ++ [YCond (a :: pf') (map (fun x => x / qsum (map zero_small tab)) (map zero_small tab))])
                         rest ((a :: pf') ++ [j]) c' = gpath b ysk rest ((a :: pf') ++ [j]) c') as ->.
           { apply tpath_local. intros c0. apply find_cond_last_other. apply ext_neq. }
           rewrite nth_map0 by (unfold Qdiv; ring). rewrite Ej, <- Kt. field. exact En.
    + cbn [fst snd resid]. cbn [gpath]. rewrite Fp. rewrite (Ftab eq_refl) in Kt.
      destruct b; [destruct pf; rewrite jointp_cons; ring|].
      destruct pf; rewrite Kt; ring.
Qed.

(* ---------- through the permutation wrapper ---------- *)
Definition ycond_ok (bases : list (list Q)) (ys : list yield) : Prop :=
  forall s v, In (YCond s v) ys -> idx_ok bases s.

Lemma spec_ycond_ok thr bases : ycond_ok bases (dfs_spec bases thr).
Proof.
  intros s v I. unfold dfs_spec in I. destruct (node_under thr bases [] 1 _ I) as [c [E [O _]]]. simpl in E. now subst.
Qed.

Lemma idx_ok_sorted_len probs perms c : sorting_perms_b probs perms = true ->
  idx_ok (sorted_probs probs perms) c -> (length c <= length perms)%nat.
Proof.
  intros S O. apply idx_ok_length in O. rewrite (sorted_probs_length _ _ S) in O.
  now rewrite (sorting_perms_length _ _ S).
Qed.

Lemma unperm_inj_gen probs perms c c' : sorting_perms_b probs perms = true ->
  idx_ok (sorted_probs probs perms) c -> idx_ok (sorted_probs probs perms) c' ->
  unperm_state perms c = unperm_state perms c' -> c = c'.
Proof.
  intros S O O' E. apply (unperm_inj probs perms); auto.
  pose proof (f_equal (@length nat) E) as L.
  rewrite !unperm_state_length in L by (eapply idx_ok_sorted_len; eauto). exact L.
Qed.

Lemma find_cond_unperm probs perms ys c0 : sorting_perms_b probs perms = true ->
  ycond_ok (sorted_probs probs perms) ys -> idx_ok (sorted_probs probs perms) c0 ->
  find_cond (map (unperm_yield perms) ys) (unperm_state perms c0)
  = option_map (unperm_vec (nth (length c0) perms [])) (find_cond ys c0).
Proof.
  intros S Y O. induction ys as [|y ys IH]; [reflexivity|].
  cbn [map find_cond]. rewrite IH by (intros s v I; apply (Y s v); now right).
  destruct (find_cond ys c0); [reflexivity|]. simpl option_map.
  destruct y as [s p|s v]; simpl; [reflexivity|].
  destruct (key_eqb s c0) eqn:E.
  - apply key_eqb_eq in E. subst. now rewrite key_eqb_refl.
  - assert (key_eqb (unperm_state perms s) (unperm_state perms c0) = false) as ->; [|reflexivity].
    apply key_eqb_neq. intros U. apply key_eqb_neq in E. apply E.
    apply (unperm_inj_gen probs perms); auto. apply (Y s v). now left.
Qed.

Lemma unperm_state_app perms : forall pf c, (length pf <= length perms)%nat ->
  unperm_state perms (pf ++ c) = unperm_state perms pf ++ unperm_state (skipn (length pf) perms) c.
Proof.
  unfold unperm_state. induction perms as [|p rp IH]; intros [|i pf] c L; simpl in *; try lia; auto.
  f_equal. apply IH. lia.
Qed.

Lemma nth_unperm_vec (v : list Q) p i : NoDup p -> (i < length p)%nat -> (nth i p 0%nat < length p)%nat ->
  nth (nth i p 0%nat) (unperm_vec p v) 0 = nth i v 0.
Proof. intros ND Hi H. rewrite unperm_vec_nth by exact H. now rewrite index_of_nth_NoDup. Qed.

Lemma tpath_unperm b ys ysU : forall probsR permsR pfS pfU c,
  sorting_perms_b probsR permsR = true -> idx_ok (sorted_probs probsR permsR) c -> length c = length probsR ->
  (forall c0, idx_ok (sorted_probs probsR permsR) c0 ->
      find_cond ysU (pfU ++ unperm_state permsR c0)
      = option_map (unperm_vec (nth (length c0) permsR [])) (find_cond ys (pfS ++ c0))) ->
  gpath b ysU probsR pfU (unperm_state permsR c) = gpath b ys (sorted_probs probsR permsR) pfS c.
Proof.
  induction probsR as [|v rv IH]; intros [|p rp] pfS pfU c S O L H; simpl in S; try discriminate.
  - destruct c; [|discriminate]. simpl.
    pose proof (H [] I) as H0. simpl in H0. rewrite !app_nil_r in H0. rewrite H0.
    destruct (find_cond ys pfS); [reflexivity|]. destruct b; reflexivity.
  - apply andb_prop in S as [S1 S2]. destruct c as [|i c']; [discriminate|].
    change (sorted_probs (v :: rv) (p :: rp)) with (apply_perm p v :: sorted_probs rv rp) in *.
    simpl in O, L. destruct O as [Hi O]. rewrite apply_perm_length in Hi.
    destruct (sorting_perm_facts _ _ S1) as [Lp [Sp _]]. destruct (perm_facts2 v p Lp Sp) as [ND Bd].
    change (unperm_state (p :: rp) (i :: c')) with (nth i p 0%nat :: unperm_state rp c').
    cbn [gpath].
    pose proof (H [] I) as H0. simpl in H0. rewrite !app_nil_r in H0. rewrite H0.
    destruct (find_cond ys pfS) as [tbl|]; simpl option_map.
    + cbv iota. rewrite nth_unperm_vec; auto; [|rewrite Lp; now apply Bd]. f_equal.
      apply IH; auto; try lia. intros c0 O0.
      rewrite <- !app_assoc. simpl.
      specialize (H (i :: c0)). simpl in H. rewrite apply_perm_length in H. apply H. split; auto.
    + cbv iota. destruct b.
      * rewrite !jointp_cons, nth_apply_perm by exact Hi. f_equal.
        destruct (from_sorted rv rp c' S2 O) as [J _]; [rewrite (sorted_probs_length _ _ S2); lia|]. now rewrite J.
      * rewrite nth_apply_perm by exact Hi. f_equal.
        apply IH; auto; try lia. intros c0 O0.
        rewrite <- !app_assoc. simpl.
        specialize (H (i :: c0)). simpl in H. rewrite apply_perm_length in H. apply H. split; auto.
Qed.

Lemma tpath_unperm_top b probs perms thr c : sorting_perms_b probs perms = true ->
  idx_ok (sorted_probs probs perms) c -> length c = length probs ->
  gpath b (gen_unsorted probs perms thr) probs [] (unperm_state perms c)
  = gpath b (dfs_spec (sorted_probs probs perms) thr) (sorted_probs probs perms) [] c.
Proof.
  intros S O L. unfold gen_unsorted. apply tpath_unperm; auto.
  intros c0 O0. simpl. apply (find_cond_unperm probs perms); auto. apply spec_ycond_ok.
Qed.

Lemma tpath_unsorted b probs perms thr ids :
  valid probs -> sorting_perms_b probs perms = true ->
  clr (raw_tables (sorted_probs probs perms) thr) ->
  idx_ok probs ids -> length ids = length probs ->
  ~ has_full (gen_unsorted probs perms thr) ids ->
  gpath b (gen_unsorted probs perms thr) probs [] ids == jointp probs ids.
Proof.
  intros V S C O L NF.
  destruct (to_sorted probs perms ids S O L) as [c [Oc [Lc [Uc Jc]]]].
  rewrite <- Uc, tpath_unperm_top; auto; [|rewrite Lc; apply sorted_probs_length; auto].
  rewrite Uc, <- Jc.
  destruct (sorted_vec_ok probs perms V S) as [Vs _].
  pose proof (node_tpath b thr (sorted_probs probs perms) Vs [] 1 c) as T. simpl in T.
  rewrite <- T; auto; try lra; [unfold dfs_spec; ring|].
  intros [p Hp]. apply NF. exists p. rewrite <- Uc. now apply gen_unsorted_full.
Qed.

(* ---------- the dictionary the sampler reads ---------- *)
Definition norm_top (st : key) (v : list Q) : list Q :=
  match st with [] => map (fun x => x / qsum v) v | _ :: _ => v end.

Lemma absorb_cond_w D q ys : forall ret cond w,
  (forall st, dget (snd (fst (fold_left (absorb D q) ys (ret, cond, w)))) st
              = match find_cond ys st with Some v => Some (norm_top st v) | None => dget cond st end) /\
  snd (fold_left (absorb D q) ys (ret, cond, w)) = match find_cond ys [] with Some v => qsum v | None => w end.
Proof.
  induction ys as [|y ys IH]; intros ret cond w; [split; reflexivity|].
  cbn [fold_left find_cond]. destruct y as [s p|s v]; simpl absorb.
  - destruct (IH (dset ret s (p * q, EXACT)) cond w) as [A B]. split.
    + intros st. eapply eq_trans; [apply A|]. destruct (find_cond ys st); reflexivity.
    + eapply eq_trans; [exact B|]. destruct (find_cond ys []); reflexivity.
  - destruct s as [|a s'].
    + destruct (IH ret (dset cond [] (map (fun x => x / qsum v) v)) (qsum v)) as [A B]. split.
      * intros st. eapply eq_trans; [apply A|]. destruct (find_cond ys st); [reflexivity|].
        rewrite dget_dset. destruct st; simpl; reflexivity.
      * eapply eq_trans; [exact B|]. destruct (find_cond ys []); reflexivity.
    + destruct (IH ret (dset cond (a :: s') v) w) as [A B]. split.
      * intros st. eapply eq_trans; [apply A|]. destruct (find_cond ys st); [reflexivity|].
        rewrite dget_dset. destruct (key_eqb (a :: s') st) eqn:E; [|reflexivity].
        apply key_eqb_eq in E. subst. reflexivity.
      * eapply eq_trans; [exact B|]. destruct (find_cond ys []); reflexivity.
Qed.

(* ecount is linear in the number of draws and, below the top level, equals the path product *)
Lemma ecount_tpath ys cond : (forall st, st <> [] -> dget cond st = find_cond ys st) ->
  forall rest rs nd ids, rs <> [] -> ecount rest cond rs nd ids == nd * tpath ys rest rs ids.
Proof.
  intros H. unfold tpath. induction rest as [|v rest IH]; intros rs nd ids Ne; simpl; rewrite (H rs Ne).
  - destruct (find_cond ys rs); [ring|reflexivity].
  - destruct (find_cond ys rs) as [tbl|]; [|reflexivity].
    destruct ids as [|i ids']; [ring|].
    rewrite IH by (destruct rs; discriminate). ring.
Qed.

Lemma ecount_top ys cond probs nd ids :
  (forall st, dget cond st = match find_cond ys st with Some v => Some (norm_top st v) | None => None end) ->
  ecount probs cond [] nd ids ==
  match find_cond ys [] with
  | Some v => nd / qsum v * tpath ys probs [] ids
  | None => nd * tpath ys probs [] ids
  end.
Proof.
  intros H.
  assert (forall st, st <> [] -> dget cond st = find_cond ys st) as H'.
  { intros st Ne. rewrite H. destruct (find_cond ys st); [|reflexivity]. destruct st; [contradiction|reflexivity]. }
  unfold tpath in *.
  destruct probs as [|v rest]; simpl; rewrite (H []); destruct (find_cond ys []) as [tbl|]; simpl; try reflexivity.
  - unfold Qdiv. ring.
  - destruct ids as [|i ids']; [unfold Qdiv; ring|].
    rewrite (ecount_tpath ys cond H') by discriminate. unfold tpath. simpl app.
    rewrite nth_map0 by (unfold Qdiv; ring). unfold Qdiv. ring.
Qed.

Lemma unperm_state_nil perms : unperm_state perms [] = [].
Proof. destruct perms; reflexivity. Qed.

Lemma idx_ok_nil bases : idx_ok bases [].
Proof. destruct bases; exact I. Qed.

(* ---------- the accumulator, described through the yields ---------- *)
Definition acc_yields (probs : list (list Q)) (perms : list (list nat)) (q : Q) : list yield :=
  if Qle_bool (1 / q) (qprod (map qmax probs)) then gen_unsorted probs perms (1 / q) else [].

Lemma spec_top_table thr bases v : Forall vec_ok bases ->
  find_cond (dfs_spec bases thr) [] = Some v -> nonneg v.
Proof.
  intros V H. destruct bases as [|cur rest]; [simpl in H; discriminate|].
  inversion V as [|? ? [Nc Sc] Vr]; subst. unfold dfs_spec in H.
  destruct (spec_shape thr cur rest) as [Sh Nt]. rewrite Sh in H. clear Sh.
  assert (0 <= nonzero_atol * nq (tree_size rest)) as HB by (pose proof atol_pos; pose proof (nq_nonneg (tree_size rest)); nra).
  destruct (kids_mass thr (dfs_node thr rest) (node_raw thr rest) _ [] 1 ltac:(lra) HB (node_mass_all thr rest Vr) cur 0%nat
              (vec_ok_unit cur (conj Nc Sc))) as [_ [_ [_ [_ [Ntab _]]]]].
  destruct (snd (kids thr (dfs_node thr rest) [] 1 0%nat cur)); cbn [fst] in H.
  - rewrite find_cond_last in H. inversion H; subst. now destruct (qsum_zero_small _ Ntab).
  - rewrite find_cond_none in H; [discriminate|]. intros y I. now apply Nt.
Qed.

Lemma unperm_vec_nonneg p v : nonneg v -> nonneg (unperm_vec p v).
Proof.
  intros N. unfold nonneg, unperm_vec. rewrite Forall_forall. intros x I. apply in_map_iff in I.
  destruct I as [j [<- _]]. destruct (index_of j p); [now apply nth_nonneg|lra].
Qed.

Lemma acc_facts probs perms q ret cond wts0 :
  valid probs -> sorting_perms_b probs perms = true -> 1 <= q ->
  clr (raw_tables (sorted_probs probs perms) (1 / q)) ->
  dfs_acc probs perms q = (ret, cond, wts0) ->
  let ys := acc_yields probs perms q in
  ret = fold_left (ret_step q) ys [] /\
  (forall st, dget cond st = match find_cond ys st with Some v => Some (norm_top st v) | None => None end) /\
  wts0 = match find_cond ys [] with Some v => qsum v | None => 1 end /\
  (forall v, find_cond ys [] = Some v -> nonneg v) /\
  (forall b ids, idx_ok probs ids -> length ids = length probs -> ~ has_full ys ids ->
      gpath b ys probs [] ids == jointp probs ids).
Proof.
  intros V S Hq C E ys. unfold dfs_acc in E. unfold acc_yields in ys.
  destruct (Qle_bool (1 / q) (qprod (map qmax probs))) eqn:El; subst ys.
  - set (ysU := gen_unsorted probs perms (1 / q)) in *.
    destruct (absorb_cond_w (length probs) q ysU ([] : wdict) ([] : list (key * list Q)) 1) as [A B].
    assert (fold_left (absorb (length probs) q) ysU (([] : wdict), ([] : list (key * list Q)), 1) = (ret, cond, wts0)) as E'
      by exact E.
    rewrite E' in A, B. cbn [fst snd] in A, B.
    split; [|split; [|split; [|split]]].
    + transitivity (fst (fst (fold_left (absorb (length probs) q) ysU (([] : wdict), ([] : list (key * list Q)), 1)))).
      * now rewrite E'.
      * apply absorb_ret.
    + intros st. rewrite A. destruct (find_cond ysU st); reflexivity.
    + exact B.
    + intros v Hv. unfold ysU, gen_unsorted in Hv.
      pose proof (find_cond_unperm probs perms (dfs_spec (sorted_probs probs perms) (1 / q)) [] S
                    (spec_ycond_ok _ _) (idx_ok_nil _)) as Fc. rewrite unperm_state_nil in Fc. rewrite Fc in Hv.
      destruct (find_cond (dfs_spec (sorted_probs probs perms) (1 / q)) []) as [v0|] eqn:E0; [|discriminate].
      simpl in Hv. inversion Hv; subst. apply unperm_vec_nonneg.
      destruct (sorted_vec_ok probs perms V S) as [Vs _]. eapply spec_top_table; eauto.
    + intros b ids O L NF. now apply tpath_unsorted.
  - inversion E; subst. split; [reflexivity|]. split; [intros st; reflexivity|]. split; [reflexivity|].
    split; [intros v H; discriminate|]. intros b ids _ _ _. rewrite tpath_nil. reflexivity.
Qed.

Lemma ret_none_not_full q ys ids : dget (fold_left (ret_step q) ys []) ids = None -> ~ has_full ys ids.
Proof.
  intros H F. rewrite ret_get in H. destruct (has_full_last _ _ F) as [p E]. rewrite E in H. discriminate.
Qed.

(* ---------- inversion of gen_core ---------- *)
Inductive core_outcome (probs : list (list Q)) (perms : list (list nat)) (q : Q) (c : core) : Prop :=
| CO_all_exact mins :
    all_some (map min_filter_nonzero probs) = Some mins -> 1 / q <= qprod mins ->
    c = CDone (all_exact probs q) -> core_outcome probs perms q c
| CO_negligible mins ret cond wts0 :
    all_some (map min_filter_nonzero probs) = Some mins -> ~ 1 / q <= qprod mins ->
    dfs_acc probs perms q = (ret, cond, wts0) -> (Qceiling (wts0 * q) < 1)%Z ->
    c = CDone ret -> core_outcome probs perms q c
| CO_leftover mins ret cond wts0 rs :
    all_some (map min_filter_nonzero probs) = Some mins -> ~ 1 / q <= qprod mins ->
    dfs_acc probs perms q = (ret, cond, wts0) -> (1 <= Qceiling (wts0 * q))%Z ->
    leftover_walk probs cond [] = Some (Some rs) -> dget ret rs = None ->
    c = CDone (dset ret rs (wts0 * q, EXACT)) -> core_outcome probs perms q c
| CO_sample mins ret cond wts0 :
    all_some (map min_filter_nonzero probs) = Some mins -> ~ 1 / q <= qprod mins ->
    dfs_acc probs perms q = (ret, cond, wts0) -> (1 <= Qceiling (wts0 * q))%Z ->
    c = CSample ret cond (Z.to_nat (Qceiling (wts0 * q))) (wts0 * q / inject_Z (Qceiling (wts0 * q))) ->
    core_outcome probs perms q c.

Lemma gen_core_fin_inv probs perms q c :
  gen_core probs perms (Fin q) = Ok c -> 1 <= q /\ core_outcome probs perms q c.
Proof.
  unfold gen_core.
  destruct (Qltb q 1) eqn:Eq1; [discriminate|]. apply Qltb_ge in Eq1.
  destruct (all_some (map min_filter_nonzero probs)) as [mins|] eqn:Em; [|discriminate].
  destruct (Qle_bool (1 / q) (qprod mins)) eqn:Ea.
  { intros [= <-]. split; auto. apply Qle_bool_iff in Ea. eapply CO_all_exact; eauto. }
  assert (~ 1 / q <= qprod mins) as Na.
  { intros L. apply Qle_bool_iff in L. congruence. }
  fold (dfs_acc probs perms q).
  destruct (dfs_acc probs perms q) as [[ret cond] wts0] eqn:Eacc.
  destruct (Z.ltb (Qceiling (wts0 * q)) 1) eqn:Esn.
  { intros [= <-]. split; auto. eapply CO_negligible; eauto. lia. }
  assert (1 <= Qceiling (wts0 * q))%Z as Hsn by lia.
  destruct cond as [|c0 cond'] eqn:Ec.
  { intros [= <-]. split; auto. eapply CO_sample; eauto. }
  rewrite <- Ec in *.
  destruct (leftover_walk probs cond []) as [[rs|]|] eqn:El.
  - destruct (dmem ret rs) eqn:Edm; [discriminate|].
    intros [= <-]. split; auto. eapply CO_leftover; eauto.
    unfold dmem in Edm. destruct (dget ret rs); [discriminate|reflexivity].
  - intros [= <-]. split; auto. eapply CO_sample; eauto.
  - discriminate.
Qed.

(* ---------- unbiasedness ---------- *)
Lemma skipped_zero probs q mins ids :
  valid probs -> 1 <= q -> nonzero_atol * q <= 1 -> Forall (Forall band_free) probs ->
  all_some (map min_filter_nonzero probs) = Some mins -> 1 / q <= qprod mins ->
  idx_ok probs ids -> length ids = length probs -> jointp probs ids < nonzero_atol -> jointp probs ids == 0.
Proof.
  intros V Hq A C Em Ae O L B. pose proof (valid_nonneg _ V) as Nn.
  pose proof (jointp_unit_nonneg probs ids Nn) as J.
  destruct (Qlt_le_dec 0 (jointp probs ids)) as [P|P]; [|lra].
  destruct (jointp_ge_mins probs mins ids Em Nn O L (clean_pos_big probs C Nn ids O L P)) as [_ G].
  assert (nonzero_atol <= 1 / q) as At by (apply Qle_shift_div_l; lra). lra.
Qed.

(* ================= the single-leftover shortcut ================= *)
(* normalised tables sum to one *)
Definition cond_norm (y : yield) : Prop :=
  match y with YCond (_ :: _) v => qsum v == 1 | _ => True end.

Lemma kids_forall (P : yield -> Prop) thr node prefix rp :
  (forall pf r y, In y (fst (node pf r)) -> P y) ->
  forall l i y, In y (fst (fst (kids thr node prefix rp i l))) -> P y.
Proof.
  intros Hn l; induction l as [|p l' IH]; intros i y; [simpl; tauto|].
  rewrite kids_cons. destruct (Qltb (rp * p) thr); [simpl; tauto|].
  pose proof (Hn (prefix ++ [i]) (rp * p) y) as H1.
  destruct (node (prefix ++ [i]) (rp * p)) as [ys s]. specialize (IH (S i) y).
  destruct (kids thr node prefix rp (S i) l') as [[ys' tab] fnd]. cbn [fst] in *.
  assert (In y (ys ++ ys') -> P y) as G by (rewrite in_app_iff; intros [H|H]; auto).
  destruct s; simpl; exact G.
Qed.

Lemma qsum_div_self v : ~ qsum v == 0 -> qsum (map (fun x => x / qsum v) v) == 1.
Proof.
  intros N. assert (forall w l, qsum (map (fun x => x / w) l) == qsum l / w) as G.
  { intros w l. induction l as [|a l IH]; simpl; [unfold Qdiv; ring|]. rewrite IH. unfold Qdiv. ring. }
  rewrite G. field. exact N.
Qed.

Lemma node_cond_norm thr bases : forall pf r y, In y (fst (dfs_node thr bases pf r)) -> cond_norm y.
Proof.
  induction bases as [|cur rest IH]; intros pf r y.
  - simpl. intros [<-|[]]. exact I.
  - rewrite dfs_node_cons.
    pose proof (kids_forall cond_norm thr (dfs_node thr rest) pf r IH cur 0%nat y) as K.
    destruct (kids thr (dfs_node thr rest) pf r 0%nat cur) as [[ys tab] fnd]. cbn [fst] in K.
    unfold finish. destruct fnd; [|exact K].
    destruct pf as [|a pf']; cbn [fst]; rewrite in_app_iff.
    + intros [H|[<-|[]]]; auto. exact I.
    + intros [H|H]; auto.
      destruct (Qeq_bool (qsum (map zero_small tab)) 0) eqn:E; [destruct H|]. destruct H as [<-|[]].
      simpl. apply qsum_div_self. now apply Qeqb_false.
Qed.

Lemma find_cond_In ys st v : find_cond ys st = Some v -> In (YCond st v) ys.
Proof.
  induction ys as [|y ys IH]; simpl; [discriminate|].
  destruct (find_cond ys st) as [v'|]; [intros [= ->]; right; auto|].
  destruct y as [s p|s u]; [discriminate|]. destruct (key_eqb s st) eqn:E; [|discriminate].
  apply key_eqb_eq in E. subst. intros [= ->]. now left.
Qed.

Lemma gen_unsorted_norm probs perms thr st v :
  Forall nonneg probs -> sorting_perms_b probs perms = true -> st <> [] ->
  find_cond (gen_unsorted probs perms thr) st = Some v -> qsum v == 1.
Proof.
  intros N S Ne H. apply find_cond_In in H. unfold gen_unsorted in H. apply in_map_iff in H.
  destruct H as [y [E I]]. destruct y as [|c v']; simpl in E; [discriminate|]. inversion E; subst. clear E.
  unfold dfs_spec in I.
  pose proof (node_cond_norm thr _ [] 1 _ I) as Cn.
  pose proof (node_under thr _ [] 1 _ I) as [c0 [Ec [Oc Lc]]]. simpl in Ec, Lc. subst c0.
  pose proof (sorted_probs_length probs perms S) as Ls.
  assert (Forall nonneg (sorted_probs probs perms)) as Ns.
  { clear -N S. revert perms S. induction probs as [|b rb IHb]; intros [|p rp] S; simpl in *; try discriminate; constructor.
    - inversion N; subst. unfold nonneg, apply_perm. rewrite Forall_forall. intros x Hx.
      apply in_map_iff in Hx. destruct Hx as [j [<- _]]. now apply nth_nonneg.
    - inversion N; subst. apply andb_prop in S as [_ S]. apply IHb; auto. }
  pose proof (node_cond thr _ Ns [] 1 _ I) as [c1 [Ec [_ Lv]]]. simpl in Ec. subst c1.
  assert (length c < length probs)%nat as Hc by lia.
  destruct (nth_sorted_probs probs perms (length c) S Hc) as [En Sp]. rewrite En, apply_perm_length in Lv.
  destruct (sorting_perm_facts _ _ Sp) as [Lpk [Spk _]].
  destruct c as [|i c']; [rewrite unperm_state_nil in Ne; contradiction|]. simpl in Cn.
  rewrite <- Cn. symmetry. apply qsum_perm. apply unperm_vec_perm; auto.
  intros j Hj. apply Spk. lia.
Qed.

Lemma qsum_single v x : (forall i, i <> x -> nth i v 0 == 0) -> qsum v == nth x v 0.
Proof.
  revert x; induction v as [|a v IH]; intros x H; simpl.
  - destruct x; reflexivity.
  - destruct x as [|x].
    + assert (qsum v == 0) as ->.
      { clear IH. assert (forall i, nth i v 0 == 0) as Z by (intros i; apply (H (S i)); discriminate).
        clear H. induction v as [|b v IHv]; simpl; [reflexivity|]. rewrite (Z 0%nat). simpl.
        rewrite IHv; [ring|]. intros i. apply (Z (S i)). }
      ring.
    + rewrite (H 0%nat) by discriminate. simpl. rewrite (IH x); [ring|].
      intros i Ni. apply (H (S i)). congruence.
Qed.

Lemma in_combine_seq_conv (v : list Q) : forall a x, (a <= x < a + length v)%nat ->
  In (x, nth (x - a) v 0) (combine (seq a (length v)) v).
Proof.
  induction v as [|z v IH]; intros a x R; simpl in *; [lia|].
  destruct (Nat.eq_dec x a) as [->|N].
  - left. replace (a - a)%nat with 0%nat by lia. reflexivity.
  - right. replace (x - a)%nat with (S (x - S a)) by lia. apply IH. lia.
Qed.

Lemma flatnonzero_complete v x : (x < length v)%nat -> ~ nth x v 0 == 0 -> In x (flatnonzero v).
Proof.
  intros L N. unfold flatnonzero. apply in_map_iff. exists (x, nth x v 0). split; [reflexivity|].
  apply filter_In. split.
  - pose proof (in_combine_seq_conv v 0 x) as H. rewrite Nat.sub_0_r in H. apply H. lia.
  - simpl. apply negb_true_iff. now apply Qeqb_false.
Qed.

Lemma flat_single v x : flatnonzero v = [x] -> ~ nth x v 0 == 0 /\ forall i, i <> x -> nth i v 0 == 0.
Proof.
  intros F. split.
  - assert (In x (flatnonzero v)) as I by (rewrite F; now left). now apply flatnonzero_In in I.
  - intros i Ni. destruct (Nat.lt_ge_cases i (length v)) as [L|L]; [|rewrite nth_overflow by lia; reflexivity].
    destruct (Qeq_dec (nth i v 0) 0) as [E|E]; auto.
    pose proof (flatnonzero_complete v i L E) as I. rewrite F in I. destruct I as [->|[]]. contradiction.
Qed.

Section Walk.
Variable probs : list (list Q).
Variable ys : list yield.
Variable cond : list (key * list Q).
Hypothesis Hv : valid probs.
Hypothesis Hc : forall st, dget cond st = match find_cond ys st with Some v => Some (norm_top st v) | None => None end.
Hypothesis Hn : forall st v, st <> [] -> find_cond ys st = Some v -> qsum v == 1.
Hypothesis Hl : forall st v, find_cond ys st = Some v -> (length st < length probs)%nat.

Lemma Hc' st : st <> [] -> dget cond st = find_cond ys st.
Proof. intros Ne. rewrite Hc. destruct (find_cond ys st); [|reflexivity]. destruct st; [contradiction|reflexivity]. Qed.

Lemma gpath_false_cons indep rest' pf i c' :
  gpath false ys (indep :: rest') pf (i :: c')
  = nth i (match find_cond ys pf with Some v => v | None => indep end) 0 * gpath false ys rest' (pf ++ [i]) c'.
Proof. cbn [gpath]. destruct (find_cond ys pf); reflexivity. Qed.

Lemma walk_gpath : forall rest done pf out, probs = done ++ rest -> length done = length pf -> pf <> [] ->
  leftover_walk rest cond pf = Some (Some out) ->
  exists c, out = pf ++ c /\ length c = length rest /\ gpath false ys rest pf c == 1 /\
    forall c2, length c2 = length rest -> c2 <> c -> gpath false ys rest pf c2 == 0.
Proof.
  induction rest as [|indep rest' IH]; intros done pf out E L Ne H; simpl in H.
  - inversion H; subst out. exists []. rewrite app_nil_r. split; auto. split; auto. split.
    + simpl. destruct (find_cond ys pf) as [v|] eqn:F; [|reflexivity].
      apply Hl in F. rewrite E, app_nil_r in F. lia.
    + intros [|a c2] Lc N; [contradiction|discriminate].
  - rewrite (Hc' pf Ne) in H.
    set (tbl := match find_cond ys pf with Some v => v | None => indep end) in *.
    destruct (flatnonzero tbl) as [|x [|x2 more]] eqn:Ef; try discriminate.
    destruct (flat_single tbl x Ef) as [Nx Zo].
    assert (qsum tbl == 1) as St.
    { unfold tbl. destruct (find_cond ys pf) as [v|] eqn:F; [now apply (Hn pf v)|].
      unfold valid in Hv. rewrite E in Hv. apply Forall_app in Hv. destruct Hv as [_ H2]. inversion H2; subst. tauto. }
    assert (nth x tbl 0 == 1) as X1 by (rewrite <- (qsum_single tbl x Zo); exact St).
    destruct (IH (done ++ [indep]) (pf ++ [x]) out) as [c [Eo [Lc [G1 G0]]]]; auto.
    + now rewrite <- app_assoc.
    + rewrite !app_length. simpl. lia.
    + destruct pf; discriminate.
    + exists (x :: c). split; [now rewrite Eo, <- app_assoc|]. split; [simpl; lia|]. split.
      * rewrite gpath_false_cons. fold tbl. rewrite X1, G1. ring.
      * intros [|i c2] L2 N2; [discriminate|]. rewrite gpath_false_cons. fold tbl.
        destruct (Nat.eq_dec i x) as [->|Ni].
        -- rewrite G0; [ring|simpl in L2; lia|]. intros ->. contradiction.
        -- rewrite (Zo i Ni). ring.
Qed.

Lemma walk_top indep0 rest' wts0 rs : probs = indep0 :: rest' ->
  wts0 = match find_cond ys [] with Some v => qsum v | None => 1 end ->
  leftover_walk probs cond [] = Some (Some rs) ->
  length rs = length probs /\ gpath false ys probs [] rs == wts0 /\
  forall ids, length ids = length probs -> ids <> rs -> gpath false ys probs [] ids == 0.
Proof.
  intros E Ew H. rewrite E in H. simpl in H. rewrite Hc in H.
  set (T0 := match find_cond ys [] with Some v => v | None => indep0 end).
  assert (exists x, leftover_walk rest' cond [x] = Some (Some rs) /\ ~ nth x T0 0 == 0 /\
                    (forall i, i <> x -> nth i T0 0 == 0) /\ nth x T0 0 == wts0) as [x [Hw [Nx [Zo Xw]]]].
  { unfold T0. destruct (find_cond ys []) as [v|] eqn:F; simpl in H.
    - destruct (flatnonzero (map (fun x => x / qsum v) v)) as [|x [|x2 more]] eqn:Ef; try discriminate.
      destruct (flat_single _ x Ef) as [Nx Zo]. exists x. split; [exact H|].
      assert (~ qsum v == 0) as Nw.
      { intros Z. apply Nx. rewrite nth_map0 by (unfold Qdiv; ring). rewrite Z. unfold Qdiv, Qinv. simpl. ring. }
      assert (forall i, nth i v 0 == nth i (map (fun x => x / qsum v) v) 0 * qsum v) as R.
      { intros i. rewrite nth_map0 by (unfold Qdiv; ring). field. exact Nw. }
      assert (forall i, i <> x -> nth i v 0 == 0) as Zv by (intros i Ni; rewrite R, (Zo i Ni); ring).
      split; [|split; [exact Zv|]].
      + intros Z. apply Nx. rewrite nth_map0 by (unfold Qdiv; ring). rewrite Z. unfold Qdiv. ring.
      + rewrite Ew. symmetry. now apply qsum_single.
    - destruct (flatnonzero indep0) as [|x [|x2 more]] eqn:Ef; try discriminate.
      destruct (flat_single _ x Ef) as [Nx Zo]. exists x. split; [exact H|]. split; auto. split; auto.
      rewrite Ew, <- (qsum_single indep0 x Zo).
      unfold valid in Hv. rewrite E in Hv. inversion Hv; subst. tauto. }
  destruct (walk_gpath rest' [indep0] [x] rs) as [c [Eo [Lc [G1 G0]]]]; auto; [discriminate|].
  rewrite E. split; [rewrite Eo; simpl; lia|]. split.
  - rewrite Eo. simpl app. rewrite gpath_false_cons. fold T0. rewrite G1, Xw. ring.
  - intros [|i c2] L2 N2; [discriminate|]. rewrite gpath_false_cons. fold T0.
    destruct (Nat.eq_dec i x) as [->|Ni].
    + rewrite G0; [ring|simpl in L2; lia|]. intros ->. apply N2. now rewrite Eo.
    + rewrite (Zo i Ni). ring.
Qed.
End Walk.

Lemma acc_yields_tables probs perms q :
  valid probs -> sorting_perms_b probs perms = true ->
  (forall st v, st <> [] -> find_cond (acc_yields probs perms q) st = Some v -> qsum v == 1) /\
  (forall st v, find_cond (acc_yields probs perms q) st = Some v -> (length st < length probs)%nat).
Proof.
  intros V S. pose proof (valid_nonneg _ V) as Nn. unfold acc_yields.
  destruct (Qle_bool (1 / q) (qprod (map qmax probs))).
  - split.
    + intros st v Ne H. eapply gen_unsorted_norm; eauto.
    + intros st v H. apply find_cond_In in H. now destruct (gen_unsorted_cond probs perms (1 / q) st v Nn S H).
  - split; intros st v; simpl; discriminate.
Qed.


Theorem unbiased probs perms q ids c :
  valid probs -> sorting_perms_b probs perms = true -> nonzero_atol * q <= 1 ->
  no_entry_in_cutoff probs perms (1 / q) ->
  gen_core probs perms (Fin q) = Ok c ->
  in_range probs ids ->
  expected_weight probs perms (Fin q) ids == q * jointp probs ids.
Proof.
  intros V S A [Cl Ct] G R. apply in_range_idx_ok in R. destruct R as [O L].
  unfold expected_weight. rewrite G. apply gen_core_fin_inv in G. destruct G as [Hq F].
  pose proof atol_pos as Ap.
  destruct F as [mins Em Ae ->|mins ret cond wts0 Em Na Eacc Hs ->|mins ret cond wts0 rs Em Na Eacc Hs Lw Dn ->
                |mins ret cond wts0 Em Na Eacc Hs ->].
  - (* everything exact *)
    destruct (dget (all_exact probs q) ids) as [[w t]|] eqn:E.
    + destruct (proj2 (all_exact_spec probs q ids) w t E) as [_ [_ [_ [_ ->]]]]. reflexivity.
    + rewrite all_exact_get in E.
      assert (existsb (key_eqb ids) (cart (map (@length Q) probs)) = true) as Ex by (apply existsb_key, In_cart; auto).
      rewrite Ex in E. simpl in E.
      destruct (Qltb (jointp probs ids) nonzero_atol) eqn:Es; [|discriminate].
      apply Qltb_lt in Es. rewrite (skipped_zero probs q mins ids); auto. ring.
  - (* repaired F9 branch: the residual mass is zero *)
    destruct (acc_facts probs perms q ret cond wts0 V S Hq Ct Eacc) as [Er [Ec [Ew [En Et]]]].
    destruct (dget ret ids) as [[w t]|] eqn:E.
    + destruct (dfs_ret_keys probs perms q ret cond wts0 ids (w, t) S Hq Eacc E) as [_ [Vw _]]. simpl in Vw.
      rewrite Vw. ring.
    + rewrite Er in E. pose proof (Et true ids O L (ret_none_not_full _ _ _ E)) as T. fold tpath in T.
      apply ceil_le_zero in Hs.
      destruct (find_cond (acc_yields probs perms q) []) as [v|] eqn:Ef.
      * pose proof (En v eq_refl) as Nv. pose proof (qsum_nonneg v Nv) as Qv.
        assert (qsum v == 0) as Z by (rewrite Ew in Hs; nra).
        destruct probs as [|b rest]; destruct ids as [|i ids']; try discriminate.
        -- exfalso. simpl in Em. inversion Em; subst. simpl in Na. destruct (thr_facts q Hq). lra.
        -- unfold tpath in T. cbn [gpath] in T. rewrite Ef in T. rewrite (qsum_zero_all v Nv Z i) in T. rewrite <- T. ring.
      * exfalso. subst wts0. lra.
  - (* single-leftover shortcut: the one map that is left carries the whole residual mass *)
    destruct (acc_facts probs perms q ret cond wts0 V S Hq Ct Eacc) as [Er [Ec [Ew [En Et]]]].
    destruct (acc_yields_tables probs perms q V S) as [Hn Hl].
    pose proof (valid_nonneg _ V) as Nn.
    destruct probs as [|indep0 rest'] eqn:Ep.
    { exfalso. simpl in Em. inversion Em; subst. simpl in Na. destruct (thr_facts q Hq). lra. }
    rewrite <- Ep in *.
    destruct (walk_top probs (acc_yields probs perms q) cond V Ec Hn Hl indep0 rest' wts0 rs Ep Ew Lw) as [Lr [Gr Gz]].
    pose proof (dfs_acc_cond_sound probs perms q ret cond wts0 Nn S Eacc) as Cs.
    destruct (leftover_pos probs cond Nn Cs probs [] [] rs eq_refl eq_refl) as [Pr _]; [simpl; lra|exact Lw|].
    pose proof (jointp_pos_idx probs Nn rs Pr Lr) as Or.
    assert (~ has_full (acc_yields probs perms q) rs) as NFr by (apply (ret_none_not_full q); rewrite <- Er; exact Dn).
    pose proof (Et false rs Or Lr NFr) as Tr. rewrite Gr in Tr.
    rewrite dget_dset. destruct (key_eqb rs ids) eqn:Ek.
    + apply key_eqb_eq in Ek. subst ids. rewrite Tr. ring.
    + apply key_eqb_neq in Ek.
      destruct (dget ret ids) as [[w t]|] eqn:E.
      * destruct (dfs_ret_keys probs perms q ret cond wts0 ids (w, t) S Hq Eacc E) as [_ [Vw _]]. simpl in Vw.
        rewrite Vw. ring.
      * rewrite Er in E. pose proof (Et false ids O L (ret_none_not_full _ _ _ E)) as T.
        rewrite (Gz ids L) in T by congruence. rewrite <- T. ring.
  - (* sampled *)
    destruct (acc_facts probs perms q ret cond wts0 V S Hq Ct Eacc) as [Er [Ec [Ew [En Et]]]].
    destruct (dget ret ids) as [[w t]|] eqn:E.
    + destruct (dfs_ret_keys probs perms q ret cond wts0 ids (w, t) S Hq Eacc E) as [_ [Vw _]]. simpl in Vw.
      rewrite Vw. ring.
    + rewrite Er in E. pose proof (Et true ids O L (ret_none_not_full _ _ _ E)) as T. fold tpath in T.
      rewrite (ecount_top (acc_yields probs perms q) cond probs _ ids Ec).
      assert (inject_Z (Z.of_nat (Z.to_nat (Qceiling (wts0 * q)))) == inject_Z (Qceiling (wts0 * q))) as Nd
        by (rewrite Z2Nat.id by lia; reflexivity).
      assert (0 < inject_Z (Qceiling (wts0 * q))) as Sp.
      { assert (inject_Z 1 <= inject_Z (Qceiling (wts0 * q))) as X by (rewrite <- Zle_Qle; exact Hs).
        change (inject_Z 1) with 1 in X. lra. }
      assert (0 < wts0 * q) as Wp.
      { pose proof (Qceiling_lt (wts0 * q)) as Lc.
        assert (inject_Z 0 <= inject_Z (Qceiling (wts0 * q) - 1)) as X by (rewrite <- Zle_Qle; lia).
        change (inject_Z 0) with 0 in X. lra. }
      destruct (find_cond (acc_yields probs perms q) []) as [v|] eqn:Ef.
      * rewrite Nd, T, <- Ew. field. repeat split; intros Z; try (rewrite Z in Wp; lra); lra.
      * rewrite Nd, T. rewrite Ew in *. field. repeat split; intros Z; try (rewrite Z in Wp; lra); lra.
Qed.


(* Proofs/ValidationSkelP.v — the regenerated control skeletons execute to the hand-written api_* functions. *)
From Coq Require Import String Lia.
From CKT Require Import Common.Base Model.Validation Model.ValidationSkel Proofs.ValidationP.
Open Scope string_scope.

Section ExecP.
Variables I E : Type.
Variable atom : string -> I -> list E -> option bool.
Variable coll : string -> I -> list E -> option (list E).
Variable call : string -> I -> list E -> option outcome.
Variable i : I.
Local Notation eval := (ValidationSkel.eval I E atom coll i).
Local Notation exec_stmt := (ValidationSkel.exec_stmt I E atom coll call i).
Local Notation exec_list := (ValidationSkel.exec_list I E atom coll call i).

Fixpoint for_loop (b : list stmt) (es : list E) (st : list E) : flow :=
  match es with [] => FNext | e :: r => fseq (uncont (exec_list b (e :: st))) (for_loop b r st) end.
Fixpoint any_loop (a : gexp) (es : list E) (st : list E) : option bool :=
  match es with
  | [] => Some false
  | x :: r => match eval a (x :: st) with Some true => Some true | Some false => any_loop a r st | None => None end
  end.

Lemma go_eq (l : list stmt) st :
  (fix go (l : list stmt) : flow := match l with [] => FNext | x :: r => fseq (exec_stmt x st) (go r) end) l
  = exec_list l st.
Proof. induction l as [|x r IH]; [reflexivity|]. simpl. now rewrite IH. Qed.
Lemma exec_if t b o st :
  exec_stmt (SIf t b o) st =
  match eval t st with None => FCrashed | Some true => exec_list b st | Some false => exec_list o st end.
Proof. simpl. destruct (eval t st) as [[|]|]; [apply go_eq | apply go_eq | reflexivity]. Qed.
Lemma exec_for h b st :
  exec_stmt (SFor h b) st = match coll h i st with None => FCrashed | Some es => for_loop b es st end.
Proof.
  simpl. destruct (coll h i st) as [es|]; [|reflexivity].
  induction es as [|e r IH]; [reflexivity|]. simpl. rewrite IH. do 2 f_equal. apply go_eq.
Qed.
Lemma eval_any v c a st :
  eval (GAny v c a) st = match coll c i st with None => None | Some es => any_loop a es st end.
Proof.
  simpl. destruct (coll c i st) as [es|]; [|reflexivity].
  induction es as [|e r IH]; [reflexivity|]. simpl. destruct (eval a (e :: st)) as [[|]|]; auto.
Qed.
Lemma eval_and a b st : eval (GAnd a b) st = match eval a st with Some true => eval b st | x => x end.
Proof. reflexivity. Qed.
Lemma eval_or a b st : eval (GOr a b) st = match eval a st with Some false => eval b st | x => x end.
Proof. reflexivity. Qed.
Lemma eval_atom t st : eval (GAtom t) st = atom t i st.
Proof. reflexivity. Qed.
Lemma exec_call f st : exec_stmt (SCall f) st = match call f i st with Some o => flow_of o | None => FCrashed end.
Proof. reflexivity. Qed.
Lemma exec_cons x r st : exec_list (x :: r) st = fseq (exec_stmt x st) (exec_list r st).
Proof. reflexivity. Qed.
(* any(...) whose element test evaluates on every element of the collection: an existsb *)
Lemma any_loop_existsb a es st (f : E -> bool) :
  (forall x, In x es -> eval a (x :: st) = Some (f x)) -> any_loop a es st = Some (existsb f es).
Proof.
  induction es as [|x r IH]; intro H; [reflexivity|]. simpl. rewrite (H x (or_introl eq_refl)).
  destruct (f x); [reflexivity|]. apply IH. intros; apply H; now right.
Qed.
(* a loop whose body either refuses or falls through, decided per element: an existsb *)
Lemma for_loop_existsb b es st (f : E -> bool) :
  (forall e, In e es -> exec_list b (e :: st) = if f e then FRefused else FNext) ->
  for_loop b es st = if existsb f es then FRefused else FNext.
Proof.
  induction es as [|e r IH]; intro H; [reflexivity|]. simpl. rewrite (H e (or_introl eq_refl)).
  destruct (f e); [reflexivity|]. apply IH. intros; apply H; now right.
Qed.
End ExecP.

(* ---------- simulate_statevector_outcomes ---------- *)
Lemma skel_simulate : forall i, run_simulate sk_simulate i = api_simulate i.
Proof.
  intro i. unfold run_simulate, run, sk_simulate, api_simulate. rewrite exec_cons, exec_for.
  cbn [sim_coll String.eqb Ascii.eqb Bool.eqb].
  rewrite (for_loop_existsb _ _ _ _ _ _ _ _ _ sim_refuses).
  - destruct (existsb sim_refuses i); reflexivity.
  - intros s _. rewrite !exec_cons, !exec_if. unfold sim_refuses. cbn.
    destruct (si_cond s); cbn; [reflexivity|]. destruct (si_nonunitary s); cbn; [reflexivity|].
    destruct (si_nclbits s =? 0)%nat; reflexivity.
Qed.

Lemma existsb_map_comp {A B} (f : B -> bool) (g : A -> B) l : existsb f (map g l) = existsb (fun x => f (g x)) l.
Proof. induction l as [|x r IH]; [reflexivity|]. simpl. now rewrite IH. Qed.

(* ---------- reconstruct_expectation_values ---------- *)
Local Notation rc_eval := (ValidationSkel.eval rec_in rc_elem rc_atom rc_coll).

Lemma rc_any_phase i c (l : list nat) st :
  rc_coll c i st = Some (map RObs l) ->
  rc_eval i (GAny "obs" c (GAtom "obs.phase != 0")) st = Some (any_phase l).
Proof.
  intro Hc. rewrite eval_any, Hc.
  rewrite (any_loop_existsb _ _ _ _ _ _ _ _ (fun e => match e with RObs p => negb (p =? 0)%nat | _ => false end)).
  - rewrite existsb_map_comp. reflexivity.
  - intros x Hx. apply in_map_iff in Hx as [p [<- _]]. reflexivity.
Qed.
Lemma rc_count_loop i :
  for_loop rec_in rc_elem rc_atom rc_coll rc_call i
    [SIf (GAtom "len(current_result) != len(coefficients) * len(so.groups)") [SRaise] []]
    (map (fun p => RCount (fst p) (snd p)) (rc_counts i)) []
  = flow_of (rc_count_guard i).
Proof.
  rewrite (for_loop_existsb _ _ _ _ _ _ _ _ _ (fun e => match e with RCount n g => negb (n =? rc_ncoef i * g)%nat | _ => false end)).
  - rewrite existsb_map_comp. unfold rc_count_guard. simpl.
    destruct (existsb _ (rc_counts i)); reflexivity.
  - intros e He. apply in_map_iff in He as [p [<- _]]. rewrite exec_cons, exec_if. cbn.
    destruct (negb _); reflexivity.
Qed.
Lemma rc_sub_loop i :
  for_loop rec_in rc_elem rc_atom rc_coll rc_call i
    [SIf (GAny "obs" "subobservable" (GAtom "obs.phase != 0")) [SRaise] []]
    (map RSub (rc_phases i)) []
  = if existsb any_phase (rc_phases i) then FRefused else FNext.
Proof.
  rewrite (for_loop_existsb _ _ _ _ _ _ _ _ _ (fun e => match e with RSub l => any_phase l | _ => false end)).
  - now rewrite existsb_map_comp.
  - intros e He. apply in_map_iff in He as [l [<- _]]. rewrite exec_cons, exec_if.
    rewrite (rc_any_phase i "subobservable" l); [|reflexivity]. destruct (any_phase l); reflexivity.
Qed.
Lemma skel_reconstruct : forall i, run_reconstruct sk_reconstruct i = api_reconstruct i.
Proof.
  intro i. unfold run_reconstruct, run, sk_reconstruct, api_reconstruct.
  rewrite !exec_cons, exec_if, exec_for. cbn [ValidationSkel.eval].
  replace (rc_coll "(label, so) in subsystem_observables.items()" i [])
    with (Some (map (fun p => RCount (fst p) (snd p)) (rc_counts i))) by reflexivity.
  rewrite rc_count_loop.
  replace (rc_atom "isinstance(observables, PauliList)" i []) with (Some (is_oplist (rc_oform i))) by reflexivity.
  assert (A2 : rc_atom "isinstance(observables, Mapping)" i [] = Some (is_odict (rc_oform i))) by reflexivity.
  destruct (rc_oform i) eqn:F; cbn [is_oplist].
  - (* PauliList *)
    rewrite !exec_cons, !exec_if.
    rewrite (rc_any_phase i "observables" (hd [] (rc_phases i))); [|reflexivity].
    cbn [ValidationSkel.eval option_map].
    replace (rc_atom "isinstance(results, (SamplerResult, PrimitiveResult))" i []) with (Some (is_rresult (rc_rform i))) by reflexivity.
    destruct (is_rresult (rc_rform i)); cbn; [|reflexivity].
    destruct (any_phase (hd [] (rc_phases i))); cbn; [reflexivity|].
    destruct (rc_count_guard i) as [[]| |]; reflexivity.
  - (* dict *)
    rewrite !exec_cons, exec_if. cbn [ValidationSkel.eval].
    rewrite A2. cbn [is_odict].
    rewrite !exec_cons, !exec_if, exec_for. cbn [ValidationSkel.eval option_map].
    replace (rc_atom "isinstance(results, Mapping)" i []) with (Some (is_rdict (rc_rform i))) by reflexivity.
    replace (rc_atom "observables.keys() != results.keys()" i []) with (Some (negb (rc_keys_match i))) by reflexivity.
    replace (rc_coll "(label, subobservable) in observables.items()" i []) with (Some (map RSub (rc_phases i))) by reflexivity.
    rewrite rc_sub_loop.
    destruct (is_rdict (rc_rform i)); cbn; [|reflexivity].
    destruct (rc_keys_match i); cbn; [|reflexivity].
    destruct (existsb any_phase (rc_phases i)); cbn; [reflexivity|].
    destruct (rc_count_guard i) as [[]| |]; reflexivity.
  - (* neither *)
    rewrite !exec_cons, exec_if. cbn [ValidationSkel.eval].
    rewrite A2. reflexivity.
Qed.

(* ---------- partition_problem ---------- *)

Local Notation pp_eval := (ValidationSkel.eval pp_in pp_elem pp_atom pp_coll).

Lemma pp_any_obs i o (t : string) (f : nat * nat -> bool) :
  pp_obs i = Some o ->
  (forall p st, pp_atom t i (PObs (fst p) (snd p) :: st) = Some (f p)) ->
  pp_eval i (GAny "obs" "observables" (GAtom t)) [] = Some (existsb f o).
Proof.
  intros Ho Ht. rewrite eval_any. unfold pp_coll. cbn [String.eqb Ascii.eqb Bool.eqb]. rewrite Ho.
  rewrite (any_loop_existsb _ _ _ _ _ _ _ _ (fun e => match e with PObs a b => f (a, b) | _ => false end)).
  - rewrite existsb_map_comp. f_equal. clear. induction o as [|[a b] r IH]; [reflexivity|]. simpl. now rewrite IH.
  - intros x Hx. apply in_map_iff in Hx as [p [<- _]]. rewrite eval_atom, Ht. now destruct p.
Qed.
Lemma pp_any_idle i :
  pp_eval i (GAny "obs" "idle_observables" (GOr (GAtom "obs.x.any()") (GAtom "obs.z.any()"))) []
  = Some (idle_observable (pp_eff_labels i) (pp_support_eff i)).
Proof.
  rewrite eval_any. unfold pp_coll. cbn [String.eqb Ascii.eqb Bool.eqb].
  rewrite (any_loop_existsb _ _ _ _ _ _ _ _ (fun e => match e with PIdle b => b | _ => false end)).
  - rewrite existsb_map_comp. reflexivity.
  - intros x Hx. apply in_map_iff in Hx as [sup [<- _]]. rewrite eval_or, !eval_atom. cbn.
    destruct (existsb _ sup); reflexivity.
Qed.
Lemma skel_partition_problem : forall i, run_partition_problem sk_partition_problem i = api_partition_problem i.
Proof.
  intros i. unfold run_partition_problem, run, sk_partition_problem, api_partition_problem.
  repeat progress (rewrite ?exec_cons, ?exec_if, ?exec_call, ?eval_and, ?eval_or, ?eval_atom).
  rewrite pp_any_idle.
  unfold pp_support_eff, pp_eff_labels.
  destruct (pp_obs i) as [o|] eqn:Ho.
  - rewrite (pp_any_obs i o "len(obs) != circuit.num_qubits" (fun p => negb (fst p =? pp_nq i)%nat) Ho); [|reflexivity].
    rewrite (pp_any_obs i o "obs.phase != 0" (fun p => negb (snd p =? 0)%nat) Ho); [|reflexivity].
    unfold pp_atom, pp_call. cbn [String.eqb Ascii.eqb Bool.eqb]. rewrite Ho. unfold has_clbits.
    destruct (pp_labels i) as [l|] eqn:Hl; cbn [is_none negb].
    + destruct (negb (length l =? pp_nq i)%nat); cbn; [reflexivity|].
      destruct (existsb (fun p => negb (fst p =? pp_nq i)%nat) o); cbn; [reflexivity|].
      destruct (existsb (fun p => negb (snd p =? 0)%nat) o); cbn; [reflexivity|].
      destruct (negb (pp_ncregs i =? 0)%nat); cbn; [reflexivity|].
      destruct (negb (pp_nclbits i =? 0)%nat); cbn; [reflexivity|].
      destruct (pcq_loop l (pp_insts i)) as [[]| |]; cbn; try reflexivity.
      destruct (none_label_used l (pp_insts i)); cbn; [reflexivity|].
      destruct o as [|p r]; cbn.
      * reflexivity.
      * destruct (idle_observable l (pp_support i)); reflexivity.
    + destruct (existsb (fun p => negb (fst p =? pp_nq i)%nat) o); cbn; [reflexivity|].
      destruct (existsb (fun p => negb (snd p =? 0)%nat) o); cbn; [reflexivity|].
      destruct (negb (pp_ncregs i =? 0)%nat); cbn; [reflexivity|].
      destruct (negb (pp_nclbits i =? 0)%nat); cbn; [reflexivity|].
      destruct o as [|p r]; cbn.
      * reflexivity.
      * destruct (idle_observable _ (pp_support i)); reflexivity.
  - unfold pp_atom, pp_call. cbn [String.eqb Ascii.eqb Bool.eqb]. rewrite Ho. unfold has_clbits.
    destruct (pp_labels i) as [l|] eqn:Hl; cbn [is_none negb].
    + destruct (negb (length l =? pp_nq i)%nat); cbn; [reflexivity|].
      destruct (negb (pp_ncregs i =? 0)%nat); cbn; [reflexivity|].
      destruct (negb (pp_nclbits i =? 0)%nat); cbn; [reflexivity|].
      destruct (pcq_loop l (pp_insts i)) as [[]| |]; cbn; try reflexivity.
      destruct (none_label_used l (pp_insts i)); reflexivity.
    + destruct (negb (pp_ncregs i =? 0)%nat); cbn; [reflexivity|].
      destruct (negb (pp_nclbits i =? 0)%nat); reflexivity.
Qed.

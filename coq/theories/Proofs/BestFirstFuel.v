(* Proofs/BestFirstFuel.v — termination of the model of the cut search (C08 (4)):
   with fuel above the number of nodes of the complete 5-ary tree of depth #gates neither the greedy pass, nor any
   pass of the best-first engine, nor the driver loop runs out of fuel.  (The repaired push-back of a state over a
   bound does not endanger termination: the pass ends, and the driver stops after at most three passes.) *)
From Coq Require Import QArith Permutation Lia.
From CKT Require Import Model.CutFinder Proofs.BestFirstP.
Close Scope Q_scope.

(* number of nodes of the complete b-ary tree of depth d *)
Fixpoint tree_size (b d : nat) : nat :=
  match d with O => 1 | S d' => 1 + b * tree_size b d' end.

(* ------------------------------------------------------------------------------------ *)
(* nothing below the search loops ever produces NoFuel                                    *)
(* ------------------------------------------------------------------------------------ *)
Lemma oassert_nf b : oassert b <> NoFuel.
Proof. destruct b; discriminate. Qed.

Ltac nf_step H :=
  match type of H with
  | obind ?m _ = NoFuel => let E := fresh "E" in destruct m eqn:E; cbn [obind] in H; try discriminate H
  | (if ?c then _ else _) = NoFuel => destruct c; try discriminate H
  | match ?x with _ => _ end = NoFuel => let E := fresh "E" in destruct x eqn:E; try discriminate H
  end.

Lemma merge_roots_nf s a b : merge_roots s a b <> NoFuel.
Proof. unfold merge_roots. intros H. repeat nf_step H; eapply oassert_nf; eauto. Qed.

Lemma new_wire_nf s q : new_wire s q <> NoFuel.
Proof. unfold new_wire. intros H. repeat nf_step H; eapply oassert_nf; eauto. Qed.

Lemma assert_dnm_nf s a b : assert_donot_merge_roots s a b <> NoFuel.
Proof. unfold assert_donot_merge_roots. intros H. repeat nf_step H; eapply oassert_nf; eauto. Qed.

Lemma check_clauses_nf s cl a b : check_clauses s cl a b <> NoFuel.
Proof.
  induction cl as [|[x y] r IH]; cbn [check_clauses]; [discriminate|]. intros H.
  nf_step H; [|eapply oassert_nf; eauto]. destruct (_ || _); [discriminate|]. now apply IH.
Qed.

Lemma check_dnm_nf s a b : check_donot_merge_roots s a b <> NoFuel.
Proof.
  unfold check_donot_merge_roots. intros H. nf_step H; [|eapply oassert_nf; eauto]. eapply check_clauses_nf; eauto.
Qed.

Ltac nf_close :=
  match goal with
  | E : oassert _ = NoFuel |- _ => exact (oassert_nf _ E)
  | E : merge_roots _ _ _ = NoFuel |- _ => exact (merge_roots_nf _ _ _ E)
  | E : new_wire _ _ = NoFuel |- _ => exact (new_wire_nf _ _ E)
  | E : assert_donot_merge_roots _ _ _ = NoFuel |- _ => exact (assert_dnm_nf _ _ _ E)
  | E : check_donot_merge_roots _ _ _ = NoFuel |- _ => exact (check_dnm_nf _ _ _ E)
  | E : (if ?c then _ else _) = NoFuel |- _ => destruct c; try discriminate E; nf_close
  end.

Lemma primitive_nf k s g W : next_state_primitive k s g W <> NoFuel.
Proof.
  destruct k; cbn [next_state_primitive]; intros H.
  - unfold apply_gate in H. repeat nf_step H; try nf_close.
  - unfold cut_two_qubit_gate in H. repeat nf_step H; try nf_close.
  - unfold cut_left_wire in H. repeat nf_step H; try nf_close.
    all: destruct v; repeat nf_step H; try nf_close.
  - unfold cut_right_wire in H. repeat nf_step H; try nf_close.
    all: destruct v; repeat nf_step H; try nf_close.
  - unfold cut_both_wires in H. repeat nf_step H; try nf_close.
    all: destruct v; repeat nf_step H; try nf_close.
    all: destruct v0; repeat nf_step H; try nf_close.
Qed.

Lemma next_state_nf k s g W : next_state k s g W <> NoFuel.
Proof. unfold next_state. intros H. nf_step H. eapply primitive_nf; eauto. Qed.

Lemma next_states_over_nf acts s g W : next_states_over acts s g W <> NoFuel.
Proof.
  induction acts as [|k r IH]; cbn [next_states_over]; [discriminate|]. intros H.
  nf_step H; [|eapply next_state_nf; eauto]. nf_step H. now apply IH.
Qed.

Lemma next_states_nf fa s : next_states fa s <> NoFuel.
Proof. unfold next_states. intros H. repeat nf_step H. eapply next_states_over_nf; eauto. Qed.

(* ------------------------------------------------------------------------------------ *)
(* the greedy pass                                                                        *)
(* ------------------------------------------------------------------------------------ *)
Lemma greedy_nf fa : forall fuel s, length (fa_gates fa) <= level s + fuel -> greedy fuel fa s <> NoFuel.
Proof.
  induction fuel as [|f IH]; intros s L; cbn [greedy].
  - destruct (goal_state fa s) eqn:Gs; [discriminate|]. unfold goal_state in Gs. apply Nat.leb_gt in Gs. lia.
  - destruct (goal_state fa s) eqn:Gs; [discriminate|]. intros H.
    destruct (next_states fa s) as [l| | |] eqn:E; cbn [obind] in H; try discriminate.
    + destruct l as [|s1 r]; [discriminate|]. revert H. apply IH.
      destruct (next_states_spec _ _ _ E) as (g&_&_&Hs).
      destruct (Hs (first_min s1 r) (first_min_in r s1)) as (k&_&_&Lv). lia.
    + eapply next_states_nf; eauto.
Qed.

Lemma greedy_cut_optimization_nf nq fa : greedy_cut_optimization nq fa <> NoFuel.
Proof. unfold greedy_cut_optimization. apply greedy_nf. simpl. lia. Qed.

(* ------------------------------------------------------------------------------------ *)
(* the engine                                                                             *)
(* ------------------------------------------------------------------------------------ *)
Section Fuel.
  Variable tape : nat -> Q.
  Variable fa : fargs.
  Variable max_gamma : Q.
  Variable max_backjumps : option nat.
  Variable B : nat.                                           (* branching bound *)
  Hypothesis actions_bound : length (fa_actions fa) <= B.

  Let G := length (fa_gates fa).

  Definition weight (e : qentry) : nat := tree_size B (G - q_depth e).
  Definition measure (l : list qentry) : nat := fold_right (fun e acc => weight e + acc) 0 l.

  Lemma measure_cons e l : measure (e :: l) = weight e + measure l.
  Proof. reflexivity. Qed.

  Lemma measure_perm l l' : Permutation l l' -> measure l = measure l'.
  Proof. induction 1; simpl; lia. Qed.

  Definition FInv (b : bfs) : Prop :=
    forall e, In e (pq b) -> q_depth e = level (q_state e) /\ q_cost e = cost (q_state e).

  Lemma put_states_measure l : forall b d,
    (forall s, In s l -> level s = d) -> FInv b ->
    FInv (put_states tape b l d) /\ measure (pq (put_states tape b l d)) <= measure (pq b) + length l * tree_size B (G - d).
  Proof.
    induction l as [|s r IH]; intros b d Hl F; cbn [put_states].
    - split; auto. cbn [length]. rewrite Nat.mul_0_l. lia.
    - set (b1 := match upperbound b with
                 | Some u => if Qleb (cost s) u then incr_enq (pq_put tape b s d (cost s)) else b
                 | None => incr_enq (pq_put tape b s d (cost s)) end).
      assert (F1 : FInv b1 /\ measure (pq b1) <= measure (pq b) + tree_size B (G - d)).
      { assert (X : FInv (incr_enq (pq_put tape b s d (cost s))) /\
                    measure (pq (incr_enq (pq_put tape b s d (cost s)))) <= measure (pq b) + tree_size B (G - d)).
        { split.
          - intros e [<-|I]; [cbn; split; auto; symmetry; apply Hl; left; reflexivity|now apply F].
          - cbn [pq incr_enq pq_put]. rewrite measure_cons. unfold weight at 1. cbn [q_depth]. lia. }
        unfold b1. destruct (upperbound b); [destruct (Qleb _ _)|]; auto. split; auto. lia. }
      destruct F1 as (F1&M1).
      destruct (IH b1 d (fun x Hx => Hl x (or_intror Hx)) F1) as (F2&M2). split; auto. cbn [length]. lia.
  Qed.

  Lemma pass_fuel : forall fuel b pd, FInv b -> measure (pq b) < fuel ->
    match pass_loop tape fa max_gamma max_backjumps fuel b pd with
    | NoFuel => False
    | Val (b', r) => FInv b' /\ measure (pq b') <= measure (pq b) /\ (r <> None -> min_reached b' = true)
    | _ => True
    end.
  Proof.
    induction fuel as [|f IH]; intros b pd F M; [lia|].
    cbn [pass_loop]. destruct (negb (_ && _ && _)) eqn:C.
    - destruct (pq b) eqn:EP; (split; [exact F|split; [cbn [pq set_min_reached]; rewrite ?EP; lia|congruence]]).
    - destruct (extract_min (pq b)) as [[e rest]|] eqn:EM; [|exact I].
      destruct (extract_min_spec _ _ _ EM) as (P&_).
      assert (Ee : In e (pq b)) by (eapply Permutation_in; [exact P|left; reflexivity]).
      assert (Er : forall x, In x rest -> In x (pq b)) by (intros x Ix; eapply Permutation_in; [exact P|right; exact Ix]).
      assert (MP : measure (pq b) = weight e + measure rest) by (rewrite <- (measure_perm _ _ P); reflexivity).
      destruct (F e Ee) as (De&Ce).
      set (b0 := mkB rest (pushes b) (upperbound b) (min_reached b) (n_visited b) (n_next b) (n_enq b)
                     (n_backjumps b) (pen_stats b) (n_pushback b)).
      set (b1 := update_minimum_reached b0 (q_cost e)).
      assert (P1 : pq b1 = rest).
      { unfold b1, update_minimum_reached, b0; cbn [upperbound]. destruct (upperbound b); [destruct (Qleb _ _)|]; reflexivity. }
      destruct (cost_bounds_exceeded max_gamma b1 (q_cost e)) eqn:CB.
      + destruct (min_reached b1).
        * split; [intros x Ix; rewrite P1 in Ix; apply F; auto|split; [rewrite P1; lia|congruence]].
        * split; [|split; [|congruence]].
          -- intros x Ix. cbn [pq pq_put] in Ix. rewrite P1 in Ix. destruct Ix as [<-|Ix]; [cbn; auto|apply F; auto].
          -- cbn [pq pq_put]. rewrite P1. rewrite measure_cons. unfold weight at 1. cbn [q_depth]. fold (weight e). lia.
      + destruct (goal_state fa (q_state e)) eqn:GS.
        * (* goal *)
          set (b3 := mkB _ _ _ _ _ _ _ _ _ _).
          assert (X : exists u4, upperbound (update_upperbound b3 (q_state e)) = Some u4 /\ (u4 <= q_cost e)%Q).
          { assert (U1 : upperbound b1 = upperbound b).
            { unfold b1, update_minimum_reached, b0; cbn [upperbound]. destruct (upperbound b); [destruct (Qleb _ _)|]; reflexivity. }
            unfold update_upperbound, b3; cbn [upperbound]. rewrite U1. rewrite <- Ce.
            destruct (upperbound b) as [u|] eqn:EU.
            - destruct (Qltb (q_cost e) u) eqn:EL; eexists; (split; [reflexivity|]); [apply Qle_refl|now apply Qltb_false].
            - eexists; split; [reflexivity|apply Qle_refl]. }
          destruct X as (u4&E4&L4).
          assert (B5 : update_minimum_reached (update_upperbound b3 (q_state e)) (q_cost e)
                       = set_min_reached (update_upperbound b3 (q_state e)) true).
          { unfold update_minimum_reached. rewrite E4.
            assert (Y : Qleb u4 (q_cost e) = true) by now apply Qleb_true. now rewrite Y. }
          rewrite B5. set (Fn := set_min_reached _ true).
          assert (PF : pq Fn = rest) by exact P1.
          split; [intros x Ix; rewrite PF in Ix; apply F; auto|split; [rewrite PF; lia|reflexivity]].
        * (* expansion *)
          destruct (next_states fa (q_state e)) as [l| | |] eqn:EN; cbn [obind]; try exact I.
          2:{ eapply next_states_nf; eauto. }
          set (b2 := mkB _ _ _ _ _ _ _ _ _ _).
          destruct (next_states_spec _ _ _ EN) as (g&Eg&Ll&Hs).
          assert (Lv : level (q_state e) < G).
          { unfold goal_state in GS. apply Nat.leb_gt in GS. exact GS. }
          assert (F2 : FInv b2) by (intros x Ix; cbn [b2 pq] in Ix; rewrite P1 in Ix; apply F; auto).
          destruct (put_states_measure l (mkB (pq b2) (pushes b2) (upperbound b2) (min_reached b2) (n_visited b2)
                        (n_next b2 + length l) (n_enq b2) (n_backjumps b2) (pen_stats b2) (n_pushback b2)) (S (q_depth e)))
            as (F3&M3).
          { intros s Is. destruct (Hs s Is) as (_&_&_&Ls). lia. }
          { exact F2. }
          change (put_states tape _ l (S (q_depth e))) with (bfs_put tape b2 l (S (q_depth e))) in F3, M3.
          cbn [pq b2] in M3. rewrite P1 in M3.
          assert (W : weight e = 1 + B * tree_size B (G - S (q_depth e))).
          { unfold weight. rewrite De. replace (G - level (q_state e)) with (S (G - S (level (q_state e)))) by lia. reflexivity. }
          assert (NL : length l * tree_size B (G - S (q_depth e)) <= B * tree_size B (G - S (q_depth e)))
            by (apply Nat.mul_le_mono_r; lia).
          assert (M4 : measure (pq (bfs_put tape b2 l (S (q_depth e)))) < f) by lia.
          specialize (IH (bfs_put tape b2 l (S (q_depth e))) (Some (q_depth e)) F3 M4).
          destruct (pass_loop tape fa max_gamma max_backjumps f _ _) as [[b' r]| | |]; auto.
          destruct IH as (F'&M'&R'). split; auto. split; auto. lia.
  Qed.

  (* ---- CutOptimization.optimization_pass and the driver ---- *)
  Definition CInv (co : cutopt) : Prop := FInv (co_engine co).

  Lemma cutopt_pass_fuel fuel co : CInv co -> measure (pq (co_engine co)) < fuel ->
    match cutopt_pass tape fa max_gamma max_backjumps fuel co with
    | NoFuel => False
    | Val (co', r) => CInv co' /\ measure (pq (co_engine co')) <= measure (pq (co_engine co)) /\ co_returned co' = true /\
                      (r <> None -> co_returned co = true -> min_reached (co_engine co') = true)
    | _ => True
    end.
  Proof.
    intros C M. unfold cutopt_pass, engine_pass.
    pose proof (pass_fuel fuel (co_engine co) None C M) as H.
    destruct (pass_loop _ _ _ _ _ _ _) as [[b r]| | |]; cbn [obind]; auto.
    destruct H as (F'&M'&R'). cbn beta iota. destruct r as [sc|].
    - cbn [co_engine co_returned]. split; [exact F'|split; [exact M'|split; [reflexivity|]]].
      intros _ _. apply R'. discriminate.
    - destruct (co_returned co) eqn:RT.
      + cbn [co_engine co_returned]. split; [exact F'|split; [exact M'|split; [reflexivity|congruence]]].
      + destruct (co_greedy co); [|exact I]. cbn [co_engine co_returned].
        split; [exact F'|split; [exact M'|split; [reflexivity|discriminate]]].
  Qed.

  (* a pass on an engine whose flag is set returns nothing, whatever the fuel *)
  Lemma pass_done fuel b pd : min_reached b = true ->
    pass_loop tape fa max_gamma max_backjumps fuel b pd = Val (match pq b with [] => set_min_reached b true | _ => b end, None).
  Proof.
    intros M. destruct fuel; cbn [pass_loop]; rewrite M; cbn [negb andb]; rewrite Bool.andb_false_r; reflexivity.
  Qed.

  Lemma driver_done p fuel co acc : min_reached (co_engine co) = true -> co_returned co = true ->
    driver_loop tape fa max_gamma max_backjumps (S p) fuel co acc <> NoFuel.
  Proof.
    intros M R. cbn [driver_loop]. unfold cutopt_pass, engine_pass. rewrite (pass_done _ _ _ M). cbn [obind].
    rewrite R. cbn. discriminate.
  Qed.

  Lemma driver_returned p fuel co acc : CInv co -> measure (pq (co_engine co)) < fuel -> co_returned co = true ->
    driver_loop tape fa max_gamma max_backjumps (S (S p)) fuel co acc <> NoFuel.
  Proof.
    intros C M R. cbn [driver_loop]. pose proof (cutopt_pass_fuel fuel co C M) as H.
    destruct (cutopt_pass _ _ _ _ _ _) as [[co' r]| | |]; cbn [obind]; try discriminate; [|contradiction].
    destruct H as (C'&M'&R'&D'). destruct r as [[s c]|]; [|discriminate].
    apply driver_done; auto. apply D'; auto. discriminate.
  Qed.

  Lemma driver_fuel p fuel co acc : CInv co -> measure (pq (co_engine co)) < fuel ->
    driver_loop tape fa max_gamma max_backjumps (S (S (S p))) fuel co acc <> NoFuel.
  Proof.
    intros C M. cbn [driver_loop]. pose proof (cutopt_pass_fuel fuel co C M) as H.
    destruct (cutopt_pass _ _ _ _ _ _) as [[co' r]| | |]; cbn [obind]; try discriminate; [|contradiction].
    destruct H as (C'&M'&R'&D'). destruct r as [[s c]|]; [|discriminate].
    apply driver_returned; auto. lia.
  Qed.
End Fuel.

Lemma optimize_fuel tape fa mg mb nq fuel : length (fa_actions fa) <= 5 ->
  tree_size 5 (length (fa_gates fa)) + 3 <= fuel -> optimize tape fa mg mb nq fuel <> NoFuel.
Proof.
  intros A L. unfold optimize.
  destruct (cutopt_init tape fa mg nq) as [co| | |] eqn:E; cbn [obind]; try discriminate.
  - assert (X : CInv co /\ measure fa 5 (pq (co_engine co)) = tree_size 5 (length (fa_gates fa))).
    { unfold cutopt_init in E. destruct (greedy_cut_optimization nq fa) as [gr| | |]; cbn [obind] in E; try discriminate.
      destruct gr; inversion E; subst co; cbn [co_engine]; (split; [intros e [<-|[]]; cbn; auto|]);
        cbn; unfold weight; cbn; rewrite Nat.sub_0_r; lia. }
    destruct X as (C&M). destruct fuel as [|[|fuel]]; try lia.
    intros H. destruct (driver_loop _ _ _ _ _ _ _ _) as [[co' goals]| | |] eqn:ED; cbn [obind] in H; try discriminate.
    + destruct goals; discriminate.
    + revert ED. apply (driver_fuel tape fa mg mb 5 A fuel (S (S fuel)) co []); auto. lia.
  - exfalso. unfold cutopt_init in E.
    destruct (greedy_cut_optimization nq fa) eqn:EG; cbn [obind] in E; try discriminate.
    eapply greedy_cut_optimization_nf; eauto.
Qed.

(* ------------------------------------------------------------------------------------ *)
(* export_cuts, cut_gates, the wire-cut insertion: no fuel involved                        *)
(* ------------------------------------------------------------------------------------ *)
Lemma rename1_nf size src dst q : rename1 size src dst q <> NoFuel.
Proof. unfold rename1. destruct (Nat.ltb q size); discriminate. Qed.

Lemma rename_list_nf size src dst qs : rename_list size src dst qs <> NoFuel.
Proof.
  induction qs as [|q r IH]; cbn [rename_list]; [discriminate|]. intros H.
  nf_step H; [|eapply rename1_nf; eauto]. nf_step H. now apply IH.
Qed.

Lemma replace_wire_ids_nf size src dst l : replace_wire_ids size src dst l <> NoFuel.
Proof.
  induction l as [|e r IH]; cbn [replace_wire_ids]; [discriminate|]. intros H.
  nf_step H.
  - nf_step H. now apply IH.
  - destruct e; try discriminate.
    + nf_step E. eapply rename_list_nf; eauto.
    + nf_step E; [nf_step E|]; eapply rename1_nf; eauto.
Qed.

Lemma define_id_nf names id nm : define_id names id nm <> NoFuel.
Proof. unfold define_id. intros H. repeat nf_step H; eapply oassert_nf; eauto. Qed.

Lemma insert_gate_cut_nf f g : insert_gate_cut f g <> NoFuel.
Proof. unfold insert_gate_cut. intros H. repeat nf_step H. Qed.

Lemma insert_wire_cut_nf f g i a b : insert_wire_cut f g i a b <> NoFuel.
Proof.
  unfold insert_wire_cut. intros H.
  destruct (nth_error (if_map f) g); [|discriminate].
  destruct (nth_error (if_new f) n) as [[| |]|]; try discriminate.
  destruct (nth_error qs (i - 1)); [|discriminate].
  nf_step H; [|eapply oassert_nf; eauto].
  nf_step H.
  - nf_step H; [|eapply oassert_nf; eauto].
    nf_step H; [|eapply replace_wire_ids_nf; eauto].
    repeat nf_step H.
  - repeat nf_step E0. eapply define_id_nf; eauto.
Qed.

Lemma insert_all_nf : forall args f nw g, insert_all_lo_wire_cuts f nw g args <> NoFuel.
Proof.
  induction args as [|a r IH]; intros f nw g; cbn [insert_all_lo_wire_cuts]; [discriminate|].
  destruct a as [|x [|y [|z [|]]]]; try discriminate.
  destruct (_ && _); [|discriminate]. intros H. nf_step H; [now apply IH in H|eapply insert_wire_cut_nf; eauto].
Qed.

Lemma export_actions_nf : forall l f nw, export_actions f nw l <> NoFuel.
Proof.
  induction l as [|a r IH]; intros f nw; cbn [export_actions]; [discriminate|]. intros H.
  nf_step H; [now apply IH in H|]. unfold export_action in E.
  destruct (a_name a); [eapply insert_gate_cut_nf|eapply insert_all_nf|eapply insert_all_nf|eapply insert_all_nf]; eauto.
Qed.

Lemma export_cuts_nf s f : export_cuts s f <> NoFuel.
Proof. unfold export_cuts. intros H. nf_step H. eapply export_actions_nf; eauto. Qed.

Lemma cut_gates_nf t : forall ids c, cut_gates t c ids <> NoFuel.
Proof.
  induction ids as [|i r IH]; intros c; cbn [cut_gates]; [discriminate|].
  destruct (nth_error c i); [|discriminate]. intros H. nf_step H; [now apply IH in H|].
  unfold wrap_instr in E. repeat nf_step E.
Qed.

Lemma orig_qubit_nf c a b : orig_qubit c a b <> NoFuel.
Proof. unfold orig_qubit. intros H. repeat nf_step H. Qed.

Lemma insert_wire_cuts_nf orig : forall l c k, insert_wire_cuts orig c k l <> NoFuel.
Proof.
  induction l as [|a r IH]; intros c k; cbn [insert_wire_cuts]; [discriminate|]. intros H.
  nf_step H; [|eapply orig_qubit_nf; eauto].
  destruct (aname_beq _ _).
  - nf_step H; [|eapply oassert_nf; eauto]. nf_step H; [now apply IH in H|eapply orig_qubit_nf; eauto].
  - now apply IH in H.
Qed.

Lemma enough_fuel fuel i : tree_size 5 (length (fa_gates (fa_of i))) + 3 <= fuel -> find_cuts_full fuel i <> NoFuel.
Proof.
  intros L. unfold find_cuts_full.
  destruct (Nat.ltb (fi_W i) 1); [discriminate|].
  destruct (negb (settings_ok i)); [discriminate|].
  intros H. nf_step H.
  - destruct (or_best v); [|discriminate].
    nf_step H; [|eapply export_cuts_nf; eauto].
    nf_step H.
    + nf_step H. eapply insert_wire_cuts_nf; eauto.
    + destruct (negb _); [discriminate|]. eapply cut_gates_nf; eauto.
  - revert E. apply (optimize_fuel (fi_tape i) (fa_of i)); [apply search_actions_length|exact L].
Qed.

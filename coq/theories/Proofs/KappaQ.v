(* Proofs/KappaQ.v — gamma (= kappa) >= 1 for every registered basis, over Q only: the proofs use no
   lemma about real numbers, so the theorems are closed under the global context (no axioms). *)
From Coq Require Import String QArith Qabs Lqa.
From CKT Require Import Common.Base Extracted.Facts Model.Kappa.
Close Scope Q_scope.
Local Open Scope string_scope.

Lemma qmul_eqQ a b : (qmul a b == a * b)%Q.
Proof. apply Qred_correct. Qed.
Lemma qadd_eqQ a b : (qadd a b == a + b)%Q.
Proof. apply Qred_correct. Qed.

Lemma kappaQ_sumQ (l : list Q) : (kappaQ l == sumQ (map Qabs l))%Q.
Proof. induction l as [|x l IH]; simpl; [reflexivity|]. now rewrite qadd_eqQ, IH. Qed.

Lemma rot_exprs_eqQ :
  rot_exprs = [CSq CCos; CSq CSin; CNeg (CMul CCos CSin); CMul CCos CSin;
               CNeg (CMul CCos CSin); CMul CCos CSin].
Proof. vm_compute. reflexivity. Qed.

(* the rotation list at any rational point of the unit circle *)
Lemma rot_kappaQ c s : (c * c + s * s == 1)%Q ->
  (kappaQ (map (evalQ (env_rotQ c s)) rot_exprs) == 1 + 4 * Qabs (c * s))%Q.
Proof.
  intros H. rewrite kappaQ_sumQ, rot_exprs_eqQ.
  cbn [map evalQ eval env_rotQ e_cos e_sin sumQ fold_right].
  rewrite !qmul_eqQ, !Qabs_opp.
  assert (Hc : (Qabs (c * c) == c * c)%Q) by (apply Qabs_pos; nra).
  assert (Hs : (Qabs (s * s) == s * s)%Q) by (apply Qabs_pos; nra).
  rewrite Hc, Hs. generalize (Qabs (c * s)). intros t. lra.
Qed.

Lemma rot_kappaQ_ge1 c s : (c * c + s * s == 1)%Q ->
  (1 <= kappaQ (map (evalQ (env_rotQ c s)) rot_exprs))%Q.
Proof. intros H. rewrite (rot_kappaQ c s H). pose proof (Qabs_nonneg (c * s)). lra. Qed.

Ltac famQ name :=
  let f := eval vm_compute in (family_of_name name) in
  assert (family_of_name name = f) by (vm_compute; reflexivity).

Lemma gamma_table_ge1 name c s :
  In name registry_names -> fixed_angle name = false -> (c * c + s * s == 1)%Q ->
  exists l, coeffsQ name c s = Some l /\ (1 <= kappaQ l)%Q.
Proof.
  unfold registry_names. intros H Hf Hcs.
  repeat (destruct H as [<-|H]); try contradiction.
  all: try (vm_compute in Hf; discriminate).
  all: match goal with |- context [coeffsQ ?n _ _] => famQ n end.
  all: unfold coeffsQ;
       match goal with F : family_of_name _ = _ |- _ => rewrite F end.
  all: match goal with
       | F : family_of_name _ = FRot _ _ |- _ =>
         eexists; split; [reflexivity|]; apply rot_kappaQ_ge1; exact Hcs
       | _ => eexists; split; [vm_compute; reflexivity|]; vm_compute; discriminate
       end.
Qed.

Lemma fixed_angle_names : filter fixed_angle registry_names = ["cs"; "csdg"; "csx"; "csxdg"].
Proof. vm_compute. reflexivity. Qed.

(* the constant entries of the table, exactly *)
Lemma gamma_table_consts :
  (forall name, In name ["cx"; "cy"; "cz"; "ch"; "ecr"] ->
     exists l, coeffsQ name 0 0 = Some l /\ (kappaQ l == 3)%Q) /\
  (forall name, In name ["swap"; "iswap"; "dcx"] ->
     exists l, coeffsQ name 0 0 = Some l /\ (kappaQ l == 7)%Q) /\
  (exists l, coeffsQ "move" 0 0 = Some l /\ (kappaQ l == 4)%Q).
Proof.
  repeat split.
  - intros name H. repeat (destruct H as [<-|H]); try contradiction;
      (eexists; split; [vm_compute; reflexivity|vm_compute; reflexivity]).
  - intros name H. repeat (destruct H as [<-|H]); try contradiction;
      (eexists; split; [vm_compute; reflexivity|vm_compute; reflexivity]).
  - eexists; split; [vm_compute; reflexivity|vm_compute; reflexivity].
Qed.

(* Proofs/BestFirstSpec4b.v — chunk 1 of 6 of the complete enumeration behind c08_pruning_sound_bounded:
   the circuits with exactly 4 two-qubit gates (see Proofs/BestFirstSpec.v, c08_chunks4). *)
From Coq Require Import QArith.
From CKT Require Import Model.CutFinder Proofs.BestFirstP Proofs.BestFirstSpec.
Close Scope Q_scope.

Lemma c08_chunk4_1_checked : forall lab, list_check lab 4 (nth 1 c08_chunks4 []) = true.
Proof. intros lab. vm_compute. reflexivity. Qed.

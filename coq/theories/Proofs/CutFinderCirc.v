(* Proofs/CutFinderCirc.v — from the circuit to the cut finder's gate list: first-use renumbering is injective,
   gate specs sit at the positions of the multi-qubit gates, in order, with the renumbered qubits. *)
From Coq Require Import QArith Lia.
From CKT Require Import Model.CutFinder Proofs.CutFinderSpec Proofs.CutFinderOut Proofs.CutFinderInv.
Close Scope Q_scope.

Definition nm (names : list nat) (x : nat) : nat := nth x names 0.

Lemma NoDup_snoc {A} (l : list A) x : NoDup l -> ~ In x l -> NoDup (l ++ [x]).
Proof.
  induction l as [|y r IH]; intros ND NI; simpl.
  - constructor; [intros []|constructor].
  - inversion ND; subst. constructor.
    + intros H. apply in_app_or in H as [H|[H|[]]]; [contradiction|]. subst. apply NI. now left.
    + apply IH; auto. intros H. apply NI. now right.
Qed.

(* get_id *)
Lemma get_id_spec names x names' i :
  get_id names x = (names', i) -> NoDup names ->
  exists ext, names' = names ++ ext /\ NoDup names' /\ i < length names' /\ nth i names' 0 = x.
Proof.
  unfold get_id. destruct (index_of x names) as [j|] eqn:E; intros H ND; inversion H; subst.
  - exists []. rewrite app_nil_r. destruct (index_of_Some _ _ _ E). auto.
  - exists [x]. split; [reflexivity|]. split; [|split].
    + apply NoDup_snoc; auto. now apply index_of_None.
    + rewrite app_length; simpl; lia.
    + rewrite app_nth2 by lia. now rewrite Nat.sub_diag.
Qed.

Lemma nth_app_stable (l ext : list nat) i : i < length l -> nth i (l ++ ext) 0 = nth i l 0.
Proof. intros H. now apply app_nth1. Qed.

Lemma get_ids_spec names xs names' ids :
  get_ids names xs = (names', ids) -> NoDup names ->
  exists ext, names' = names ++ ext /\ NoDup names' /\
    length ids = length xs /\ (forall i, In i ids -> i < length names') /\ map (nm names') ids = xs.
Proof.
  revert names names' ids; induction xs as [|x r IH]; intros names names' ids H ND; simpl in H.
  - inversion H; subst. exists []. rewrite app_nil_r. repeat split; auto. intros i [].
  - destruct (get_id names x) as [n1 i] eqn:E1. destruct (get_ids n1 r) as [n2 is] eqn:E2.
    inversion H; subst.
    destruct (get_id_spec _ _ _ _ E1 ND) as (e1 & -> & ND1 & Hi & Hx).
    destruct (IH _ _ _ E2 ND1) as (e2 & -> & ND2 & Hl & Hlt & Hm).
    exists (e1 ++ e2). rewrite app_assoc. repeat split; auto.
    + simpl; lia.
    + intros j [<-|Hj]; [rewrite app_length; lia|auto].
    + simpl. f_equal; [|exact Hm]. unfold nm. rewrite nth_app_stable by exact Hi. exact Hx.
Qed.

(* sgl_init together with get_multiqubit_gates *)
Lemma sgl_gates_spec :
  forall (c : list cco) names names' c' k,
    sgl_init names c = (names', c') -> NoDup names ->
    exists ext, names' = names ++ ext /\ NoDup names' /\ length c' = length c /\
      incr_from k (map g_inst (multiqubit_from k c')) /\
      (forall g, In g (multiqubit_from k c') ->
         exists nmq qs gam, nth_error c (g_inst g - k) = Some (CEl nmq qs gam) /\ k <= g_inst g /\
           negb (Nat.eqb nmq barrier_name) = true /\ 1 < length qs /\
           qs = map (nm names') (g_qubits g) /\ g_gamma g = gam /\
           (forall x, In x (g_qubits g) -> x < length names')) /\
      (forall j nmq qs gam, nth_error c j = Some (CEl nmq qs gam) ->
         negb (Nat.eqb nmq barrier_name) = true -> 1 < length qs ->
         exists g, In g (multiqubit_from k c') /\ g_inst g = k + j).
Proof.
  induction c as [|e r IH]; intros names names' c' k H ND; simpl in H.
  - inversion H; subst. exists []. rewrite app_nil_r. simpl. repeat split; auto.
    + intros g [].
    + intros j ? ? ? Hj. destruct j; discriminate.
  - destruct e as [|nmq qs gam].
    + destruct (sgl_init names r) as [n c1] eqn:E. inversion H; subst.
      destruct (IH _ _ _ (S k) E ND) as (ext & -> & ND' & Hl & Hinc & Hg & Hall).
      exists ext. simpl. repeat split; auto.
      * eapply incr_from_weaken; [|exact Hinc]. lia.
      * intros g Hin. destruct (Hg g Hin) as (a & b & d & H1 & H2 & H3).
        exists a, b, d. replace (g_inst g - k) with (S (g_inst g - S k)) by lia. simpl. repeat split; try tauto; lia.
      * intros j a b d Hj Hb Hq. destruct j as [|j]; [discriminate|]. simpl in Hj.
        destruct (Hall j a b d Hj Hb Hq) as (g & Hin & Hi). exists g; split; [exact Hin|lia].
    + destruct (get_ids names qs) as [n1 ids] eqn:E1. destruct (sgl_init n1 r) as [n2 c1] eqn:E2.
      inversion H; subst.
      destruct (get_ids_spec _ _ _ _ E1 ND) as (e1 & -> & ND1 & Hlen & Hlt & Hm).
      destruct (IH _ _ _ (S k) E2 ND1) as (e2 & -> & ND2 & Hl & Hinc & Hg & Hall).
      exists (e1 ++ e2). rewrite app_assoc. split; [reflexivity|]. split; [exact ND2|]. split; [simpl; lia|].
      assert (Hm' : map (nm ((names ++ e1) ++ e2)) ids = qs).
      { rewrite <- Hm. apply map_ext_in. intros i Hi. unfold nm. apply nth_app_stable. now apply Hlt. }
      assert (Hlt' : forall x, In x ids -> x < length ((names ++ e1) ++ e2)).
      { intros x Hx. rewrite app_length. specialize (Hlt x Hx). lia. }
      cbn [multiqubit_from]. rewrite Hlen.
      destruct (Nat.ltb 1 (length qs) && negb (Nat.eqb nmq barrier_name)) eqn:Emulti.
      * apply andb_prop in Emulti as [Em1 Em2]. apply Nat.ltb_lt in Em1.
        split; [simpl; split; [lia|exact Hinc]|]. split.
        -- intros g [<-|Hin].
           ++ exists nmq, qs, gam. cbn. rewrite Nat.sub_diag. simpl. repeat split; auto.
           ++ destruct (Hg g Hin) as (a & b & d & H1 & H2 & H3).
              exists a, b, d. replace (g_inst g - k) with (S (g_inst g - S k)) by lia. simpl. repeat split; try tauto; lia.
        -- intros j a b d Hj Hb Hq. destruct j as [|j].
           ++ simpl in Hj. inversion Hj; subst. eexists; split; [left; reflexivity|]. cbn. lia.
           ++ simpl in Hj. destruct (Hall j a b d Hj Hb Hq) as (g & Hin & Hi). exists g; split; [right; exact Hin|lia].
      * split; [eapply incr_from_weaken; [|exact Hinc]; lia|]. split.
        -- intros g Hin. destruct (Hg g Hin) as (a & b & d & H1 & H2 & H3).
           exists a, b, d. replace (g_inst g - k) with (S (g_inst g - S k)) by lia. simpl. repeat split; try tauto; lia.
        -- intros j a b d Hj Hb Hq. destruct j as [|j].
           ++ simpl in Hj. inversion Hj; subst. apply Nat.ltb_lt in Hq. rewrite Hq, Hb in Emulti. discriminate.
           ++ simpl in Hj. destruct (Hall j a b d Hj Hb Hq) as (g & Hin & Hi). exists g; split; [exact Hin|lia].
Qed.

(* ---------------- the circuit level ---------------- *)
Definition names_of (nq : nat) (t : gtab) (c : circ) : list nat := fst (sgl_init [] (qc_to_cco nq t c)).
Definition gates_of (nq : nat) (t : gtab) (c : circ) : list gate_spec :=
  get_multiqubit_gates (snd (sgl_init [] (qc_to_cco nq t c))).

(* every multi-qubit gate acts on exactly two distinct qubits *)
Definition circ_wf (c : circ) : Prop :=
  forall i, In i c -> is_multi i = true -> length (iqs i) = 2 /\ NoDup (iqs i).

Lemma op_name_barrier o : Nat.eqb (op_name o) barrier_name = match o with Barrier _ => true | _ => false end.
Proof. destruct o; reflexivity. Qed.

Lemma cco_of_instr_el nq t i nmq qs gam :
  cco_of_instr nq t i = CEl nmq qs gam ->
  qs = iqs i /\ gam = op_gamma t i /\ negb (Nat.eqb nmq barrier_name) = negb (is_barrier i).
Proof.
  unfold cco_of_instr. destruct (is_barrier i && Nat.eqb (length (iqs i)) nq); [discriminate|].
  intros H; inversion H; subst. repeat split. rewrite op_name_barrier. unfold is_barrier. reflexivity.
Qed.

Lemma iface_init_fields nq t c :
  if_circuit (iface_init (qc_to_cco nq t c)) = snd (sgl_init [] (qc_to_cco nq t c)) /\
  if_num_qubits (iface_init (qc_to_cco nq t c)) = length (names_of nq t c).
Proof.
  unfold iface_init, names_of. destruct (sgl_init [] (qc_to_cco nq t c)) as [n c']. split; reflexivity.
Qed.

Theorem gates_of_circ nq t c :
  let names := names_of nq t c in let gates := gates_of nq t c in
  NoDup names /\ incr_from 0 (map g_inst gates) /\
  (forall g, In g gates -> exists i, nth_error c (g_inst g) = Some i /\ is_multi i = true /\
      iqs i = map (nm names) (g_qubits g) /\ g_gamma g = op_gamma t i /\
      (forall x, In x (g_qubits g) -> x < length names)) /\
  (forall k i, nth_error c k = Some i -> is_multi i = true -> exists g, In g gates /\ g_inst g = k).
Proof.
  intros names gates. unfold names, gates, names_of, gates_of, get_multiqubit_gates.
  destruct (sgl_init [] (qc_to_cco nq t c)) as [n c'] eqn:E. cbn [fst snd].
  destruct (sgl_gates_spec _ _ _ _ 0 E (NoDup_nil _)) as (ext & En & ND & Hl & Hinc & Hg & Hall).
  split; [exact ND|]. split; [exact Hinc|]. split.
  - intros g Hin. destruct (Hg g Hin) as (nmq & qs & gam & H1 & _ & H3 & H4 & H5 & H6 & H7).
    rewrite Nat.sub_0_r in H1. unfold qc_to_cco in H1. rewrite nth_error_map in H1.
    destruct (nth_error c (g_inst g)) as [i|] eqn:Ei; [|discriminate]. simpl in H1. inversion H1 as [H1'].
    destruct (cco_of_instr_el _ _ _ _ _ _ H1') as (Eq & Egam & Eb).
    exists i. split; [reflexivity|]. split.
    + unfold is_multi. rewrite <- Eb, H3. simpl. apply Nat.ltb_lt. now rewrite <- Eq.
    + split; [now rewrite <- Eq|]. split; [now rewrite H6|exact H7].
  - intros k i Hk Hm. unfold is_multi in Hm. apply andb_prop in Hm as [Hb Hq]. apply Nat.ltb_lt in Hq.
    assert (Hc : nth_error (qc_to_cco nq t c) k = Some (CEl (op_name (iop i)) (iqs i) (op_gamma t i))).
    { unfold qc_to_cco. rewrite nth_error_map, Hk. simpl. unfold cco_of_instr.
      apply negb_true_iff in Hb. now rewrite Hb. }
    destruct (Hall k _ _ _ Hc) as (g & Hin & Hi); auto.
    + rewrite op_name_barrier. unfold is_barrier in Hb. destruct (iop i); auto.
    + exists g; split; auto.
Qed.

Lemma gates_wf nq t c : circ_wf c ->
  forall g, In g (gates_of nq t c) -> gate_wf (names_of nq t c) g.
Proof.
  intros WFc g Hin.
  destruct (gates_of_circ nq t c) as (ND & _ & Hg & _).
  destruct (Hg g Hin) as (i & Hi & Hm & Hq & _ & Hlt).
  destruct (WFc i (nth_error_In _ _ Hi) Hm) as [L2 NDq].
  rewrite Hq, map_length in L2.
  destruct (g_qubits g) as [|a [|b [|? ?]]] eqn:Eg; simpl in L2; try lia.
  unfold gate_wf, q1_of, q2_of. rewrite Eg. simpl.
  repeat split; auto.
  - intros ->. rewrite Hq in NDq. simpl in NDq. inversion NDq as [|? ? Hn _]. apply Hn. now left.
  - apply Hlt. now left.
  - apply Hlt. right; now left.
Qed.

(* Proofs/UFP.v — lemmas about Common/UF.v: find returns a root, effect of union_roots on find and on
   class sizes, path compression is observationally irrelevant. *)
From CKT Require Import Common.Base Common.UF.

Lemma parent_le u w : uf_wf u -> parent u w <= w.
Proof.
  intros WF. unfold parent. destruct (Nat.lt_ge_cases w (length u)) as [H|H].
  - now apply WF.
  - rewrite nth_overflow by lia. lia.
Qed.

Lemma parent_overflow u w : length u <= w -> parent u w = w.
Proof. intros H; unfold parent; now rewrite nth_overflow by lia. Qed.

Lemma find_fuel_root u fuel w : uf_wf u -> w <= fuel ->
  parent u (find_fuel u fuel w) = find_fuel u fuel w.
Proof.
  intros WF; revert w; induction fuel as [|f IH]; intros w Hw; simpl.
  - assert (w = 0) by lia; subst. pose proof (parent_le u 0 WF); lia.
  - destruct (Nat.eqb_spec (parent u w) w) as [E|N]; [exact E|].
    apply IH. pose proof (parent_le u w WF); lia.
Qed.

Lemma find_fuel_le u fuel w : uf_wf u -> find_fuel u fuel w <= w.
Proof.
  intros WF; revert w; induction fuel as [|f IH]; intros w; simpl; [lia|].
  destruct (Nat.eqb_spec (parent u w) w) as [E|N]; [lia|].
  pose proof (parent_le u w WF). specialize (IH (parent u w)). lia.
Qed.

Lemma find_fuel_indep u f1 f2 w : uf_wf u -> w <= f1 -> w <= f2 -> find_fuel u f1 w = find_fuel u f2 w.
Proof.
  intros WF; revert f2 w; induction f1 as [|f1 IH]; intros f2 w H1 H2.
  - assert (w = 0) by lia; subst. destruct f2; simpl; [reflexivity|].
    pose proof (parent_le u 0 WF). assert (E : parent u 0 = 0) by lia. now rewrite E.
  - destruct f2 as [|f2].
    + assert (w = 0) by lia; subst. simpl.
      pose proof (parent_le u 0 WF). assert (E : parent u 0 = 0) by lia. now rewrite E.
    + simpl. destruct (Nat.eqb_spec (parent u w) w) as [E|N]; [reflexivity|].
      pose proof (parent_le u w WF). apply IH; lia.
Qed.

Lemma find_step u w : uf_wf u ->
  find u w = if Nat.eqb (parent u w) w then w else find u (parent u w).
Proof.
  intros WF. unfold find. destruct w as [|n].
  - simpl. pose proof (parent_le u 0 WF). assert (E : parent u 0 = 0) by lia. now rewrite E.
  - simpl. destruct (Nat.eqb_spec (parent u (S n)) (S n)) as [E|N]; [reflexivity|].
    pose proof (parent_le u (S n) WF). apply find_fuel_indep; auto; lia.
Qed.

Lemma find_is_root u w : uf_wf u -> parent u (find u w) = find u w.
Proof. intros WF; unfold find; apply find_fuel_root; auto. Qed.

Lemma find_le u w : uf_wf u -> find u w <= w.
Proof. intros WF; unfold find; now apply find_fuel_le. Qed.

Lemma find_root_id u r : uf_wf u -> parent u r = r -> find u r = r.
Proof. intros WF E. rewrite find_step by auto. now rewrite E, Nat.eqb_refl. Qed.

Lemma find_idem u w : uf_wf u -> find u (find u w) = find u w.
Proof. intros WF. apply find_root_id; auto. now apply find_is_root. Qed.

Lemma find_parent u w : uf_wf u -> find u (parent u w) = find u w.
Proof.
  intros WF. rewrite (find_step u w WF).
  destruct (Nat.eqb_spec (parent u w) w) as [E|N]; [|reflexivity].
  rewrite E. now apply find_root_id.
Qed.

Lemma find_overflow u w : uf_wf u -> length u <= w -> find u w = w.
Proof. intros WF H. apply find_root_id; auto. now apply parent_overflow. Qed.

Lemma is_root_spec u w : is_root u w = true <-> parent u w = w.
Proof. unfold is_root. apply Nat.eqb_eq. Qed.

(* ---------------- initial forest ---------------- *)
Lemma parent_init n w : parent (uf_init n) w = w.
Proof.
  unfold parent, uf_init. destruct (Nat.lt_ge_cases w n) as [H|H].
  - rewrite seq_nth by lia. lia.
  - rewrite nth_overflow; [reflexivity|rewrite seq_length; lia].
Qed.

Lemma uf_wf_init n : uf_wf (uf_init n).
Proof. intros w H. fold (parent (uf_init n) w). rewrite parent_init. lia. Qed.

Lemma find_init n w : find (uf_init n) w = w.
Proof. apply find_root_id; [apply uf_wf_init|apply parent_init]. Qed.

(* ---------------- upd on the forest ---------------- *)
Lemma parent_upd u i v w : i < length u -> parent (upd u i v) w = if Nat.eqb w i then v else parent u w.
Proof.
  intros Hi. unfold parent. destruct (Nat.eqb_spec w i) as [->|N].
  - now apply nth_upd_same.
  - now apply nth_upd_other; auto.
Qed.

Lemma uf_wf_upd u i v : uf_wf u -> i < length u -> v <= i -> uf_wf (upd u i v).
Proof.
  intros WF Hi Hv w Hw. rewrite upd_length in Hw.
  fold (parent (upd u i v) w). rewrite parent_upd by auto.
  destruct (Nat.eqb_spec w i) as [->|N]; [lia|]. now apply WF.
Qed.

(* ---------------- union ---------------- *)
Section Union.
  Variable u : uf.
  Variables mn mx : nat.
  Hypothesis WF : uf_wf u.
  Hypothesis Hlt : mn < mx.
  Hypothesis Hmx : mx < length u.
  Hypothesis Rmn : parent u mn = mn.
  Hypothesis Rmx : parent u mx = mx.

  Let u' := upd u mx mn.

  Lemma union_wf : uf_wf u'.
  Proof. apply uf_wf_upd; auto; lia. Qed.

  Lemma union_parent x : parent u' x = if Nat.eqb x mx then mn else parent u x.
  Proof. unfold u'. now apply parent_upd. Qed.

  Lemma union_find w : find u' w = if Nat.eqb (find u w) mx then mn else find u w.
  Proof.
    induction w as [w IH] using lt_wf_ind.
    rewrite (find_step u' w union_wf), (find_step u w WF), union_parent.
    destruct (Nat.eqb_spec w mx) as [->|Nw].
    - rewrite Rmx, Nat.eqb_refl, Nat.eqb_refl.
      destruct (Nat.eqb_spec mn mx) as [E|_]; [lia|].
      apply find_root_id; [apply union_wf|]. rewrite union_parent.
      destruct (Nat.eqb_spec mn mx); [lia|exact Rmn].
    - destruct (Nat.eqb_spec (parent u w) w) as [E|N].
      + destruct (Nat.eqb_spec w mx); [contradiction|reflexivity].
      + pose proof (parent_le u w WF). apply IH; lia.
  Qed.

  Lemma union_class_count r n :
    class_count u' r n =
      if Nat.eqb r mx then 0
      else if Nat.eqb r mn then class_count u mn n + class_count u mx n
      else class_count u r n.
  Proof.
    induction n as [|n IH]; simpl.
    - destruct (Nat.eqb r mx), (Nat.eqb r mn); reflexivity.
    - rewrite IH, union_find.
      destruct (Nat.eqb_spec r mx) as [->|N1].
      + destruct (Nat.eqb_spec (find u n) mx) as [E|N].
        * destruct (Nat.eqb_spec mn mx); [lia|reflexivity].
        * destruct (Nat.eqb_spec (find u n) mx); [contradiction|reflexivity].
      + destruct (Nat.eqb_spec r mn) as [->|N2].
        * destruct (Nat.eqb_spec (find u n) mx) as [E|N].
          -- rewrite Nat.eqb_refl. destruct (Nat.eqb_spec (find u n) mn); [lia|]. lia.
          -- destruct (Nat.eqb_spec (find u n) mn); lia.
        * destruct (Nat.eqb_spec (find u n) mx) as [E|N].
          -- destruct (Nat.eqb_spec mn r); [congruence|].
             destruct (Nat.eqb_spec (find u n) r); [congruence|reflexivity].
          -- reflexivity.
  Qed.
End Union.

Lemma union_roots_eq u r1 r2 : union_roots u r1 r2 = upd u (Nat.max r1 r2) (Nat.min r1 r2).
Proof. reflexivity. Qed.

(* ---------------- class counts ---------------- *)
Lemma class_count_le u r n : class_count u r n <= n.
Proof. induction n; simpl; [lia|]. destruct (Nat.eqb _ r); lia. Qed.

Lemma class_count_init n r m : class_count (uf_init n) r m = if Nat.ltb r m then 1 else 0.
Proof.
  induction m as [|m IH]; simpl; [reflexivity|].
  rewrite IH, find_init.
  destruct (Nat.eqb_spec m r) as [->|N].
  - destruct (Nat.ltb_spec r r); [lia|]. destruct (Nat.ltb_spec r (S r)); lia.
  - destruct (Nat.ltb_spec r m), (Nat.ltb_spec r (S m)); lia.
Qed.

(* a duplicate-free list of indices below n, all in class r, is no longer than the class count *)
Lemma class_count_bound u r n (S : list nat) :
  NoDup S -> (forall w, In w S -> w < n /\ find u w = r) -> length S <= class_count u r n.
Proof.
  revert S; induction n as [|n IH]; intros S ND H; simpl.
  - destruct S as [|x S]; [simpl; lia|]. destruct (H x (or_introl eq_refl)); lia.
  - destruct (in_dec Nat.eq_dec n S) as [I|NI].
    + destruct (in_split _ _ I) as [l1 [l2 ->]].
      apply NoDup_remove in ND as [ND NI].
      destruct (H n) as [_ E]; [apply in_or_app; right; left; reflexivity|].
      rewrite E, Nat.eqb_refl. rewrite app_length; simpl.
      assert (L : length (l1 ++ l2) <= class_count u r n).
      { apply IH; auto. intros w Hw.
        assert (Hw' : In w (l1 ++ n :: l2)).
        { apply in_app_or in Hw as [Hw|Hw]; apply in_or_app; [left|right; right]; auto. }
        destruct (H w Hw') as [Hlt Hf]. split; auto.
        assert (w <> n) by (intros ->; contradiction). lia. }
      rewrite app_length in L. lia.
    + assert (L : length S <= class_count u r n).
      { apply IH; auto. intros w Hw. destruct (H w Hw) as [Hlt Hf]. split; auto.
        assert (w <> n) by (intros ->; contradiction). lia. }
      destruct (Nat.eqb _ r); lia.
Qed.

Lemma class_count_zero u r n : (forall w, w < n -> find u w <> r) -> class_count u r n = 0.
Proof.
  induction n as [|n IH]; intros H; simpl; [reflexivity|].
  destruct (Nat.eqb_spec (find u n) r) as [E|N]; [exfalso; apply (H n); auto|].
  apply IH. intros w Hw; apply H; lia.
Qed.

Lemma class_count_singleton u r n : uf_wf u -> r < n -> parent u r = r ->
  (forall w, w < n -> w <> r -> find u w <> r) -> class_count u r n = 1.
Proof.
  intros WF; induction n as [|n IH]; intros Hr Rr H; [lia|]. simpl.
  destruct (Nat.eq_dec n r) as [->|N].
  - rewrite (find_root_id u r WF Rr), Nat.eqb_refl.
    rewrite class_count_zero; [reflexivity|]. intros w Hw. apply H; lia.
  - destruct (Nat.eqb_spec (find u n) r) as [E|_]; [exfalso; apply (H n); auto|].
    apply IH; auto; try lia.
Qed.

(* ---------------- path compression is invisible ---------------- *)
Lemma compress1 u w : uf_wf u -> w < length u ->
  let u1 := upd u w (find u w) in uf_wf u1 /\ forall x, find u1 x = find u x.
Proof.
  intros WF Hw u1.
  assert (WF1 : uf_wf u1) by (apply uf_wf_upd; auto; now apply find_le).
  split; [exact WF1|].
  assert (HP : forall y, parent u1 y = if Nat.eqb y w then find u w else parent u y)
    by (intros y; unfold u1; now apply parent_upd).
  induction x as [x IH] using lt_wf_ind.
  rewrite (find_step u1 x WF1), HP.
  destruct (Nat.eqb_spec x w) as [->|Nx].
  - destruct (Nat.eqb_spec (find u w) w) as [E|N]; [now rewrite E|].
    pose proof (find_le u w WF). rewrite IH by lia. now apply find_idem.
  - destruct (Nat.eqb_spec (parent u x) x) as [E|N].
    + symmetry; now apply find_root_id.
    + pose proof (parent_le u x WF). rewrite IH by lia. now apply find_parent.
Qed.

Lemma compress_fuel_ok u fuel w root : uf_wf u -> root = find u w ->
  uf_wf (compress_fuel u fuel w root) /\ forall x, find (compress_fuel u fuel w root) x = find u x.
Proof.
  revert u w; induction fuel as [|f IH]; intros u w WF ->; simpl; [auto|].
  destruct (Nat.eqb_spec w (find u w)) as [E|N]; [auto|].
  destruct (Nat.lt_ge_cases w (length u)) as [Hw|Hw].
  - destruct (compress1 u w WF Hw) as [WF1 F1].
    destruct (IH (upd u w (find u w)) (parent u w) WF1) as [WF2 F2].
    { rewrite F1. symmetry; now apply find_parent. }
    split; [exact WF2|]. intros x. now rewrite F2, F1.
  - exfalso; apply N. symmetry; now apply find_overflow.
Qed.

(* find_wire_root with its path-collapsing loop returns the same root and leaves every later find unchanged *)
Theorem find_compress u w : uf_wf u ->
  uf_wf (compress u w) /\ forall x, find (compress u w) x = find u x.
Proof. intros WF. unfold compress. now apply compress_fuel_ok. Qed.

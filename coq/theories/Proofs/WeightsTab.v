(* Proofs/WeightsTab.v — support of the conditional tables; keys produced by the leftover walk and by the sampler. *)
From Coq Require Import QArith Qabs Qround Lia ZifyBool Lqa.
From CKT Require Import Common.Base Extracted.Facts Model.Weights Proofs.WeightsP Proofs.WeightsDfs Proofs.WeightsGen.
Open Scope Q_scope.

Definition nonneg (v : list Q) : Prop := Forall (fun x => 0 <= x) v.

Lemma nth_nonneg v i : nonneg v -> 0 <= nth i v 0.
Proof.
  intros N. destruct (Nat.lt_ge_cases i (length v)) as [L|L].
  - unfold nonneg in N. rewrite Forall_forall in N. apply N. now apply nth_In.
  - rewrite nth_overflow by lia. lra.
Qed.

(* a table entry that is not zero sits on an entry of the coefficient vector that is positive *)
Definition supp (v base : list Q) : Prop := forall i, ~ nth i v 0 == 0 -> 0 < nth i base 0.

Lemma zero_small_nz x : ~ zero_small x == 0 -> ~ x == 0.
Proof. unfold zero_small. destruct (isclose0 x); [intros H; exfalso; apply H; reflexivity|auto]. Qed.

Lemma nth_map0 (f : Q -> Q) v i : f 0 == 0 -> nth i (map f v) 0 == f (nth i v 0).
Proof.
  intros F. destruct (Nat.lt_ge_cases i (length v)) as [L|L].
  - rewrite (nth_indep _ 0 (f 0)) by (rewrite map_length; exact L). rewrite map_nth. reflexivity.
  - rewrite !nth_overflow by (try rewrite map_length; lia). now rewrite F.
Qed.

Lemma supp_zero_small tab base : supp tab base -> supp (map zero_small tab) base.
Proof.
  intros S i H. apply S. intros E. apply H. rewrite nth_map0 by reflexivity.
  unfold zero_small. destruct (isclose0 _); [reflexivity|exact E].
Qed.

Lemma supp_div tab base w : supp tab base -> supp (map (fun x => x / w) tab) base.
Proof.
  intros S i H. apply S. intros E. apply H. rewrite nth_map0.
  - rewrite E. unfold Qdiv. ring.
  - unfold Qdiv. ring.
Qed.

(* raw table returned by kids *)
Lemma kids_tab_supp thr node prefix rp : forall l i, nonneg l ->
  supp (snd (fst (kids thr node prefix rp i l))) l /\ length (snd (fst (kids thr node prefix rp i l))) = length l.
Proof.
  induction l as [|p l' IH]; intros i N; [split; [intros [|k] H; exfalso; apply H; reflexivity|reflexivity]|].
  rewrite kids_cons. inversion N as [|? ? Np Nl]; subst.
  destruct (Qltb (rp * p) thr).
  { simpl. split; auto. intros k H. pose proof (nth_nonneg (p :: l') k N) as G.
    destruct (Qlt_le_dec 0 (nth k (p :: l') 0)); auto. exfalso. apply H. lra. }
  destruct (node (prefix ++ [i]) (rp * p)) as [ys s].
  specialize (IH (S i) Nl).
  destruct (kids thr node prefix rp (S i) l') as [[ys' tab] fnd]. simpl in IH. destruct IH as [St Lt].
  assert (forall x, (~ x == 0 -> 0 < p) -> supp (x :: tab) (p :: l')) as G.
  { intros x Hx [|k] H; simpl in *; auto. }
  destruct s; simpl; (split; [apply G|now rewrite Lt]).
  - intros H. destruct (Qlt_le_dec 0 p); auto. exfalso. apply H. lra.
  - intros H. exfalso. apply H. reflexivity.
  - intros H. destruct (Qlt_le_dec 0 p); auto. exfalso. apply H. assert (p == 0) as -> by lra. ring.
Qed.

Definition cond_ok (pf : key) (bases : list (list Q)) (y : yield) : Prop :=
  match y with
  | YFull _ _ => True
  | YCond st v => exists c, st = pf ++ c /\ supp v (nth (length c) bases []) /\ length v = length (nth (length c) bases [])
  end.

Lemma kids_cond thr node prefix rp rest (cur : list Q) :
  (forall pf r y, In y (fst (node pf r)) -> cond_ok pf rest y) ->
  forall l i y, In y (fst (fst (kids thr node prefix rp i l))) ->
    match y with
    | YFull _ _ => True
    | YCond st v => exists j c, st = prefix ++ j :: c /\ supp v (nth (length c) rest []) /\
                                length v = length (nth (length c) rest [])
    end.
Proof.
  intros Hn l; induction l as [|p l' IH]; intros i y; [simpl; tauto|].
  rewrite kids_cons. destruct (Qltb (rp * p) thr); [simpl; tauto|].
  destruct (node (prefix ++ [i]) (rp * p)) as [ys s] eqn:En.
  destruct (kids thr node prefix rp (S i) l') as [[ys' tab] fnd] eqn:Ek.
  assert (In y (ys ++ ys') ->
    match y with
    | YFull _ _ => True
    | YCond st v => exists j c, st = prefix ++ j :: c /\ supp v (nth (length c) rest []) /\
                                length v = length (nth (length c) rest [])
    end) as G.
  { rewrite in_app_iff. intros [H|H].
    - specialize (Hn (prefix ++ [i]) (rp * p) y). rewrite En in Hn. specialize (Hn H).
      destruct y as [|st v]; [exact I|]. destruct Hn as [c [E [S L]]].
      exists i, c. rewrite <- app_assoc in E. auto.
    - specialize (IH (S i) y). rewrite Ek in IH. exact (IH H). }
  destruct s; simpl; exact G.
Qed.

Lemma node_cond thr bases : Forall nonneg bases ->
  forall pf r y, In y (fst (dfs_node thr bases pf r)) -> cond_ok pf bases y.
Proof.
  induction bases as [|cur rest IH]; intros N pf r y.
  - simpl. intros [<-|[]]. exact I.
  - inversion N as [|? ? Nc Nr]; subst. rewrite dfs_node_cons.
    pose proof (kids_tab_supp thr (dfs_node thr rest) pf r cur 0%nat Nc) as [St Lt].
    destruct (kids thr (dfs_node thr rest) pf r 0%nat cur) as [[ys tab] fnd] eqn:Ek. simpl in St, Lt.
    unfold finish. destruct fnd.
    + assert (In y ys -> cond_ok pf (cur :: rest) y) as G.
      { intros H. pose proof (kids_cond thr (dfs_node thr rest) pf r rest cur (IH Nr) cur 0%nat y) as K.
        rewrite Ek in K. specialize (K H). destruct y as [|st v]; [exact I|].
        destruct K as [j [c [E [S L]]]]. exists (j :: c). simpl. auto. }
      destruct pf as [|a pf'].
      * cbn [fst]. rewrite in_app_iff. intros [H|[<-|[]]]; auto.
        exists []. simpl. repeat split; [now apply supp_zero_small|now rewrite map_length].
      * cbn [fst]. rewrite in_app_iff. intros [H|H]; auto.
        destruct (Qeq_bool _ 0); [destruct H|]. destruct H as [<-|[]].
        exists []. rewrite app_nil_r. simpl. repeat split.
        -- now apply supp_div, supp_zero_small.
        -- now rewrite !map_length.
    + cbn [fst]. intros H.
      pose proof (kids_cond thr (dfs_node thr rest) pf r rest cur (IH Nr) cur 0%nat y) as K.
      rewrite Ek in K. specialize (K H). destruct y as [|st v]; [exact I|].
      destruct K as [j [c [E [S L]]]]. exists (j :: c). simpl. auto.
Qed.

(* ---------- through the permutation wrapper ---------- *)
Lemma nth_seq_map (f : nat -> Q) n i : (i < n)%nat -> nth i (map f (seq 0 n)) 0 = f i.
Proof.
  intros H. rewrite (nth_indep _ 0 (f 0%nat)) by (rewrite map_length, seq_length; exact H).
  rewrite map_nth, seq_nth by exact H. reflexivity.
Qed.

Lemma unperm_vec_nth perm v' i : (i < length perm)%nat ->
  nth i (unperm_vec perm v') 0 = match index_of i perm with Some k => nth k v' 0 | None => 0 end.
Proof. intros H. unfold unperm_vec. now rewrite nth_seq_map. Qed.

Lemma unperm_vec_length perm v' : length (unperm_vec perm v') = length perm.
Proof. unfold unperm_vec. now rewrite map_length, seq_length. Qed.

Lemma unperm_supp (v : list Q) perm v' : length perm = length v ->
  supp v' (apply_perm perm v) -> supp (unperm_vec perm v') v.
Proof.
  intros L S i H.
  destruct (Nat.lt_ge_cases i (length perm)) as [Hi|Hi].
  - rewrite unperm_vec_nth in H by exact Hi.
    destruct (index_of i perm) as [k|] eqn:Ek; [|exfalso; apply H; reflexivity].
    apply index_of_Some in Ek. destruct Ek as [Hk Ek].
    specialize (S k H). rewrite nth_apply_perm in S by exact Hk. now rewrite Ek in S.
  - exfalso. apply H. rewrite nth_overflow; [reflexivity|]. rewrite unperm_vec_length. lia.
Qed.

Lemma nth_sorted_probs probs : forall perms k, sorting_perms_b probs perms = true -> (k < length probs)%nat ->
  nth k (sorted_probs probs perms) [] = apply_perm (nth k perms []) (nth k probs []) /\
  sorting_perm_b (nth k probs []) (nth k perms []) = true.
Proof.
  induction probs as [|v rv IH]; intros [|p rp] k H Hk; simpl in *; try discriminate; try lia.
  apply andb_prop in H as [H1 H2]. destruct k as [|k]; [split; auto|]. apply IH; auto. lia.
Qed.

Lemma unperm_state_length perms c : (length c <= length perms)%nat -> length (unperm_state perms c) = length c.
Proof.
  unfold unperm_state. revert c; induction perms as [|p rp IH]; intros [|i c]; simpl; try lia.
  intros H. f_equal. apply IH. lia.
Qed.

Lemma gen_unsorted_cond probs perms thr st v :
  Forall nonneg probs -> sorting_perms_b probs perms = true ->
  In (YCond st v) (gen_unsorted probs perms thr) ->
  supp v (nth (length st) probs []) /\ (length st < length probs)%nat.
Proof.
  intros N S H. unfold gen_unsorted in H. apply in_map_iff in H. destruct H as [y [E I]].
  destruct y as [|c v']; simpl in E; [discriminate|]. inversion E; subst. clear E.
  pose proof (sorted_probs_length probs perms S) as Ls.
  pose proof (sorting_perms_length probs perms S) as Lp.
  assert (Forall nonneg (sorted_probs probs perms)) as Ns.
  { clear I. revert perms S Ls Lp. induction probs as [|b rb IHb]; intros [|p rp] S Ls Lp; simpl in *; try discriminate; constructor.
    - inversion N; subst. unfold nonneg, apply_perm. rewrite Forall_forall. intros x Hx.
      apply in_map_iff in Hx. destruct Hx as [j [<- _]]. now apply nth_nonneg.
    - inversion N; subst. apply andb_prop in S as [_ S]. apply IHb; auto. }
  unfold dfs_spec in I.
  pose proof (node_under thr _ [] 1 _ I) as [c0 [Ec [Oc Lc]]]. simpl in Ec, Lc. subst c0.
  pose proof (node_cond thr _ Ns [] 1 _ I) as [c1 [Ec [Sc Lv]]]. simpl in Ec. subst c1.
  assert (length c < length probs)%nat as Hc by lia.
  rewrite unperm_state_length by lia. split; auto.
  destruct (nth_sorted_probs probs perms (length c) S Hc) as [En Sp]. rewrite En in Sc.
  destruct (sorting_perm_facts _ _ Sp) as [Lpk _].
  now apply unperm_supp.
Qed.

(* ---------- the conditional_probabilities dict ---------- *)
Lemma absorb_cond_inv D q (P : key -> list Q -> Prop) ys :
  (forall st v, In (YCond st v) ys -> P st v /\ forall w, P st (map (fun x => x / w) v)) ->
  forall ret cond w, (forall st v, dget cond st = Some v -> P st v) ->
  forall st v, dget (snd (fst (fold_left (absorb D q) ys (ret, cond, w)))) st = Some v -> P st v.
Proof.
  induction ys as [|y r IH]; intros Hy ret cond w Hc st v; [simpl; apply Hc|].
  cbn [fold_left]. destruct y as [s p|s u]; simpl.
  - apply IH; auto. intros; apply Hy; now right.
  - assert (forall st v, In (YCond st v) r -> P st v /\ forall w, P st (map (fun x => x / w) v)) as Hr
        by (intros; apply Hy; now right).
    destruct (Hy s u (or_introl eq_refl)) as [P1 P2].
    destruct s as [|a s'].
    + apply IH; auto. intros st' v'. rewrite dget_dset.
      destruct (key_eqb [] st') eqn:E; [apply key_eqb_eq in E; subst; intros [= <-]; apply P2|apply Hc].
    + apply IH; auto. intros st' v'. rewrite dget_dset.
      destruct (key_eqb (a :: s') st') eqn:E; [apply key_eqb_eq in E; subst; intros [= <-]; exact P1|apply Hc].
Qed.

Definition cond_sound (probs : list (list Q)) (cond : list (key * list Q)) : Prop :=
  forall st v, dget cond st = Some v -> supp v (nth (length st) probs []) /\ (length st < length probs)%nat.

Lemma dfs_acc_cond_sound probs perms q ret cond wts0 :
  Forall nonneg probs -> sorting_perms_b probs perms = true ->
  dfs_acc probs perms q = (ret, cond, wts0) -> cond_sound probs cond.
Proof.
  intros N S E. unfold dfs_acc in E.
  destruct (Qle_bool (1 / q) (qprod (map qmax probs))).
  - intros st v G.
    assert (snd (fst (fold_left (absorb (length probs) q) (gen_unsorted probs perms (1 / q))
                        (([] : wdict), ([] : list (key * list Q)), 1))) = cond) as Ec.
    { apply (f_equal (fun t => snd (fst t))) in E. exact E. }
    rewrite <- Ec in G. revert G.
    apply (absorb_cond_inv (length probs) q
             (fun st v => supp v (nth (length st) probs []) /\ (length st < length probs)%nat)).
    + intros s u I. destruct (gen_unsorted_cond probs perms (1 / q) s u N S I) as [A B].
      split; [split; auto|]. intros w. split; auto. now apply supp_div.
    + simpl. discriminate.
  - inversion E; subst. intros st v G. discriminate.
Qed.

(* ---------- keys produced after the DFS: positivity of their joint probability ---------- *)
Lemma jointp_app done : forall rs rest c, length done = length rs ->
  jointp (done ++ rest) (rs ++ c) == jointp done rs * jointp rest c.
Proof.
  induction done as [|v d IH]; intros [|j rs] rest c L; simpl in L; try discriminate.
  - simpl. ring.
  - simpl app. rewrite !jointp_cons, IH by lia. ring.
Qed.

Lemma jointp_snoc done rs indep x : length done = length rs ->
  jointp (done ++ [indep]) (rs ++ [x]) == jointp done rs * nth x indep 0.
Proof. intros L. rewrite jointp_app by exact L. simpl. ring. Qed.

Lemma nz_pos v x : nonneg v -> ~ nth x v 0 == 0 -> 0 < nth x v 0.
Proof. intros N H. pose proof (nth_nonneg v x N). destruct (Qlt_le_dec 0 (nth x v 0)); auto. exfalso. apply H. lra. Qed.

Lemma in_combine_seq (v : list Q) : forall a x y, In (x, y) (combine (seq a (length v)) v) ->
  (a <= x < a + length v)%nat /\ nth (x - a) v 0 = y.
Proof.
  induction v as [|z v IH]; intros a x y; simpl; [tauto|].
  intros [E|I].
  - inversion E; subst. replace (x - x)%nat with 0%nat by lia. split; [lia|reflexivity].
  - destruct (IH (S a) x y I) as [R E]. split; [lia|].
    replace (x - a)%nat with (S (x - S a)) by lia. exact E.
Qed.

Lemma flatnonzero_In v x : In x (flatnonzero v) -> (x < length v)%nat /\ ~ nth x v 0 == 0.
Proof.
  unfold flatnonzero. intros H. apply in_map_iff in H. destruct H as [[x' y] [E I]]. simpl in E; subst x'.
  apply filter_In in I. destruct I as [I F]. simpl in F.
  apply in_combine_seq in I. destruct I as [R E]. rewrite Nat.sub_0_r in E. subst y.
  split; [lia|]. apply negb_true_iff in F. now apply Qeqb_false in F.
Qed.

Section Keys.
Variable probs : list (list Q).
Variable cond : list (key * list Q).
Hypothesis Hnn : Forall nonneg probs.
Hypothesis Hcs : cond_sound probs cond.

Lemma nth_done_rest (done : list (list Q)) indep rest (rs : key) :
  length done = length rs -> nth (length rs) (done ++ indep :: rest) [] = indep.
Proof. intros L. rewrite app_nth2 by lia. replace (length rs - length done)%nat with 0%nat by lia. reflexivity. Qed.

Lemma table_pos done indep rest rs x :
  probs = done ++ indep :: rest -> length done = length rs ->
  ~ nth x (match dget cond rs with Some v => v | None => indep end) 0 == 0 -> 0 < nth x indep 0.
Proof.
  intros E L H. destruct (dget cond rs) as [v|] eqn:G.
  - destruct (Hcs rs v G) as [S _]. rewrite E, nth_done_rest in S by exact L. now apply S.
  - apply nz_pos; auto. rewrite E in Hnn. apply Forall_app in Hnn. destruct Hnn as [_ H2]. now inversion H2.
Qed.

Lemma leftover_pos : forall rest done rs out,
  probs = done ++ rest -> length done = length rs -> 0 < jointp done rs ->
  leftover_walk rest cond rs = Some (Some out) -> 0 < jointp probs out /\ length out = length probs.
Proof.
  induction rest as [|indep rest IH]; intros done rs out E L P H; simpl in H.
  - rewrite app_nil_r in E. inversion H; subst out. rewrite E. split; auto.
  - destruct (flatnonzero (match dget cond rs with Some v => v | None => indep end)) as [|x [|x2 more]] eqn:Ef;
      try discriminate.
    assert (In x (flatnonzero (match dget cond rs with Some v => v | None => indep end))) as I by (rewrite Ef; now left).
    apply flatnonzero_In in I. destruct I as [_ Nz].
    pose proof (table_pos done indep rest rs x E L Nz) as Px.
    apply (IH (done ++ [indep]) (rs ++ [x]) out); auto.
    + rewrite <- app_assoc. exact E.
    + rewrite !app_length. simpl. lia.
    + rewrite jointp_snoc by exact L. nra.
Qed.

(* draws *)
Lemma draw_spec p : forall k tape xs t, draw p k tape = Some (xs, t) ->
  length xs = k /\ tape = xs ++ t /\ forall x, In x xs -> (x < length p)%nat /\ ~ nth x p 0 == 0.
Proof.
  induction k as [|k IH]; intros tape xs t H; simpl in H.
  - inversion H; subst. simpl. repeat split; auto. tauto.
  - destruct tape as [|x tp]; [discriminate|].
    destruct (Nat.ltb x (length p) && negb (Qeq_bool (nth x p 0) 0)) eqn:A; [|discriminate].
    destruct (draw p k tp) as [[xs' t']|] eqn:D; [|discriminate]. inversion H; subst.
    destruct (IH tp xs' t D) as [L [E F]]. apply andb_prop in A as [A1 A2].
    apply Nat.ltb_lt in A1. apply negb_true_iff in A2. apply Qeqb_false in A2.
    split; [simpl; lia|]. split; [simpl; now rewrite E|].
    intros y [<-|I]; auto.
Qed.

Lemma draw_spec_len p k tape xs t : draw p k tape = Some (xs, t) -> length xs = k /\ tape = xs ++ t.
Proof. intros H. destruct (draw_spec p k tape xs t H) as [A [B _]]. auto. Qed.

Lemma cnt_add_keys {A} (eqb : A -> A -> bool) (Heq : forall a b, eqb a b = true -> a = b) :
  forall c x a n, In (a, n) (cnt_add eqb c x) -> a = x \/ exists n', In (a, n') c.
Proof.
  induction c as [|[y m] c IH]; intros x a n; simpl.
  - intros [E|[]]. inversion E. now left.
  - destruct (eqb x y) eqn:E.
    + intros [H|H]; [inversion H; subst; right; exists m; now left|right; exists n; now right].
    + intros [H|H]; [inversion H; subst; right; exists n; now left|].
      destruct (IH x a n H) as [->|[n' I]]; [now left|right; exists n'; now right].
Qed.

Lemma counter_keys {A} (eqb : A -> A -> bool) (Heq : forall a b, eqb a b = true -> a = b) l :
  forall a n, In (a, n) (counter eqb l) -> In a l.
Proof.
  unfold counter.
  assert (forall l c a n, In (a, n) (fold_left (cnt_add eqb) l c) -> In a l \/ exists n', In (a, n') c) as G.
  { clear l. induction l as [|x l IH]; intros c a n H; simpl in *; [right; eauto|].
    destruct (IH _ _ _ H) as [I|[n' I]]; [left; now right|].
    destruct (cnt_add_keys eqb Heq c x a n' I) as [->|[n2 I2]]; [left; now left|right; eauto]. }
  intros a n H. destruct (G l [] a n H) as [I|[n' []]]; exact I.
Qed.

(* independent columns *)
Lemma take_cols_spec : forall ps k tape cols t lg, take_cols ps k tape = Some (cols, t, lg) ->
  Forall2 (fun col p => length col = k /\ forall x, In x col -> (x < length p)%nat /\ ~ nth x p 0 == 0) cols ps.
Proof.
  induction ps as [|p ps IH]; intros k tape cols t lg H; simpl in H.
  - inversion H; subst. constructor.
  - destruct (draw p k tape) as [[c t1]|] eqn:D; [|discriminate].
    destruct (take_cols ps k t1) as [[[cs t2] lg2]|] eqn:T; [|discriminate]. inversion H; subst.
    destruct (draw_spec p k tape c t1 D) as [L [_ F]].
    constructor; [split; auto|]. eapply IH; eauto.
Qed.

Lemma row_pos : forall ps cols j k, Forall nonneg ps ->
  Forall2 (fun col p => length col = k /\ forall x, In x col -> (x < length p)%nat /\ ~ nth x p 0 == 0) cols ps ->
  (j < k)%nat ->
  0 < jointp ps (map (fun c => nth j c 0%nat) cols) /\ length (map (fun c => nth j c 0%nat) cols) = length ps.
Proof.
  induction ps as [|p ps IH]; intros cols j k N F Hj.
  - inversion F; subst. simpl. split; [lra|reflexivity].
  - inversion F as [|col p' cols' ps' [Lc G] F']; subst. simpl.
    inversion N as [|? ? Np Nps]; subst.
    destruct (IH cols' j (length col) Nps F' Hj) as [A B].
    assert (In (nth j col 0%nat) col) as I by (apply nth_In; lia).
    destruct (G _ I) as [_ Nz]. pose proof (nz_pos p _ Np Nz). split; [nra|now rewrite B].
Qed.

Definition key_good (k : key) : Prop := 0 < jointp probs k /\ length k = length probs.

Lemma pop_loop_keys rec full rs indep rest' done :
  probs = done ++ indep :: rest' -> length done = length rs -> 0 < jointp done rs ->
  full = (match rest' with [] => true | _ :: _ => false end) ->
  (forall o c t s t' lg, 0 < nth o indep 0 -> rec (rs ++ [o]) c t = Some (s, t', lg) ->
      forall k n, In (k, n) s -> key_good k) ->
  forall ocs t s t' lg, (forall o c, In (o, c) ocs -> 0 < nth o indep 0) ->
    pop_loop rec full rs ocs t = Some (s, t', lg) -> forall k n, In (k, n) s -> key_good k.
Proof.
  intros E L P Ef Hrec. induction ocs as [|[o c] more IH]; intros t s t' lg Ho H k n I; simpl in H.
  - inversion H; subst. destruct I.
  - assert (0 < nth o indep 0) as Po by (apply (Ho o c); now left).
    assert (forall o c, In (o, c) more -> 0 < nth o indep 0) as Hm by (intros; eapply Ho; right; eauto).
    destruct full.
    + destruct (pop_loop rec true rs more t) as [[[acc t2] lg2]|] eqn:R; [|discriminate]. inversion H; subst.
      destruct I as [I|I].
      * inversion I; subst. destruct rest'; [|discriminate]. unfold key_good. rewrite E.
        split; [rewrite jointp_snoc by exact L; nra|]. rewrite !app_length. simpl. lia.
      * eapply IH; eauto.
    + destruct (rec (rs ++ [o]) c t) as [[[s1 t2] lg1]|] eqn:R1; [|discriminate].
      destruct (pop_loop rec false rs more t2) as [[[s2 t3] lg2]|] eqn:R2; [|discriminate]. inversion H; subst.
      apply in_app_iff in I. destruct I as [I|I].
      * eapply Hrec; eauto.
      * eapply IH; eauto.
Qed.

Lemma populate_keys : forall rest done rs nd tape s t lg,
  probs = done ++ rest -> length done = length rs -> 0 < jointp done rs ->
  populate rest cond rs nd tape = Some (s, t, lg) -> forall k n, In (k, n) s -> key_good k.
Proof.
  induction rest as [|indep rest' IH]; intros done rs nd tape s t lg E L P H k n I.
  - simpl in H. destruct (dget cond rs) as [v|]; [discriminate|]. simpl in H. inversion H; subst.
    simpl in I. destruct nd; simpl in I; destruct I.
  - cbn [populate] in H. destruct (dget cond rs) as [v|] eqn:G.
    + destruct (draw v nd tape) as [[outs t1]|] eqn:D; [|discriminate].
      destruct (pop_loop (fun rs' c t0 => populate rest' cond rs' c t0)
                  (match rest' with [] => true | _ :: _ => false end) rs (counter Nat.eqb outs) t1)
        as [[[s0 t0] lg0]|] eqn:R; [|discriminate]. inversion H; subst.
      destruct (draw_spec v nd tape outs t1 D) as [_ [_ F]].
      destruct (Hcs rs v G) as [Sv _]. rewrite E, nth_done_rest in Sv by exact L.
      eapply (pop_loop_keys _ _ rs indep rest' done E L P eq_refl); [| |exact R|exact I].
      * intros o c t2 s2 t2' lg2 Po R2. eapply (IH (done ++ [indep]) (rs ++ [o])); eauto.
        -- rewrite <- app_assoc. exact E.
        -- rewrite !app_length. simpl. lia.
        -- rewrite jointp_snoc by exact L. nra.
      * intros o c Ioc. apply counter_keys in Ioc; [|intros a b; apply Nat.eqb_eq].
        apply Sv. now apply F.
    + destruct (take_cols (indep :: rest') nd tape) as [[[cols t1] lg1]|] eqn:T; [|discriminate].
      inversion H; subst. apply in_map_iff in I. destruct I as [[row cnt] [Ek I]]. simpl in Ek. inversion Ek; subst.
      apply counter_keys in I; [|intros a b; apply key_eqb_eq].
      pose proof (take_cols_spec _ _ _ _ _ _ T) as F2.
      unfold rows in I. destruct cols as [|c0 cols']; [destruct I|].
      apply in_map_iff in I. destruct I as [j [<- Hj]]. apply in_seq in Hj.
      assert (Forall nonneg (indep :: rest')) as Nr.
      { rewrite E in Hnn. apply Forall_app in Hnn. tauto. }
      destruct (row_pos (indep :: rest') (c0 :: cols') j nd Nr F2) as [A B]; [lia|].
      unfold key_good. rewrite E. split.
      * rewrite jointp_app by exact L. nra.
      * rewrite !app_length, B. lia.
Qed.
End Keys.

Lemma jointp_unit_nonneg probs : forall c, Forall nonneg probs -> 0 <= jointp probs c.
Proof.
  induction probs as [|v r IH]; intros [|j c] N; simpl; try lra.
  inversion N as [|? ? Nv Nr]; subst. pose proof (nth_nonneg v j Nv). pose proof (IH c Nr). nra.
Qed.

(* ---------- no entry of the result has probability zero ---------- *)
Lemma jointp_pos_idx probs : Forall nonneg probs ->
  forall ids, 0 < jointp probs ids -> length ids = length probs -> idx_ok probs ids.
Proof.
  induction probs as [|v r IH]; intros N [|j c] P L; simpl in *; try discriminate; auto.
  inversion N as [|? ? Nv Nr]; subst.
  destruct (Nat.lt_ge_cases j (length v)) as [H|H].
  - split; auto. apply IH; auto; try lia.
    destruct (Qlt_le_dec 0 (jointp r c)); auto. exfalso.
    pose proof (nth_nonneg v j Nv). nra.
  - rewrite nth_overflow in P by lia. lra.
Qed.

Lemma insert_samples_keys ssw : forall s ret r k v,
  insert_samples ret ssw s = Some r -> dget r k = Some v -> dget ret k = Some v \/ exists n, In (k, n) s.
Proof.
  induction s as [|[k' c] s IH]; intros ret r k v H G; simpl in H.
  - inversion H; subst. now left.
  - destruct (dmem ret k'); [discriminate|].
    destruct (IH _ _ _ _ H G) as [G'|[n I]]; [|right; exists n; now right].
    rewrite dget_dset in G'. destruct (key_eqb k' k) eqn:E.
    + apply key_eqb_eq in E; subst. right. exists c. now left.
    + now left.
Qed.

Lemma dfs_ret_keys probs perms q ret cond wts0 k v :
  sorting_perms_b probs perms = true -> 1 <= q ->
  dfs_acc probs perms q = (ret, cond, wts0) -> dget ret k = Some v ->
  snd v = EXACT /\ fst v == jointp probs k * q /\ 1 / q <= jointp probs k /\
  idx_ok probs k /\ length k = length probs.
Proof.
  intros S Hq Eacc G. destruct (thr_facts q Hq) as [T0 T1]. unfold dfs_acc in Eacc.
  destruct (Qle_bool (1 / q) (qprod (map qmax probs))).
  - assert (ret = fold_left (ret_step q) (gen_unsorted probs perms (1 / q)) []) as ->.
    { transitivity (fst (fst (fold_left (absorb (length probs) q) (gen_unsorted probs perms (1 / q))
                                  (([] : wdict), ([] : list (key * list Q)), 1)))).
      - apply (f_equal (fun t => fst (fst t))) in Eacc. symmetry. exact Eacc.
      - apply absorb_ret. }
    rewrite ret_get in G. destruct (last_full _ k) as [p|] eqn:El; [|discriminate].
    inversion G; subst. simpl.
    apply last_full_In in El. apply gen_unsorted_full_inv in El. destruct El as [c [-> Hc]].
    destruct (spec_full_value probs perms (1 / q) c p S T1 Hc) as [Vp [Tp [O L]]].
    repeat split; auto. { now rewrite Vp. } { now rewrite <- Vp. }
  - inversion Eacc; subst. discriminate.
Qed.

Theorem no_zero probs perms N tape r ids w t :
  Forall nonneg probs -> sorting_perms_b probs perms = true ->
  gen_weights probs perms N tape = Some (Ok r) -> dget r ids = Some (w, t) ->
  0 < jointp probs ids /\ in_range probs ids.
Proof.
  intros Nn S G D. pose proof atol_pos as Ap.
  assert (forall m, dget (all_exact probs m) ids = Some (w, t) -> 0 < jointp probs ids /\ in_range probs ids) as AE.
  { intros m H. destruct (proj2 (all_exact_spec probs m ids) w t H) as [O [L [B _]]].
    split; [lra|]. apply in_range_idx_ok. auto. }
  assert (forall k, 0 < jointp probs k -> length k = length probs -> 0 < jointp probs k /\ in_range probs k) as KG.
  { intros k P L. split; auto. apply in_range_idx_ok. split; auto. now apply jointp_pos_idx. }
  destruct N as [q| | |].
  - apply gen_weights_fin_inv in G. destruct G as [Hq F]. destruct (thr_facts q Hq) as [T0 _].
    assert (forall ret cond wts0, dfs_acc probs perms q = (ret, cond, wts0) -> forall v, dget ret ids = Some v ->
              0 < jointp probs ids /\ in_range probs ids) as RK.
    { intros ret cond wts0 Eacc v Gv.
      destruct (dfs_ret_keys probs perms q ret cond wts0 ids v S Hq Eacc Gv) as [_ [_ [T [O L]]]].
      split; [lra|]. apply in_range_idx_ok. auto. }
    destruct F as [mins Em Ae ->|mins ret cond wts0 Em Na Eacc Hs ->|mins ret cond wts0 rs Em Na Eacc Hs Cn Lw Dn ->
                  |mins ret cond wts0 s t' lg Em Na Eacc Hs Cc Pp Is].
    + eapply AE; eauto.
    + eapply RK; eauto.
    + rewrite dget_dset in D. destruct (key_eqb rs ids) eqn:E.
      * apply key_eqb_eq in E; subst rs.
        pose proof (dfs_acc_cond_sound probs perms q ret cond wts0 Nn S Eacc) as Cs.
        destruct (leftover_pos probs cond Nn Cs probs [] [] ids eq_refl eq_refl) as [P L];
          [simpl; lra|exact Lw|]. apply KG; auto.
      * eapply RK; eauto.
    + destruct (insert_samples_keys _ _ _ _ _ _ Is D) as [Gr|[n I]].
      * eapply RK; eauto.
      * pose proof (dfs_acc_cond_sound probs perms q ret cond wts0 Nn S Eacc) as Cs.
        assert (0 < jointp [] []) as P0 by (simpl; lra).
        destruct (populate_keys probs cond Nn Cs probs [] [] _ _ _ _ _ eq_refl eq_refl P0 Pp ids n I) as [P L].
        apply KG; auto.
  - unfold gen_weights, gen_core in G.
    destruct (all_some (map min_filter_nonzero probs)) as [mins|]; [|discriminate].
    destruct (Qle_bool 0 (qprod mins)); [|discriminate]. inversion G; subst. eapply AE; eauto.
  - discriminate.
  - discriminate.
Qed.

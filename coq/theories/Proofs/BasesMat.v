(* Proofs/BasesMat.v — list-matrix algebra over R needed for PTM multiplicativity: linearity of the
   product (unconditional), and for explicit 4x4 shapes identity, associativity and the mixed-product
   property of the Kronecker product (by `ring` on the entries). *)
From Coq Require Import String List Bool Arith QArith Reals Lra Lia.
From CKT Require Import Common.Base Common.PolyRing Common.Ptm.
Import ListNotations.
Close Scope Q_scope.
Open Scope list_scope.
Open Scope R_scope.

Notation Radd := (padd RRing).
Notation Rscale := (pscale RRing).
Notation Rvmat := (vmat RRing).
Notation Rmmul := (mmul RRing).
Notation Rmadd := (madd RRing).
Notation Rmscale := (mscale RRing).
Notation Rkron := (kron RRing).

(* ---------- vectors ---------- *)
Lemma Radd_nil_r p : Radd p [] = p. Proof. now destruct p. Qed.
Lemma Radd_comm u v : Radd u v = Radd v u.
Proof. revert v; induction u as [|a u IH]; intros [|b v]; simpl; auto. now rewrite IH, Rplus_comm. Qed.
Lemma Radd_assoc u v w : Radd (Radd u v) w = Radd u (Radd v w).
Proof.
  revert v w; induction u as [|a u IH]; intros [|b v] [|c w]; simpl; auto. now rewrite IH, Rplus_assoc.
Qed.
Lemma Radd_shuffle a b c d : Radd (Radd a b) (Radd c d) = Radd (Radd a c) (Radd b d).
Proof.
  rewrite Radd_assoc, <- (Radd_assoc b c d), (Radd_comm b c), (Radd_assoc c b d), <- Radd_assoc. reflexivity.
Qed.
Lemma Rscale_add a u v : Rscale a (Radd u v) = Radd (Rscale a u) (Rscale a v).
Proof.
  revert v; induction u as [|x u IH]; intros [|y v]; simpl; auto. rewrite <- IH. f_equal. ring.
Qed.
Lemma Rscale_comm a c n : Rscale a (Rscale c n) = Rscale c (Rscale a n).
Proof. unfold pscale. rewrite !map_map. apply map_ext. intros x; simpl. ring. Qed.
Lemma Rscale_plus a b n : Rscale (a + b) n = Radd (Rscale a n) (Rscale b n).
Proof. induction n as [|x n IH]; simpl; auto. rewrite <- IH. f_equal. ring. Qed.
Lemma Rscale_mult c a n : Rscale (c * a) n = Rscale c (Rscale a n).
Proof. unfold pscale. rewrite map_map. apply map_ext. intros x; simpl. ring. Qed.

Lemma vmat_nil_l N : Rvmat [] N = []. Proof. reflexivity. Qed.
Lemma vmat_nil_r row : Rvmat row [] = []. Proof. now destruct row. Qed.

Lemma vmat_madd row X Y : Rvmat row (Rmadd X Y) = Radd (Rvmat row X) (Rvmat row Y).
Proof.
  revert X Y; induction row as [|a row IH]; intros X Y; [reflexivity|].
  destruct X as [|x X]; [reflexivity|]. destruct Y as [|y Y]; [simpl; now rewrite Radd_nil_r|].
  simpl. change (radd RRing) with Rplus. rewrite IH, Rscale_add. apply Radd_shuffle.
Qed.
Lemma vmat_padd u v N : Rvmat (Radd u v) N = Radd (Rvmat u N) (Rvmat v N).
Proof.
  revert v N; induction u as [|a u IH]; intros v N; [reflexivity|].
  destruct v as [|b v]; [change (Radd (a :: u) []) with (a :: u); now rewrite vmat_nil_l, Radd_nil_r|].
  destruct N as [|n N]; [reflexivity|].
  simpl. change (radd RRing a b) with (a + b). rewrite IH, Rscale_plus. apply Radd_shuffle.
Qed.
Lemma vmat_mscale row c X : Rvmat row (Rmscale c X) = Rscale c (Rvmat row X).
Proof.
  revert X; induction row as [|a row IH]; intros [|x X]; try reflexivity.
  simpl. rewrite IH, Rscale_add. f_equal. apply Rscale_comm.
Qed.
Lemma vmat_pscale c u N : Rvmat (Rscale c u) N = Rscale c (Rvmat u N).
Proof.
  revert N; induction u as [|a u IH]; intros [|n N]; try reflexivity.
  simpl. change (rmul RRing c a) with (c * a). rewrite IH, Rscale_add, Rscale_mult. reflexivity.
Qed.

(* ---------- matrices: linearity of the product ---------- *)
Lemma madd_nil_r M : Rmadd M [] = M. Proof. now destruct M. Qed.
Lemma mmul_madd_r L X Y : Rmmul L (Rmadd X Y) = Rmadd (Rmmul L X) (Rmmul L Y).
Proof. unfold mmul. induction L as [|r L IH]; simpl; auto. now rewrite vmat_madd, IH. Qed.
Lemma mmul_madd_l X Y N : Rmmul (Rmadd X Y) N = Rmadd (Rmmul X N) (Rmmul Y N).
Proof.
  unfold mmul. revert Y; induction X as [|x X IH]; intros [|y Y]; simpl; auto. now rewrite vmat_padd, IH.
Qed.
Lemma mmul_mscale_r L c X : Rmmul L (Rmscale c X) = Rmscale c (Rmmul L X).
Proof.
  unfold mmul, mscale at 2. rewrite map_map. apply map_ext. intros row. apply vmat_mscale.
Qed.
Lemma mmul_mscale_l c X N : Rmmul (Rmscale c X) N = Rmscale c (Rmmul X N).
Proof.
  unfold mmul, mscale. rewrite !map_map. apply map_ext. intros row. apply vmat_pscale.
Qed.
Lemma mmul_msum_r L x l : Rmmul L (msum RRing (x :: l)) = msum RRing (map (Rmmul L) (x :: l)).
Proof.
  revert x; induction l as [|y l IH]; intros x.
  - simpl. now rewrite !madd_nil_r.
  - change (msum RRing (x :: y :: l)) with (Rmadd x (msum RRing (y :: l))).
    rewrite mmul_madd_r, IH. reflexivity.
Qed.
Lemma mmul_msum_l N x l : Rmmul (msum RRing (x :: l)) N = msum RRing (map (fun M => Rmmul M N) (x :: l)).
Proof.
  revert x; induction l as [|y l IH]; intros x.
  - simpl. now rewrite !madd_nil_r.
  - change (msum RRing (x :: y :: l)) with (Rmadd x (msum RRing (y :: l))).
    rewrite mmul_madd_l, IH. reflexivity.
Qed.

(* ---------- 4x4 matrices ---------- *)
Definition wf4 (M : list (list R)) : Prop := length M = 4%nat /\ Forall (fun r => length r = 4%nat) M.
Definition M4 (a b c d e f g h i j k l m n o p : R) : list (list R) :=
  [[a; b; c; d]; [e; f; g; h]; [i; j; k; l]; [m; n; o; p]].
Lemma len4_inv (r : list R) : length r = 4%nat -> exists a b c d, r = [a; b; c; d].
Proof. destruct r as [|a [|b [|c [|d [|]]]]]; simpl; try discriminate. intros _. now exists a, b, c, d. Qed.
Lemma wf4_inv M : wf4 M -> exists a b c d e f g h i j k l m n o p, M = M4 a b c d e f g h i j k l m n o p.
Proof.
  intros [HL HF]. destruct M as [|r1 [|r2 [|r3 [|r4 [|]]]]]; simpl in HL; try discriminate.
  inversion HF as [|? ? H1 HF1]; subst. inversion HF1 as [|? ? H2 HF2]; subst.
  inversion HF2 as [|? ? H3 HF3]; subst. inversion HF3 as [|? ? H4 _]; subst.
  destruct (len4_inv _ H1) as (a & b & c & d & ->). destruct (len4_inv _ H2) as (e & f & g & h & ->).
  destruct (len4_inv _ H3) as (i & j & k & l & ->). destruct (len4_inv _ H4) as (m & n & o & p & ->).
  now exists a, b, c, d, e, f, g, h, i, j, k, l, m, n, o, p.
Qed.
Lemma wf4_M4 a b c d e f g h i j k l m n o p : wf4 (M4 a b c d e f g h i j k l m n o p).
Proof. split; [reflexivity|repeat constructor]. Qed.

Ltac list_eq :=
  repeat match goal with
         | |- cons _ _ = cons _ _ => apply (f_equal2 (@cons _))
         | |- nil = nil => reflexivity
         end.
Ltac explicit4 H := apply wf4_inv in H; destruct H as (? & ? & ? & ? & ? & ? & ? & ? & ? & ? & ? & ? & ? & ? & ? & ? & ->).

Lemma mmul_wf4 A B : wf4 A -> wf4 B -> wf4 (Rmmul A B).
Proof. intros HA HB. explicit4 HA. explicit4 HB. split; [reflexivity|repeat constructor]. Qed.
Lemma ident4_wf : wf4 (ident RRing 4). Proof. split; [reflexivity|repeat constructor]. Qed.
Lemma mmul_ident_l A : wf4 A -> Rmmul (ident RRing 4) A = A.
Proof. intros HA. explicit4 HA. unfold M4. cbn. list_eq; ring. Qed.
Lemma mmul_ident_r A : wf4 A -> Rmmul A (ident RRing 4) = A.
Proof. intros HA. explicit4 HA. unfold M4. cbn. list_eq; ring. Qed.
Lemma mmul_assoc4 A B C : wf4 A -> wf4 B -> wf4 C -> Rmmul (Rmmul A B) C = Rmmul A (Rmmul B C).
Proof. intros HA HB HC. explicit4 HA. explicit4 HB. explicit4 HC. unfold M4. cbn. list_eq; ring. Qed.

(* mixed-product property for 4x4 ⊗ 4x4, row by row *)
Definition krow (a b : list R) : list R := flat_map (fun x => Rscale x b) a.
Lemma krow_mixed arow brow C D : length arow = 4%nat -> length brow = 4%nat -> wf4 C -> wf4 D ->
  Rvmat (krow arow brow) (Rkron C D) = krow (Rvmat arow C) (Rvmat brow D).
Proof.
  intros Ha Hb HC HD. apply len4_inv in Ha as (a1 & a2 & a3 & a4 & ->).
  apply len4_inv in Hb as (b1 & b2 & b3 & b4 & ->). explicit4 HC. explicit4 HD.
  unfold M4, krow. cbn. list_eq; ring.
Qed.
Lemma kron_mixed4 A B C D : wf4 A -> wf4 B -> wf4 C -> wf4 D ->
  Rmmul (Rkron A B) (Rkron C D) = Rkron (Rmmul A C) (Rmmul B D).
Proof.
  intros [_ HA] [_ HB] HC HD. unfold mmul at 1 2 3.
  change (Rkron A B) with (flat_map (fun arow => map (fun brow => krow arow brow) B) A).
  change (Rkron (map (fun row => Rvmat row C) A) (map (fun row => Rvmat row D) B))
    with (flat_map (fun arow => map (fun brow => krow arow brow) (map (fun row => Rvmat row D) B))
                   (map (fun row => Rvmat row C) A)).
  induction A as [|arow A IH]; [reflexivity|].
  inversion HA as [|? ? Ha HA']; subst. cbn [flat_map map]. rewrite map_app, (IH HA'). f_equal.
  rewrite !map_map. apply map_ext_in. intros brow Hin.
  rewrite Forall_forall in HB. apply krow_mixed; auto.
Qed.

(* Proofs/DecomposeAuditP.v — C14, corrections after the proof audit: default-free splice under a shape premise,
   positional "others kept", the index-outside carve-out made explicit, the setter invariant for 2q gates. *)
From CKT Require Import Common.Base Common.Circ Model.Decompose Model.DecomposeEq Proofs.DecomposeP.

(* ====================================================================== *)
(* A. shapes: under wf_shape the splice never uses an index default        *)
(* ====================================================================== *)

Definition spec_strict (env : benv) (nc : nat) (c1 : circ) : circ * nat :=
  let s := flat_map (splice_strict env) c1 in
  (measures_numbered nc s, Nat.max 1 (count_markers s)).

Lemma splice_strict_eq env i : shape_ok i = true -> goodb env i = true -> splice_strict env i = splice env i.
Proof.
  unfold shape_ok, goodb, wfb, has_bid, splice_strict, splice, ops_on, on_qubit. destruct i as [o qs cs]; simpl.
  destruct o as [| | | | | |b [m|] l|b h [m|] l|]; simpl; intros Hs Hg; try reflexivity;
    try (destruct qs as [|? [|? [|? ?]]]; reflexivity).
  - rewrite andb_true_r in Hg. apply Nat.ltb_lt in Hg. apply Nat.eqb_eq in Hs.
    destruct qs as [|q0 [|q1 [|? ?]]]; simpl in Hs; try lia.
    unfold benv, basis in *. rewrite (nth_error_nth' _ ([], []) Hg). reflexivity.
  - rewrite andb_true_r in Hg. apply Nat.ltb_lt in Hg. apply andb_prop in Hs as [Hq Hh].
    apply Nat.eqb_eq in Hq. apply Nat.ltb_lt in Hh.
    destruct qs as [|q0 [|? ?]]; simpl in Hq; try lia.
    unfold benv, basis in *. destruct h as [|[|h]]; [| |lia]; rewrite (nth_error_nth' _ ([], []) Hg); reflexivity.
  - destruct h as [|[|h]]; reflexivity.
Qed.

Lemma flat_map_strict_eq env c1 :
  forallb shape_ok c1 = true -> Forall (fun x => goodb env x = true) c1 ->
  flat_map (splice_strict env) c1 = flat_map (splice env) c1.
Proof.
  induction c1 as [|x c1 IH]; simpl; intros Hs Hg; [reflexivity|].
  apply andb_prop in Hs as [Hx Hc]. inversion Hg; subst. now rewrite (splice_strict_eq env x Hx), IH.
Qed.

Lemma shape_ok_set_bid m i : shape_ok (set_bid m i) = shape_ok i.
Proof. unfold shape_ok, set_bid; simpl. destruct (iop i); reflexivity. Qed.

Lemma wf_shape_assign c ids maps : wf_shape c = true -> wf_shape (assign c ids maps) = true.
Proof.
  intros H. destruct maps as [ms|]; [|exact H]. unfold wf_shape, assign, assign_gm in *.
  apply forallb_forall. intros x Hx. apply In_nth_error in Hx as (n & Hn). rewrite nth_error_mapi in Hn. simpl in Hn.
  destruct (nth_error c n) as [y|] eqn:Ey; [|discriminate]. simpl in Hn. inversion Hn; subst x.
  rewrite forallb_forall in H. pose proof (H y (nth_error_In _ _ Ey)) as Hy.
  destruct (chosen _ n); [now rewrite shape_ok_set_bid|exact Hy].
Qed.

(* c14_splice, stated with the default-free splice *)
Theorem decompose_splice_strict env c nc ids ms :
  valid env c ids ms -> wf_shape c = true ->
  decompose env c nc ids (Some (map Some ms)) = Ok (spec_strict env nc (assign c ids (Some ms))).
Proof.
  intros Hv Hs. rewrite (decompose_splice env c nc ids ms Hv). unfold spec, spec_strict.
  now rewrite (flat_map_strict_eq env _ (wf_shape_assign c ids (Some ms) Hs) (assign_good env c ids ms Hv)).
Qed.

(* the decision theorem with the default-free splice *)
Theorem decompose_decided_strict env c nc ids maps :
  ids_in_range c ids -> forallb (wfb env) c = true -> wf_shape c = true ->
  decompose env c nc ids maps =
  if accepts env c ids maps then Ok (spec_strict env nc (assigned c ids maps)) else Refused.
Proof.
  intros Hr Hw Hs. rewrite (decompose_decided env c nc ids maps Hr Hw).
  destruct (accepts env c ids maps) eqn:Ea; [|reflexivity]. unfold spec, spec_strict.
  unfold accepts in Ea. apply andb_prop in Ea as [Ea Hb]. apply andb_prop in Ea as [_ Em].
  assert (Hsa : forallb shape_ok (assigned c ids maps) = true).
  { unfold assigned. destruct maps as [mos|]; [|exact Hs]. destruct (all_some mos) as [ms|]; [|exact Hs].
    exact (wf_shape_assign c ids (Some ms) Hs). }
  assert (Hwa : forallb (wfb env) (assigned c ids maps) = true).
  { unfold assigned. destruct maps as [mos|]; [|exact Hw]. destruct (all_some mos) as [ms|]; [|exact Hw].
    apply andb_prop in Em as [_ Em]. exact (assign_wfb env c _ Hw Em). }
  rewrite flat_map_strict_eq; [reflexivity|exact Hsa|].
  apply Forall_forall. intros x Hx. unfold goodb. rewrite forallb_forall in Hwa, Hb. now rewrite (Hwa x Hx), (Hb x Hx).
Qed.

(* ====================================================================== *)
(* B. the other instructions are kept AT THEIR PLACE (positional)          *)
(* ====================================================================== *)

Lemma firstn_length_app {A} (l1 l2 : list A) : firstn (length l1) (l1 ++ l2) = l1.
Proof. induction l1 as [|x l1 IH]; simpl; [now destruct l2|now rewrite IH]. Qed.

Theorem others_at_position env c nc ids ms out k :
  valid env c ids ms -> decompose env c nc ids (Some (map Some ms)) = Ok (out, k) ->
  let c1 := assign c ids (Some ms) in
  (* the instruction at index p of the input that is neither placeholder nor marker is found, itself, at the output
     index = total length of what the p instructions before it became *)
  (forall p x, nth_error c p = Some x -> is_other x = true ->
     nth_error out (length (flat_map (splice env) (firstn p c1))) = Some x) /\
  (* and the output positions selected by keep_mask (true exactly at those places) are the others of the input, in order *)
  length (keep_mask env c1) = length out /\ select (keep_mask env c1) out = filter is_other c.
Proof.
  intros Hv H. cbv zeta. rewrite (decompose_splice env c nc ids ms Hv) in H.
  unfold spec, measures_numbered in H. inversion H as [[Ho Hk]]; clear H Hk. clear k.
  split.
  - intros p x Hp Hox. unfold is_other in Hox. apply andb_prop in Hox as [Hq Hm]. apply negb_true_iff in Hq, Hm.
    pose proof (assign_other c ids (Some ms) p x Hp Hq) as Hp1.
    destruct (nth_error_split _ p Hp1) as (l1 & l2 & E & Hl). subst p. change (assign_gm c (combine ids ms)) with (assign c ids (Some ms)). rewrite E.
    rewrite firstn_length_app, flat_map_app. simpl. rewrite (splice_other env x Hq).
    rewrite measures_from_nth. rewrite nth_error_app2 by lia. rewrite Nat.sub_diag. simpl. now rewrite Hm.
  - destruct (keep_mask_spec env (assign c ids (Some ms)) nc) as [Hl Hs]. split; [exact Hl|].
    etransitivity; [exact Hs|apply assign_others].
Qed.

(* ====================================================================== *)
(* C. an index outside the circuit: the model (like the code: IndexError) does not refuse                      *)
(* ====================================================================== *)

Theorem index_outside_not_ok env c nc ids maps :
  (exists g p, In g ids /\ In p g /\ length c <= p) ->
  decompose env c nc ids maps = Refused \/ decompose env c nc ids maps = Crashed.
Proof.
  intros (g & p & Hg & Hp & Hl). unfold decompose.
  destruct (validate c ids) as [[]| |] eqn:Ev; [|now left|now right].
  exfalso. apply validate_ok in Ev as (HF & _). rewrite Forall_forall in HF.
  destruct (HF g Hg) as (_ & b & Hb). destruct (Hb p Hp) as (i & Hi & _).
  assert (p < length c) by (apply nth_error_Some; congruence). lia.
Qed.

Theorem index_outside_single_crashes env c nc p maps :
  length c <= p -> decompose env c nc [[p]] maps = Crashed.
Proof.
  intros Hl. unfold decompose, validate. simpl. unfold validate_group. simpl.
  now rewrite (proj2 (nth_error_None c p) Hl).
Qed.

(* ====================================================================== *)
(* D. the setter establishes wfb for two-qubit gates as well               *)
(* ====================================================================== *)

Theorem setter_wfb2 env b m l qs cs :
  setter env b (Z.of_nat m) = Ok tt <-> wfb env (mkI (Qpd2 b (Some m) l) qs cs) = true.
Proof.
  rewrite (proj1 (setter_spec env b (Z.of_nat m))). unfold wfb; simpl. rewrite Nat.ltb_lt.
  unfold benv, basis in *. lia.
Qed.

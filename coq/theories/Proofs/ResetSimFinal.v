(* Proofs/ResetSimFinal.v — _remove_final_resets in ANY branch semantics satisfying the commutation laws
   [commute_laws]: the branch list of c is, up to the ORDER of the branches, the branch list of
   (remove_final_resets nq c) followed by the removed resets.  No Herbrand terms, no M1. *)
From Coq Require Import Lia ZifyBool Permutation.
From CKT Require Import Common.Base Common.Circ Model.ResetPasses Model.ResetSim
  Proofs.ResetPassesP Proofs.ResetPassesSem Proofs.ResetPassesDag.

Section Final.
  Variable state : Type.
  Variable apply : nat -> list nat -> state -> state.
  Variable proj : state -> nat -> bool -> state.
  Variable flipx : state -> nat -> state.
  Hypothesis CL : commute_laws apply proj flipx.

  Notation bstep := (bstep apply proj flipx).
  Notation bsteps := (bsteps apply proj flipx).
  Notation brun := (brun apply proj flipx).
  Notation branch := (branch state).

  Lemma bsteps_perm x (l l' : list branch) : Permutation l l' -> Permutation (bsteps x l) (bsteps x l').
  Proof. unfold ResetSim.bsteps. apply Permutation_flat_map. Qed.

  Lemma brun_perm c : forall l l' : list branch, Permutation l l' -> Permutation (brun c l) (brun c l').
  Proof.
    induction c as [|x c IH]; intros l l' P; [assumption|].
    unfold ResetSim.brun in *. simpl. apply IH. now apply bsteps_perm.
  Qed.

  Lemma brun_app_c a b (l : list branch) : brun (a ++ b) l = brun b (brun a l).
  Proof. unfold ResetSim.brun. apply fold_left_app. Qed.

  (* a reset of q commutes with one instruction that does not touch q, on one branch *)
  Lemma comm_branch nq nc r x q (b : branch) : is_reset r = true -> iqs r = [q] ->
    wf_instr nq nc x = true -> on_wire q x = false ->
    Permutation (bsteps x (bstep r b)) (bsteps r (bstep x b)).
  Proof.
    intros R Eq W O. destruct CL as [C1 C2 C3 C4 C5]. destruct b as [k s].
    assert (Nq : ~ In q (iqs x)) by now apply on_wire_false.
    unfold ResetSim.bsteps, ResetSim.bstep. rewrite (is_reset_iop _ R), Eq.
    destruct (iop x) eqn:Eo; cbn [flat_map app fst snd]; rewrite ?app_nil_r; try reflexivity.
    - (* gate *) rewrite !C1 by assumption. rewrite !C2 by assumption. reflexivity.
    - (* measure *)
      destruct (iqs x) as [|q' rr] eqn:Eqs; [cbn [flat_map app fst snd]; rewrite ?app_nil_r; reflexivity|].
      destruct (ics x) as [|c rc]; [cbn [flat_map app fst snd]; rewrite ?app_nil_r; reflexivity|].
      assert (N : q <> q') by (intros ->; apply Nq; now left).
      cbn [flat_map app fst snd].
      rewrite !(C3 q q') by assumption. rewrite !(C4 q q') by assumption.
      apply perm_skip. apply perm_swap.
    - (* reset on another qubit *)
      assert (Rx : is_reset x = true) by (unfold is_reset; now rewrite Eo).
      destruct (wf_reset _ _ _ W Rx) as [Ex _]. rewrite Ex.
      assert (N : q <> rq x) by (intros E; apply Nq; rewrite Ex, E; now left).
      cbn [flat_map app fst snd].
      assert (N' : rq x <> q) by congruence.
      rewrite <- !(C4 (rq x) q) by assumption.
      rewrite <- !(C4 q (rq x)) by assumption.
      rewrite !(C3 q (rq x)) by assumption.
      rewrite (C5 q (rq x)) by assumption.
      apply perm_skip. apply perm_swap.
  Qed.

  Lemma comm_step nq nc r x q (l : list branch) : is_reset r = true -> iqs r = [q] ->
    wf_instr nq nc x = true -> on_wire q x = false ->
    Permutation (bsteps x (bsteps r l)) (bsteps r (bsteps x l)).
  Proof.
    intros R Eq W O. induction l as [|b l IH]; [reflexivity|].
    change (b :: l) with ([b] ++ l).
    unfold ResetSim.bsteps in *. rewrite !flat_map_app. apply Permutation_app; [|exact IH].
    cbn [flat_map]. rewrite !app_nil_r. now apply (comm_branch nq nc r x q b).
  Qed.

  (* ... and with a whole block that does not touch q *)
  Lemma comm_block nq nc r q A : is_reset r = true -> iqs r = [q] ->
    wf nq nc A = true -> (forall y, In y A -> on_wire q y = false) ->
    forall B (l : list branch), Permutation (brun (r :: A ++ B) l) (brun (A ++ r :: B) l).
  Proof.
    intros R Eq. induction A as [|x A IH]; intros W NA B l; [reflexivity|].
    apply wf_cons in W as [Wx W].
    change (brun (r :: (x :: A) ++ B) l) with (brun (A ++ B) (bsteps x (bsteps r l))).
    change (brun ((x :: A) ++ r :: B) l) with (brun (A ++ r :: B) (bsteps x l)).
    eapply Permutation_trans; [apply brun_perm; apply (comm_step nq nc r x q l R Eq Wx); apply NA; now left|].
    apply (IH W (fun y I => NA y (or_intror I)) B (bsteps x l)).
  Qed.

  (* the instructions FE deletes, in program order *)
  Fixpoint FD (f : list bool) (c : circ) : circ :=
    match c with
    | [] => []
    | x :: r => if is_reset x && nth (rq x) f false && dead (rq x) r then x :: FD f r else FD f r
    end.

  (* what FE keeps of a block whose instructions on wire q are all resets (with q flagged) does not touch q *)
  Lemma FE_dead_untouched nq nc f q r : wf nq nc r = true -> nth q f false = true -> dead q r = true ->
    forall y, In y (FE f r) -> on_wire q y = false.
  Proof.
    induction r as [|x r IH]; intros W F D y I; [destruct I|].
    apply wf_cons in W as [Wx W]. unfold dead in D. simpl in D. apply andb_prop in D as [Dx D].
    cbn [FE] in I.
    destruct (is_reset x) eqn:R.
    - cbn [andb] in I. destruct (nth (rq x) f false && dead (rq x) r) eqn:C.
      + now apply (IH W F D).
      + destruct I as [<-|I]; [|now apply (IH W F D)].
        rewrite (wf_reset_on_wire _ _ _ q Wx R). destruct (Nat.eqb_spec q (rq x)) as [->|]; [|reflexivity].
        rewrite F in C. simpl in C. unfold dead in C. congruence.
    - simpl in I. simpl in Dx. destruct I as [<-|I]; [now apply negb_true_iff in Dx|now apply (IH W F D)].
  Qed.

  Lemma FE_only_resets f c : del_resets c (FE f c).
  Proof.
    induction c as [|x r IH]; cbn [FE]; [constructor|].
    destruct (is_reset x) eqn:R; cbn [andb]; [|now apply dr_keep].
    destruct (nth (rq x) f false && dead (rq x) r); [now apply dr_drop|now apply dr_keep].
  Qed.

  Theorem FE_sim nq nc c : wf nq nc c = true -> forall f (l : list branch),
    Permutation (brun c l) (brun (FE f c ++ FD f c) l).
  Proof.
    induction c as [|x r IH]; intros W f l; [reflexivity|].
    apply wf_cons in W as [Wx W]. cbn [FE FD].
    destruct (is_reset x && nth (rq x) f false && dead (rq x) r) eqn:C.
    - apply andb_prop in C as [C D]. apply andb_prop in C as [R F].
      destruct (wf_reset _ _ _ Wx R) as [Eq _].
      change (brun (x :: r) l) with (brun r (bsteps x l)).
      eapply Permutation_trans; [apply (IH W f)|].
      change (brun (FE f r ++ FD f r) (bsteps x l)) with (brun (x :: FE f r ++ FD f r) l).
      apply (comm_block nq nc x (rq x) (FE f r) R Eq).
      + eapply del_resets_wf; [apply FE_only_resets|exact W].
      + now apply (FE_dead_untouched nq nc f (rq x) r W F D).
    - change (brun (x :: r) l) with (brun r (bsteps x l)).
      change (brun ((x :: FE f r) ++ FD f r) l) with (brun (FE f r ++ FD f r) (bsteps x l)).
      apply (IH W f).
  Qed.

  (* ---- FD is the model's [final_removed] ---- *)
  Lemma FD_snoc_reset f c x : is_reset x = true ->
    FD f (c ++ [x]) = FD f c ++ (if nth (rq x) f false then [x] else []).
  Proof.
    intros R. induction c as [|y c IH]; simpl.
    - rewrite R. simpl. rewrite andb_true_r. destruct (nth (rq x) f false); reflexivity.
    - rewrite IH, dead_app. unfold dead at 2. simpl. rewrite R. simpl. rewrite andb_true_r.
      destruct (is_reset y && nth (rq y) f false && dead (rq y) c); reflexivity.
  Qed.

  Lemma FD_snoc_other f c x : is_reset x = false ->
    FD f (c ++ [x]) = FD (set_flags f (iqs x) false) c.
  Proof.
    intros R. induction c as [|y c IH]; simpl.
    - now rewrite R.
    - rewrite IH, dead_app. unfold dead at 2. simpl. rewrite R. simpl. rewrite andb_true_r.
      rewrite set_flags_nth. fold (on_wire (rq y) x).
      assert (E : nth (rq y) f false && (dead (rq y) c && negb (on_wire (rq y) x))
                = (if on_wire (rq y) x && Nat.ltb (rq y) (length f) then false else nth (rq y) f false)
                  && dead (rq y) c).
      { destruct (on_wire (rq y) x); simpl.
        - rewrite !andb_false_r. destruct (Nat.ltb_spec (rq y) (length f)); [reflexivity|].
          rewrite nth_overflow by assumption. reflexivity.
        - now rewrite andb_true_r. }
      rewrite <- !andb_assoc, E, !andb_assoc.
      destruct (is_reset y && _ && dead (rq y) c); reflexivity.
  Qed.

  Lemma FD_no_flags f c : (forall q, nth q f false = false) -> FD f c = [].
  Proof.
    intros H. induction c as [|x r IH]; simpl; [reflexivity|].
    rewrite H, andb_false_r. simpl. exact IH.
  Qed.

  Lemma fmask_FD f rc : rev (sel_mask (fmask f rc) rc) = FD f (rev rc).
  Proof.
    revert f; induction rc as [|x r IH]; intros f; [reflexivity|]. cbn [fmask rev].
    destruct (is_reset x) eqn:R.
    - rewrite (FD_snoc_reset _ _ _ R), <- IH.
      destruct (nth (rq x) f false); cbn [sel_mask rev]; [reflexivity|now rewrite app_nil_r].
    - rewrite (FD_snoc_other _ _ _ R). cbv zeta.
      destruct (Nat.eqb _ 0) eqn:Z; cbn [sel_mask rev].
      + rewrite sel_mask_repeat_false. symmetry. apply FD_no_flags.
        intros q. apply count_true_0. now apply Nat.eqb_eq.
      + now rewrite IH.
  Qed.

  Lemma final_removed_FD nq c : final_removed nq c = FD (repeat true nq) c.
  Proof.
    unfold final_removed. rewrite final_scan_mask, map_map.
    set (m := fmask (repeat true nq) (rev c)).
    assert (Lm : length m = length c) by (unfold m; now rewrite fmask_length, rev_length).
    assert (E : map (fun j => nth (length c - 1 - j) c dummy_instr) (ids_of_mask 0 m) = sel_mask m (rev c)).
    { rewrite <- (nth_ids_sel dummy_instr m [] (rev c)) by (rewrite rev_length; lia).
      apply map_ext_in. intros j Hj. apply ids_ge in Hj. simpl in *. rewrite rev_nth by lia. f_equal. lia. }
    rewrite E. unfold m. rewrite fmask_FD. now rewrite rev_involutive.
  Qed.

  Theorem final_sim nq nc c (l : list branch) : wf nq nc c = true ->
    Permutation (brun c l) (brun (remove_final_resets nq c ++ final_removed nq c) l).
  Proof. intros W. rewrite final_as_FE, final_removed_FD. now apply (FE_sim nq nc). Qed.
End Final.

(* packaged for the property file: on the property's domain *)
Theorem laws_final (state : Type) apply proj flipx : @commute_laws state apply proj flipx ->
  forall nq nc c (l : list (branch state)), wf nq nc c = true -> simple c = true ->
  Permutation (brun apply proj flipx c l)
              (brun apply proj flipx (remove_final_resets nq c ++ final_removed nq c) l).
Proof. intros CL nq nc c l W _. now apply (final_sim state apply proj flipx CL nq nc). Qed.

(* the laws are consistent (trivial one-point state space; a non-trivial instance is NOT proved in Coq) *)
Lemma commute_laws_unit : commute_laws (fun (_ : nat) (_ : list nat) (s : unit) => s) (fun s _ _ => s) (fun s _ => s).
Proof. constructor; reflexivity. Qed.

(* Proofs/ResetPassesSem.v — Herbrand-semantics lemmas and the semantic theorems for the three
   list passes of Model/ResetPasses.v. *)
From Coq Require Import Lia ZifyBool.
From CKT Require Import Common.Base Common.Circ Common.Herbrand Model.ResetPasses Proofs.ResetPassesP.

(* ------------------------------------------------------------------------------------------ *)
(* Herbrand lemmas *)

Lemma is_reset_iop x : is_reset x = true -> iop x = Reset.
Proof. unfold is_reset. destruct (iop x); congruence. Qed.

Lemma not_reset_iop x : is_reset x = false -> iop x <> Reset.
Proof. unfold is_reset. intros H E. rewrite E in H. discriminate. Qed.

Lemma is_reset_not_creates x : is_reset x = true -> creates_term x = false.
Proof. intros H. unfold creates_term. now rewrite (is_reset_iop _ H). Qed.

Lemma hstep_reset s n x : is_reset x = true ->
  hstep s (n, x) = match iqs x with q :: _ => mkH (upd (hw s) q Zero) (hc s) | [] => s end.
Proof. intros H. unfold hstep. now rewrite (is_reset_iop _ H). Qed.

(* a reset of a wire that is already |0> is the identity *)
Lemma hstep_reset_zero s n x : is_reset x = true -> iqs x <> [] -> wire s (rq x) = Zero -> hstep s (n, x) = s.
Proof.
  intros R N Z. rewrite hstep_reset by assumption. unfold rq, wire in Z.
  destruct (iqs x) as [|q r]; [congruence|]. simpl in Z.
  rewrite <- Z, upd_same_id. now destruct s.
Qed.

Lemma hstep_reset_wire s n x j : is_reset x = true -> iqs x <> [] ->
  wire (hstep s (n, x)) j = if Nat.eqb j (rq x) then Zero else wire s j.
Proof.
  intros R N. rewrite hstep_reset by assumption. unfold rq, wire.
  destruct (iqs x) as [|q r]; [congruence|]. simpl. rewrite nth_upd_eq.
  destruct (Nat.eqb_spec j q) as [->|_]; simpl; [|reflexivity].
  destruct (Nat.ltb_spec q (length (hw s))); [reflexivity|]. now apply nth_overflow.
Qed.

Lemma hstep_reset_hc s n x : is_reset x = true -> hc (hstep s (n, x)) = hc s.
Proof. intros R. rewrite hstep_reset by assumption. now destruct (iqs x). Qed.

Lemma hrun_wlen s c : length (hw (hrun s c)) = length (hw s).
Proof.
  revert s; induction c as [|ti c IH]; intros s; [reflexivity|].
  unfold hrun in *. simpl. now rewrite IH, hstep_wlen.
Qed.

Lemma hrun_cons s ti c : hrun s (ti :: c) = hrun (hstep s ti) c.
Proof. reflexivity. Qed.

Definition ntags (c : circ) : nat := length (filter creates_term c).

Lemma tag_from_cons n x c :
  tag_from n (x :: c) = (n, x) :: tag_from (if creates_term x then S n else n) c.
Proof. simpl. destruct (creates_term x); reflexivity. Qed.

Lemma tag_from_app n a b : tag_from n (a ++ b) = tag_from n a ++ tag_from (n + ntags a) b.
Proof.
  revert n; induction a as [|x a IH]; intros n; simpl.
  - now rewrite Nat.add_0_r.
  - unfold ntags in *. simpl. destruct (creates_term x); simpl; rewrite IH; [rewrite Nat.add_succ_comm|]; reflexivity.
Qed.

Lemma del_resets_ntags a b : del_resets a b -> ntags b = ntags a.
Proof.
  unfold ntags. intros H; induction H as [|x a b H IH|x a b R H IH]; simpl.
  - reflexivity.
  - destruct (creates_term x); simpl; now rewrite IH.
  - now rewrite (is_reset_not_creates _ R).
Qed.

Lemma set_outputs_nth_cong inst g args qs k w w' j :
  length w = length w' -> nth j w Zero = nth j w' Zero ->
  nth j (set_outputs inst g args qs k w) Zero = nth j (set_outputs inst g args qs k w') Zero.
Proof.
  revert k w w'; induction qs as [|q r IH]; intros k w w' L E; simpl; [assumption|].
  apply IH; [now rewrite !upd_length|]. rewrite !nth_upd_eq, L, E. reflexivity.
Qed.

(* an instruction acts the same way on two states that agree on its argument wires *)
Lemma hstep_cong s s' t i :
  length (hw s) = length (hw s') -> hc s = hc s' ->
  (forall q, In q (iqs i) -> wire s q = wire s' q) ->
  hc (hstep s (t, i)) = hc (hstep s' (t, i)) /\
  forall j, wire s j = wire s' j -> wire (hstep s (t, i)) j = wire (hstep s' (t, i)) j.
Proof.
  intros L C A.
  assert (M : map (wire s) (iqs i) = map (wire s') (iqs i)) by (apply map_ext_in; exact A).
  unfold hstep, wire in *. destruct (iop i); simpl.
  - rewrite M. split; [assumption|]. intros j E. now apply set_outputs_nth_cong.
  - split; auto.
  - destruct (iqs i) as [|q r]; [split; auto|]. destruct (ics i) as [|c r']; [split; auto|].
    simpl. rewrite (A q (or_introl eq_refl)), C. split; [reflexivity|].
    intros j E. rewrite !nth_upd_eq, L, E. reflexivity.
  - destruct (iqs i) as [|q r]; simpl; [split; auto|]. split; [assumption|].
    intros j E. rewrite !nth_upd_eq, L, E. reflexivity.
  - split; auto.
  - destruct (iqs i) as [|a [|b r]]; simpl; try (split; auto; fail). split; [assumption|].
    intros j E. rewrite !nth_upd_eq, !upd_length, L, E.
    rewrite (A a (or_introl eq_refl)). reflexivity.
  - rewrite M. split; [assumption|]. intros j E. now apply set_outputs_nth_cong.
  - rewrite M. split; [assumption|]. intros j E. now apply set_outputs_nth_cong.
  - destruct (iqs i) as [|q r]; simpl; [split; auto|]. split; [assumption|].
    intros j E. rewrite !nth_upd_eq, L, E. rewrite (A q (or_introl eq_refl)). reflexivity.
Qed.

Lemma hstate_ext s s' : length (hw s) = length (hw s') -> hc s = hc s' ->
  (forall j, wire s j = wire s' j) -> s = s'.
Proof.
  destruct s as [w c], s' as [w' c']; simpl. unfold wire; simpl. intros L -> E. f_equal.
  apply (nth_ext w w' Zero Zero L). intros n _. apply E.
Qed.

(* well-formedness, unpacked *)
Lemma wf_cons nq nc x c : wf nq nc (x :: c) = true -> wf_instr nq nc x = true /\ wf nq nc c = true.
Proof. unfold wf. simpl. apply andb_prop. Qed.

Lemma wf_qubits nq nc x q : wf_instr nq nc x = true -> In q (iqs x) -> q < nq.
Proof.
  unfold wf_instr. intros W I. apply andb_prop in W as [W _]. apply andb_prop in W as [W _].
  rewrite forallb_forall in W. apply W in I. now apply Nat.ltb_lt.
Qed.

Lemma wf_reset nq nc x : wf_instr nq nc x = true -> is_reset x = true ->
  iqs x = [rq x] /\ ics x = [] /\ rq x < nq.
Proof.
  intros W R. pose proof (wf_qubits _ _ _ (rq x) W) as Q.
  unfold wf_instr in W. rewrite (is_reset_iop _ R) in W.
  apply andb_prop in W as [_ W]. apply andb_prop in W as [W1 W2].
  apply Nat.eqb_eq in W1. apply Nat.eqb_eq in W2. unfold rq in *.
  destruct (iqs x) as [|q [|? ?]]; try discriminate. destruct (ics x); try discriminate. simpl in *.
  repeat split. apply Q. now left.
Qed.

Lemma wf_reset_eq nq nc x : wf_instr nq nc x = true -> is_reset x = true -> x = mkI Reset [rq x] [].
Proof.
  intros W R. destruct (wf_reset _ _ _ W R) as [E1 [E2 _]]. pose proof (is_reset_iop _ R) as E0.
  destruct x as [o qs cs]. simpl in *. unfold rq in *. simpl in *. subst o cs.
  destruct qs as [|q [|? ?]]; try discriminate. reflexivity.
Qed.

Lemma wf_reset_on_wire nq nc x q : wf_instr nq nc x = true -> is_reset x = true ->
  on_wire q x = Nat.eqb q (rq x).
Proof.
  intros W R. destruct (wf_reset _ _ _ W R) as [E _]. unfold on_wire. rewrite E. simpl. now rewrite orb_false_r.
Qed.

(* ------------------------------------------------------------------------------------------ *)
(* _consolidate_resets: a reset is removed only where its wire is already |0>; every intermediate
   state is unchanged *)

Lemma cmask_sem nq nc c : wf nq nc c = true -> forall f n s,
  (forall q, nth q f false = true -> wire s q = Zero) ->
  hrun s (tag_from n (drop_mask (cmask f c) c)) = hrun s (tag_from n c).
Proof.
  induction c as [|x r IH]; intros W f n s Inv; [reflexivity|].
  apply wf_cons in W as [Wx W]. specialize (IH W). cbn [cmask].
  destruct (is_reset x) eqn:R.
  - destruct (wf_reset _ _ _ Wx R) as [Eq _].
    assert (N : iqs x <> []) by (rewrite Eq; discriminate).
    destruct (nth (rq x) f false) eqn:F; cbn [drop_mask].
    + rewrite (tag_from_cons n x r), (is_reset_not_creates _ R), hrun_cons.
      rewrite hstep_reset_zero by auto. now apply IH.
    + rewrite !tag_from_cons, (is_reset_not_creates _ R), !hrun_cons. apply IH.
      intros q Hq. rewrite hstep_reset_wire by assumption.
      destruct (Nat.eqb_spec q (rq x)) as [->|Nq]; [reflexivity|].
      apply Inv. now rewrite nth_upd_other in Hq by congruence.
  - cbn [drop_mask]. rewrite !tag_from_cons, !hrun_cons. apply IH.
    intros q Hq. rewrite set_flags_nth in Hq.
    destruct (existsb (Nat.eqb q) (iqs x)) eqn:E.
    + simpl in Hq. destruct (Nat.ltb q (length f)) eqn:Lq; [discriminate|].
      apply Nat.ltb_ge in Lq. rewrite nth_overflow in Hq by assumption. discriminate.
    + simpl in Hq. rewrite (hstep_other_wire s (n, x) q); [now apply Inv|].
      simpl. now apply on_wire_false.
Qed.

Lemma hinit_wire nq nc q : wire (hinit nq nc) q = Zero.
Proof.
  unfold wire, hinit; simpl. destruct (Nat.ltb_spec q nq).
  - apply nth_repeat.
  - apply nth_overflow. now rewrite repeat_length.
Qed.

Lemma nth_repeat_false n q : nth q (repeat false n) false = false.
Proof. destruct (Nat.ltb_spec q n); [apply nth_repeat|apply nth_overflow; now rewrite repeat_length]. Qed.

Theorem consolidate_semantics nq nc c : wf nq nc c = true ->
  denote nq nc (consolidate_resets nq c) = denote nq nc c.
Proof.
  intros W. rewrite consolidate_as_mask. unfold denote, tagc.
  apply (cmask_sem nq nc c W). intros q Hq. now rewrite nth_repeat_false in Hq.
Qed.

(* ------------------------------------------------------------------------------------------ *)
(* _remove_resets_in_zero_state: wires not yet active are still |0> *)

Lemma zmask_sem nq nc c : wf nq nc c = true -> forall f n s, length f = nq ->
  (forall q, nth q f false = false -> wire s q = Zero) ->
  hrun s (tag_from n (drop_mask (zmask f nq c) c)) = hrun s (tag_from n c).
Proof.
  induction c as [|x r IH]; intros W f n s Lf Inv; [reflexivity|].
  apply wf_cons in W as [Wx W]. specialize (IH W). cbn [zmask].
  destruct (is_reset x) eqn:R.
  - destruct (wf_reset _ _ _ Wx R) as [Eq _].
    assert (N : iqs x <> []) by (rewrite Eq; discriminate).
    destruct (nth (rq x) f false) eqn:F; cbn [drop_mask].
    + rewrite !tag_from_cons, (is_reset_not_creates _ R), !hrun_cons. apply IH; [assumption|].
      intros q Hq. rewrite hstep_reset_wire by assumption.
      destruct (Nat.eqb_spec q (rq x)) as [->|Nq]; [reflexivity|]. now apply Inv.
    + rewrite (tag_from_cons n x r), (is_reset_not_creates _ R), hrun_cons.
      rewrite hstep_reset_zero by auto. now apply IH.
  - cbv zeta. destruct (Nat.eqb _ nq); [reflexivity|]. cbn [drop_mask].
    rewrite !tag_from_cons, !hrun_cons. apply IH; [now rewrite set_flags_length|].
    intros q Hq. rewrite set_flags_nth in Hq.
    destruct (existsb (Nat.eqb q) (iqs x)) eqn:E.
    + apply existsb_eqb_In in E. pose proof (wf_qubits _ _ _ _ Wx E) as Lq.
      rewrite <- Lf in Lq. apply Nat.ltb_lt in Lq. rewrite Lq in Hq. discriminate.
    + simpl in Hq. rewrite (hstep_other_wire s (n, x) q); [now apply Inv|].
      simpl. now apply on_wire_false.
Qed.

Theorem zero_semantics nq nc c : wf nq nc c = true ->
  denote nq nc (remove_resets_in_zero_state nq c) = denote nq nc c.
Proof.
  intros W. rewrite zero_as_mask. unfold denote, tagc.
  apply (zmask_sem nq nc c W); [apply repeat_length|]. intros q _. apply hinit_wire.
Qed.

(* ------------------------------------------------------------------------------------------ *)
(* _remove_final_resets: scanning from the end; [rc] is the reversed program *)

Definition fdropped (f : list bool) (rc : circ) : list nat := map rq (sel_mask (fmask f rc) rc).

Lemma fdropped_flag f rc q : In q (fdropped f rc) -> nth q f false = true.
Proof.
  unfold fdropped. revert f; induction rc as [|x r IH]; intros f H; cbn [fmask] in H; [destruct H|].
  destruct (is_reset x).
  - destruct (nth (rq x) f false) eqn:F; cbn [sel_mask map] in H.
    + destruct H as [<-|H]; [assumption|now apply IH].
    + now apply IH.
  - cbv zeta in H. destruct (Nat.eqb _ 0); cbn [sel_mask map] in H.
    + rewrite sel_mask_repeat_false in H. destruct H.
    + apply IH in H. rewrite set_flags_nth in H.
      destruct (existsb (Nat.eqb q) (iqs x) && Nat.ltb q (length f)); [discriminate|assumption].
Qed.

Lemma fdropped_not_touched f x q :
  nth q (set_flags f (iqs x) false) false = true -> ~ In q (iqs x).
Proof.
  rewrite set_flags_nth. intros H I. apply existsb_eqb_In in I. rewrite I in H. simpl in H.
  destruct (Nat.ltb q (length f)) eqn:Lq; [discriminate|].
  apply Nat.ltb_ge in Lq. rewrite nth_overflow in H by assumption. discriminate.
Qed.

Lemma fmask_sem nq nc rc : wf nq nc rc = true -> forall f n s,
  let t := hrun s (tag_from n (rev rc)) in
  let t' := hrun s (tag_from n (rev (drop_mask (fmask f rc) rc))) in
  hc t' = hc t /\ forall q, ~ In q (fdropped f rc) -> wire t' q = wire t q.
Proof.
  induction rc as [|x r IH]; intros W f n s; [split; reflexivity|].
  apply wf_cons in W as [Wx W]. specialize (IH W). cbv zeta. unfold fdropped. cbn [fmask].
  assert (NT : forall f', ntags (rev (drop_mask (fmask f' r) r)) = ntags (rev r)).
  { intros f'. apply del_resets_ntags, del_resets_rev, fmask_only_resets. }
  destruct (is_reset x) eqn:R.
  - destruct (wf_reset _ _ _ Wx R) as [Eq _].
    assert (N : iqs x <> []) by (rewrite Eq; discriminate).
    destruct (IH f n s) as [IHc IHw]. unfold fdropped in IHw.
    destruct (nth (rq x) f false) eqn:F; cbn [drop_mask sel_mask map rev].
    + (* dropped *)
      rewrite (tag_from_app n (rev r) [x]), hrun_app. cbn [tag_from hrun fold_left].
      rewrite (is_reset_not_creates _ R). cbn [fold_left].
      split; [now rewrite hstep_reset_hc|].
      intros q Hq. rewrite hstep_reset_wire by assumption.
      destruct (Nat.eqb_spec q (rq x)) as [->|Nq]; [exfalso; apply Hq; now left|].
      apply IHw. intros I. apply Hq. now right.
    + (* kept: both sides are reset *)
      rewrite !tag_from_app, !hrun_app. cbn [tag_from hrun fold_left].
      rewrite (is_reset_not_creates _ R). cbn [fold_left].
      split; [now rewrite !hstep_reset_hc|].
      intros q Hq. rewrite !hstep_reset_wire by assumption.
      destruct (Nat.eqb q (rq x)); [reflexivity|now apply IHw].
  - cbv zeta. destruct (Nat.eqb _ 0) eqn:Z; cbn [drop_mask sel_mask map rev].
    + rewrite drop_mask_repeat_false. split; reflexivity.
    + destruct (IH (set_flags f (iqs x) false) n s) as [IHc IHw]. unfold fdropped in IHw.
      rewrite !tag_from_app, !hrun_app, NT.
      set (u := hrun s (tag_from n (rev r))) in *.
      set (u' := hrun s (tag_from n (rev (drop_mask (fmask (set_flags f (iqs x) false) r) r)))) in *.
      cbn [tag_from].
      assert (ST : forall (tl : list (nat * instr)) v, hrun v ((n + ntags (rev r), x) :: tl) = hrun (hstep v (n + ntags (rev r), x)) tl) by reflexivity.
      destruct (creates_term x); rewrite !ST; cbn [hrun fold_left].
      all: assert (A : forall q, In q (iqs x) -> wire u' q = wire u q)
             by (intros q I; apply IHw; intros D; apply fdropped_flag in D;
                 now apply fdropped_not_touched in D).
      all: destruct (hstep_cong u' u (n + ntags (rev r)) x) as [Hc Hw];
             [unfold u', u; now rewrite !hrun_wlen|assumption|assumption|].
      all: split; [assumption|]; intros q Hq; apply Hw; now apply IHw.
Qed.

Theorem final_semantics nq nc c : wf nq nc c = true ->
  hc (denote nq nc (remove_final_resets nq c)) = hc (denote nq nc c) /\
  forall q, ~ In q (final_dropped nq c) ->
    wire (denote nq nc (remove_final_resets nq c)) q = wire (denote nq nc c) q.
Proof.
  intros W. rewrite final_as_mask, final_dropped_as_mask. unfold denote, tagc.
  assert (W' : wf nq nc (rev c) = true).
  { unfold wf in *. rewrite forallb_forall in *. intros x I. apply W. now apply in_rev. }
  pose proof (fmask_sem nq nc (rev c) W' (repeat true nq) 0 (hinit nq nc)) as H.
  cbv zeta in H. rewrite rev_involutive in H. exact H.
Qed.

(* the wires excused by the theorem are exactly wires < nq that the ORIGINAL circuit leaves in |0> *)
Lemma fdropped_zero nq nc rc : wf nq nc rc = true -> forall f n s q,
  In q (fdropped f rc) -> wire (hrun s (tag_from n (rev rc))) q = Zero.
Proof.
  induction rc as [|x r IH]; intros W f n s q H; [destruct H|].
  apply wf_cons in W as [Wx W]. specialize (IH W). unfold fdropped in H. cbn [fmask] in H.
  cbn [rev]. rewrite tag_from_app, hrun_app.
  assert (ST : forall v, hrun v (tag_from (n + ntags (rev r)) [x]) = hstep v (n + ntags (rev r), x)).
  { intros v. cbn [tag_from]. destruct (creates_term x); reflexivity. }
  rewrite ST.
  destruct (is_reset x) eqn:R.
  - destruct (wf_reset _ _ _ Wx R) as [Eq _].
    assert (N : iqs x <> []) by (rewrite Eq; discriminate).
    rewrite hstep_reset_wire by assumption.
    destruct (Nat.eqb q (rq x)) eqn:Eqq; [reflexivity|]. apply Nat.eqb_neq in Eqq.
    destruct (nth (rq x) f false); cbn [sel_mask map] in H.
    + destruct H as [E|H]; [congruence|]. now apply (IH f).
    + now apply (IH f).
  - cbv zeta in H. destruct (Nat.eqb _ 0); cbn [sel_mask map] in H.
    + rewrite sel_mask_repeat_false in H. destruct H.
    + pose proof (fdropped_flag _ _ _ H) as Fl. apply fdropped_not_touched in Fl.
      rewrite (hstep_other_wire _ (n + ntags (rev r), x) q) by exact Fl. now apply (IH (set_flags f (iqs x) false)).
Qed.

Theorem final_dropped_zero nq nc c q : wf nq nc c = true -> In q (final_dropped nq c) ->
  q < nq /\ wire (denote nq nc c) q = Zero.
Proof.
  intros W H. rewrite final_dropped_as_mask in H.
  assert (W' : wf nq nc (rev c) = true).
  { unfold wf in *. rewrite forallb_forall in *. intros x I. apply W. now apply in_rev. }
  split.
  - apply fdropped_flag in H. destruct (Nat.ltb_spec q nq); [assumption|].
    rewrite nth_overflow in H by (now rewrite repeat_length). discriminate.
  - pose proof (fdropped_zero nq nc (rev c) W' (repeat true nq) 0 (hinit nq nc) q H) as Z.
    now rewrite rev_involutive in Z.
Qed.

(* the pipeline applied to every generated subexperiment *)
Theorem pipeline_semantics nq nc c : wf nq nc c = true ->
  hc (denote nq nc (optimise_resets nq c)) = hc (denote nq nc c) /\
  forall q, ~ In q (final_dropped nq (remove_resets_in_zero_state nq c)) ->
    wire (denote nq nc (optimise_resets nq c)) q = wire (denote nq nc c) q.
Proof.
  intros W. unfold optimise_resets.
  pose proof (del_resets_wf _ _ _ _ (zero_only_resets nq c) W) as W1.
  pose proof (del_resets_wf _ _ _ _ (final_only_resets nq _) W1) as W2.
  rewrite (consolidate_semantics nq nc _ W2).
  destruct (final_semantics nq nc _ W1) as [Hc Hw].
  rewrite (zero_semantics nq nc c W) in Hc, Hw. split; assumption.
Qed.

(* Proofs/ResetPassesP.v — list-level facts about Model/ResetPasses.v:
   index deletion = mask filtering, mask characterisation of the three scans, "only resets are deleted". *)
From Coq Require Import Lia ZifyBool.
From CKT Require Import Common.Base Common.Circ Model.ResetPasses.

(* ------------------------------------------------------------------------------------------ *)
(* generic list facts *)

Lemma nth_upd_eq {A} (l : list A) i j v d :
  nth j (upd l i v) d = if Nat.eqb j i && Nat.ltb i (length l) then v else nth j l d.
Proof.
  revert i j; induction l as [|x xs IH]; intros [|i] [|j]; simpl; try reflexivity.
  - now rewrite andb_false_r.
  - rewrite IH. change (Nat.ltb (S i) (S (length xs))) with (Nat.ltb i (length xs)). reflexivity.
Qed.

Lemma upd_same_id {A} (l : list A) i d : upd l i (nth i l d) = l.
Proof. revert i; induction l as [|x xs IH]; intros [|i]; simpl; try reflexivity. now rewrite IH. Qed.

Lemma existsb_eqb_In q qs : existsb (Nat.eqb q) qs = true <-> In q qs.
Proof.
  rewrite existsb_exists. split.
  - intros [x [H1 H2]]. apply Nat.eqb_eq in H2. now subst.
  - intros H. exists q. split; [assumption|apply Nat.eqb_refl].
Qed.

Lemma on_wire_In q x : on_wire q x = true <-> In q (iqs x).
Proof. apply existsb_eqb_In. Qed.

Lemma on_wire_false q x : on_wire q x = false <-> ~ In q (iqs x).
Proof. rewrite <- on_wire_In. destruct (on_wire q x); split; congruence. Qed.

Lemma set_flags_length f qs v : length (set_flags f qs v) = length f.
Proof.
  unfold set_flags. revert f; induction qs as [|a qs IH]; intros f; simpl; [reflexivity|].
  now rewrite IH, upd_length.
Qed.

Lemma set_flags_nth f qs v q d :
  nth q (set_flags f qs v) d = if existsb (Nat.eqb q) qs && Nat.ltb q (length f) then v else nth q f d.
Proof.
  unfold set_flags. revert f; induction qs as [|a qs IH]; intros f; simpl; [reflexivity|].
  rewrite IH, upd_length, nth_upd_eq.
  destruct (Nat.eqb_spec q a) as [->|N]; simpl.
  - destruct (existsb (Nat.eqb a) qs); simpl; destruct (Nat.ltb a (length f)); reflexivity.
  - reflexivity.
Qed.

Lemma count_true_0 f q : count_true f = 0 -> nth q f false = false.
Proof.
  unfold count_true. revert q; induction f as [|b f IH]; intros [|q]; simpl; try reflexivity.
  - destruct b; simpl; [discriminate|reflexivity].
  - destruct b; simpl; [discriminate|]. apply IH.
Qed.

(* ------------------------------------------------------------------------------------------ *)
(* masks *)

Fixpoint drop_mask {A} (m : list bool) (l : list A) : list A :=
  match m, l with
  | b :: m', x :: l' => if b then drop_mask m' l' else x :: drop_mask m' l'
  | _, _ => l
  end.

Fixpoint sel_mask {A} (m : list bool) (l : list A) : list A :=
  match m, l with
  | b :: m', x :: l' => if b then x :: sel_mask m' l' else sel_mask m' l'
  | _, _ => []
  end.

Fixpoint ids_of_mask (i : nat) (m : list bool) : list nat :=
  match m with
  | [] => []
  | b :: r => if b then i :: ids_of_mask (S i) r else ids_of_mask (S i) r
  end.

Lemma ids_ge i m j : In j (ids_of_mask i m) -> i <= j /\ j < i + length m.
Proof.
  revert i; induction m as [|b m IH]; intros i H; simpl in *; [tauto|].
  destruct b; [destruct H as [<-|H]|]; try lia; apply IH in H; lia.
Qed.

Lemma ids_shift i m : ids_of_mask (S i) m = map S (ids_of_mask i m).
Proof. revert i; induction m as [|b m IH]; intros i; simpl; [reflexivity|]. destruct b; simpl; now rewrite IH. Qed.

Lemma ids_app i m1 m2 : ids_of_mask i (m1 ++ m2) = ids_of_mask i m1 ++ ids_of_mask (i + length m1) m2.
Proof.
  revert i; induction m1 as [|b m1 IH]; intros i; simpl.
  - now rewrite Nat.add_0_r.
  - rewrite IH. replace (S i + length m1) with (i + S (length m1)) by lia. destruct b; reflexivity.
Qed.

Lemma ids_repeat_false i n : ids_of_mask i (repeat false n) = [].
Proof. revert i; induction n as [|n IH]; intros i; simpl; auto. Qed.

Lemma drop_mask_repeat_false {A} n (l : list A) : drop_mask (repeat false n) l = l.
Proof. revert l; induction n as [|n IH]; intros [|x l]; simpl; try reflexivity. now rewrite IH. Qed.

Lemma sel_mask_repeat_false {A} n (l : list A) : sel_mask (repeat false n) l = [].
Proof. revert l; induction n as [|n IH]; intros [|x l]; simpl; try reflexivity. apply IH. Qed.

Lemma drop_mask_nil {A} (l : list A) : drop_mask [] l = l.
Proof. destruct l; reflexivity. Qed.

(* sorted(ids, reverse=True) *)
Lemma insert_desc_last x l : (forall y, In y l -> x < y) -> insert_desc x l = l ++ [x].
Proof.
  induction l as [|y l IH]; intros H; simpl; [reflexivity|].
  assert (x < y) by (apply H; now left).
  destruct (Nat.leb_spec y x); [lia|]. f_equal. apply IH. intros z Hz. apply H. now right.
Qed.

Lemma insert_desc_first x l : (forall y, In y l -> y <= x) -> insert_desc x l = x :: l.
Proof.
  destruct l as [|y l]; intros H; simpl; [reflexivity|].
  assert (y <= x) by (apply H; now left). destruct (Nat.leb_spec y x); [reflexivity|lia].
Qed.

Lemma sort_desc_ids i m : sort_desc (ids_of_mask i m) = rev (ids_of_mask i m).
Proof.
  revert i; induction m as [|b m IH]; intros i; simpl; [reflexivity|].
  destruct b; simpl; [|apply IH].
  rewrite IH. apply insert_desc_last. intros y Hy. apply in_rev in Hy. apply ids_ge in Hy. lia.
Qed.

Lemma sort_desc_mirror n i m : i + length m <= n ->
  sort_desc (map (fun j => n - 1 - j) (ids_of_mask i m)) = map (fun j => n - 1 - j) (ids_of_mask i m).
Proof.
  revert i; induction m as [|b m IH]; intros i H; simpl in *; [reflexivity|].
  destruct b; simpl; [|apply IH; lia].
  rewrite IH by lia. apply insert_desc_first.
  intros y Hy. apply in_map_iff in Hy as [j [<- Hj]]. apply ids_ge in Hj. lia.
Qed.

(* deleting the marked indices, largest first, = dropping the marked elements *)
Lemma delete_at_nil {A} i : @delete_at A [] i = [].
Proof. destruct i; reflexivity. Qed.

Lemma delete_at_app_r {A} (p X : list A) i : delete_at (p ++ X) (length p + i) = p ++ delete_at X i.
Proof. induction p as [|y p IH]; simpl; [reflexivity|]. now rewrite IH. Qed.

Definition del_all {A} (ids : list nat) (c : list A) : list A :=
  fold_right (fun i acc => delete_at acc i) c ids.

Lemma fold_left_delete_rev {A} (ids : list nat) (c : list A) :
  fold_left (@delete_at A) (rev ids) c = del_all ids c.
Proof.
  unfold del_all. rewrite <- (rev_involutive ids) at 2.
  rewrite fold_left_rev_right. reflexivity.
Qed.

Lemma del_all_nil {A} ids : @del_all A ids [] = [].
Proof. unfold del_all. induction ids as [|i ids IH]; simpl; [reflexivity|]. rewrite IH. apply delete_at_nil. Qed.

Lemma del_all_prefix {A} (m : list bool) (p c : list A) i :
  del_all (ids_of_mask (length p + i) m) (p ++ c) = p ++ del_all (ids_of_mask i m) c.
Proof.
  revert i; induction m as [|b m IH]; intros i; simpl; [reflexivity|].
  replace (S (length p + i)) with (length p + S i) by lia.
  destruct b; simpl; rewrite IH; [apply delete_at_app_r|reflexivity].
Qed.

Lemma del_all_mask {A} (m : list bool) (c : list A) : del_all (ids_of_mask 0 m) c = drop_mask m c.
Proof.
  revert c; induction m as [|b m IH]; intros c; simpl.
  - destruct c; reflexivity.
  - destruct c as [|x c]; [now rewrite del_all_nil|].
    pose proof (del_all_prefix m [x] c 0) as E. simpl in E.
    destruct b; simpl; rewrite E, IH; reflexivity.
Qed.

Lemma delete_ids_mask (m : list bool) (c : circ) : delete_ids c (ids_of_mask 0 m) = drop_mask m c.
Proof. unfold delete_ids. rewrite sort_desc_ids, fold_left_delete_rev. apply del_all_mask. Qed.

(* the reverse scan: positions in reversed(data) <-> indices of data *)
Lemma drop_mask_app {A} (m1 m2 : list bool) (l1 l2 : list A) : length m1 = length l1 ->
  drop_mask (m1 ++ m2) (l1 ++ l2) = drop_mask m1 l1 ++ drop_mask m2 l2.
Proof.
  revert l1; induction m1 as [|b m1 IH]; intros [|x l1] H; simpl in *; try discriminate.
  - reflexivity.
  - rewrite IH by lia. destruct b; reflexivity.
Qed.

Lemma drop_mask_rev {A} (m : list bool) (l : list A) : length m = length l ->
  drop_mask (rev m) (rev l) = rev (drop_mask m l).
Proof.
  revert l; induction m as [|b m IH]; intros [|x l] H; simpl in *; try discriminate; [reflexivity|].
  rewrite drop_mask_app by (rewrite !rev_length; lia). rewrite IH by lia.
  destruct b; simpl; [now rewrite app_nil_r|reflexivity].
Qed.

Lemma ids_mirror (m : list bool) :
  map (fun j => length m - 1 - j) (ids_of_mask 0 m) = rev (ids_of_mask 0 (rev m)).
Proof.
  induction m as [|b m IH]; [reflexivity|].
  assert (E : map (fun j => length (b :: m) - 1 - j) (ids_of_mask 1 m)
              = map (fun j => length m - 1 - j) (ids_of_mask 0 m)).
  { rewrite (ids_shift 0 m), map_map. apply map_ext. intros; simpl; lia. }
  cbn [rev]. rewrite ids_app, rev_app_distr, rev_length, <- IH. cbn [plus].
  destruct b; cbn [ids_of_mask rev app map]; rewrite E; [|reflexivity].
  f_equal. simpl. lia.
Qed.

Lemma delete_ids_mirror (m : list bool) (c : circ) : length m = length c ->
  delete_ids c (map (fun j => length c - 1 - j) (ids_of_mask 0 m)) = rev (drop_mask m (rev c)).
Proof.
  intros H. unfold delete_ids. rewrite sort_desc_mirror by lia.
  rewrite <- H, ids_mirror, fold_left_delete_rev, del_all_mask.
  rewrite <- (rev_involutive c) at 1. rewrite drop_mask_rev by (rewrite rev_length; lia). reflexivity.
Qed.

(* ------------------------------------------------------------------------------------------ *)
(* the three scans as masks *)

Fixpoint cmask (resets : list bool) (c : circ) : list bool :=
  match c with
  | [] => []
  | x :: r =>
      if is_reset x then
        if nth (rq x) resets false then true :: cmask resets r
        else false :: cmask (upd resets (rq x) true) r
      else false :: cmask (set_flags resets (iqs x) false) r
  end.

Fixpoint zmask (active : list bool) (nq : nat) (c : circ) : list bool :=
  match c with
  | [] => []
  | x :: r =>
      if is_reset x then
        if nth (rq x) active false then false :: zmask active nq r
        else true :: zmask active nq r
      else
        let active' := set_flags active (iqs x) true in
        if Nat.eqb (count_true active') nq then [] else false :: zmask active' nq r
  end.

(* full length: after the early exit the remaining instructions are unmarked *)
Fixpoint fmask (ended : list bool) (rc : circ) : list bool :=
  match rc with
  | [] => []
  | x :: r =>
      if is_reset x then
        if nth (rq x) ended false then true :: fmask ended r
        else false :: fmask ended r
      else
        let ended' := set_flags ended (iqs x) false in
        if Nat.eqb (count_true ended') 0 then false :: repeat false (length r)
        else false :: fmask ended' r
  end.

Lemma consolidate_scan_mask f i c : consolidate_scan f i c = ids_of_mask i (cmask f c).
Proof.
  revert f i; induction c as [|x r IH]; intros f i; simpl; [reflexivity|].
  destruct (is_reset x); [destruct (nth (rq x) f false)|]; simpl; now rewrite IH.
Qed.

Lemma zero_scan_mask f nq i c : zero_scan f nq i c = ids_of_mask i (zmask f nq c).
Proof.
  revert f i; induction c as [|x r IH]; intros f i; simpl; [reflexivity|].
  destruct (is_reset x); [destruct (nth (rq x) f false); simpl; now rewrite IH|].
  destruct (Nat.eqb _ nq); simpl; [reflexivity|now rewrite IH].
Qed.

Lemma final_scan_mask f n i rc : final_scan f n i rc = map (fun j => n - 1 - j) (ids_of_mask i (fmask f rc)).
Proof.
  revert f i; induction rc as [|x r IH]; intros f i; simpl; [reflexivity|].
  destruct (is_reset x); [destruct (nth (rq x) f false); simpl; now rewrite IH|].
  destruct (Nat.eqb _ 0); simpl; [now rewrite ids_repeat_false|now rewrite IH].
Qed.

Lemma fmask_length f rc : length (fmask f rc) = length rc.
Proof.
  revert f; induction rc as [|x r IH]; intros f; simpl; [reflexivity|].
  destruct (is_reset x); [destruct (nth (rq x) f false); simpl; now rewrite IH|].
  destruct (Nat.eqb _ 0); simpl; [now rewrite repeat_length|now rewrite IH].
Qed.

Theorem consolidate_as_mask nq c : consolidate_resets nq c = drop_mask (cmask (repeat false nq) c) c.
Proof. unfold consolidate_resets. rewrite consolidate_scan_mask. apply delete_ids_mask. Qed.

Theorem zero_as_mask nq c : remove_resets_in_zero_state nq c = drop_mask (zmask (repeat false nq) nq c) c.
Proof. unfold remove_resets_in_zero_state. rewrite zero_scan_mask. apply delete_ids_mask. Qed.

Theorem final_as_mask nq c :
  remove_final_resets nq c = rev (drop_mask (fmask (repeat true nq) (rev c)) (rev c)).
Proof.
  unfold remove_final_resets. rewrite final_scan_mask.
  apply delete_ids_mirror. now rewrite fmask_length, rev_length.
Qed.

(* q0 of every removed instruction *)
Lemma nth_ids_sel {A} (d : A) (m : list bool) (p l : list A) : length m <= length l ->
  map (fun j => nth j (p ++ l) d) (ids_of_mask (length p) m) = sel_mask m l.
Proof.
  revert p l; induction m as [|b m IH]; intros p [|x l] H; simpl in *; try reflexivity; try lia.
  specialize (IH (p ++ [x]) l). rewrite <- app_assoc, app_length in IH. simpl in IH.
  replace (length p + 1) with (S (length p)) in IH by lia.
  destruct b; simpl; rewrite IH by lia; [|reflexivity].
  f_equal. rewrite app_nth2 by lia. now rewrite Nat.sub_diag.
Qed.

Theorem final_dropped_as_mask nq c :
  final_dropped nq c = map rq (sel_mask (fmask (repeat true nq) (rev c)) (rev c)).
Proof.
  unfold final_dropped. rewrite final_scan_mask, map_map.
  set (m := fmask (repeat true nq) (rev c)).
  assert (Lm : length m = length c) by (unfold m; now rewrite fmask_length, rev_length).
  rewrite <- (nth_ids_sel dummy_instr m [] (rev c)) by (rewrite rev_length; lia).
  rewrite map_map. apply map_ext_in. intros j Hj. apply ids_ge in Hj. simpl in *.
  f_equal. rewrite rev_nth by lia. f_equal. lia.
Qed.

(* ------------------------------------------------------------------------------------------ *)
(* only resets are deleted *)

Lemma del_resets_refl c : del_resets c c.
Proof. induction c; constructor; auto. Qed.

Lemma del_resets_trans a b c : del_resets a b -> del_resets b c -> del_resets a c.
Proof.
  intros H; revert c; induction H as [|x a b H IH|x a b R H IH]; intros c Hc.
  - exact Hc.
  - inversion Hc; subst; [apply dr_keep|apply dr_drop]; auto.
  - apply dr_drop; auto.
Qed.

Lemma del_resets_app a b a' b' : del_resets a b -> del_resets a' b' -> del_resets (a ++ a') (b ++ b').
Proof. intros H H'; induction H; simpl; [assumption|apply dr_keep|apply dr_drop]; auto. Qed.

Lemma del_resets_rev a b : del_resets a b -> del_resets (rev a) (rev b).
Proof.
  intros H; induction H as [|x a b H IH|x a b R H IH]; simpl.
  - constructor.
  - apply del_resets_app; [assumption|apply del_resets_refl].
  - rewrite <- (app_nil_r (rev b)). apply del_resets_app; [assumption|]. apply dr_drop; [assumption|constructor].
Qed.

Lemma del_resets_length a b : del_resets a b -> length b <= length a.
Proof. intros H; induction H; simpl; lia. Qed.

Lemma del_resets_same_length a b : del_resets a b -> length b = length a -> b = a.
Proof.
  intros H; induction H as [|x a b H IH|x a b R H IH]; simpl; intros L.
  - reflexivity.
  - f_equal. apply IH. lia.
  - apply del_resets_length in H. lia.
Qed.

Lemma del_resets_non_resets a b : del_resets a b -> non_resets b = non_resets a.
Proof.
  intros H; induction H as [|x a b H IH|x a b R H IH]; simpl.
  - reflexivity.
  - unfold non_resets in *. simpl. now rewrite IH.
  - unfold non_resets in *. simpl. now rewrite R.
Qed.

Lemma del_resets_proj_q q a b : del_resets a b -> del_resets (proj_q q a) (proj_q q b).
Proof.
  intros H; induction H as [|x a b H IH|x a b R H IH]; simpl.
  - constructor.
  - unfold proj_q in *. simpl. destruct (on_wire q x); [apply dr_keep|]; assumption.
  - unfold proj_q in *. simpl. destruct (on_wire q x); [apply dr_drop|]; assumption.
Qed.

Lemma del_resets_In a b x : del_resets a b -> In x b -> In x a.
Proof. intros H; induction H; simpl; intros I; auto. destruct I; auto. Qed.

Lemma del_resets_wf nq nc a b : del_resets a b -> wf nq nc a = true -> wf nq nc b = true.
Proof.
  unfold wf. rewrite !forallb_forall. intros H W x I. apply W. eapply del_resets_In; eauto.
Qed.

Lemma cmask_only_resets f c : del_resets c (drop_mask (cmask f c) c).
Proof.
  revert f; induction c as [|x r IH]; intros f; simpl; [constructor|].
  destruct (is_reset x) eqn:R; [destruct (nth (rq x) f false)|]; simpl;
    [apply dr_drop|apply dr_keep|apply dr_keep]; auto.
Qed.

Lemma zmask_only_resets f nq c : del_resets c (drop_mask (zmask f nq c) c).
Proof.
  revert f; induction c as [|x r IH]; intros f; simpl; [constructor|].
  destruct (is_reset x) eqn:R; [destruct (nth (rq x) f false); simpl; [apply dr_keep|apply dr_drop]; auto|].
  destruct (Nat.eqb _ nq); simpl; [apply del_resets_refl|apply dr_keep; auto].
Qed.

Lemma fmask_only_resets f rc : del_resets rc (drop_mask (fmask f rc) rc).
Proof.
  revert f; induction rc as [|x r IH]; intros f; simpl; [constructor|].
  destruct (is_reset x) eqn:R; [destruct (nth (rq x) f false); simpl; [apply dr_drop|apply dr_keep]; auto|].
  destruct (Nat.eqb _ 0); simpl; apply dr_keep; [rewrite drop_mask_repeat_false; apply del_resets_refl|auto].
Qed.

Theorem consolidate_only_resets nq c : del_resets c (consolidate_resets nq c).
Proof. rewrite consolidate_as_mask. apply cmask_only_resets. Qed.

Theorem zero_only_resets nq c : del_resets c (remove_resets_in_zero_state nq c).
Proof. rewrite zero_as_mask. apply zmask_only_resets. Qed.

Theorem final_only_resets nq c : del_resets c (remove_final_resets nq c).
Proof.
  rewrite final_as_mask. rewrite <- (rev_involutive c) at 1. apply del_resets_rev, fmask_only_resets.
Qed.

Theorem pipeline_only_resets nq c : del_resets c (optimise_resets nq c).
Proof.
  unfold optimise_resets.
  eapply del_resets_trans; [apply zero_only_resets|].
  eapply del_resets_trans; [apply final_only_resets|apply consolidate_only_resets].
Qed.

(* what [del_resets] means, in filter form: same non-reset instructions in the same order, and on
   every qubit wire a sub-sequence obtained by deleting resets; clbit wires are untouched *)
Theorem del_resets_meaning c c' : del_resets c c' ->
  non_resets c' = non_resets c /\ length c' <= length c /\
  (forall x, In x c' -> In x c) /\ (forall q, del_resets (proj_q q c) (proj_q q c')).
Proof.
  intros H. split; [now apply del_resets_non_resets|]. split; [now apply del_resets_length|].
  split; [intros x; now apply del_resets_In|]. intros q; now apply del_resets_proj_q.
Qed.

Lemma reset_no_clbit nq nc x : wf_instr nq nc x = true -> is_reset x = true -> ics x = [].
Proof.
  unfold wf_instr, is_reset. destruct (iop x); try discriminate. intros W _.
  apply andb_prop in W as [_ W]. apply andb_prop in W as [_ W]. apply Nat.eqb_eq in W.
  destruct (ics x); [reflexivity|discriminate].
Qed.

Theorem del_resets_proj_c nq nc k c c' : wf nq nc c = true -> del_resets c c' -> proj_c k c' = proj_c k c.
Proof.
  intros W H; induction H as [|x a b H IH|x a b R H IH]; simpl in *.
  - reflexivity.
  - apply andb_prop in W as [_ W]. unfold proj_c in *. simpl. now rewrite IH.
  - apply andb_prop in W as [Wx W]. unfold proj_c in *. simpl.
    rewrite (reset_no_clbit _ _ _ Wx R). simpl. auto.
Qed.

(* Proofs/ProcessCFTotalP.v — composition with C07's termination theorem: with enough fuel the seeded result of the
   process model is a real outcome (Some _), so "same result everywhere" is never the degenerate None = None. *)
From Coq Require Import String QArith.
From CKT Require Import Model.CutFinder Proofs.CutFinderCirc Proofs.CutFinderFuel Proofs.CutFinderTotal.
From CKT Require Import Model.Process Model.ProcessCF Proofs.ProcessP Proofs.ProcessCFP.
Close Scope Q_scope.

Lemma find_cuts_some : forall fuel i, circ_wf (fi_circ i) -> fuel_bound (length (fi_circ i)) <= fuel ->
  exists r, find_cuts fuel i = Some r.
Proof.
  intros fuel i WF Hf. pose proof (find_cuts_enough_fuel fuel i WF Hf) as H.
  unfold find_cuts. destruct (find_cuts_full fuel i); eauto. congruence.
Qed.

Lemma seeded_search_model_total : forall fuel st (O : oracles) g0 h a s, import_state g0 ->
  circ_wf (fi_circ (ca_in a)) -> fuel_bound (length (fi_circ (ca_in a))) <= fuel ->
  exists r,
    CutFinder.find_cuts fuel (input_of a (basis_registry g0) (st s)) = Some r /\
    snd (step (O_cf fuel st O) (run (O_cf fuel st O) g0 h) (FindCuts (O_cf fuel st O) a (Seeded s))) =
    RFind (O_cf fuel st O) (Some r).
Proof.
  intros fuel st O g0 h a s HI WF Hf.
  destruct (find_cuts_some fuel (input_of a (basis_registry g0) (st s)) WF Hf) as [r Hr].
  exists r; split; [exact Hr|]. rewrite (seeded_search_model fuel st O g0 h a s HI). now rewrite Hr.
Qed.

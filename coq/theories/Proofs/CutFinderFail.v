(* Proofs/CutFinderFail.v — when find_cuts raises ValueError.  For circuits whose multi-qubit gates are supported
   two-qubit gates and with at least one cut kind allowed, a ValueError can only come from a greedy pass that
   dead-ends, which happens only for wire cuts alone with W = 1 — where no plan is feasible. *)
From Coq Require Import QArith Relations Lia.
From CKT Require Import Model.CutFinder Proofs.UFP Proofs.ConnP Proofs.CutFinderSpec Proofs.CutFinderInv
  Proofs.CutFinderPlan Proofs.CutFinderSearchP Proofs.CutFinderOut Proofs.CutFinderCirc Proofs.CutFinderRender
  Proofs.CutFinderP.
Close Scope Q_scope.

(* ---------------- "never a ValueError" for the post-processing ---------------- *)
Definition noref {A} (o : out A) : Prop := o <> Ref.

Lemma noref_bind {A B} (m : out A) (f : A -> out B) : noref m -> (forall v, m = Val v -> noref (f v)) -> noref (obind m f).
Proof. unfold noref. destruct m; simpl; intros H1 H2; auto; try discriminate. Qed.

Lemma noref_oassert b : noref (oassert b).
Proof. unfold noref, oassert. destruct b; discriminate. Qed.

Lemma noref_val {A} (v : A) : noref (Val v).
Proof. discriminate. Qed.

Lemma noref_crash {A} : noref (@Crash A).
Proof. discriminate. Qed.

#[local] Hint Resolve noref_oassert noref_val noref_crash : noref.

Lemma insert_wire_cuts_noref orig : forall l out_c n, noref (insert_wire_cuts orig out_c n l).
Proof.
  induction l as [|a l IH]; intros out_c n; simpl; [apply noref_val|].
  apply noref_bind.
  - unfold orig_qubit. destruct (nth_error orig _); [destruct (nth_error _ _)|]; auto with noref.
  - intros q _. destruct (aname_beq (a_name a) CutBothWires); [|apply IH].
    apply noref_bind; [auto with noref|]. intros _ _. apply noref_bind.
    + unfold orig_qubit. destruct (nth_error orig _); [destruct (nth_error _ _)|]; auto with noref.
    + intros q2 _. apply IH.
Qed.

Lemma rename1_noref size src dst q : noref (rename1 size src dst q).
Proof. unfold rename1. destruct (Nat.ltb q size); auto with noref. Qed.

Lemma rename_list_noref size src dst qs : noref (rename_list size src dst qs).
Proof.
  induction qs as [|q r IH]; simpl; [auto with noref|].
  apply noref_bind; [apply rename1_noref|]. intros ? _. apply noref_bind; [exact IH|]. intros; auto with noref.
Qed.

Lemma replace_wire_ids_noref size src dst l : noref (replace_wire_ids size src dst l).
Proof.
  induction l as [|e r IH]; simpl; [auto with noref|].
  apply noref_bind.
  - destruct e; [auto with noref| |].
    + apply noref_bind; [apply rename_list_noref|]. intros; auto with noref.
    + apply noref_bind; [apply rename1_noref|]. intros. apply noref_bind; [apply rename1_noref|]. intros; auto with noref.
  - intros ? _. apply noref_bind; [exact IH|]. intros; auto with noref.
Qed.

Lemma define_id_noref names id nmv : noref (define_id names id nmv).
Proof.
  unfold define_id. apply noref_bind; [auto with noref|]. intros _ _.
  apply noref_bind; [auto with noref|]. intros _ _. destruct (Nat.ltb _ _); auto with noref.
Qed.

Lemma insert_wire_cut_noref f gid inp src dst : noref (insert_wire_cut f gid inp src dst).
Proof.
  unfold insert_wire_cut.
  destruct (nth_error (if_map f) gid); [|auto with noref].
  destruct (nth_error (if_new f) n) as [[| |]|]; auto with noref.
  destruct (nth_error qs _); [|auto with noref].
  apply noref_bind; [auto with noref|]. intros _ _.
  apply noref_bind.
  - destruct (nth dst (if_names f) None); [auto with noref|].
    destruct (nth src (if_names f) None); [apply define_id_noref|auto with noref].
  - intros names _. apply noref_bind; [auto with noref|]. intros _ _.
    apply noref_bind; [apply replace_wire_ids_noref|]. intros tail _.
    destruct (nth_error (if_circuit f) gid) as [[|]|]; auto with noref.
    destruct (nth_error qs0 _); [|auto with noref]. destruct (Nat.ltb _ _); auto with noref.
Qed.

Lemma insert_all_noref f nw gid args :
  (forall x, In x args -> exists a b c, x = [a; b; c]) -> noref (insert_all_lo_wire_cuts f nw gid args).
Proof.
  revert f; induction args as [|x r IH]; intros f H; simpl; [auto with noref|].
  destruct (H x (or_introl eq_refl)) as (a & b & c & ->).
  destruct (Nat.ltb b nw && Nat.ltb c nw); [|auto with noref].
  apply noref_bind; [apply insert_wire_cut_noref|]. intros f' _. apply IH. intros y Hy; apply H; now right.
Qed.

Lemma export_cuts_noref s f : Forall args_ok (actions s) -> noref (export_cuts s f).
Proof.
  intros H. unfold export_cuts. apply noref_bind; [|intros; auto with noref].
  generalize (num_wires s). revert f. induction (actions s) as [|a l IH]; intros f nw; simpl; [auto with noref|].
  inversion H as [|? ? Ha Hl]; subst.
  apply noref_bind; [|intros f' _; apply IH; exact Hl].
  unfold export_action. unfold args_ok in Ha.
  destruct (a_name a).
  - unfold insert_gate_cut. destruct (nth_error _ _); [destruct (Nat.ltb _ _)|]; auto with noref.
  - destruct Ha as (w & r & ->). apply insert_all_noref. intros x [<-|[]]; eauto.
  - destruct Ha as (w & r & ->). apply insert_all_noref. intros x [<-|[]]; eauto.
  - destruct Ha as (w & r & w' & r' & ->). apply insert_all_noref. intros x [<-|[<-|[]]]; eauto.
Qed.

(* ---------------- a ValueError comes from a dead-ended greedy pass ---------------- *)
Lemma find_cuts_ref_greedy fuel i :
  find_cuts_full fuel i = Ref -> circ_wf (fi_circ i) -> 1 <= fi_W i -> settings_ok i = true -> fi_ncl i = 0 ->
  let t := fi_gtab i in let c := fi_circ i in
  let names := names_of (fi_nq i) t c in let gates := gates_of (fi_nq i) t c in
  greedy_cut_optimization (length names)
    {| fa_gates := gates; fa_actions := search_actions (fi_gate_lo i) (fi_wire_lo i); fa_W := fi_W i |} = Val None.
Proof.
  intros H WFc HW Hset Hncl t c names gates. unfold find_cuts_full in H.
  destruct (Nat.ltb_spec (fi_W i) 1) as [|_]; [lia|]. rewrite Hset in H. cbn [negb] in H.
  destruct (iface_init_fields (fi_nq i) t c) as [Ecirc Enq]. fold t c in H.
  rewrite Ecirc, Enq in H. fold names in H.
  change (get_multiqubit_gates (snd (sgl_init [] (qc_to_cco (fi_nq i) t c)))) with gates in H.
  set (acts := search_actions (fi_gate_lo i) (fi_wire_lo i)) in *.
  set (fa := {| fa_gates := gates; fa_actions := acts; fa_W := fi_W i |}) in *.
  destruct (gates_of_circ (fi_nq i) t c) as (NDn & _). fold names in NDn.
  pose proof (gates_wf (fi_nq i) t c WFc) as Hgwf. fold names gates in Hgwf.
  pose proof (optimize_ref names (fi_W i) HW NDn gates Hgwf fa eq_refl eq_refl acts eq_refl
                (fi_tape i) (fi_max_gamma i) (option_map Z.to_nat (fi_max_backjumps i)) fuel) as Hopt.
  destruct (optimize _ fa _ _ _ _) as [ro| | |] eqn:Eopt; cbn [obind] in H; try discriminate; try contradiction; [|exact Hopt].
  exfalso.
  destruct (or_best ro) as [best|] eqn:Ebest; [|discriminate].
  destruct (optimize_good names (fi_W i) HW NDn gates Hgwf fa eq_refl eq_refl acts eq_refl _ _ _ _ _ Eopt) as [_ Hbest].
  destruct (Hbest best Ebest) as [[M [pl I]] Hgoal].
  assert (Hlen : length pl = length gates).
  { pose proof (inv_len _ _ _ _ _ _ _ I). pose proof (inv_lvl _ _ _ _ _ _ _ I).
    unfold goal_state in Hgoal. cbn [fa fa_gates] in Hgoal. apply Nat.leb_le in Hgoal. lia. }
  pose proof (export_cuts_noref best (iface_init (qc_to_cco (fi_nq i) t c)) (inv_args _ _ _ _ _ _ _ I)) as Hex.
  destruct (export_cuts best _) as [f1| | |]; cbn [obind] in H; try discriminate; [|now apply Hex].
  rewrite Hncl in H. cbn [Nat.eqb negb] in H.
  destruct (cut_gates_val (fi_nq i) t c (fi_W i) acts M best pl WFc I Hlen) as (c1 & Hc1).
  rewrite Hc1 in H. cbn [obind] in H.
  pose proof (insert_wire_cuts_noref c (sort_actions (filter (fun a => negb (is_gate_cut a)) (actions best))) c1 0) as Hiw.
  destruct (insert_wire_cuts c c1 0 _); cbn [obind] in H; try discriminate. now apply Hiw.
Qed.

(* ---------------- when the greedy pass dead-ends ---------------- *)
Lemma next_states_over_nil acts s g W :
  next_states_over acts s g W = Val [] -> forall k, In k acts -> next_state_primitive k s g W = Val [].
Proof.
  induction acts as [|k0 r IH]; intros H k Hk; [destruct Hk|]. simpl in H.
  unfold next_state in H at 1.
  destruct (next_state_primitive k0 s g W) as [l0| | |] eqn:E0; cbn [obind] in H; try discriminate.
  destruct (next_states_over r s g W) as [l1| | |] eqn:E1; cbn [obind] in H; try discriminate.
  injection H as H'. apply app_eq_nil in H' as [H0 H1].
  destruct Hk as [<-|Hk].
  - apply map_eq_nil in H0. subst l0. exact E0.
  - subst l1. now apply IH.
Qed.

Lemma max_wire_cuts_two names gates : (forall g, In g gates -> gate_wf names g) ->
  max_wire_cuts_circuit gates = 2 * length gates.
Proof.
  induction gates as [|g r IH]; intros H; [reflexivity|]. simpl.
  destruct (H g (or_introl eq_refl)) as (GL & _). rewrite GL, IH; [lia|]. intros x Hx; apply H; now right.
Qed.

Section DeadEnd.
  Variable names : list nat.
  Variable W : nat.
  Hypothesis HW : 1 <= W.
  Hypothesis Hnames : NoDup names.
  Variable gates : list gate_spec.
  Hypothesis Hgates : forall g, In g gates -> gate_wf names g.
  Hypothesis Hgam : forall g, In g gates -> g_gamma g <> None.
  Variables gl wl : bool.

  Lemma dead_end M s pl :
    Inv names W gates (search_actions gl wl) M s pl -> M = length names + 2 * length gates ->
    goal_state {| fa_gates := gates; fa_actions := search_actions gl wl; fa_W := W |} s = false ->
    next_states {| fa_gates := gates; fa_actions := search_actions gl wl; fa_W := W |} s = Val [] ->
    gl = false /\ (wl = true -> W = 1).
  Proof.
    intros I HM Hgoal Hns. unfold goal_state in Hgoal. cbn [fa_gates] in Hgoal. apply Nat.leb_gt in Hgoal.
    unfold next_states in Hns. cbn [fa_gates fa_actions fa_W] in Hns.
    destruct (nth_error gates (level s)) as [g|] eqn:Eg; [|discriminate].
    assert (Hg : In g gates) by (eapply nth_error_In; eauto).
    pose proof (Hgates g Hg) as Gwf. destruct Gwf as (GL & _). rewrite GL, Nat.eqb_refl in Hns.
    pose proof (next_states_over_nil _ _ _ _ Hns) as Hnil.
    pose proof (inv_u _ _ _ _ _ _ _ I) as IU.
    destruct (apply_gate_ok names W HW Hnames s _ _ g IU (Hgates g Hg)) as (la & Hla & _ & Hae).
    assert (Ka : In KApply (search_actions gl wl)) by (destruct gl, wl; simpl; auto).
    pose proof (Hnil KApply Ka) as Ha0. cbn [next_state_primitive] in Ha0. rewrite Ha0 in Hla. inversion Hla; subst la. destruct (Hae eq_refl) as [Nr _].
    split.
    - destruct gl; [|reflexivity]. exfalso.
      assert (Kg : In KGate (search_actions true wl)) by (destruct wl; simpl; auto).
      destruct (gate_cut_ok names W HW Hnames s _ _ g IU (Hgates g Hg)) as (lg & Hlg & _ & Hge).
      pose proof (Hnil KGate Kg) as Hg0. cbn [next_state_primitive] in Hg0. rewrite Hg0 in Hlg. inversion Hlg; subst lg. destruct (Hge eq_refl) as [En|Er].
      + now apply (Hgam g Hg).
      + contradiction.
    - intros ->.
      assert (Kb : In KBoth (search_actions gl true)) by (destruct gl; simpl; tauto).
      destruct (both_cut_ok names W HW Hnames s _ _ g IU (Hgates g Hg)) as (lb & Hlb & _ & Hbe).
      pose proof (Hnil KBoth Kb) as Hb0. cbn [next_state_primitive] in Hb0. rewrite Hb0 in Hlb. inversion Hlb; subst lb. destruct (Hbe eq_refl) as [Hroom|H2]; [|lia].
      pose proof (inv_len_u _ _ _ _ _ _ _ I). pose proof (inv_nw _ _ _ _ _ _ _ I). lia.
  Qed.

  (* no cut kind allowed: the pass stops at a gate whose two subcircuits together exceed W *)
  Lemma dead_end_nocut M s pl :
    gl = false -> wl = false ->
    Inv names W gates (search_actions gl wl) M s pl ->
    goal_state {| fa_gates := gates; fa_actions := search_actions gl wl; fa_W := W |} s = false ->
    next_states {| fa_gates := gates; fa_actions := search_actions gl wl; fa_W := W |} s = Val [] ->
    exists g, nth_error gates (level s) = Some g /\
      find_qubit_root s (q1_of g) <> find_qubit_root s (q2_of g) /\
      W < width_at s (find_qubit_root s (q1_of g)) + width_at s (find_qubit_root s (q2_of g)) /\
      (forall kd, In kd pl -> kd = Leave).
  Proof.
    intros Egl Ewl I Hgoal Hns. unfold goal_state in Hgoal. cbn [fa_gates] in Hgoal. apply Nat.leb_gt in Hgoal.
    unfold next_states in Hns. cbn [fa_gates fa_actions fa_W] in Hns.
    destruct (nth_error gates (level s)) as [g|] eqn:Eg; [|discriminate].
    assert (Hg : In g gates) by (eapply nth_error_In; eauto).
    pose proof (Hgates g Hg) as Gwf. destruct Gwf as (GL & _). rewrite GL, Nat.eqb_refl in Hns.
    pose proof (next_states_over_nil _ _ _ _ Hns) as Hnil.
    pose proof (inv_u _ _ _ _ _ _ _ I) as IU.
    destruct (apply_gate_ok names W HW Hnames s _ _ g IU (Hgates g Hg)) as (la & Hla & _ & Hae).
    assert (Ka : In KApply (search_actions gl wl)) by (destruct gl, wl; simpl; auto).
    pose proof (Hnil KApply Ka) as Ha0. cbn [next_state_primitive] in Ha0. rewrite Ha0 in Hla. inversion Hla; subst la.
    destruct (Hae eq_refl) as [Nr Hor].
    assert (Hall : forall kd, In kd pl -> kd = Leave).
    { intros kd Hkd. pose proof (proj1 (Forall_forall _ _) (inv_kinds _ _ _ _ _ _ _ I) kd Hkd) as (k & Hk & Ek).
      subst gl wl. simpl in Hk. destruct Hk as [<-|[]]. now rewrite <- Ek. }
    exists g. split; [reflexivity|]. split; [exact Nr|]. split; [|exact Hall].
    destruct Hor as [Hw|(a & c & Hin & _)]; [exact Hw|].
    rewrite (inv_nm _ _ _ _ _ _ _ I Hall) in Hin. destruct Hin.
  Qed.
End DeadEnd.

(* ---------------- an ApplyGate refused for width: the two subcircuits it would join are one component ---------------- *)
Lemma NoDup_app_my {A} (l1 l2 : list A) :
  NoDup l1 -> NoDup l2 -> (forall x, In x l1 -> In x l2 -> False) -> NoDup (l1 ++ l2).
Proof.
  induction l1 as [|a l1 IH]; intros N1 N2 D; simpl; [exact N2|].
  inversion N1; subst. constructor.
  - intros H. apply in_app_or in H as [H|H]; [contradiction|]. apply (D a); [now left|exact H].
  - apply IH; auto. intros x Hx. apply D. now right.
Qed.

Lemma class_list_length u r n :
  length (filter (fun a => Nat.eqb (find u a) r) (seq 0 n)) = class_count u r n.
Proof.
  induction n as [|n IH]; [reflexivity|].
  rewrite seq_S, filter_app, app_length, IH. simpl. destruct (Nat.eqb (find u n) r); simpl; lia.
Qed.

Lemma NoDup_map_on {A B} (f : A -> B) (l : list A) :
  NoDup l -> (forall x y, In x l -> In y l -> f x = f y -> x = y) -> NoDup (map f l).
Proof.
  induction l as [|a l IH]; intros ND Hinj; simpl; constructor.
  - inversion ND as [|? ? Hn _]; subst. intros Hin. apply in_map_iff in Hin as (y & Ey & Hy).
    assert (y = a) by (apply Hinj; [now right|now left|exact Ey]). subst. contradiction.
  - inversion ND; subst. apply IH; auto. intros x y Hx Hy. apply Hinj; now right.
Qed.

Lemma big_component names W s cur E g :
  1 <= W -> NoDup names -> InvU names W s cur E -> gate_wf names g ->
  let r1 := find_qubit_root s (q1_of g) in let r2 := find_qubit_root s (q2_of g) in
  r1 <> r2 ->
  exists S : list node, NoDup S /\ length S = width_at s r1 + width_at s r2 /\
    forall a b, In a S -> In b S -> conn (E ++ [aedge cur (Q1 names g) (Q2 names g)]) a b.
Proof.
  intros HW Hnames I G r1 r2 Nr.
  destruct (wires_of_gate names W Hnames _ _ _ _ I G) as (Hw1 & Hw2 & Nw).
  set (w1 := get_wire s (q1_of g)) in *. set (w2 := get_wire s (q2_of g)) in *.
  destruct (root_facts names W HW _ _ _ _ I Hw1) as (L1 & N1 & B1 & R1 & F1).
  destruct (root_facts names W HW _ _ _ _ I Hw2) as (L2 & N2 & B2 & R2 & F2).
  change (find (uptree s) w1) with r1 in *. change (find (uptree s) w2) with r2 in *.
  pose proof (iu_wf _ _ _ _ _ I) as WF. pose proof (iu_nw_hi _ _ _ _ _ I) as Hhi.
  destruct (iu_sim _ _ _ _ _ I) as [phi P].
  destruct G as (GL & GN & G1 & G2).
  assert (P1 : phi w1 = (Q1 names g, cur (Q1 names g))) by (apply (sp_wm _ _ _ _ _ P); exact G1).
  assert (P2 : phi w2 = (Q2 names g, cur (Q2 names g))) by (apply (sp_wm _ _ _ _ _ P); exact G2).
  set (n := length (uptree s)).
  set (cls := fun r => filter (fun a => Nat.eqb (find (uptree s) a) r) (seq 0 n)).
  assert (Hcls : forall r a, In a (cls r) <-> a < n /\ find (uptree s) a = r).
  { intros r a. unfold cls. rewrite filter_In, in_seq, Nat.eqb_eq. lia. }
  assert (Hlt : forall r a, r < num_wires s -> In a (cls r) -> a < num_wires s).
  { intros r a Hr Ha. apply Hcls in Ha as [Han Haf]. destruct (Nat.lt_ge_cases a (num_wires s)) as [|Hge]; [assumption|].
    assert (Ra : parent (uptree s) a = a) by (apply (iu_fresh _ _ _ _ _ I); exact Hge).
    rewrite (find_root_id _ _ WF Ra) in Haf. lia. }
  exists (map phi (cls r1 ++ cls r2)). split; [|split].
  - apply NoDup_map_on.
    + apply NoDup_app_my.
      * apply NoDup_filter, seq_NoDup.
      * apply NoDup_filter, seq_NoDup.
      * intros a Ha1 Ha2. apply Hcls in Ha1 as [_ E1]. apply Hcls in Ha2 as [_ E2]. congruence.
    + intros x y Hx Hy Exy.
      assert (Hx' : x < num_wires s) by (apply in_app_or in Hx as [Hx|Hx]; [apply (Hlt r1)|apply (Hlt r2)]; auto).
      assert (Hy' : y < num_wires s) by (apply in_app_or in Hy as [Hy|Hy]; [apply (Hlt r1)|apply (Hlt r2)]; auto).
      apply (sp_inj _ _ _ _ _ P); auto.
  - rewrite map_length, app_length. unfold cls. rewrite !class_list_length.
    destruct (iu_width _ _ _ _ _ I r1 B1 R1) as [-> _]. destruct (iu_width _ _ _ _ _ I r2 B2 R2) as [-> _]. reflexivity.
  - assert (EDGE : aedge cur (Q1 names g) (Q2 names g) = (phi w1, phi w2)) by (unfold aedge; now rewrite P1, P2).
    rewrite EDGE.
    assert (M : forall x y, conn E x y -> conn (E ++ [(phi w1, phi w2)]) x y)
      by (intros x y; apply conn_mono; intros e He; apply in_or_app; now left).
    assert (S12 : conn (E ++ [(phi w1, phi w2)]) (phi w1) (phi w2))
      by (apply rst_step, in_or_app; right; left; reflexivity).
    assert (To1 : forall a, In a (cls r1) -> conn (E ++ [(phi w1, phi w2)]) (phi a) (phi w1)).
    { intros a Ha. apply M. apply (sp_conn _ _ _ _ _ P); auto; [apply (Hlt r1); auto|]. apply Hcls in Ha as [_ Ea]. exact Ea. }
    assert (To2 : forall a, In a (cls r2) -> conn (E ++ [(phi w1, phi w2)]) (phi a) (phi w1)).
    { intros a Ha. eapply conn_trans; [|apply conn_sym; exact S12]. apply M.
      apply conn_sym. apply (sp_conn _ _ _ _ _ P); auto; [apply (Hlt r2); auto|]. apply Hcls in Ha as [_ Ea]. symmetry; exact Ea. }
    assert (To : forall x, In x (map phi (cls r1 ++ cls r2)) -> conn (E ++ [(phi w1, phi w2)]) x (phi w1)).
    { intros x Hx. apply in_map_iff in Hx as (a & <- & Ha). apply in_app_or in Ha as [Ha|Ha]; auto. }
    intros a b Ha Hb. eapply conn_trans; [apply To; exact Ha|]. apply conn_sym. apply To; exact Hb.
Qed.

(* ---------------- with W = 1 and no gate cuts, nothing is feasible once there is a two-qubit gate ---------------- *)
Lemma seg_edges_app c1 : forall c2 cur,
  seg_edges (c1 ++ c2) cur = seg_edges c1 cur ++ seg_edges c2 (seg_cur c1 cur).
Proof.
  induction c1 as [|i r IH]; intros c2 cur; [reflexivity|]. cbn [app seg_edges seg_cur].
  destruct (iop i); try apply IH.
  - destruct (iqs i) as [|q0 rest]; [apply IH|]. rewrite <- app_assoc. f_equal. apply IH.
  - destruct (iqs i) as [|q rest]; apply IH.
Qed.

Lemma edge_in_render t p : forall c k0 cur j i g0 a b,
  nth_error c j = Some i -> iop i = Gate g0 -> iqs i = [a; b] -> p (k0 + j) <> KGateCut ->
  exists x y, In ((a, x), (b, y)) (seg_edges (render_from t p k0 c) cur).
Proof.
  induction c as [|i0 r IH]; intros k0 cur j i g0 a b Hj Hop Hq Hp; [destruct j; discriminate|].
  cbn [render_from]. rewrite seg_edges_app.
  destruct j as [|j].
  - simpl in Hj. inversion Hj; subst i0. rewrite Nat.add_0_r in Hp.
    destruct (p k0); try congruence; cbn [render_instr seg_edges cut_wire_instr iop iqs]; rewrite Hop, Hq; cbn [map app nth];
      eexists; eexists; first [left; reflexivity | apply in_or_app; left; left; reflexivity].
  - simpl in Hj. destruct (IH (S k0) (seg_cur (render_instr t (p k0) i0) cur) j i g0 a b Hj Hop Hq) as (x & y & Hin).
    + replace (S k0 + j) with (k0 + S j) by lia. exact Hp.
    + exists x, y. apply in_or_app. now right.
Qed.

Lemma all_leave_repeat pl : (forall kd, In kd pl -> kd = Leave) -> pl = repeat Leave (length pl).
Proof.
  induction pl as [|k r IH]; intros H; [reflexivity|]. simpl. rewrite (H k (or_introl eq_refl)). f_equal.
  apply IH. intros kd Hkd. apply H. now right.
Qed.

Lemma combine_app_skipn {A B} (l : list A) (p1 p2 : list B) :
  length p1 <= length l -> combine l (p1 ++ p2) = combine l p1 ++ combine (skipn (length p1) l) p2.
Proof.
  revert l; induction p1 as [|b p1 IH]; intros l H; [destruct l; reflexivity|].
  destruct l as [|a l]; simpl in H; [lia|]. simpl. f_equal. apply IH. lia.
Qed.

Lemma arun_incl names gates pl1 pl2 : length pl1 <= length gates ->
  incl (snd (arun names (combine gates pl1) (cur0, []))) (snd (arun names (combine gates (pl1 ++ pl2)) (cur0, []))).
Proof.
  intros H. rewrite (combine_app_skipn gates pl1 pl2 H), arun_app.
  destruct (arun names (combine gates pl1) (cur0, [])) as [cur E] eqn:Ea. rewrite arun_acc. cbn [snd].
  intros x Hx. apply in_or_app. now left.
Qed.

Lemma pfun_all_leave P k : (forall gk, In gk P -> snd gk = Leave) -> pfun P k = Leave.
Proof.
  intros H. unfold pfun. destruct (List.find _ P) as [gk|] eqn:E; [|reflexivity].
  apply find_some in E as [E _]. now apply H.
Qed.

Theorem fails_only_if_infeasible fuel i :
  find_cuts_full fuel i = Ref ->
  let t := fi_gtab i in let c := fi_circ i in
  circ_wf c -> circ_plain c ->
  (forall x, In x c -> is_multi x = true -> kappa_of t x <> None) ->
  fi_ncl i = 0 -> 1 <= fi_W i -> settings_ok i = true ->
  forall p, plan_permitted t (fi_gate_lo i) (fi_wire_lo i) c p -> ~ feasible (fi_W i) (render t p c).
Proof.
  intros H t c WFc Hplain Hsup Hncl HW Hset p Hperm Hfeas.
  pose proof (find_cuts_ref_greedy fuel i H WFc HW Hset Hncl) as Hgr. fold t c in Hgr.
  set (names := names_of (fi_nq i) t c) in *. set (gates := gates_of (fi_nq i) t c) in *.
  set (acts := search_actions (fi_gate_lo i) (fi_wire_lo i)) in *.
  set (fa := {| fa_gates := gates; fa_actions := acts; fa_W := fi_W i |}) in *.
  destruct (gates_of_circ (fi_nq i) t c) as (NDn & Hincg & Hgspec & Hgall). fold names gates in NDn, Hincg, Hgspec, Hgall.
  pose proof (gates_wf (fi_nq i) t c WFc) as Hgwf. fold names gates in Hgwf.
  assert (Hgam : forall g, In g gates -> g_gamma g <> None).
  { intros g Hg. destruct (Hgspec g Hg) as (x & Hx & Hm & _ & Eg & _). rewrite Eg.
    apply (Hsup x); [eapply nth_error_In; exact Hx|exact Hm]. }
  unfold greedy_cut_optimization in Hgr. cbn [fa_gates fa] in Hgr. fold fa in Hgr.
  destruct (greedy_none names (fi_W i) HW NDn gates Hgwf fa eq_refl eq_refl acts eq_refl
              (length names + max_wire_cuts_circuit gates) _ _
              (ex_intro _ [] (Inv_init names (fi_W i) HW NDn gates Hgwf acts (max_wire_cuts_circuit gates))) Hgr)
    as (s' & pl & I & Hgoal & Hdead).
  rewrite (max_wire_cuts_two names gates Hgwf) in I.
  destruct (dead_end names (fi_W i) HW NDn gates Hgwf Hgam (fi_gate_lo i) (fi_wire_lo i) _ s' pl I eq_refl Hgoal Hdead) as [Hgl Hwl].
  destruct (fi_wire_lo i) eqn:Ewl.
  2:{ (* no cut kind allowed: the only plan leaves every gate; the refused gate joins more than W segments *)
    destruct (dead_end_nocut names (fi_W i) HW NDn gates Hgwf (fi_gate_lo i) false _ s' pl Hgl eq_refl I Hgoal Hdead)
      as (g & Eg & Nr & Hbig & Hall).
    assert (Hg : In g gates) by (eapply nth_error_In; eauto).
    pose proof (inv_len _ _ _ _ _ _ _ I) as Llen.
    assert (Hlvl : level s' < length gates) by (apply nth_error_Some; congruence).
    destruct (big_component names (fi_W i) s' _ _ g HW NDn (inv_u _ _ _ _ _ _ _ I) (Hgwf g Hg) Nr) as (Sg & NDS & LS & CS).
    (* the edges seen so far plus this gate's edge are edges of the whole circuit's segment graph *)
    set (G := length gates) in *.
    assert (Epl : pl = repeat Leave (level s')) by (rewrite <- Llen; apply all_leave_repeat; exact Hall).
    set (plF := repeat Leave G).
    assert (EplF : plF = (pl ++ [Leave]) ++ repeat Leave (G - S (level s'))).
    { unfold plF. rewrite Epl at 1. change [Leave] with (repeat Leave 1). rewrite <- !repeat_app. f_equal. lia. }
    set (PF := combine gates plF).
    assert (HginstP : map ginst PF = map g_inst gates).
    { unfold ginst. rewrite <- map_map. unfold PF. rewrite map_fst_combine by (unfold plF; rewrite repeat_length; reflexivity). reflexivity. }
    assert (HinP : forall g0 kd, In (g0, kd) PF -> In g0 gates /\ kd = Leave).
    { intros g0 kd Hin. split; [eapply in_combine_l; exact Hin|].
      apply in_combine_r in Hin. unfold plF in Hin. now apply repeat_spec in Hin. }
    assert (Hp : forall j, 0 <= j -> p j = pfun PF j).
    { intros j _. rewrite pfun_all_leave by (intros [g0 kd] Hin; simpl; apply (HinP g0 kd Hin)).
      destruct (p j) eqn:Ep; [reflexivity| | | |]; exfalso;
        (destruct (Hperm j) as (x' & _ & _ & _ & Hk'); [congruence|]; rewrite Ep in Hk'; cbn beta iota in Hk'; rewrite ?Hgl, ?Ewl in Hk';
         first [discriminate Hk' | destruct Hk' as [Hk' _]; discriminate Hk']). }
    assert (Hseg : segment_graph (render t p c) = snd (arun names PF (cur0, []))).
    { unfold segment_graph, render. rewrite (render_from_ext t p (pfun PF) 0 c Hp).
      apply (seg_render t names c c 0 PF [] cur0); auto.
      - rewrite HginstP. exact Hincg.
      - apply Forall_forall. intros [g0 kd] Hin. destruct (HinP g0 kd Hin) as [Hg0 ->].
        destruct (Hgspec g0 Hg0) as (x & Hx & Hm & Hq & _ & _).
        destruct (Hgwf g0 Hg0) as (GL & _).
        exists x. unfold ginst; cbn [fst snd]. split; [exact Hx|]. split; [exact Hm|].
        split; [apply Hplain; eapply nth_error_In; exact Hx|]. split; [|discriminate].
        rewrite Hq. unfold Q1, Q2, name, q1_of, q2_of, nm.
        destruct (g_qubits g0) as [|a [|b [|? ?]]]; simpl in GL; try lia. reflexivity.
      - intros j x _ Hx Hm. rewrite HginstP. destruct (Hgall j x Hx Hm) as (g0 & Hg0 & <-). now apply in_map. }
    assert (Estep : snd (arun names (combine gates (pl ++ [Leave])) (cur0, [])) =
                    snd (abs_of names gates pl) ++ [aedge (fst (abs_of names gates pl)) (Q1 names g) (Q2 names g)]).
    { rewrite (combine_snoc gates pl Leave g) by (rewrite Llen; exact Hlvl).
      rewrite Llen, (nth_error_nth _ _ g Eg), arun_app. unfold abs_of.
      destruct (arun names (combine gates pl) (cur0, [])) as [cur E]. reflexivity. }
    assert (Hincl : incl (snd (abs_of names gates pl) ++ [aedge (fst (abs_of names gates pl)) (Q1 names g) (Q2 names g)])
                         (segment_graph (render t p c))).
    { rewrite Hseg, <- Estep. unfold PF. rewrite EplF. apply arun_incl. rewrite app_length, Llen. simpl. lia. }
    assert (L : length Sg <= fi_W i).
    { apply Hfeas; [exact NDS|]. intros a b Ha Hb. eapply conn_mono; [exact Hincl|]. apply CS; auto. }
    lia. }
  specialize (Hwl eq_refl).
  (* the gate at which the greedy pass stopped *)
  unfold goal_state in Hgoal. cbn [fa fa_gates] in Hgoal. apply Nat.leb_gt in Hgoal.
  destruct (nth_error gates (level s')) as [g|] eqn:Eg; [|apply nth_error_None in Eg; lia].
  assert (Hg : In g gates) by (eapply nth_error_In; eauto).
  destruct (Hgspec g Hg) as (x & Hx & Hm & Hq & _ & _).
  destruct (Hgwf g Hg) as (GL & GN & G1 & G2).
  assert (Hop : exists g0, iop x = Gate g0).
  { pose proof (Hplain x (nth_error_In _ _ Hx)) as Hpl. unfold is_multi in Hm. apply andb_prop in Hm as [Hb _].
    unfold plain_instr in Hpl. unfold is_barrier in Hb. destruct (iop x); try discriminate; eauto. }
  destruct Hop as [g0 Hop].
  assert (Hq2 : iqs x = [nm names (q1_of g); nm names (q2_of g)]).
  { rewrite Hq. unfold q1_of, q2_of. destruct (g_qubits g) as [|a [|b [|? ?]]]; simpl in GL; try lia. reflexivity. }
  assert (Hne : nm names (q1_of g) <> nm names (q2_of g)).
  { intros E. apply GN. unfold nm in E. eapply NoDup_nth in E; eauto. }
  assert (Hpk : p (0 + g_inst g) <> KGateCut).
  { simpl. intros E. destruct (Hperm (g_inst g)) as (x' & _ & _ & _ & Hk'); [congruence|].
    rewrite E in Hk'. destruct Hk' as [Hk' _]. congruence. }
  destruct (edge_in_render t p c 0 cur0 (g_inst g) x g0 _ _ Hx Hop Hq2 Hpk) as (u & v & Hin).
  specialize (Hfeas [(nm names (q1_of g), u); (nm names (q2_of g), v)]).
  assert (L : 2 <= fi_W i).
  { apply Hfeas.
    - constructor; [intros [E|[]]; inversion E; congruence|constructor; [intros []|constructor]].
    - assert (C : conn (segment_graph (render t p c)) (nm names (q1_of g), u) (nm names (q2_of g), v))
        by (apply rst_step; exact Hin).
      intros a b [<-|[<-|[]]] [<-|[<-|[]]]; try apply rst_refl; [exact C|apply rst_sym; exact C]. }
  lia.
Qed.

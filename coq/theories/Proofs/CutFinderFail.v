(* Proofs/CutFinderFail.v — when find_cuts raises ValueError.  For circuits whose multi-qubit gates are supported
   two-qubit gates and with at least one cut kind allowed, a ValueError can only come from a greedy pass that
   dead-ends, which happens only for wire cuts alone with W = 1 — where no plan is feasible. *)
From Coq Require Import QArith Relations Lia.
From CKT Require Import Model.CutFinder Proofs.UFP Proofs.ConnP Proofs.CutFinderSpec Proofs.CutFinderInv
  Proofs.CutFinderPlan Proofs.CutFinderSearchP Proofs.CutFinderOut Proofs.CutFinderCirc Proofs.CutFinderRender
  Proofs.CutFinderP.
Close Scope Q_scope.

(* ---------------- "never a ValueError" for the post-processing ---------------- *)
Definition noref {A} (o : out A) : Prop := o <> Ref.

Lemma noref_bind {A B} (m : out A) (f : A -> out B) : noref m -> (forall v, m = Val v -> noref (f v)) -> noref (obind m f).
Proof. unfold noref. destruct m; simpl; intros H1 H2; auto; try discriminate. Qed.

Lemma noref_oassert b : noref (oassert b).
Proof. unfold noref, oassert. destruct b; discriminate. Qed.

Lemma noref_val {A} (v : A) : noref (Val v).
Proof. discriminate. Qed.

Lemma noref_crash {A} : noref (@Crash A).
Proof. discriminate. Qed.

#[local] Hint Resolve noref_oassert noref_val noref_crash : noref.

Lemma insert_wire_cuts_noref orig : forall l out_c n, noref (insert_wire_cuts orig out_c n l).
Proof.
  induction l as [|a l IH]; intros out_c n; simpl; [apply noref_val|].
  apply noref_bind.
  - unfold orig_qubit. destruct (nth_error orig _); [destruct (nth_error _ _)|]; auto with noref.
  - intros q _. destruct (aname_beq (a_name a) CutBothWires); [|apply IH].
    apply noref_bind; [auto with noref|]. intros _ _. apply noref_bind.
    + unfold orig_qubit. destruct (nth_error orig _); [destruct (nth_error _ _)|]; auto with noref.
    + intros q2 _. apply IH.
Qed.

Lemma rename1_noref size src dst q : noref (rename1 size src dst q).
Proof. unfold rename1. destruct (Nat.ltb q size); auto with noref. Qed.

Lemma rename_list_noref size src dst qs : noref (rename_list size src dst qs).
Proof.
  induction qs as [|q r IH]; simpl; [auto with noref|].
  apply noref_bind; [apply rename1_noref|]. intros ? _. apply noref_bind; [exact IH|]. intros; auto with noref.
Qed.

Lemma replace_wire_ids_noref size src dst l : noref (replace_wire_ids size src dst l).
Proof.
  induction l as [|e r IH]; simpl; [auto with noref|].
  apply noref_bind.
  - destruct e; [auto with noref| |].
    + apply noref_bind; [apply rename_list_noref|]. intros; auto with noref.
    + apply noref_bind; [apply rename1_noref|]. intros. apply noref_bind; [apply rename1_noref|]. intros; auto with noref.
  - intros ? _. apply noref_bind; [exact IH|]. intros; auto with noref.
Qed.

Lemma define_id_noref names id nmv : noref (define_id names id nmv).
Proof.
  unfold define_id. apply noref_bind; [auto with noref|]. intros _ _.
  apply noref_bind; [auto with noref|]. intros _ _. destruct (Nat.ltb _ _); auto with noref.
Qed.

Lemma insert_wire_cut_noref f gid inp src dst : noref (insert_wire_cut f gid inp src dst).
Proof.
  unfold insert_wire_cut.
  destruct (nth_error (if_map f) gid); [|auto with noref].
  destruct (nth_error (if_new f) n) as [[| |]|]; auto with noref.
  destruct (nth_error qs _); [|auto with noref].
  apply noref_bind; [auto with noref|]. intros _ _.
  apply noref_bind.
  - destruct (nth dst (if_names f) None); [auto with noref|].
    destruct (nth src (if_names f) None); [apply define_id_noref|auto with noref].
  - intros names _. apply noref_bind; [auto with noref|]. intros _ _.
    apply noref_bind; [apply replace_wire_ids_noref|]. intros tail _.
    destruct (nth_error (if_circuit f) gid) as [[|]|]; auto with noref.
    destruct (nth_error qs0 _); [|auto with noref]. destruct (Nat.ltb _ _); auto with noref.
Qed.

Lemma insert_all_noref f nw gid args :
  (forall x, In x args -> exists a b c, x = [a; b; c]) -> noref (insert_all_lo_wire_cuts f nw gid args).
Proof.
  revert f; induction args as [|x r IH]; intros f H; simpl; [auto with noref|].
  destruct (H x (or_introl eq_refl)) as (a & b & c & ->).
  destruct (Nat.ltb b nw && Nat.ltb c nw); [|auto with noref].
  apply noref_bind; [apply insert_wire_cut_noref|]. intros f' _. apply IH. intros y Hy; apply H; now right.
Qed.

Lemma export_cuts_noref s f : Forall args_ok (actions s) -> noref (export_cuts s f).
Proof.
  intros H. unfold export_cuts. apply noref_bind; [|intros; auto with noref].
  generalize (num_wires s). revert f. induction (actions s) as [|a l IH]; intros f nw; simpl; [auto with noref|].
  inversion H as [|? ? Ha Hl]; subst.
  apply noref_bind; [|intros f' _; apply IH; exact Hl].
  unfold export_action. unfold args_ok in Ha.
  destruct (a_name a).
  - unfold insert_gate_cut. destruct (nth_error _ _); [destruct (Nat.ltb _ _)|]; auto with noref.
  - destruct Ha as (w & r & ->). apply insert_all_noref. intros x [<-|[]]; eauto.
  - destruct Ha as (w & r & ->). apply insert_all_noref. intros x [<-|[]]; eauto.
  - destruct Ha as (w & r & w' & r' & ->). apply insert_all_noref. intros x [<-|[<-|[]]]; eauto.
Qed.

(* ---------------- a ValueError comes from a dead-ended greedy pass ---------------- *)
Lemma find_cuts_ref_greedy fuel i :
  find_cuts_full fuel i = Ref -> circ_wf (fi_circ i) -> 1 <= fi_W i -> settings_ok i = true -> fi_ncl i = 0 ->
  let t := fi_gtab i in let c := fi_circ i in
  let names := names_of (fi_nq i) t c in let gates := gates_of (fi_nq i) t c in
  greedy_cut_optimization (length names)
    {| fa_gates := gates; fa_actions := search_actions (fi_gate_lo i) (fi_wire_lo i); fa_W := fi_W i |} = Val None.
Proof.
  intros H WFc HW Hset Hncl t c names gates. unfold find_cuts_full in H.
  destruct (Nat.ltb_spec (fi_W i) 1) as [|_]; [lia|]. rewrite Hset in H. cbn [negb] in H.
  destruct (iface_init_fields (fi_nq i) t c) as [Ecirc Enq]. fold t c in H.
  rewrite Ecirc, Enq in H. fold names in H.
  change (get_multiqubit_gates (snd (sgl_init [] (qc_to_cco (fi_nq i) t c)))) with gates in H.
  set (acts := search_actions (fi_gate_lo i) (fi_wire_lo i)) in *.
  set (fa := {| fa_gates := gates; fa_actions := acts; fa_W := fi_W i |}) in *.
  destruct (gates_of_circ (fi_nq i) t c) as (NDn & _). fold names in NDn.
  pose proof (gates_wf (fi_nq i) t c WFc) as Hgwf. fold names gates in Hgwf.
  pose proof (optimize_ref names (fi_W i) HW NDn gates Hgwf fa eq_refl eq_refl acts eq_refl
                (fi_tape i) (fi_max_gamma i) (option_map Z.to_nat (fi_max_backjumps i)) fuel) as Hopt.
  destruct (optimize _ fa _ _ _ _) as [ro| | |] eqn:Eopt; cbn [obind] in H; try discriminate; try contradiction; [|exact Hopt].
  exfalso.
  destruct (or_best ro) as [best|] eqn:Ebest; [|discriminate].
  destruct (optimize_good names (fi_W i) HW NDn gates Hgwf fa eq_refl eq_refl acts eq_refl _ _ _ _ _ Eopt) as [_ Hbest].
  destruct (Hbest best Ebest) as [[M [pl I]] Hgoal].
  assert (Hlen : length pl = length gates).
  { pose proof (inv_len _ _ _ _ _ _ _ I). pose proof (inv_lvl _ _ _ _ _ _ _ I).
    unfold goal_state in Hgoal. cbn [fa fa_gates] in Hgoal. apply Nat.leb_le in Hgoal. lia. }
  pose proof (export_cuts_noref best (iface_init (qc_to_cco (fi_nq i) t c)) (inv_args _ _ _ _ _ _ _ I)) as Hex.
  destruct (export_cuts best _) as [f1| | |]; cbn [obind] in H; try discriminate; [|now apply Hex].
  rewrite Hncl in H. cbn [Nat.eqb negb] in H.
  destruct (cut_gates_val (fi_nq i) t c (fi_W i) acts M best pl WFc I Hlen) as (c1 & Hc1).
  rewrite Hc1 in H. cbn [obind] in H.
  pose proof (insert_wire_cuts_noref c (sort_actions (filter (fun a => negb (is_gate_cut a)) (actions best))) c1 0) as Hiw.
  destruct (insert_wire_cuts c c1 0 _); cbn [obind] in H; try discriminate. now apply Hiw.
Qed.

(* ---------------- when the greedy pass dead-ends ---------------- *)
Lemma next_states_over_nil acts s g W :
  next_states_over acts s g W = Val [] -> forall k, In k acts -> next_state_primitive k s g W = Val [].
Proof.
  induction acts as [|k0 r IH]; intros H k Hk; [destruct Hk|]. simpl in H.
  unfold next_state in H at 1.
  destruct (next_state_primitive k0 s g W) as [l0| | |] eqn:E0; cbn [obind] in H; try discriminate.
  destruct (next_states_over r s g W) as [l1| | |] eqn:E1; cbn [obind] in H; try discriminate.
  injection H as H'. apply app_eq_nil in H' as [H0 H1].
  destruct Hk as [<-|Hk].
  - apply map_eq_nil in H0. subst l0. exact E0.
  - subst l1. now apply IH.
Qed.

Lemma max_wire_cuts_two names gates : (forall g, In g gates -> gate_wf names g) ->
  max_wire_cuts_circuit gates = 2 * length gates.
Proof.
  induction gates as [|g r IH]; intros H; [reflexivity|]. simpl.
  destruct (H g (or_introl eq_refl)) as (GL & _). rewrite GL, IH; [lia|]. intros x Hx; apply H; now right.
Qed.

Section DeadEnd.
  Variable names : list nat.
  Variable W : nat.
  Hypothesis HW : 1 <= W.
  Hypothesis Hnames : NoDup names.
  Variable gates : list gate_spec.
  Hypothesis Hgates : forall g, In g gates -> gate_wf names g.
  Hypothesis Hgam : forall g, In g gates -> g_gamma g <> None.
  Variables gl wl : bool.

  Lemma dead_end M s pl :
    Inv names W gates (search_actions gl wl) M s pl -> M = length names + 2 * length gates ->
    goal_state {| fa_gates := gates; fa_actions := search_actions gl wl; fa_W := W |} s = false ->
    next_states {| fa_gates := gates; fa_actions := search_actions gl wl; fa_W := W |} s = Val [] ->
    gl = false /\ (wl = true -> W = 1).
  Proof.
    intros I HM Hgoal Hns. unfold goal_state in Hgoal. cbn [fa_gates] in Hgoal. apply Nat.leb_gt in Hgoal.
    unfold next_states in Hns. cbn [fa_gates fa_actions fa_W] in Hns.
    destruct (nth_error gates (level s)) as [g|] eqn:Eg; [|discriminate].
    assert (Hg : In g gates) by (eapply nth_error_In; eauto).
    pose proof (Hgates g Hg) as Gwf. destruct Gwf as (GL & _). rewrite GL, Nat.eqb_refl in Hns.
    pose proof (next_states_over_nil _ _ _ _ Hns) as Hnil.
    pose proof (inv_u _ _ _ _ _ _ _ I) as IU.
    destruct (apply_gate_ok names W HW Hnames s _ _ g IU (Hgates g Hg)) as (la & Hla & _ & Hae).
    assert (Ka : In KApply (search_actions gl wl)) by (destruct gl, wl; simpl; auto).
    pose proof (Hnil KApply Ka) as Ha0. cbn [next_state_primitive] in Ha0. rewrite Ha0 in Hla. inversion Hla; subst la. destruct (Hae eq_refl) as [Nr _].
    split.
    - destruct gl; [|reflexivity]. exfalso.
      assert (Kg : In KGate (search_actions true wl)) by (destruct wl; simpl; auto).
      destruct (gate_cut_ok names W HW Hnames s _ _ g IU (Hgates g Hg)) as (lg & Hlg & _ & Hge).
      pose proof (Hnil KGate Kg) as Hg0. cbn [next_state_primitive] in Hg0. rewrite Hg0 in Hlg. inversion Hlg; subst lg. destruct (Hge eq_refl) as [En|Er].
      + now apply (Hgam g Hg).
      + contradiction.
    - intros ->.
      assert (Kb : In KBoth (search_actions gl true)) by (destruct gl; simpl; tauto).
      destruct (both_cut_ok names W HW Hnames s _ _ g IU (Hgates g Hg)) as (lb & Hlb & _ & Hbe).
      pose proof (Hnil KBoth Kb) as Hb0. cbn [next_state_primitive] in Hb0. rewrite Hb0 in Hlb. inversion Hlb; subst lb. destruct (Hbe eq_refl) as [Hroom|H2]; [|lia].
      pose proof (inv_len_u _ _ _ _ _ _ _ I). pose proof (inv_nw _ _ _ _ _ _ _ I). lia.
  Qed.
End DeadEnd.

(* ---------------- with W = 1 and no gate cuts, nothing is feasible once there is a two-qubit gate ---------------- *)
Lemma seg_edges_app c1 : forall c2 cur,
  seg_edges (c1 ++ c2) cur = seg_edges c1 cur ++ seg_edges c2 (seg_cur c1 cur).
Proof.
  induction c1 as [|i r IH]; intros c2 cur; [reflexivity|]. cbn [app seg_edges seg_cur].
  destruct (iop i); try apply IH.
  - destruct (iqs i) as [|q0 rest]; [apply IH|]. rewrite <- app_assoc. f_equal. apply IH.
  - destruct (iqs i) as [|q rest]; apply IH.
Qed.

Lemma edge_in_render t p : forall c k0 cur j i g0 a b,
  nth_error c j = Some i -> iop i = Gate g0 -> iqs i = [a; b] -> p (k0 + j) <> KGateCut ->
  exists x y, In ((a, x), (b, y)) (seg_edges (render_from t p k0 c) cur).
Proof.
  induction c as [|i0 r IH]; intros k0 cur j i g0 a b Hj Hop Hq Hp; [destruct j; discriminate|].
  cbn [render_from]. rewrite seg_edges_app.
  destruct j as [|j].
  - simpl in Hj. inversion Hj; subst i0. rewrite Nat.add_0_r in Hp.
    destruct (p k0); try congruence; cbn [render_instr seg_edges cut_wire_instr iop iqs]; rewrite Hop, Hq; cbn [map app nth];
      eexists; eexists; first [left; reflexivity | apply in_or_app; left; left; reflexivity].
  - simpl in Hj. destruct (IH (S k0) (seg_cur (render_instr t (p k0) i0) cur) j i g0 a b Hj Hop Hq) as (x & y & Hin).
    + replace (S k0 + j) with (k0 + S j) by lia. exact Hp.
    + exists x, y. apply in_or_app. now right.
Qed.

Theorem fails_only_if_infeasible fuel i :
  find_cuts_full fuel i = Ref ->
  let t := fi_gtab i in let c := fi_circ i in
  circ_wf c -> circ_plain c ->
  (forall x, In x c -> is_multi x = true -> kappa_of t x <> None) ->
  fi_ncl i = 0 -> 1 <= fi_W i -> settings_ok i = true ->
  (fi_gate_lo i = true \/ fi_wire_lo i = true) ->
  forall p, plan_permitted t (fi_gate_lo i) (fi_wire_lo i) c p -> ~ feasible (fi_W i) (render t p c).
Proof.
  intros H t c WFc Hplain Hsup Hncl HW Hset Hkinds p Hperm Hfeas.
  pose proof (find_cuts_ref_greedy fuel i H WFc HW Hset Hncl) as Hgr. fold t c in Hgr.
  set (names := names_of (fi_nq i) t c) in *. set (gates := gates_of (fi_nq i) t c) in *.
  set (acts := search_actions (fi_gate_lo i) (fi_wire_lo i)) in *.
  set (fa := {| fa_gates := gates; fa_actions := acts; fa_W := fi_W i |}) in *.
  destruct (gates_of_circ (fi_nq i) t c) as (NDn & Hincg & Hgspec & Hgall). fold names gates in NDn, Hincg, Hgspec, Hgall.
  pose proof (gates_wf (fi_nq i) t c WFc) as Hgwf. fold names gates in Hgwf.
  assert (Hgam : forall g, In g gates -> g_gamma g <> None).
  { intros g Hg. destruct (Hgspec g Hg) as (x & Hx & Hm & _ & Eg & _). rewrite Eg.
    apply (Hsup x); [eapply nth_error_In; exact Hx|exact Hm]. }
  unfold greedy_cut_optimization in Hgr. cbn [fa_gates fa] in Hgr. fold fa in Hgr.
  destruct (greedy_none names (fi_W i) HW NDn gates Hgwf fa eq_refl eq_refl acts eq_refl
              (length names + max_wire_cuts_circuit gates) _ _
              (ex_intro _ [] (Inv_init names (fi_W i) HW NDn gates Hgwf acts (max_wire_cuts_circuit gates))) Hgr)
    as (s' & pl & I & Hgoal & Hdead).
  rewrite (max_wire_cuts_two names gates Hgwf) in I.
  destruct (dead_end names (fi_W i) HW NDn gates Hgwf Hgam (fi_gate_lo i) (fi_wire_lo i) _ s' pl I eq_refl Hgoal Hdead) as [Hgl Hwl].
  destruct Hkinds as [Hk|Hk]; [congruence|]. specialize (Hwl Hk).
  (* the gate at which the greedy pass stopped *)
  unfold goal_state in Hgoal. cbn [fa fa_gates] in Hgoal. apply Nat.leb_gt in Hgoal.
  destruct (nth_error gates (level s')) as [g|] eqn:Eg; [|apply nth_error_None in Eg; lia].
  assert (Hg : In g gates) by (eapply nth_error_In; eauto).
  destruct (Hgspec g Hg) as (x & Hx & Hm & Hq & _ & _).
  destruct (Hgwf g Hg) as (GL & GN & G1 & G2).
  assert (Hop : exists g0, iop x = Gate g0).
  { pose proof (Hplain x (nth_error_In _ _ Hx)) as Hpl. unfold is_multi in Hm. apply andb_prop in Hm as [Hb _].
    unfold plain_instr in Hpl. unfold is_barrier in Hb. destruct (iop x); try discriminate; eauto. }
  destruct Hop as [g0 Hop].
  assert (Hq2 : iqs x = [nm names (q1_of g); nm names (q2_of g)]).
  { rewrite Hq. unfold q1_of, q2_of. destruct (g_qubits g) as [|a [|b [|? ?]]]; simpl in GL; try lia. reflexivity. }
  assert (Hne : nm names (q1_of g) <> nm names (q2_of g)).
  { intros E. apply GN. unfold nm in E. eapply NoDup_nth in E; eauto. }
  assert (Hpk : p (0 + g_inst g) <> KGateCut).
  { simpl. intros E. destruct (Hperm (g_inst g)) as (x' & _ & _ & _ & Hk'); [congruence|].
    rewrite E in Hk'. destruct Hk' as [Hk' _]. congruence. }
  destruct (edge_in_render t p c 0 cur0 (g_inst g) x g0 _ _ Hx Hop Hq2 Hpk) as (u & v & Hin).
  specialize (Hfeas [(nm names (q1_of g), u); (nm names (q2_of g), v)]).
  assert (L : 2 <= fi_W i).
  { apply Hfeas.
    - constructor; [intros [E|[]]; inversion E; congruence|constructor; [intros []|constructor]].
    - assert (C : conn (segment_graph (render t p c)) (nm names (q1_of g), u) (nm names (q2_of g), v))
        by (apply rst_step; exact Hin).
      intros a b [<-|[<-|[]]] [<-|[<-|[]]]; try apply rst_refl; [exact C|apply rst_sym; exact C]. }
  lia.
Qed.

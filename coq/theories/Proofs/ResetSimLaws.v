(* Proofs/ResetSimLaws.v — packaged forms of Proofs/ResetSimP.v / ResetSimQ.v for the property file:
   the abstract-laws theorems (any branch semantics satisfying [reset_laws], e.g. with rotation gates) and
   the QSim instance restricted to the property's domain ([simple], [interpreted]). *)
From Coq Require Import QArith Lia.
From CKT Require Import Common.Base Common.Circ Common.QSim Model.ResetPasses Model.ResetSim
  Proofs.ResetPassesP Proofs.ResetPassesSem Proofs.ResetSimP Proofs.ResetSimQ.
Close Scope Q_scope.

Section Abstract.
  Variable state : Type.
  Variable apply : nat -> list nat -> state -> state.
  Variable proj : state -> nat -> bool -> state.
  Variable flipx : state -> nat -> state.
  Variable szero : state -> bool.
  Variable Zq : nat -> state -> Prop.

  Theorem laws_consolidate : reset_laws apply proj flipx szero Zq ->
    forall nq nc c l, wf nq nc c = true -> simple c = true ->
    clean szero (brun apply proj flipx (consolidate_resets nq c) l) = clean szero (brun apply proj flipx c l).
  Proof.
    intros [H1 H2 H3 H4 H5 H6 H7 H8 H9 H10] nq nc c l W _.
    now apply (consolidate_sim state apply proj flipx szero Zq H1 H2 H3 H4 H5 H6 H7 H8 H9 H10 nq nc).
  Qed.

  (* from one branch in which every qubit is |0> *)
  Theorem laws_zero : reset_laws apply proj flipx szero Zq ->
    forall nq nc c k s0, wf nq nc c = true -> simple c = true -> (forall q, Zq q s0) ->
    clean szero (brun apply proj flipx (remove_resets_in_zero_state nq c) [(k, s0)])
    = clean szero (brun apply proj flipx c [(k, s0)]).
  Proof.
    intros [H1 H2 H3 H4 H5 H6 H7 H8 H9 H10] nq nc c k s0 W _ Z.
    now apply (zero_sim state apply proj flipx szero Zq H1 H2 H3 H4 H5 H6 H7 H8 H9 H10 nq nc).
  Qed.
End Abstract.

(* the exact state-vector simulator satisfies the laws, for every assignment of gate ids *)
Theorem qsim_laws gi : reset_laws (qgapply gi) qproj qflipx vec_is_zero qZ.
Proof.
  constructor.
  - exact qproj0_id.
  - exact qproj1_zero.
  - exact qreset_Z0.
  - exact qreset_Z1.
  - exact (qg_Z gi).
  - intros q q' b s _ Z. now apply qproj_Z.
  - exact qflipx_Z.
  - exact (qg_zero gi).
  - exact qproj_zero.
  - exact qflipx_zero.
Qed.

Theorem init_vec_qZ nq q : qZ q (init_vec nq).
Proof. exact (init_vec_Z nq q). Qed.

(* the instance on the property's domain *)
Theorem q_consolidate_dom gi nq nc c : wf nq nc c = true -> simple c = true -> interpreted gi c = true ->
  qbrun gi nq nc (consolidate_resets nq c) = qbrun gi nq nc c.
Proof. intros W _ _. now apply q_consolidate. Qed.

Theorem q_consolidate_any_dom gi nq nc c l : wf nq nc c = true -> simple c = true -> interpreted gi c = true ->
  clean vec_is_zero (brun (qgapply gi) qproj qflipx (consolidate_resets nq c) l)
  = clean vec_is_zero (brun (qgapply gi) qproj qflipx c l).
Proof. intros W _ _. now apply (q_consolidate_any gi nq nc). Qed.

Theorem q_zero_dom gi nq nc c : wf nq nc c = true -> simple c = true -> interpreted gi c = true ->
  qbrun gi nq nc (remove_resets_in_zero_state nq c) = qbrun gi nq nc c.
Proof. intros W _ _. now apply q_zero. Qed.

Theorem q_born_law_cor gi nq nc c : wf nq nc c = true -> simple c = true -> interpreted gi c = true ->
  qlaw (qbrun gi nq nc (consolidate_resets nq c)) = qlaw (qbrun gi nq nc c) /\
  qlaw (qbrun gi nq nc (remove_resets_in_zero_state nq c)) = qlaw (qbrun gi nq nc c).
Proof. intros W _ _. now rewrite (q_consolidate gi nq nc c W), (q_zero gi nq nc c W). Qed.
